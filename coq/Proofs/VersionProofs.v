(* Proofs for Model/Version.v (C06). *)
From Coq Require Import Arith Permutation.
From DG Require Import Base.Util Model.Version.

(* ---------- small facts ---------- *)

Lemma lookup_In_fst : forall {V} k (l : list (N * V)),
  In k (map fst l) <-> exists v, lookup k l = Some v.
Proof.
  intros V k l; induction l as [|[k' v'] l IH]; cbn [lookup map fst In].
  - split; [intros [] | intros [v H]; discriminate].
  - destruct (N.eqb k k') eqn:E.
    + apply N.eqb_eq in E; subst; split; [intros _; exists v'; reflexivity | intros _; left; reflexivity].
    + apply N.eqb_neq in E; rewrite <- IH; split; [intros [H|H]; [congruence|exact H] | intros H; right; exact H].
Qed.

Lemma In_lookup : forall {V} k (v : V) (l : list (N * V)),
  NoDup (map fst l) -> In (k, v) l -> lookup k l = Some v.
Proof.
  intros V k v l; induction l as [|[k' v'] l IH]; cbn [lookup map fst In]; intros ND H; [contradiction|].
  inversion ND as [|x xs Hnot ND']; subst.
  destruct H as [H|H].
  - inversion H; subst; rewrite N.eqb_refl; reflexivity.
  - destruct (N.eqb k k') eqn:E.
    + apply N.eqb_eq in E; subst; exfalso; apply Hnot.
      apply in_map_iff; exists (k', v); split; [reflexivity|exact H].
    + apply IH; assumption.
Qed.

Lemma lookup_perm : forall {V} (l l' : list (N * V)),
  NoDup (map fst l) -> NoDup (map fst l') -> (forall e, In e l <-> In e l') ->
  forall k, lookup k l = lookup k l'.
Proof.
  intros V l l' ND ND' Heq k.
  destruct (lookup k l) as [v|] eqn:E.
  - symmetry; apply In_lookup; [exact ND'|]; apply Heq; apply lookup_In; exact E.
  - destruct (lookup k l') as [v'|] eqn:E'; [|reflexivity].
    apply lookup_In in E'; apply Heq in E'; apply In_lookup in E'; [congruence|exact ND].
Qed.

Lemma nodupb_NoDup : forall l, nodupb l = true <-> NoDup l.
Proof.
  induction l as [|x l IH]; cbn [nodupb].
  - split; [constructor|reflexivity].
  - rewrite andb_true_iff, negb_true_iff, mem_false_In, IH; split.
    + intros [H1 H2]; constructor; assumption.
    + intros H; inversion H; subst; split; assumption.
Qed.

Lemma str_eqb_eq : forall a b, str_eqb a b = true <-> a = b.
Proof.
  induction a as [|x a IH]; destruct b as [|y b]; cbn [str_eqb]; try (split; [discriminate|discriminate]).
  - split; reflexivity.
  - rewrite andb_true_iff, N.eqb_eq, IH; split; [intros [H1 H2]; subst; reflexivity | intros H; inversion H; auto].
Qed.

Lemma is_prefix_app : forall p s, is_prefix p s = true <-> exists t, s = p ++ t.
Proof.
  induction p as [|x p IH]; intros s; cbn [is_prefix].
  - split; [intros _; exists s; reflexivity | reflexivity].
  - destruct s as [|y s].
    + split; [discriminate | intros [t H]; discriminate].
    + rewrite andb_true_iff, N.eqb_eq, IH; split.
      * intros [H1 [t H2]]; subst; exists t; reflexivity.
      * intros [t H]; cbn [app] in H; inversion H; subst; split; [reflexivity | exists t; reflexivity].
Qed.

(* ---------- the declarative statement ---------- *)

Section Spec.
  Variable rank : ver -> N.
  Variable matches : ver -> bool.

  (* [v] is a highest element of [vs] satisfying P *)
  Definition best (P : ver -> Prop) (vs : list ver) (v : ver) : Prop :=
    In v vs /\ P v /\ forall u, In u vs -> P u -> rank u <= rank v.
  Definition none (P : ver -> Prop) (vs : list ver) : Prop := forall u, In u vs -> ~ P u.

  (* tier predicates: M = satisfies the requirement, D = not excluded by the
     cutoff, Y = yanked (all read off the registry info) *)
  Definition T1 (v : ver) : Prop := matches v = true.
  Definition T2 (info : pkginfo) (c : option N) (v : ver) : Prop :=
    matches v = true /\ date_ok c info v = true /\ yanked_of info v = false.
  Definition T15 (info : pkginfo) (c : option N) (cached : list ver) (v : ver) : Prop :=
    T2 info c v /\ In v cached.
  Definition T3 (info : pkginfo) (c : option N) (v : ver) : Prop :=
    matches v = true /\ date_ok c info v = true /\ yanked_of info v = true.

  Definition select_spec (info : pkginfo) (c : option N) (existing cached : list ver) (r : res) : Prop :=
    let vs := versions info in
    match r with
    | ROk v y =>
        (* 1: highest already selected version that satisfies the requirement *)
        (best T1 existing v /\ y = yanked_of info v)
        (* 1.5: highest cached, unyanked, date-admissible registry version *)
        \/ (none T1 existing /\ best (T15 info c cached) vs v /\ y = false)
        (* 2: highest unyanked, date-admissible registry version *)
        \/ (none T1 existing /\ none (T15 info c cached) vs /\ best (T2 info c) vs v /\ y = false)
        (* 3: highest yanked, date-admissible registry version, reported as yanked *)
        \/ (none T1 existing /\ none (T2 info c) vs /\ best (T3 info c) vs v /\ y = true)
    | RErr f =>
        none T1 existing /\ none (T2 info c) vs /\ none (T3 info c) vs /\
        (((exists v, In v vs /\ matches v = true) /\ f = c)
         \/ ((forall v, In v vs -> matches v = false) /\ f = None))
    end.

  (* ---------- resolve_version ---------- *)

  Definition cand (c : option N) (l : list (ver * option vinfo)) (v : ver) : Prop :=
    exists i, In (v, i) l /\ matches v = true /\ matches_newest i c = true.
  Definition anym (l : list (ver * option vinfo)) : Prop :=
    exists v i, In (v, i) l /\ matches v = true.

  Lemma cand_cons : forall c v i tl u,
    cand c ((v, i) :: tl) u <->
    (u = v /\ matches v = true /\ matches_newest i c = true) \/ cand c tl u.
  Proof.
    intros c v i tl u; unfold cand; cbn [In]; split.
    - intros [j [[H|H] [Hm Hd]]].
      + inversion H; subst; left; auto.
      + right; exists j; auto.
    - intros [[H1 [H2 H3]]|[j [H [Hm Hd]]]].
      + subst; exists i; auto.
      + exists j; auto.
  Qed.

  Lemma anym_cons : forall v i tl,
    anym ((v, i) :: tl) <-> matches v = true \/ anym tl.
  Proof.
    intros v i tl; unfold anym; cbn [In]; split.
    - intros [u [j [[H|H] Hm]]].
      + inversion H; subst; left; exact Hm.
      + right; exists u, j; auto.
    - intros [H|[u [j [H Hm]]]].
      + exists v, i; auto.
      + exists u, j; auto.
  Qed.

  Lemma rv_loop_spec : forall c l b had b' had',
    rv_loop rank matches c l b had = (b', had') ->
    (had' = true <-> had = true \/ anym l) /\
    match b' with
    | None => b = None /\ forall v, ~ cand c l v
    | Some v' =>
        (b = Some v' \/ cand c l v') /\
        (forall u, cand c l u -> rank u <= rank v') /\
        (forall bb, b = Some bb -> rank bb <= rank v')
    end.
  Proof.
    intros c l; induction l as [|[v i] tl IH]; intros b had b' had' H; cbn [rv_loop] in H.
    - inversion H; subst; split.
      + split; [intros Hh; left; exact Hh | intros [Hh|[u [j [[] _]]]]; exact Hh].
      + destruct b' as [v'|].
        * split; [left; reflexivity|]. split.
          -- intros u [j [[] _]].
          -- intros bb Hb; inversion Hb; subst; lia.
        * split; [reflexivity|]. intros u [j [[] _]].
    - destruct (matches v) eqn:Hm.
      + destruct (matches_newest i c) eqn:Hd.
        * (* candidate *)
          apply IH in H; destruct H as [Hhad Hb]; split.
          -- rewrite Hhad, anym_cons; split; [intros _; right; left; exact Hm | intros _; left; reflexivity].
          -- destruct b' as [v'|].
             ++ destruct Hb as [Hsrc [Hmax Hprev]].
                destruct b as [x|].
                ** destruct (N.ltb (rank x) (rank v)) eqn:Hlt.
                   --- apply N.ltb_lt in Hlt.
                       assert (Hv : rank v <= rank v') by (apply Hprev; reflexivity).
                       split; [|split].
                       +++ right; apply cand_cons; destruct Hsrc as [Hs|Hs];
                             [inversion Hs; subst; left; auto | right; exact Hs].
                       +++ intros u Hu; apply cand_cons in Hu; destruct Hu as [[Hu _]|Hu];
                             [subst; exact Hv | apply Hmax; exact Hu].
                       +++ intros bb Hbb; inversion Hbb; subst; lia.
                   --- apply N.ltb_ge in Hlt.
                       assert (Hx : rank x <= rank v') by (apply Hprev; reflexivity).
                       split; [|split].
                       +++ destruct Hsrc as [Hs|Hs]; [left; exact Hs | right; apply cand_cons; right; exact Hs].
                       +++ intros u Hu; apply cand_cons in Hu; destruct Hu as [[Hu _]|Hu];
                             [subst; lia | apply Hmax; exact Hu].
                       +++ intros bb Hbb; inversion Hbb; subst; exact Hx.
                ** assert (Hv : rank v <= rank v') by (apply Hprev; reflexivity).
                   split; [|split].
                   --- right; apply cand_cons; destruct Hsrc as [Hs|Hs];
                         [inversion Hs; subst; left; auto | right; exact Hs].
                   --- intros u Hu; apply cand_cons in Hu; destruct Hu as [[Hu _]|Hu];
                         [subst; exact Hv | apply Hmax; exact Hu].
                   --- intros bb Hbb; discriminate.
             ++ destruct Hb as [Hb _]; destruct b as [x|]; [destruct (N.ltb (rank x) (rank v))|]; discriminate.
        * (* matches, but excluded by the date *)
          apply IH in H; destruct H as [Hhad Hb]; split.
          -- rewrite Hhad, anym_cons; split; [intros _; right; left; exact Hm | intros _; left; reflexivity].
          -- assert (Hc : forall u, cand c ((v, i) :: tl) u <-> cand c tl u).
             { intros u; rewrite cand_cons; split; [intros [[_ [_ Hx]]|Hx]; [congruence|exact Hx] | intros Hx; right; exact Hx]. }
             destruct b' as [v'|].
             ++ destruct Hb as [Hsrc [Hmax Hprev]]; split; [|split].
                ** destruct Hsrc as [Hs|Hs]; [left; exact Hs | right; apply Hc; exact Hs].
                ** intros u Hu; apply Hmax; apply Hc; exact Hu.
                ** exact Hprev.
             ++ destruct Hb as [Hb Hno]; split; [exact Hb|]. intros u Hu; apply (Hno u); apply Hc; exact Hu.
      + (* does not match *)
        apply IH in H; destruct H as [Hhad Hb]; split.
        * rewrite Hhad, anym_cons; split; [intros [Hh|Hh]; [left; exact Hh | right; right; exact Hh]
                                          | intros [Hh|[Hh|Hh]]; [left; exact Hh | congruence | right; exact Hh]].
        * assert (Hc : forall u, cand c ((v, i) :: tl) u <-> cand c tl u).
          { intros u; rewrite cand_cons; split; [intros [[_ [Hx _]]|Hx]; [congruence|exact Hx] | intros Hx; right; exact Hx]. }
          destruct b' as [v'|].
          -- destruct Hb as [Hsrc [Hmax Hprev]]; split; [|split].
             ++ destruct Hsrc as [Hs|Hs]; [left; exact Hs | right; apply Hc; exact Hs].
             ++ intros u Hu; apply Hmax; apply Hc; exact Hu.
             ++ exact Hprev.
          -- destruct Hb as [Hb Hno]; split; [exact Hb|]. intros u Hu; apply (Hno u); apply Hc; exact Hu.
  Qed.

  (* resolve_version returns a highest candidate, or reports whether any
     version matched the requirement at all *)
  Lemma resolve_version_spec : forall c l,
    match resolve_version rank matches c l with
    | RSome v => cand c l v /\ forall u, cand c l u -> rank u <= rank v
    | RNone had => (forall v, ~ cand c l v) /\ (had = true <-> anym l)
    end.
  Proof.
    intros c l; unfold resolve_version.
    destruct (rv_loop rank matches c l None false) as [b' had'] eqn:E.
    apply rv_loop_spec in E; destruct E as [Hhad Hb].
    destruct b' as [v'|].
    - destruct Hb as [[Hs|Hs] [Hmax _]]; [discriminate|]. split; assumption.
    - destruct Hb as [_ Hno]; split; [exact Hno|].
      rewrite Hhad; split; [intros [H|H]; [discriminate|exact H] | intros H; right; exact H].
  Qed.

  (* ---------- candidates of the four tiers in terms of the tier predicates ---------- *)

  Lemma cand_existing : forall c existing v,
    cand c (map (fun v => (v, @None vinfo)) existing) v <-> In v existing /\ T1 v.
  Proof.
    intros c existing v; unfold cand, T1; split.
    - intros [i [Hin [Hm _]]]. apply in_map_iff in Hin; destruct Hin as [x [Hx Hin]].
      inversion Hx; subst; auto.
    - intros [Hin Hm]; exists None; split; [|split; [exact Hm|reflexivity]].
      apply in_map_iff; exists v; auto.
  Qed.

  Lemma in_with_info : forall (f : ver * vinfo -> bool) info v oi,
    In (v, oi) (with_info (filter f info)) <-> exists i, oi = Some i /\ In (v, i) info /\ f (v, i) = true.
  Proof.
    intros f info v oi; unfold with_info; rewrite in_map_iff; split.
    - intros [[v' i] [Hx Hin]]; cbn [fst snd] in Hx; inversion Hx; subst.
      apply filter_In in Hin; exists i; tauto.
    - intros [i [Hoi [Hin Hf]]]; subst; exists (v, i); split; [reflexivity|].
      apply filter_In; auto.
  Qed.

  Lemma cand_info : forall c info (f : ver * vinfo -> bool) v,
    NoDup (versions info) ->
    (cand c (with_info (filter f info)) v <->
     exists i, lookup v info = Some i /\ f (v, i) = true /\ matches v = true /\ matches_newest (Some i) c = true).
  Proof.
    intros c info f v ND; unfold cand; split.
    - intros [oi [Hin [Hm Hd]]]; apply in_with_info in Hin; destruct Hin as [i [Hoi [Hin Hf]]]; subst.
      exists i; split; [apply In_lookup; assumption | auto].
    - intros [i [Hl [Hf [Hm Hd]]]]; exists (Some i); split; [|auto].
      apply in_with_info; exists i; split; [reflexivity|]; split; [apply lookup_In; exact Hl | exact Hf].
  Qed.

  Lemma anym_info : forall info (f : ver * vinfo -> bool),
    anym (with_info (filter f info)) <-> exists v i, In (v, i) info /\ f (v, i) = true /\ matches v = true.
  Proof.
    intros info f; unfold anym; split.
    - intros [v [oi [Hin Hm]]]; apply in_with_info in Hin; destruct Hin as [i [_ [Hin Hf]]]; exists v, i; auto.
    - intros [v [i [Hin [Hf Hm]]]]; exists v, (Some i); split; [|exact Hm].
      apply in_with_info; exists i; auto.
  Qed.

  Definition f2 (p : ver * vinfo) : bool := negb (vi_yanked (snd p)).
  Definition f15 (cached : list ver) (p : ver * vinfo) : bool := negb (vi_yanked (snd p)) && mem (fst p) cached.
  Definition f3 (p : ver * vinfo) : bool := vi_yanked (snd p).

  Lemma cand_T2 : forall c info v, NoDup (versions info) ->
    (cand c (with_info (filter f2 info)) v <-> In v (versions info) /\ T2 info c v).
  Proof.
    intros c info v ND; rewrite cand_info by exact ND; unfold T2, date_ok, yanked_of, f2, versions; cbn [snd].
    rewrite lookup_In_fst; split.
    - intros [i [Hl [Hf [Hm Hd]]]]; rewrite Hl; apply negb_true_iff in Hf; split; [exists i; reflexivity | auto].
    - intros [[i Hl] [Hm [Hd Hy]]]; rewrite Hl in *; exists i; rewrite Hy; auto.
  Qed.

  Lemma cand_T15 : forall c info cached v, NoDup (versions info) ->
    (cand c (with_info (filter (f15 cached) info)) v <-> In v (versions info) /\ T15 info c cached v).
  Proof.
    intros c info cached v ND; rewrite cand_info by exact ND.
    unfold T15, T2, date_ok, yanked_of, f15, versions; cbn [fst snd].
    rewrite lookup_In_fst; split.
    - intros [i [Hl [Hf [Hm Hd]]]]; rewrite Hl; apply andb_true_iff in Hf; destruct Hf as [Hy Hc].
      apply negb_true_iff in Hy; apply mem_In in Hc; split; [exists i; reflexivity | auto].
    - intros [[i Hl] [[Hm [Hd Hy]] Hc]]; rewrite Hl in *; exists i; rewrite Hy.
      apply mem_In in Hc; rewrite Hc; auto.
  Qed.

  Lemma cand_T3 : forall c info v, NoDup (versions info) ->
    (cand c (with_info (filter f3 info)) v <-> In v (versions info) /\ T3 info c v).
  Proof.
    intros c info v ND; rewrite cand_info by exact ND; unfold T3, date_ok, yanked_of, f3, versions; cbn [snd].
    rewrite lookup_In_fst; split.
    - intros [i [Hl [Hf [Hm Hd]]]]; rewrite Hl; split; [exists i; reflexivity | auto].
    - intros [[i Hl] [Hm [Hd Hy]]]; rewrite Hl in *; exists i; auto.
  Qed.

  Lemma tier_result : forall c l (P : ver -> Prop) vs,
    (forall v, cand c l v <-> In v vs /\ P v) ->
    match resolve_version rank matches c l with
    | RSome v => best P vs v
    | RNone _ => none P vs
    end.
  Proof.
    intros c l P vs Hc; pose proof (resolve_version_spec c l) as H.
    destruct (resolve_version rank matches c l) as [v|had].
    - destruct H as [Hv Hmax]; apply Hc in Hv; destruct Hv as [Hin HP]; split; [exact Hin|]; split; [exact HP|].
      intros u Hu HPu; apply Hmax; apply Hc; auto.
    - destruct H as [Hno _]; intros u Hu HPu; apply (Hno u); apply Hc; auto.
  Qed.

  (* C06_select *)
  Theorem pkg_resolve_spec : forall info c existing cached,
    NoDup (versions info) ->
    select_spec info c existing cached (pkg_resolve rank matches info c existing cached).
  Proof.
    intros info c existing cached ND; unfold pkg_resolve.
    pose proof (tier_result None _ T1 existing (cand_existing None existing)) as H1.
    destruct (resolve_version rank matches None (map (fun v => (v, None)) existing)) as [v1|h1].
    { cbn [select_spec]; left; split; [exact H1 | reflexivity]. }
    (* tier 1.5 *)
    match goal with |- context [match ?t with RSome _ => _ | RNone _ => match resolve_version _ _ _ _ with _ => _ end end] =>
      set (t15 := t) end.
    assert (H15 : match t15 with
                  | RSome v => best (T15 info c cached) (versions info) v
                  | RNone _ => none (T15 info c cached) (versions info) end).
    { subst t15; destruct cached as [|x xs].
      - intros u _ [_ []].
      - apply tier_result; intros v; apply cand_T15; exact ND. }
    destruct t15 as [v15|h15].
    { cbn [select_spec]; right; left; auto. }
    (* tier 2 *)
    pose proof (tier_result c _ (T2 info c) (versions info) (fun v => cand_T2 c info v ND)) as H2.
    pose proof (resolve_version_spec c (with_info (filter f2 info))) as H2'.
    fold f2.
    destruct (resolve_version rank matches c (with_info (filter f2 info))) as [v2|had2].
    { cbn [select_spec]; right; right; left; auto. }
    (* tier 3 *)
    pose proof (tier_result c _ (T3 info c) (versions info) (fun v => cand_T3 c info v ND)) as H3.
    pose proof (resolve_version_spec c (with_info (filter f3 info))) as H3'.
    fold f3.
    destruct (resolve_version rank matches c (with_info (filter f3 info))) as [v3|had3].
    { cbn [select_spec]; right; right; right; auto. }
    cbn [select_spec]; split; [exact H1|]; split; [exact H2|]; split; [exact H3|].
    destruct H2' as [_ Hh2]; destruct H3' as [_ Hh3]; rewrite anym_info in Hh2, Hh3.
    destruct (had2 || had3) eqn:E.
    - left; split; [|reflexivity]. apply orb_true_iff in E; destruct E as [E|E].
      + apply Hh2 in E; destruct E as [v [i [Hin [_ Hm]]]]; exists v; split; [|exact Hm].
        apply in_map_iff; exists (v, i); auto.
      + apply Hh3 in E; destruct E as [v [i [Hin [_ Hm]]]]; exists v; split; [|exact Hm].
        apply in_map_iff; exists (v, i); auto.
    - right; split; [|reflexivity]. apply orb_false_iff in E; destruct E as [E2 E3].
      intros v Hin; destruct (matches v) eqn:Hm; [exfalso|reflexivity].
      apply in_map_iff in Hin; destruct Hin as [[v' i] [Hv Hin]]; cbn [fst] in Hv; subst v'.
      destruct (vi_yanked i) eqn:Hy.
      + assert (had3 = true) by (apply Hh3; exists v, i; unfold f3; cbn [snd]; auto). congruence.
      + assert (had2 = true) by (apply Hh2; exists v, i; unfold f2; cbn [snd]; rewrite Hy; auto). congruence.
  Qed.
End Spec.

(* ---------- the statement determines the answer; order independence ---------- *)

Section Unique.
  Variable rank : ver -> N.
  Variable matches : ver -> bool.

  (* Version::cmp is Equal only for equal versions of [l] (false when two
     versions differ in build metadata only) *)
  Definition inj_on (l : list ver) : Prop :=
    forall u v, In u l -> In v l -> rank u = rank v -> u = v.

  Lemma best_unique : forall (P : ver -> Prop) vs v v',
    inj_on vs -> best rank P vs v -> best rank P vs v' -> v = v'.
  Proof.
    intros P vs v v' Hinj [Hin [HP Hmax]] [Hin' [HP' Hmax']].
    apply Hinj; [exact Hin | exact Hin' |].
    pose proof (Hmax v' Hin' HP'); pose proof (Hmax' v Hin HP); lia.
  Qed.

  Ltac contra_tier :=
    match goal with
    | B : best _ ?Q ?vs ?v, Hn : none ?P ?vs |- _ =>
        exfalso; destruct B as (Bin & BQ & _); apply (Hn v Bin);
        unfold T15, T2, T3, T1 in *; tauto
    end.

  Lemma best_same_rank : forall (P : ver -> Prop) vs v v',
    best rank P vs v -> best rank P vs v' -> rank v = rank v'.
  Proof.
    intros P vs v v' [Hin [HP Hmax]] [Hin' [HP' Hmax']].
    pose proof (Hmax v' Hin' HP'); pose proof (Hmax' v Hin HP); lia.
  Qed.

  (* Without any hypothesis on the ranks: two answers the statement allows are
     both errors with the same flag, or both versions of Equal precedence found
     in the same collection, with the same yanked flag if they are the same version *)
  Definition same_up_to_rank (info : pkginfo) (existing : list ver) (r r' : res) : Prop :=
    match r, r' with
    | ROk v y, ROk v' y' =>
        rank v = rank v' /\ (v = v' -> y = y') /\
        ((In v existing /\ In v' existing) \/ (In v (versions info) /\ In v' (versions info)))
    | RErr f, RErr f' => f = f'
    | _, _ => False
    end.

  Theorem select_unique_up_to_rank : forall info c existing cached r r',
    select_spec rank matches info c existing cached r ->
    select_spec rank matches info c existing cached r' -> same_up_to_rank info existing r r'.
  Proof.
    intros info c existing cached r r' H H'.
    destruct r as [v y|f]; destruct r' as [v' y'|f']; cbn [select_spec] in H, H'; cbn [same_up_to_rank].
    - destruct H as [[B Hy]|[[N1 [B Hy]]|[[N1 [N15 [B Hy]]]|[N1 [N2 [B Hy]]]]]];
      destruct H' as [[B' Hy']|[[N1' [B' Hy']]|[[N1' [N15' [B' Hy']]]|[N1' [N2' [B' Hy']]]]]];
      try contra_tier;
      (split; [eapply best_same_rank; [exact B|exact B'] |
       split; [intros E; subst; reflexivity |
               destruct B as [Bi _]; destruct B' as [Bi' _]; tauto]]).
    - destruct H' as [N1' [N2' [N3' _]]].
      destruct H as [[B Hy]|[[N1 [B Hy]]|[[N1 [N15 [B Hy]]]|[N1 [N2 [B Hy]]]]]]; contra_tier.
    - destruct H as [N1 [N2 [N3 _]]].
      destruct H' as [[B' Hy']|[[N1' [B' Hy']]|[[N1' [N15' [B' Hy']]]|[N1' [N2' [B' Hy']]]]]]; contra_tier.
    - destruct H as [_ [_ [_ [[[v [Hv Hm]] Hf]|[Hno Hf]]]]];
      destruct H' as [_ [_ [_ [[[v' [Hv' Hm']] Hf']|[Hno' Hf']]]]]; subst; try reflexivity.
      + rewrite (Hno' v Hv) in Hm; discriminate.
      + rewrite (Hno v' Hv') in Hm'; discriminate.
  Qed.

  Theorem select_unique : forall info c existing cached r r',
    inj_on (versions info) -> inj_on existing ->
    select_spec rank matches info c existing cached r ->
    select_spec rank matches info c existing cached r' -> r = r'.
  Proof.
    intros info c existing cached r r' Hi He H H'.
    pose proof (select_unique_up_to_rank info c existing cached r r' H H') as U.
    destruct r as [v y|f]; destruct r' as [v' y'|f']; cbn [same_up_to_rank] in U; try contradiction.
    - destruct U as [Hr [Hy [[Ha Hb]|[Ha Hb]]]].
      + assert (v = v') by (apply He; assumption). subst; rewrite Hy; reflexivity.
      + assert (v = v') by (apply Hi; assumption). subst; rewrite Hy; reflexivity.
    - subst; reflexivity.
  Qed.

  Lemma best_ext : forall (P P' : ver -> Prop) vs vs' v,
    (forall u, P u <-> P' u) -> (forall u, In u vs <-> In u vs') ->
    best rank P vs v -> best rank P' vs' v.
  Proof.
    intros P P' vs vs' v HP Hvs [Hin [Hv Hmax]]; split; [apply Hvs; exact Hin|].
    split; [apply HP; exact Hv|]. intros u Hu HPu; apply Hmax; [apply Hvs; exact Hu | apply HP; exact HPu].
  Qed.

  Lemma none_ext : forall (P P' : ver -> Prop) vs vs',
    (forall u, P u <-> P' u) -> (forall u, In u vs <-> In u vs') ->
    none P vs -> none P' vs'.
  Proof.
    intros P P' vs vs' HP Hvs Hn u Hu HPu; apply (Hn u); [apply Hvs; exact Hu | apply HP; exact HPu].
  Qed.

  (* the statement reads the registry info only through lookups, and the
     existing / cached collections only through membership *)
  Lemma select_spec_ext : forall info info' c ex ex' ca ca' r,
    (forall v, lookup v info = lookup v info') ->
    (forall v, In v ex <-> In v ex') -> (forall v, In v ca <-> In v ca') ->
    select_spec rank matches info c ex ca r -> select_spec rank matches info' c ex' ca' r.
  Proof.
    intros info info' c ex ex' ca ca' r Hl Hex Hca H.
    assert (Hvs : forall u, In u (versions info) <-> In u (versions info')).
    { intros u; unfold versions; rewrite !lookup_In_fst, Hl; tauto. }
    assert (Hy : forall v, yanked_of info v = yanked_of info' v) by (intros v; unfold yanked_of; rewrite Hl; reflexivity).
    assert (Hd : forall v, date_ok c info v = date_ok c info' v) by (intros v; unfold date_ok; rewrite Hl; reflexivity).
    assert (H2 : forall u, T2 matches info c u <-> T2 matches info' c u) by (intros u; unfold T2; rewrite Hy, Hd; tauto).
    assert (H3 : forall u, T3 matches info c u <-> T3 matches info' c u) by (intros u; unfold T3; rewrite Hy, Hd; tauto).
    assert (H15 : forall u, T15 matches info c ca u <-> T15 matches info' c ca' u)
      by (intros u; unfold T15; rewrite H2, Hca; tauto).
    assert (H1 : forall u, T1 matches u <-> T1 matches u) by tauto.
    destruct r as [v y|f]; cbn [select_spec] in *.
    - destruct H as [[B E]|[[N1 [B E]]|[[N1 [N15 [B E]]]|[N1 [N2 [B E]]]]]].
      + left; split; [eapply best_ext; eassumption | rewrite <- Hy; exact E].
      + right; left; split; [eapply none_ext; eassumption|]; split; [eapply best_ext; eassumption | exact E].
      + right; right; left; split; [eapply none_ext; eassumption|]; split; [eapply none_ext; eassumption|].
        split; [eapply best_ext; eassumption | exact E].
      + right; right; right; split; [eapply none_ext; eassumption|]; split; [eapply none_ext; eassumption|].
        split; [eapply best_ext; eassumption | exact E].
    - destruct H as [N1 [N2 [N3 F]]].
      split; [eapply none_ext; eassumption|]; split; [eapply none_ext; eassumption|].
      split; [eapply none_ext; eassumption|].
      destruct F as [[[v [Hv Hm]] Hf]|[Hno Hf]].
      + left; split; [exists v; split; [apply Hvs; exact Hv | exact Hm] | exact Hf].
      + right; split; [intros v Hv; apply Hno; apply Hvs; exact Hv | exact Hf].
  Qed.

  (* C06_order_free: the answer does not depend on the iteration order of the
     registry HashMap, of the existing-versions iterator, or of the cached set *)
  Theorem pkg_resolve_order_free : forall info info' c ex ex' ca ca',
    NoDup (versions info) -> NoDup (versions info') ->
    (forall e, In e info <-> In e info') ->
    (forall v, In v ex <-> In v ex') -> (forall v, In v ca <-> In v ca') ->
    inj_on (versions info) -> inj_on ex ->
    pkg_resolve rank matches info c ex ca = pkg_resolve rank matches info' c ex' ca'.
  Proof.
    intros info info' c ex ex' ca ca' ND ND' Hi Hex Hca Hinj Hinje.
    apply (select_unique info c ex ca); [exact Hinj | exact Hinje | apply pkg_resolve_spec; exact ND |].
    apply (select_spec_ext info' info c ex' ex ca' ca).
    - intros v; symmetry; apply lookup_perm; assumption.
    - intros v; symmetry; apply Hex.
    - intros v; symmetry; apply Hca.
    - apply pkg_resolve_spec; exact ND'.
  Qed.

  Theorem pkg_resolve_perm : forall info info' c ex ex' ca ca',
    NoDup (versions info) ->
    Permutation info info' -> Permutation ex ex' -> Permutation ca ca' ->
    inj_on (versions info) -> inj_on ex ->
    pkg_resolve rank matches info c ex ca = pkg_resolve rank matches info' c ex' ca'.
  Proof.
    intros info info' c ex ex' ca ca' ND Pi Pe Pc Hinj Hinje.
    apply pkg_resolve_order_free; try assumption.
    - unfold versions in *; eapply Permutation_NoDup; [apply Permutation_map; exact Pi | exact ND].
    - intros e; split; apply Permutation_in; [exact Pi | apply Permutation_sym; exact Pi].
    - intros e; split; apply Permutation_in; [exact Pe | apply Permutation_sym; exact Pe].
    - intros e; split; apply Permutation_in; [exact Pc | apply Permutation_sym; exact Pc].
  Qed.

  Lemma distinct_ranksb_inj : forall l, distinct_ranksb rank l = true <-> inj_on l.
  Proof.
    intros l; unfold distinct_ranksb, inj_on; rewrite forallb_forall; split.
    - intros H u v Hu Hv E. specialize (H u Hu). rewrite forallb_forall in H. specialize (H v Hv).
      apply N.eqb_eq in E; rewrite E in H; cbn [implb] in H; apply N.eqb_eq; exact H.
    - intros H u Hu; rewrite forallb_forall; intros v Hv.
      destruct (N.eqb (rank u) (rank v)) eqn:E; cbn [implb]; [|reflexivity].
      apply N.eqb_eq in E; apply N.eqb_eq; apply H; assumption.
  Qed.

  (* ---------- the error flag ---------- *)

  Theorem error_flag : forall info c existing cached f,
    NoDup (versions info) ->
    pkg_resolve rank matches info c existing cached = RErr f ->
    (* nothing qualifies in any tier *)
    none (T1 matches) existing /\ none (T2 matches info c) (versions info) /\
    none (T3 matches info c) (versions info) /\
    (* the error carries the date iff a matching registry version was excluded by it *)
    forall d, f = Some d <->
              c = Some d /\ exists v, In v (versions info) /\ matches v = true /\ date_ok c info v = false.
  Proof.
    intros info c existing cached f ND E.
    pose proof (pkg_resolve_spec rank matches info c existing cached ND) as H; rewrite E in H.
    cbn [select_spec] in H; destruct H as [N1 [N2 [N3 F]]].
    split; [exact N1|]; split; [exact N2|]; split; [exact N3|].
    intros d; split.
    - intros Hf; destruct F as [[[v [Hv Hm]] Hfc]|[_ Hfn]]; [|congruence].
      split; [congruence|]. exists v; split; [exact Hv|]; split; [exact Hm|].
      destruct (date_ok c info v) eqn:Hd; [exfalso|reflexivity].
      destruct (yanked_of info v) eqn:Hy.
      + apply (N3 v Hv); unfold T3; auto.
      + apply (N2 v Hv); unfold T2; auto.
    - intros [Hc [v [Hv [Hm _]]]]; destruct F as [[_ Hfc]|[Hno _]]; [congruence|].
      rewrite (Hno v Hv) in Hm; discriminate.
  Qed.

  (* with no cutoff in force no version is excluded by date *)
  Lemma date_ok_none : forall info v, date_ok None info v = true.
  Proof. intros info v; unfold date_ok, matches_newest; destruct (lookup v info); reflexivity. Qed.

  (* ---------- decision procedure ---------- *)

  Lemma bestb_best : forall (Pb : ver -> bool) (P : ver -> Prop) vs v,
    (forall u, Pb u = true <-> P u) -> (bestb rank Pb vs v = true <-> best rank P vs v).
  Proof.
    intros Pb P vs v HP; unfold bestb, best.
    rewrite !andb_true_iff, mem_In, HP, forallb_forall; split.
    - intros [[Hin Hv] Hall]; split; [exact Hin|]; split; [exact Hv|].
      intros u Hu HPu; specialize (Hall u Hu). apply HP in HPu; rewrite HPu in Hall; cbn [implb] in Hall.
      apply N.leb_le; exact Hall.
    - intros [Hin [Hv Hmax]]; split; [split; assumption|].
      intros u Hu; destruct (Pb u) eqn:E; cbn [implb]; [|reflexivity].
      apply N.leb_le; apply Hmax; [exact Hu | apply HP; exact E].
  Qed.

  Lemma noneb_none : forall (Pb : ver -> bool) (P : ver -> Prop) vs,
    (forall u, Pb u = true <-> P u) -> (noneb Pb vs = true <-> none P vs).
  Proof.
    intros Pb P vs HP; unfold noneb, none; rewrite forallb_forall; split.
    - intros H u Hu HPu; specialize (H u Hu); apply HP in HPu; rewrite HPu in H; discriminate.
    - intros H u Hu; destruct (Pb u) eqn:E; [exfalso; apply (H u Hu); apply HP; exact E | reflexivity].
  Qed.

  Lemma t1b_T1 : forall u, t1b matches u = true <-> T1 matches u.
  Proof. intros u; unfold t1b, T1; tauto. Qed.
  Lemma t2b_T2 : forall info c u, t2b matches info c u = true <-> T2 matches info c u.
  Proof. intros info c u; unfold t2b, T2; rewrite !andb_true_iff, negb_true_iff; tauto. Qed.
  Lemma t15b_T15 : forall info c ca u, t15b matches info c ca u = true <-> T15 matches info c ca u.
  Proof. intros info c ca u; unfold t15b, T15; rewrite andb_true_iff, t2b_T2, mem_In; tauto. Qed.
  Lemma t3b_T3 : forall info c u, t3b matches info c u = true <-> T3 matches info c u.
  Proof. intros info c u; unfold t3b, T3; rewrite !andb_true_iff; tauto. Qed.

  Lemma opt_eqb_eq : forall a b, opt_eqb a b = true <-> a = b.
  Proof.
    intros [x|] [y|]; cbn [opt_eqb]; try (split; [discriminate|discriminate]); [|tauto].
    rewrite N.eqb_eq; split; [intros; subst; reflexivity | intros H; inversion H; reflexivity].
  Qed.

  Theorem spec_okb_correct : forall info c existing cached r,
    spec_okb rank matches info c existing cached r = true <->
    select_spec rank matches info c existing cached r.
  Proof.
    intros info c existing cached r; destruct r as [v y|f]; cbn [spec_okb select_spec].
    - rewrite !orb_true_iff, !andb_true_iff, !orb_true_iff, !andb_true_iff.
      rewrite (bestb_best _ _ _ _ t1b_T1), (noneb_none _ _ _ t1b_T1).
      rewrite (bestb_best _ _ _ _ (t15b_T15 info c cached)), (noneb_none _ _ _ (t15b_T15 info c cached)).
      rewrite (bestb_best _ _ _ _ (t2b_T2 info c)), (noneb_none _ _ _ (t2b_T2 info c)).
      rewrite (bestb_best _ _ _ _ (t3b_T3 info c)).
      rewrite eqb_true_iff, negb_true_iff.
      destruct y; intuition congruence.
    - rewrite !andb_true_iff, opt_eqb_eq.
      rewrite (noneb_none _ _ _ t1b_T1), (noneb_none _ _ _ (t2b_T2 info c)), (noneb_none _ _ _ (t3b_T3 info c)).
      destruct (existsb matches (versions info)) eqn:E.
      + apply existsb_exists in E. split.
        * intros [[[N1 N2] N3] Hf]; repeat (split; [assumption|]). left; split; [exact E | exact Hf].
        * intros [N1 [N2 [N3 [[_ Hf]|[Hno Hf]]]]]; repeat split; try assumption.
          destruct E as [v [Hv Hm]]; rewrite (Hno v Hv) in Hm; discriminate.
      + split.
        * intros [[[N1 N2] N3] Hf]; repeat (split; [assumption|]). right; split; [|exact Hf].
          intros v Hv; destruct (matches v) eqn:Hm; [|reflexivity].
          assert (existsb matches (versions info) = true) by (apply existsb_exists; exists v; auto). congruence.
        * intros [N1 [N2 [N3 [[[v [Hv Hm]] Hf]|[Hno Hf]]]]]; repeat split; try assumption.
          assert (existsb matches (versions info) = true) by (apply existsb_exists; exists v; auto). congruence.
  Qed.
End Unique.

(* ---------- exclusions ---------- *)

Definition excluded (o : ndd_options) (name : str) : Prop :=
  In name (o_exclude o) \/ exists p, In p (o_exclude_prefixes o) /\ exists t, name = p ++ t.

Theorem get_for_package_spec : forall o name,
  (excluded o name -> get_for_package o name = None) /\
  (~ excluded o name -> get_for_package o name = o_date o).
Proof.
  intros o name; unfold get_for_package, excluded.
  destruct (o_date o) as [d|]; [|split; reflexivity].
  destruct (existsb (str_eqb name) (o_exclude o) || existsb (fun p => is_prefix p name) (o_exclude_prefixes o)) eqn:E.
  - split; [reflexivity|]. intros Hn; exfalso; apply Hn.
    apply orb_true_iff in E; destruct E as [E|E]; apply existsb_exists in E; destruct E as [x [Hx Hp]].
    + left; apply str_eqb_eq in Hp; subst; exact Hx.
    + right; exists x; split; [exact Hx | apply is_prefix_app; exact Hp].
  - split; [|reflexivity]. intros Hex; exfalso.
    apply orb_false_iff in E; destruct E as [E1 E2].
    destruct Hex as [Hin|[p [Hin Hp]]].
    + assert (existsb (str_eqb name) (o_exclude o) = true)
        by (apply existsb_exists; exists name; split; [exact Hin | apply str_eqb_eq; reflexivity]). congruence.
    + assert (existsb (fun p => is_prefix p name) (o_exclude_prefixes o) = true)
        by (apply existsb_exists; exists p; split; [exact Hin | apply is_prefix_app; exact Hp]). congruence.
Qed.

(* C06_excluded: for an excluded package the selection is the one without any cutoff *)
Theorem excluded_no_cutoff : forall rank matches o name info existing cached,
  excluded o name ->
  jsr_resolve rank matches o name info existing cached = pkg_resolve rank matches info None existing cached.
Proof.
  intros rank matches o name info existing cached H; unfold jsr_resolve.
  rewrite (proj1 (get_for_package_spec o name) H); reflexivity.
Qed.

Theorem not_excluded_cutoff : forall rank matches o name info existing cached,
  ~ excluded o name ->
  jsr_resolve rank matches o name info existing cached = pkg_resolve rank matches info (o_date o) existing cached.
Proof.
  intros rank matches o name info existing cached H; unfold jsr_resolve.
  rewrite (proj2 (get_for_package_spec o name) H); reflexivity.
Qed.

(* the cutoff comparison is strict, as in the code (NewestDependencyDate::matches: date < cutoff):
   a version created exactly at the cutoff is excluded, one without creation date is kept *)
Lemma cutoff_boundary : forall y cutoff t,
  vinfo_matches_date {| vi_yanked := y; vi_created := Some t |} cutoff = true <-> t < cutoff.
Proof. intros y cutoff t; unfold vinfo_matches_date, cutoff_matches; cbn [vi_created]; apply N.ltb_lt. Qed.

Lemma no_created_is_old : forall y cutoff,
  vinfo_matches_date {| vi_yanked := y; vi_created := None |} cutoff = true.
Proof. reflexivity. Qed.
