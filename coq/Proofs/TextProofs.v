(* C20 proofs: UTF-8 encoder/decoder/validator facts, BOM stripping at the
   byte level vs. the scalar level, and the theorems about load_text. *)
From DG Require Import Base.Util Base.Sexp Model.Text Model.RunC20.
From Coq Require Import ZArith Lia.
Local Ltac Zify.zify_post_hook ::= Z.to_euclidean_division_equations.

(* decide one boolean comparison of the goal by lia and rewrite it *)
Ltac decide_test :=
  match goal with
  | |- context [N.ltb ?a ?b] =>
      first [ rewrite (proj2 (N.ltb_lt a b)) by lia | rewrite (proj2 (N.ltb_ge a b)) by lia ]
  | |- context [N.leb ?a ?b] =>
      first [ rewrite (proj2 (N.leb_le a b)) by lia | rewrite (proj2 (N.leb_gt a b)) by lia ]
  | |- context [N.eqb ?a ?b] =>
      first [ rewrite (proj2 (N.eqb_eq a b)) by lia | rewrite (proj2 (N.eqb_neq a b)) by lia ]
  end.
Ltac decide_tests := repeat (decide_test; cbn [andb orb negb]).

Lemma cons_eq : forall (a b : N) x y, a = b -> x = y -> a :: x = b :: y.
Proof. intros; subst; reflexivity. Qed.
Ltac list_eq := repeat (apply cons_eq; [lia|]); try reflexivity.

Lemma list_eqb_eq : forall a b, list_eqb a b = true <-> a = b.
Proof.
  induction a as [|x a IH]; destruct b as [|y b]; cbn [list_eqb]; split; intro H;
    try reflexivity; try discriminate.
  - apply andb_true_iff in H. destruct H as [H1 H2]. apply N.eqb_eq in H1. apply IH in H2. subst. reflexivity.
  - inversion H; subst. rewrite N.eqb_refl. cbn [andb]. apply IH. reflexivity.
Qed.

(* ------------------------------------------------------------------ *)
(* scalar values, by size class *)

Definition Scalar (c : N) : Prop := is_scalar c = true.

Lemma scalar_cases : forall c, Scalar c ->
  c < 0x80 \/ (0x80 <= c /\ c < 0x800) \/
  (0x800 <= c /\ c < 0x10000 /\ (c < 0xD800 \/ 0xDFFF < c)) \/ (0x10000 <= c /\ c < 0x110000).
Proof.
  intros c H. unfold Scalar, is_scalar in H. apply orb_true_iff in H. destruct H as [H|H].
  - apply N.ltb_lt in H. lia.
  - apply andb_true_iff in H. destruct H as [H1 H2]. apply N.ltb_lt in H1. apply N.ltb_lt in H2. lia.
Qed.

Lemma scalar_intro : forall c, (c < 0xD800 \/ (0xDFFF < c /\ c < 0x110000)) -> Scalar c.
Proof.
  intros c H. unfold Scalar, is_scalar. destruct H as [H|[H1 H2]].
  - rewrite (proj2 (N.ltb_lt _ _) H). reflexivity.
  - rewrite (proj2 (N.ltb_lt _ _) H1), (proj2 (N.ltb_lt _ _) H2). apply orb_true_r.
Qed.

(* ------------------------------------------------------------------ *)
(* the decoder inverts the encoder *)

Ltac split_test :=
  match goal with |- context [N.eqb ?a ?b] => destruct (N.eqb_spec a b) end.
Ltac u8step :=
  cbn [app u8dec]; unfold feed, feed0; decide_tests; repeat (split_test; decide_tests); cbn [app u8dec].

Lemma u8dec_enc1 : forall c r, Scalar c -> u8dec U8Init (enc1 c ++ r) = c :: u8dec U8Init r.
Proof.
  intros c r H. apply scalar_cases in H. unfold enc1.
  destruct H as [H|[H|[H|H]]].
  - decide_tests. u8step. reflexivity.
  - decide_tests. do 2 u8step. f_equal. lia.
  - decide_tests. do 3 u8step; f_equal; lia.
  - decide_tests. do 4 u8step; f_equal; lia.
Qed.

Lemma utf8_encode_cons : forall c r, utf8_encode (c :: r) = enc1 c ++ utf8_encode r.
Proof. reflexivity. Qed.

Lemma utf8_decode_encode : forall cps, Forall Scalar cps -> utf8_decode (utf8_encode cps) = cps.
Proof.
  unfold utf8_decode. induction cps as [|c cps IH]; intro H; [reflexivity|].
  inversion H; subst. rewrite utf8_encode_cons. rewrite u8dec_enc1 by assumption.
  f_equal. apply IH. assumption.
Qed.

(* ------------------------------------------------------------------ *)
(* the validator accepts exactly the encodings of scalar sequences *)

Definition ValidUtf8 (l : list N) : Prop := exists cps, Forall Scalar cps /\ utf8_encode cps = l.

Lemma valid_enc1 : forall c r, Scalar c -> valid_utf8b (enc1 c ++ r) = valid_utf8b r.
Proof.
  intros c r H. apply scalar_cases in H. unfold enc1.
  destruct H as [H|[H|[H|H]]]; decide_tests; cbn [app valid_utf8b];
    unfold is_cont, second3_ok, second4_ok; decide_tests; repeat (split_test; decide_tests); reflexivity.
Qed.

Ltac bool_hyps :=
  repeat match goal with
  | H : _ && _ = true |- _ => apply andb_true_iff in H; destruct H
  | H : (_ <=? _) = true |- _ => apply N.leb_le in H
  | H : (_ <? _) = true |- _ => apply N.ltb_lt in H
  | H : (_ =? _) = true |- _ => apply N.eqb_eq in H
  | H : (_ <=? _) = false |- _ => apply N.leb_gt in H
  | H : (_ <? _) = false |- _ => apply N.ltb_ge in H
  | H : (_ =? _) = false |- _ => apply N.eqb_neq in H
  end.
Ltac split_hyp_tests :=
  repeat match goal with H : context [N.eqb ?a ?b] |- _ => destruct (N.eqb_spec a b) end.

Lemma valid_utf8b_sound_n : forall n l, (length l <= n)%nat -> valid_utf8b l = true -> ValidUtf8 l.
Proof.
  induction n as [|n IH]; intros l Hlen Hv.
  - destruct l; [|cbn in Hlen; lia]. exists []. split; [constructor|reflexivity].
  - destruct l as [|b0 r0]; [exists []; split; [constructor|reflexivity]|].
    cbn [valid_utf8b] in Hv. cbn [length] in Hlen.
    destruct (N.ltb_spec b0 0x80) as [H0|H0].
    { destruct (IH r0 ltac:(lia) Hv) as [cps [Hs He]].
      exists (b0 :: cps). split; [constructor; [apply scalar_intro; lia|exact Hs]|].
      rewrite utf8_encode_cons. unfold enc1. decide_tests. cbn [app]. f_equal. exact He. }
    destruct r0 as [|b1 r1]; [discriminate|]. cbn [length] in Hlen.
    destruct ((0xC2 <=? b0) && (b0 <=? 0xDF)) eqn:E2.
    { unfold is_cont in Hv. bool_hyps.
      destruct (IH r1 ltac:(lia) ltac:(assumption)) as [cps [Hs He]].
      exists (((b0 - 0xC0) * 64 + (b1 - 0x80)) :: cps).
      split; [constructor; [apply scalar_intro; lia|exact Hs]|].
      rewrite utf8_encode_cons. unfold enc1. decide_tests. cbn [app]. rewrite He.
      f_equal; [lia|]. f_equal; lia. }
    destruct r1 as [|b2 r2]; [discriminate|]. cbn [length] in Hlen.
    destruct ((0xE0 <=? b0) && (b0 <=? 0xEF)) eqn:E3.
    { unfold is_cont, second3_ok in Hv. bool_hyps.
      destruct (IH r2 ltac:(lia) ltac:(assumption)) as [cps [Hs He]].
      exists (((b0 - 0xE0) * 4096 + (b1 - 0x80) * 64 + (b2 - 0x80)) :: cps).
      split_hyp_tests; subst; try (exfalso; lia);
      (split; [constructor; [apply scalar_intro; lia|exact Hs]|]);
      rewrite utf8_encode_cons; unfold enc1; decide_tests; cbn [app];
      list_eq. }
    destruct r2 as [|b3 r3]; [discriminate|]. cbn [length] in Hlen.
    unfold is_cont, second4_ok in Hv. bool_hyps.
    destruct (IH r3 ltac:(lia) ltac:(assumption)) as [cps [Hs He]].
    exists (((b0 - 0xF0) * 262144 + (b1 - 0x80) * 4096 + (b2 - 0x80) * 64 + (b3 - 0x80)) :: cps).
    split_hyp_tests; subst; try (exfalso; lia);
    (split; [constructor; [apply scalar_intro; lia|exact Hs]|]);
    rewrite utf8_encode_cons; unfold enc1; decide_tests; cbn [app];
    list_eq.
Qed.

Lemma valid_utf8b_iff : forall l, valid_utf8b l = true <-> ValidUtf8 l.
Proof.
  intro l. split.
  - apply (valid_utf8b_sound_n (length l)). apply le_n.
  - intros [cps [Hs He]]. subst l. induction Hs as [|c cps Hc Hs IH]; [reflexivity|].
    rewrite utf8_encode_cons. rewrite valid_enc1 by exact Hc. exact IH.
Qed.

Lemma valid_roundtrip : forall l, valid_utf8b l = true -> utf8_encode (utf8_decode l) = l.
Proof.
  intros l H. apply valid_utf8b_iff in H. destruct H as [cps [Hs He]]. subst l.
  rewrite utf8_decode_encode by exact Hs. reflexivity.
Qed.

(* ------------------------------------------------------------------ *)
(* byte-order mark: byte level (what the code does) vs scalar level *)

Definition StartsWithBom (t : list N) : Prop := exists r, t = 0xEF :: 0xBB :: 0xBF :: r.

Lemma starts_with_bom_iff : forall t, starts_with_bom t = true <-> StartsWithBom t.
Proof.
  intro t. unfold starts_with_bom, StartsWithBom. split.
  - destruct t as [|a [|b [|c r]]]; try discriminate. intro H. bool_hyps. subst. exists r. reflexivity.
  - intros [r H]. subst. reflexivity.
Qed.

Lemma bom_restore : forall t, starts_with_bom t = true -> 0xEF :: 0xBB :: 0xBF :: skipn 3 t = t.
Proof. intros t H. apply starts_with_bom_iff in H. destruct H as [r H]. subst. reflexivity. Qed.

Definition strip_bytes (t : list N) : list N := if starts_with_bom t then skipn 3 t else t.

Lemma enc1_bom : enc1 BOMC = [0xEF; 0xBB; 0xBF].
Proof. vm_compute. reflexivity. Qed.

Lemma starts_with_bom_enc : forall c r, starts_with_bom (enc1 c ++ r) = (c =? BOMC).
Proof.
  intros c r. destruct (N.eqb_spec c BOMC) as [E|E].
  - subst. rewrite enc1_bom. reflexivity.
  - unfold BOMC in E. unfold enc1.
    destruct (N.ltb_spec c 0x80); [|destruct (N.ltb_spec c 0x800); [|destruct (N.ltb_spec c 0x10000)]];
      cbn [app starts_with_bom].
    + destruct r as [|x [|y z]]; try reflexivity. decide_tests. reflexivity.
    + destruct r as [|x z]; try reflexivity. decide_tests. reflexivity.
    + destruct (N.eqb_spec (224 + c / 4096) 239); [|reflexivity].
      destruct (N.eqb_spec (128 + (c / 64) mod 64) 187); [|reflexivity].
      destruct (N.eqb_spec (128 + c mod 64) 191); [|reflexivity]. exfalso. lia.
    + decide_tests. reflexivity.
Qed.

Lemma strip_bytes_encode : forall cps, strip_bytes (utf8_encode cps) = utf8_encode (strip_one_bom cps).
Proof.
  intros [|c r]; [reflexivity|]. unfold strip_bytes, strip_one_bom. rewrite utf8_encode_cons.
  rewrite starts_with_bom_enc. destruct (N.eqb_spec c BOMC) as [E|E].
  - subst. rewrite enc1_bom. reflexivity.
  - reflexivity.
Qed.

Lemma ascii_encode : forall l, forallb (fun b => b <? 0x80) l = true -> utf8_encode l = l.
Proof.
  induction l as [|b l IH]; intro H; [reflexivity|]. cbn [forallb] in H. bool_hyps.
  rewrite utf8_encode_cons. unfold enc1. decide_tests. cbn [app]. f_equal. apply IH. assumption.
Qed.

Lemma borrowable_ascii : forall r bytes, borrowable r bytes = true -> forallb (fun b => b <? 0x80) bytes = true.
Proof.
  intros r bytes H. destruct r; cbn [borrowable] in H; [exact H| |discriminate].
  apply forallb_forall. intros x Hx. rewrite forallb_forall in H. apply H in Hx.
  apply andb_true_iff in Hx. tauto.
Qed.

Lemma ascii_no_bom : forall t, forallb (fun b => b <? 0x80) t = true -> starts_with_bom t = false.
Proof.
  intros [|a [|b [|c r]]] H; try reflexivity. cbn [forallb] in H. bool_hyps.
  unfold starts_with_bom. decide_tests. reflexivity.
Qed.

(* ------------------------------------------------------------------ *)
(* convert_to_utf8 / decode_detail *)

Definition cow_text (c : cow) : list N := match c with Borrowed t => t | Owned t => t end.

(* when the decoder borrows: stated declaratively *)
Definition Borrows (e : enc) (bytes : list N) : Prop :=
  match e with
  | EUtf8 => ValidUtf8 bytes
  | EUtf16 _ => False
  | EOther r _ => borrowable r bytes = true
  end.

Lemma convert_borrowed : forall e bytes t, convert_to_utf8 e bytes = Borrowed t -> t = bytes.
Proof.
  intros e bytes t H. destruct e as [|be|r cps]; cbn [convert_to_utf8] in H.
  - destruct (valid_utf8b bytes); inversion H; reflexivity.
  - discriminate.
  - destruct (borrowable r bytes); inversion H; reflexivity.
Qed.

Lemma convert_borrowed_iff : forall e bytes,
  (exists t, convert_to_utf8 e bytes = Borrowed t) <-> Borrows e bytes.
Proof.
  intros e bytes. destruct e as [|be|r cps]; cbn [convert_to_utf8 Borrows].
  - rewrite <- valid_utf8b_iff. destruct (valid_utf8b bytes); split; intro H;
      try (eexists; reflexivity); try reflexivity; try discriminate.
    destruct H as [t H]. discriminate.
  - split; [intros [t H]; discriminate | intros []].
  - destruct (borrowable r bytes); split; intro H;
      try (eexists; reflexivity); try reflexivity; try discriminate.
    destruct H as [t H]. discriminate.
Qed.

Lemma convert_text : forall e bytes,
  cow_text (convert_to_utf8 e bytes) = utf8_encode (whatwg_decode e bytes).
Proof.
  intros e bytes. destruct e as [|be|r cps]; cbn [convert_to_utf8 whatwg_decode].
  - destruct (valid_utf8b bytes) eqn:E; cbn [cow_text]; [|reflexivity].
    symmetry. apply valid_roundtrip. exact E.
  - reflexivity.
  - destruct (borrowable r bytes) eqn:E; cbn [cow_text]; [|reflexivity].
    symmetry. apply ascii_encode. eapply borrowable_ascii. exact E.
Qed.

Lemma decode_detail_text : forall c, s_text (decode_detail c) = strip_bytes (cow_text c).
Proof.
  intros [t|t]; unfold decode_detail, strip_bytes; cbn [cow_text]; destruct (starts_with_bom t); reflexivity.
Qed.

(* ------------------------------------------------------------------ *)
(* the theorems about load_text *)

Lemma load_text_inv : forall hdr f o bytes s,
  load_text hdr f o bytes = Some s ->
  exists e, for_label (charset_label hdr f bytes) o = Some e /\ s = decode_detail (convert_to_utf8 e bytes).
Proof.
  intros hdr f o bytes s H. unfold load_text in H.
  destruct (for_label (charset_label hdr f bytes) o) as [e|]; [|discriminate].
  inversion H. exists e. split; reflexivity.
Qed.

Theorem original_bytes_faithful : forall hdr f o bytes s,
  load_text hdr f o bytes = Some s ->
  original_bytes s = None \/ original_bytes s = Some bytes.
Proof.
  intros hdr f o bytes s H. apply load_text_inv in H. destruct H as [e [_ Hs]]. subst s.
  destruct (convert_to_utf8 e bytes) as [t|t] eqn:Ec.
  - apply convert_borrowed in Ec. subst t. right. unfold decode_detail, original_bytes.
    destruct (starts_with_bom bytes) eqn:Eb; cbn [s_kind s_text]; [|reflexivity].
    f_equal. apply bom_restore. exact Eb.
  - left. reflexivity.
Qed.

Theorem text_is_decoding : forall hdr f o bytes s,
  load_text hdr f o bytes = Some s ->
  exists e, for_label (charset_label hdr f bytes) o = Some e /\
            s_text s = utf8_encode (strip_one_bom (whatwg_decode e bytes)).
Proof.
  intros hdr f o bytes s H. apply load_text_inv in H. destruct H as [e [He Hs]]. subst s.
  exists e. split; [exact He|].
  rewrite decode_detail_text, convert_text. apply strip_bytes_encode.
Qed.

Theorem unchanged_iff : forall hdr f o bytes s e,
  load_text hdr f o bytes = Some s -> for_label (charset_label hdr f bytes) o = Some e ->
  (s_kind s = Unchanged <-> Borrows e bytes /\ ~ StartsWithBom bytes).
Proof.
  intros hdr f o bytes s e H He. apply load_text_inv in H. destruct H as [e' [He' Hs]].
  rewrite He in He'. inversion He'; subst e'. subst s.
  rewrite <- convert_borrowed_iff, <- starts_with_bom_iff.
  destruct (convert_to_utf8 e bytes) as [t|t] eqn:Ec.
  - pose proof (convert_borrowed _ _ _ Ec). subst t. unfold decode_detail.
    destruct (starts_with_bom bytes); cbn [s_kind]; split; intro H; try discriminate.
    + destruct H as [_ H]. exfalso. apply H. reflexivity.
    + split; [eexists; reflexivity | discriminate].
    + reflexivity.
  - cbn [decode_detail s_kind]. split; intro H; [discriminate|]. destruct H as [[t' H] _]. discriminate.
Qed.

Theorem bom_only_iff : forall hdr f o bytes s e,
  load_text hdr f o bytes = Some s -> for_label (charset_label hdr f bytes) o = Some e ->
  (s_kind s = OnlyUtf8Bom <-> e = EUtf8 /\ ValidUtf8 bytes /\ StartsWithBom bytes).
Proof.
  intros hdr f o bytes s e H He. apply load_text_inv in H. destruct H as [e' [He' Hs]].
  rewrite He in He'. inversion He'; subst e'. subst s.
  rewrite <- starts_with_bom_iff.
  destruct (convert_to_utf8 e bytes) as [t|t] eqn:Ec.
  - pose proof (convert_borrowed _ _ _ Ec). subst t.
    assert (Hb : Borrows e bytes) by (apply convert_borrowed_iff; eexists; exact Ec).
    unfold decode_detail. destruct (starts_with_bom bytes) eqn:Eb; cbn [s_kind]; split; intro H;
      try discriminate; try reflexivity.
    + destruct e as [|be|r cps]; cbn [Borrows] in Hb.
      * split; [reflexivity|]. split; [exact Hb|reflexivity].
      * destruct Hb.
      * apply borrowable_ascii, ascii_no_bom in Hb. rewrite Hb in Eb. discriminate.
    + destruct H as [_ [_ H]]. discriminate.
  - cbn [decode_detail s_kind]. split; intro H; [discriminate|]. destruct H as [E [Hv _]]. subst e.
    cbn [convert_to_utf8] in Ec. apply valid_utf8b_iff in Hv. rewrite Hv in Ec. discriminate.
Qed.

Theorem changed_iff : forall hdr f o bytes s e,
  load_text hdr f o bytes = Some s -> for_label (charset_label hdr f bytes) o = Some e ->
  (s_kind s = Changed <-> ~ Borrows e bytes).
Proof.
  intros hdr f o bytes s e H He. apply load_text_inv in H. destruct H as [e' [He' Hs]].
  rewrite He in He'. inversion He'; subst e'. subst s.
  rewrite <- convert_borrowed_iff.
  destruct (convert_to_utf8 e bytes) as [t|t] eqn:Ec.
  - unfold decode_detail. destruct (starts_with_bom t); cbn [s_kind]; split; intro H; try discriminate;
      exfalso; apply H; eexists; reflexivity.
  - cbn [decode_detail s_kind]. split; intro H; [|reflexivity]. intros [t' H']. discriminate.
Qed.

Theorem size_is_text_length : forall s,
  size s = N.of_nat (length (s_text s)) /\
  (size s < 4294967296 -> serialized_size s = N.of_nat (length (s_text s))).
Proof.
  intro s. split; [reflexivity|]. intro H. unfold serialized_size. rewrite N.mod_small by exact H. reflexivity.
Qed.

Theorem undecodable_iff : forall hdr f o bytes,
  load_text hdr f o bytes = None <-> for_label (charset_label hdr f bytes) o = None.
Proof.
  intros hdr f o bytes. unfold load_text.
  destruct (for_label (charset_label hdr f bytes) o); split; intro H; try discriminate; reflexivity.
Qed.

(* ------------------------------------------------------------------ *)
(* the decoders only ever produce scalar values, hence the stored text is
   well-formed UTF-8 *)

Definition U8Inv (s : u8st) : Prop :=
  match s with
  | U8Init => True
  | U8Pend rem lo hi acc =>
      0x80 <= lo /\ hi <= 0xBF /\
      ((rem = 1 /\ 2 <= acc /\ acc <= 0x43FF /\ (acc < 0x360 \/ 0x37F < acc)) \/
       (rem = 2 /\ ((acc <= 15 /\ (acc = 0 -> 0xA0 <= lo) /\ (acc = 13 -> hi <= 0x9F)) \/
                    (0x10 <= acc /\ acc <= 0x10F))) \/
       (rem = 3 /\ acc <= 4 /\ (acc = 0 -> 0x90 <= lo) /\ (acc = 4 -> hi <= 0x8F)))
  end.

Lemma scalar_repl : Scalar REPL.
Proof. reflexivity. Qed.

Lemma feed0_inv : forall b, Forall Scalar (fst (feed0 b)) /\ U8Inv (snd (feed0 b)).
Proof.
  intro b. unfold feed0.
  destruct (N.ltb_spec b 0x80).
  { cbn [fst snd U8Inv]. split; [|exact I]. constructor; [apply scalar_intro; lia|constructor]. }
  destruct ((0xC2 <=? b) && (b <=? 0xDF)) eqn:E1.
  { bool_hyps. cbn [fst snd U8Inv]. split; [constructor|]. lia. }
  destruct ((0xE0 <=? b) && (b <=? 0xEF)) eqn:E2.
  { bool_hyps. cbn [fst snd U8Inv]. split; [constructor|].
    destruct (N.eqb_spec b 0xE0); destruct (N.eqb_spec b 0xED); lia. }
  destruct ((0xF0 <=? b) && (b <=? 0xF4)) eqn:E3.
  { bool_hyps. cbn [fst snd U8Inv]. split; [constructor|].
    destruct (N.eqb_spec b 0xF0); destruct (N.eqb_spec b 0xF4); lia. }
  cbn [fst snd U8Inv]. split; [|exact I]. constructor; [exact scalar_repl|constructor].
Qed.

Lemma feed_inv : forall s b, U8Inv s -> Forall Scalar (fst (feed s b)) /\ U8Inv (snd (feed s b)).
Proof.
  intros s b Hs. destruct s as [|rem lo hi acc]; [apply feed0_inv|].
  cbn [feed]. cbn [U8Inv] in Hs.
  destruct ((lo <=? b) && (b <=? hi)) eqn:E.
  - bool_hyps. destruct (N.eqb_spec rem 1) as [R|R]; cbn [fst snd].
    + split; [|exact I]. constructor; [|constructor]. apply scalar_intro. lia.
    + split; [constructor|]. cbn [U8Inv]. lia.
  - pose proof (feed0_inv b) as [H1 H2]. destruct (feed0 b) as [o s']. cbn [fst snd] in *.
    split; [|exact H2]. constructor; [exact scalar_repl|exact H1].
Qed.

Lemma u8dec_scalar : forall l s, U8Inv s -> Forall Scalar (u8dec s l).
Proof.
  induction l as [|b r IH]; intros s Hs; cbn [u8dec].
  - destruct s; [constructor|]. constructor; [exact scalar_repl|constructor].
  - pose proof (feed_inv s b Hs) as [H1 H2]. destruct (feed s b) as [o s']. cbn [fst snd] in *.
    apply Forall_app. split; [exact H1|]. apply IH. exact H2.
Qed.

Definition IsByte (b : N) : Prop := b < 256.

Lemma units_bound : forall be n l, (length l <= n)%nat -> Forall IsByte l ->
  Forall (fun u => u < 65536) (fst (units be l)).
Proof.
  induction n as [|n IH]; intros l Hlen Hb.
  - destruct l; [constructor|cbn in Hlen; lia].
  - destruct l as [|b0 [|b1 r]]; try (cbn; constructor).
    cbn [length] in Hlen. inversion Hb as [|? ? Hb0 Hb']; subst. inversion Hb' as [|? ? Hb1 Hb'']; subst.
    cbn [units]. specialize (IH r ltac:(lia) Hb''). destruct (units be r) as [us odd]. cbn [fst] in *.
    constructor; [|exact IH]. unfold IsByte in *. destruct be; lia.
Qed.

Lemma u16dec_scalar : forall us pend odd,
  Forall (fun u => u < 65536) us ->
  (forall h, pend = Some h -> is_high h = true) ->
  Forall Scalar (u16dec pend us odd).
Proof.
  induction us as [|u r IH]; intros pend odd Hu Hp; cbn [u16dec].
  - destruct pend; [constructor; [exact scalar_repl|constructor]|].
    destruct odd; [constructor; [exact scalar_repl|constructor]|constructor].
  - inversion Hu as [|? ? Hu0 Hu']; subst.
    destruct (is_high u) eqn:Eh.
    + destruct pend.
      * constructor; [exact scalar_repl|]. apply IH; [exact Hu'|]. intros h E. inversion E; subst. exact Eh.
      * apply IH; [exact Hu'|]. intros h E. inversion E; subst. exact Eh.
    + destruct (is_low u) eqn:El.
      * destruct pend as [h|].
        -- constructor.
           ++ specialize (Hp h eq_refl). unfold is_high, is_low in *. bool_hyps.
              apply scalar_intro. unfold surr_pair. lia.
           ++ apply IH; [exact Hu'|]. intros h' E. discriminate.
        -- constructor; [exact scalar_repl|]. apply IH; [exact Hu'|]. intros h' E. discriminate.
      * assert (Su : Scalar u).
        { apply scalar_intro. unfold is_high, is_low in *.
          apply andb_false_iff in Eh. apply andb_false_iff in El.
          destruct Eh as [Eh|Eh]; destruct El as [El|El]; bool_hyps; lia. }
        destruct pend.
        -- constructor; [exact scalar_repl|]. constructor; [exact Su|].
           apply IH; [exact Hu'|]. intros h' E. discriminate.
        -- constructor; [exact Su|]. apply IH; [exact Hu'|]. intros h' E. discriminate.
Qed.

Lemma utf16_decode_scalar : forall be l, Forall IsByte l -> Forall Scalar (utf16_decode be l).
Proof.
  intros be l H. unfold utf16_decode.
  pose proof (units_bound be (length l) l (le_n _) H) as Hu.
  destruct (units be l) as [us odd]. cbn [fst] in Hu.
  apply u16dec_scalar; [exact Hu|]. intros h E. discriminate.
Qed.

Lemma for_label_other : forall l o r cps, for_label l o = Some (EOther r cps) -> o = Some (r, cps).
Proof.
  intros l o r cps H. unfold for_label in H.
  destruct (existsb (list_eqb (label_norm l)) utf8_labels); [discriminate|].
  destruct (existsb (list_eqb (label_norm l)) utf16le_labels); [discriminate|].
  destruct (existsb (list_eqb (label_norm l)) utf16be_labels); [discriminate|].
  destruct o as [[r' cps']|]; [|discriminate]. inversion H; subst. reflexivity.
Qed.

Lemma ascii_scalar : forall l, forallb (fun b => b <? 0x80) l = true -> Forall Scalar l.
Proof.
  induction l as [|b l IH]; intro H; [constructor|]. cbn [forallb] in H. bool_hyps.
  constructor; [apply scalar_intro; lia|]. apply IH. assumption.
Qed.

Lemma strip_one_bom_Forall : forall (P : N -> Prop) cps, Forall P cps -> Forall P (strip_one_bom cps).
Proof.
  intros P [|c r] H; [constructor|]. unfold strip_one_bom. destruct (c =? BOMC); [|exact H].
  inversion H; assumption.
Qed.

Theorem text_valid : forall hdr f o bytes s,
  Forall IsByte bytes ->
  (forall r cps, o = Some (r, cps) -> Forall Scalar cps) ->
  load_text hdr f o bytes = Some s -> ValidUtf8 (s_text s).
Proof.
  intros hdr f o bytes s Hb Ho H. apply text_is_decoding in H. destruct H as [e [He Ht]].
  exists (strip_one_bom (whatwg_decode e bytes)). split; [|symmetry; exact Ht].
  apply strip_one_bom_Forall. destruct e as [|be|r cps]; cbn [whatwg_decode].
  - apply u8dec_scalar. exact I.
  - apply utf16_decode_scalar. exact Hb.
  - destruct (borrowable r bytes) eqn:E.
    + apply ascii_scalar. eapply borrowable_ascii. exact E.
    + apply for_label_other in He. eapply Ho. exact He.
Qed.

(* ------------------------------------------------------------------ *)
(* charset selection *)

Lemma charset_header_wins : forall hdr f bytes l,
  header_charset hdr = Some l -> charset_label hdr f bytes = l.
Proof. intros hdr f bytes l H. unfold charset_label. rewrite H. reflexivity. Qed.

Lemma charset_remote_default : forall hdr bytes o,
  header_charset hdr = None -> for_label (charset_label hdr false bytes) o = Some EUtf8.
Proof. intros hdr bytes o H. unfold charset_label. rewrite H. reflexivity. Qed.

Lemma charset_file_sniff : forall hdr bytes o,
  header_charset hdr = None ->
  for_label (charset_label hdr true bytes) o =
  Some (match bytes with
        | b0 :: b1 :: _ =>
            if (b0 =? 0xFF) && (b1 =? 0xFE) then EUtf16 false
            else if (b0 =? 0xFE) && (b1 =? 0xFF) then EUtf16 true else EUtf8
        | _ => EUtf8
        end).
Proof.
  intros hdr bytes o H. unfold charset_label. rewrite H. unfold detect_charset.
  destruct bytes as [|b0 [|b1 r]]; try reflexivity.
  destruct ((b0 =? 255) && (b1 =? 254)); [reflexivity|].
  destruct ((b0 =? 254) && (b1 =? 255)); reflexivity.
Qed.

(* ------------------------------------------------------------------ *)
(* the decision procedure run on the implementation's observations *)

Lemma opt_bytes_ok_iff : forall o bytes, opt_bytes_ok o bytes = true <-> (o = None \/ o = Some bytes).
Proof.
  intros [b|] bytes; cbn [opt_bytes_ok].
  - rewrite list_eqb_eq. split; [intro; subst; right; reflexivity|].
    intros [H|H]; [discriminate|inversion H; reflexivity].
  - split; [left; reflexivity|reflexivity].
Qed.

Theorem holdsb_correct : forall m hdr f o bytes ob,
  c20_holdsb m hdr f o bytes ob = true <-> C20_Holds m hdr f o bytes ob.
Proof.
  intros m hdr f o bytes ob. unfold c20_holdsb, C20_Holds.
  destruct m; try apply N.eqb_eq;
    (destruct (for_label (charset_label hdr f bytes) o) as [e|]; [|apply N.eqb_eq]);
    rewrite !andb_true_iff, !N.eqb_eq, list_eqb_eq, opt_bytes_ok_iff; tauto.
Qed.

(* the model's own result satisfies the property *)
Theorem model_holds : forall m hdr f o bytes,
  C20_Holds m hdr f o bytes (obs_of (parse_module_model m hdr f o bytes)).
Proof.
  intros m hdr f o bytes. unfold C20_Holds, parse_module_model.
  destruct m; try reflexivity;
    (destruct (load_text hdr f o bytes) as [s|] eqn:El;
     [ pose proof (text_is_decoding _ _ _ _ _ El) as [e [He Ht]];
       pose proof (original_bytes_faithful _ _ _ _ _ El) as Ho;
       rewrite He; cbn [obs_of ob_tag ob_text ob_orig ob_size ob_ssize module_tag];
       repeat split; try exact Ht; try exact Ho
     | apply undecodable_iff in El; rewrite El; reflexivity ]).
Qed.

(* ------------------------------------------------------------------ *)
(* sanity of the UTF-16 decoder: it inverts the UTF-16 encoder on scalar
   sequences (so "decoding" means what it should on well-formed input) *)

Definition enc16 (c : N) : list N :=
  if c <? 0x10000 then [c]
  else [0xD800 + (c - 0x10000) / 1024; 0xDC00 + (c - 0x10000) mod 1024].

Definition unit_bytes (be : bool) (u : N) : list N :=
  if be then [u / 256; u mod 256] else [u mod 256; u / 256].

Definition utf16_encode (be : bool) (cps : list N) : list N :=
  flat_map (unit_bytes be) (flat_map enc16 cps).

Lemma units_unit_bytes : forall be us,
  units be (flat_map (unit_bytes be) us) = (us, false).
Proof.
  intros be us. induction us as [|u r IH]; [reflexivity|].
  cbn [flat_map]. unfold unit_bytes at 1. destruct be; cbn [app units]; rewrite IH; f_equal; f_equal; lia.
Qed.

Lemma u16dec_enc16 : forall c r, Scalar c ->
  u16dec None (enc16 c ++ r) false = c :: u16dec None r false.
Proof.
  intros c r H. apply scalar_cases in H. unfold enc16.
  destruct (N.ltb_spec c 0x10000) as [L|L]; cbn [app u16dec]; unfold is_high, is_low.
  - decide_tests. destruct (N.leb_spec 0xD800 c); decide_tests; reflexivity.
  - decide_tests. cbn [u16dec]. unfold is_high, is_low. decide_tests. unfold surr_pair. f_equal. lia.
Qed.

Theorem utf16_decode_encode : forall be cps, Forall Scalar cps -> utf16_decode be (utf16_encode be cps) = cps.
Proof.
  intros be cps H. unfold utf16_decode, utf16_encode. rewrite units_unit_bytes.
  induction H as [|c cps Hc Hs IH]; [reflexivity|].
  cbn [flat_map]. rewrite u16dec_enc16 by exact Hc. f_equal. exact IH.
Qed.

(* ------------------------------------------------------------------ *)
(* the JSR deferred content fill: outside the known class (the header's label,
   if any, resolves to UTF-8) its result satisfies the property *)

Theorem jsr_fill_holds_outside_class : forall m hdr o bytes,
  c20_jsr_class hdr o bytes = false ->
  C20_Holds m hdr false o bytes (obs_of (jsr_fill_model m bytes)).
Proof.
  intros m hdr o bytes Hc. unfold c20_jsr_class in Hc.
  destruct (for_label (charset_label hdr false bytes) o) as [e|] eqn:He; [|discriminate].
  destruct e; try discriminate.
  pose proof (model_holds m None false None bytes) as H.
  unfold jsr_fill_model. unfold C20_Holds in *.
  rewrite (charset_remote_default None bytes None eq_refl) in H. rewrite He. exact H.
Qed.

(* in every case the original-bytes guarantee is kept on that route *)
Theorem jsr_fill_original_bytes : forall m bytes json s,
  jsr_fill_model m bytes = OModule json s ->
  original_bytes s = None \/ original_bytes s = Some bytes.
Proof.
  intros m bytes json s H. unfold jsr_fill_model, parse_module_model in H.
  destruct m; try discriminate;
    (destruct (load_text None false None bytes) as [s'|] eqn:El; [|discriminate]);
    inversion H; subst; eapply original_bytes_faithful; exact El.
Qed.

(* ModuleTextSource::new_unknown (parse_module_from_ast): the original bytes are never claimed *)
Theorem new_unknown_no_original : forall t,
  original_bytes (new_unknown t) = None /\ s_text (new_unknown t) = t.
Proof. intro t. split; reflexivity. Qed.
