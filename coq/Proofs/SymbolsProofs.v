(* C16 proofs.
   Part A: export resolution (exports_inner with the shared visited set)
           computes the least fixed point of names; own names first; fuel.
   Part B: soundness of the symbol-table checker wf_symtabb.
   Part C: soundness of the go-to-definition result checker. *)
From Coq Require Import Arith.
From DG Require Import Base.Util Base.Reach Model.Symbols.

(* ------------------------------------------------------------------ *)
(* generic list facts                                                  *)

Lemma has_key_In : forall {V} k (l : list (N * V)), has_key k l = true <-> In k (map fst l).
Proof.
  intros V k l. unfold has_key. induction l as [|[k' v'] l IH]; cbn [lookup map fst In].
  - split; [discriminate | intros []].
  - destruct (N.eqb k k') eqn:E.
    + apply N.eqb_eq in E. subst. split; [intros _; left; reflexivity | reflexivity].
    + rewrite IH. split; [intro H; right; exact H|].
      intros [H|H]; [subst; rewrite N.eqb_refl in E; discriminate | exact H].
Qed.

Lemma has_key_false_In : forall {V} k (l : list (N * V)), has_key k l = false <-> ~ In k (map fst l).
Proof.
  intros V k l. rewrite <- has_key_In. destruct (has_key k l); split; intro H;
    try reflexivity; try discriminate; try (intro H'; discriminate); exfalso; apply H; reflexivity.
Qed.

Lemma lookup_app_l : forall {V} k (a b : list (N * V)) v,
  lookup k a = Some v -> lookup k (a ++ b) = Some v.
Proof.
  intros V k a b v. induction a as [|[k' v'] a IH]; cbn [lookup app]; [discriminate|].
  destruct (N.eqb k k'); [trivial | exact IH].
Qed.

Lemma lookup_app : forall {V} k (a b : list (N * V)),
  lookup k (a ++ b) = match lookup k a with Some v => Some v | None => lookup k b end.
Proof.
  intros V k a b. induction a as [|[k' v'] a IH]; cbn [lookup app]; [reflexivity|].
  destruct (N.eqb k k'); [reflexivity | exact IH].
Qed.

Lemma imap_insert_keys : forall {V} k (v : V) l k',
  In k' (map fst (imap_insert k v l)) <-> k' = k \/ In k' (map fst l).
Proof.
  intros V k v l k'. induction l as [|[k0 v0] l IH]; cbn [imap_insert map fst In].
  - split; [intros [H|[]]; left; symmetry; exact H | intros [H|[]]; left; symmetry; exact H].
  - destruct (N.eqb k k0) eqn:E; cbn [map fst In].
    + apply N.eqb_eq in E. subst k0. split.
      * intros [H|H]; [left; symmetry; exact H | right; right; exact H].
      * intros [H|[H|H]]; [left; symmetry; exact H | left; exact H | right; exact H].
    + rewrite IH. tauto.
Qed.

Lemma lookup_imap_insert : forall {V} k (v : V) l n,
  lookup n (imap_insert k v l) = if N.eqb n k then Some v else lookup n l.
Proof.
  intros V k v l n. induction l as [|[k0 v0] l IH]; cbn [imap_insert lookup].
  - reflexivity.
  - destruct (N.eqb k k0) eqn:E; cbn [lookup].
    + apply N.eqb_eq in E. subst k0. destruct (N.eqb n k); reflexivity.
    + destruct (N.eqb n k0) eqn:E0.
      * apply N.eqb_eq in E0. subst k0.
        assert (Hnk : N.eqb n k = false).
        { apply N.eqb_neq. intro; subst. rewrite N.eqb_refl in E. discriminate. }
        rewrite Hnk. reflexivity.
      * exact IH.
Qed.

Lemma incl_b_incl : forall a b, incl_b a b = true <-> incl a b.
Proof.
  intros a b. unfold incl_b. rewrite forallb_forall. unfold incl.
  split; intros H x Hx; [apply mem_In; apply H; exact Hx | apply mem_In; apply H; exact Hx].
Qed.

(* ------------------------------------------------------------------ *)
(* Part A: export resolution                                           *)

Section Exports.
Variable w : sworld.

Definition mod_keys : list N := map fst (sw_mods w).

(* `export * from` edge between analysed modules *)
Definition star_edge (m m' : N) : Prop :=
  exists text s, In (text, Some s) (sm_stars (get_mod w m)) /\ spec_to_module w s = Some m'.

(* one or more star re-exports *)
Inductive StarReach : N -> N -> Prop :=
| SR_one : forall m m', star_edge m m' -> StarReach m m'
| SR_step : forall m m' m'', StarReach m m' -> star_edge m' m'' -> StarReach m m''.

Definition own_names (m : N) : list N := map fst (own w m).

(* the ES rule: own exports, plus the non-default exports of everything reachable
   through star re-exports (least fixed point) *)
Definition Names (m n : N) : Prop :=
  In n (own_names m) \/ (n <> DEFAULT /\ exists m', StarReach m m' /\ In n (own_names m')).

Lemma SR_cons : forall a b c, star_edge a b -> StarReach b c -> StarReach a c.
Proof.
  intros a b c Hab Hbc. induction Hbc as [b c Hbc | b c d _ IH Hcd].
  - apply SR_step with (m' := b); [apply SR_one; exact Hab | exact Hbc].
  - apply SR_step with (m' := c); [apply IH; exact Hab | exact Hcd].
Qed.

Lemma own_resolved_keys_gen : forall m l acc n,
  In n (map fst (fold_left (fun a e => imap_insert (fst e) (Export m (snd e)) a) l acc))
  <-> In n (map fst l) \/ In n (map fst acc).
Proof.
  intros m l. induction l as [|e l IH]; intros acc n; cbn [fold_left map fst In].
  - tauto.
  - rewrite IH. rewrite imap_insert_keys. split.
    + intros [H|[H|H]]; [left; right; exact H | left; left; symmetry; exact H | right; exact H].
    + intros [[H|H]|H]; [right; left; symmetry; exact H | left; exact H | right; right; exact H].
Qed.

Lemma own_resolved_keys : forall m l n, In n (map fst (own_resolved m l)) <-> In n (map fst l).
Proof.
  intros m l n. unfold own_resolved. rewrite own_resolved_keys_gen. cbn [map In]. tauto.
Qed.

Lemma merge_star_keys : forall r t inner acc n,
  In n (map fst (merge_star r t inner acc))
  <-> In n (map fst acc) \/ (n <> DEFAULT /\ In n (map fst inner)).
Proof.
  intros r t inner. induction inner as [|[k it] inner IH]; intros acc n; cbn [merge_star map fst In].
  - tauto.
  - destruct (negb (N.eqb k DEFAULT) && negb (has_key k acc)) eqn:E.
    + apply andb_prop in E. destruct E as [E1 E2].
      apply negb_true_iff in E1. apply N.eqb_neq in E1.
      rewrite IH. rewrite map_app. rewrite in_app_iff. cbn [map fst In]. split.
      * intros [[H|[H|[]]]|H]; [left; exact H | subst; right; split; [exact E1 | left; reflexivity] |].
        destruct H as [H1 H2]. right. split; [exact H1 | right; exact H2].
      * intros [H|[H1 [H2|H2]]]; [left; left; exact H | subst; left; right; left; reflexivity |].
        right. split; assumption.
    + rewrite IH. split.
      * intros [H|[H1 H2]]; [left; exact H | right; split; [exact H1 | right; exact H2]].
      * intros [H|[H1 [H2|H2]]]; [left; exact H | | right; split; assumption].
        subst k. apply andb_false_iff in E. destruct E as [E|E].
        -- apply negb_false_iff in E. apply N.eqb_eq in E. contradiction.
        -- apply negb_false_iff in E. apply has_key_In in E. left; exact E.
Qed.

Lemma merge_star_keeps : forall r t inner acc n it,
  lookup n acc = Some it -> lookup n (merge_star r t inner acc) = Some it.
Proof.
  intros r t inner. induction inner as [|[k i0] inner IH]; intros acc n it H; cbn [merge_star].
  - exact H.
  - destruct (negb (N.eqb k DEFAULT) && negb (has_key k acc)).
    + apply IH. apply lookup_app_l. exact H.
    + apply IH. exact H.
Qed.

Definition new_in (v v' : list N) (x : N) : Prop := In x v' /\ ~ In x v.

(* what one call of exports_and_re_exports_inner guarantees *)
Record inner_ok (m : N) (v : list N) (r : mexports) (v' : list N) : Prop := {
  io_mono : incl v v';
  io_self : In m v';
  io_sound : forall x, In x v' -> In x v \/ x = m \/ StarReach m x;
  io_closed : forall x, new_in v v' x -> forall x', star_edge x x' -> In x' v';
  io_names : ~ In m v -> forall n,
      In n (names r) <->
      In n (own_names m) \/ (n <> DEFAULT /\ exists x, new_in v v' x /\ x <> m /\ In n (own_names x));
  io_visited : In m v -> r = no_exports /\ v' = v;
  io_own_kept : ~ In m v -> forall n it, lookup n (own_resolved m (own w m)) = Some it ->
      lookup n (resolved r) = Some it
}.

(* loop invariant, relative to the call on [m] with incoming visited set [v] *)
Record loop_inv (m : N) (v : list N) (done : list (N * option N)) (vc : list N)
       (res : list (N * item)) : Prop := {
  li_mono : incl (m :: v) vc;
  li_sound : forall x, In x vc -> In x v \/ x = m \/ StarReach m x;
  li_closed : forall x, new_in (m :: v) vc x -> forall x', star_edge x x' -> In x' vc;
  li_done : forall text s t, In (text, Some s) done -> spec_to_module w s = Some t -> In t vc;
  li_names : forall n,
      In n (map fst res) <->
      In n (own_names m) \/ (n <> DEFAULT /\ exists x, new_in (m :: v) vc x /\ In n (own_names x));
  li_own_kept : forall n it, lookup n (own_resolved m (own w m)) = Some it -> lookup n res = Some it
}.

Lemma stars_loop_inv : forall rec m v,
  (forall t vv rr vv', rec t vv = Some (rr, vv') -> inner_ok t vv rr vv') ->
  forall stars done res unres vc r v',
  (forall text s, In (text, Some s) (done ++ stars) -> In (text, Some s) (sm_stars (get_mod w m))) ->
  loop_inv m v done vc res ->
  stars_loop rec w m stars res unres vc = Some (r, v') ->
  loop_inv m v (done ++ stars) v' (resolved r).
Proof.
  intros rec m v Hrec. induction stars as [|[text tgt] rest IH]; intros done res unres vc r v' Hstars HJ HL;
    cbn [stars_loop] in HL.
  - inversion HL; subst. cbn [resolved]. rewrite app_nil_r. exact HJ.
  - assert (Hreassoc : done ++ (text, tgt) :: rest = (done ++ [(text, tgt)]) ++ rest).
    { rewrite <- app_assoc. reflexivity. }
    destruct (option_bind tgt (spec_to_module w)) as [t|] eqn:Et.
    + destruct tgt as [s|]; cbn [option_bind] in Et; [|discriminate].
      assert (Hedge : star_edge m t).
      { exists text, s. split; [|exact Et]. apply Hstars. apply in_or_app. right. left. reflexivity. }
      destruct (rec t vc) as [[ir vi]|] eqn:Er; [|discriminate].
      pose proof (Hrec _ _ _ _ Er) as Hok.
      rewrite Hreassoc. eapply IH; [rewrite <- Hreassoc; exact Hstars | | exact HL].
      destruct HJ as [Jm Js Jc Jd Jn Jo].
      constructor.
      * intros x Hx. apply (io_mono _ _ _ _ Hok). apply Jm. exact Hx.
      * intros x Hx. destruct (io_sound _ _ _ _ Hok x Hx) as [H|[H|H]].
        -- apply Js. exact H.
        -- subst x. right. right. apply SR_one. exact Hedge.
        -- right. right. apply SR_cons with (b := t); assumption.
      * intros x [Hx Hnx] x' He.
        destruct (In_dec_N x vc) as [Hin|Hnin].
        -- apply (io_mono _ _ _ _ Hok). apply (Jc x); [split; assumption | exact He].
        -- apply (io_closed _ _ _ _ Hok x); [split; assumption | exact He].
      * intros text0 s0 t0 Hin Hs0. apply in_app_or in Hin. destruct Hin as [Hin|[Hin|[]]].
        -- apply (io_mono _ _ _ _ Hok). apply (Jd text0 s0 t0 Hin Hs0).
        -- inversion Hin; subst. rewrite Et in Hs0. inversion Hs0; subst. apply (io_self _ _ _ _ Hok).
      * intro n. rewrite merge_star_keys. rewrite Jn.
        destruct (In_dec_N t vc) as [Htin|Htnin].
        -- destruct (io_visited _ _ _ _ Hok Htin) as [Hr Hv]. subst ir vi. unfold no_exports; cbn [resolved map In]. tauto.
        -- pose proof (io_names _ _ _ _ Hok Htnin n) as Hn. unfold names in Hn. rewrite Hn. clear Hn.
           split.
           ++ intros [[H|[Hd [x [[Hx Hnx] Ho]]]]|[Hd [H|[_ [x [[Hx Hnx] [Hxt Ho]]]]]]].
              ** left; exact H.
              ** right. split; [exact Hd|]. exists x. split; [|exact Ho].
                 split; [apply (io_mono _ _ _ _ Hok); exact Hx | exact Hnx].
              ** right. split; [exact Hd|]. exists t. split; [|exact H].
                 split; [apply (io_self _ _ _ _ Hok) | intro Hc; apply Htnin; apply Jm; exact Hc].
              ** right. split; [exact Hd|]. exists x. split; [|exact Ho].
                 split; [exact Hx | intro Hc; apply Hnx; apply Jm; exact Hc].
           ++ intros [H|[Hd [x [[Hx Hnx] Ho]]]]; [left; left; exact H|].
              destruct (In_dec_N x vc) as [Hin|Hnin].
              ** left. right. split; [exact Hd|]. exists x. split; [split; assumption | exact Ho].
              ** right. split; [exact Hd|].
                 destruct (N.eq_dec x t) as [->|Hne]; [left; exact Ho|].
                 right. split; [exact Hd|]. exists x. split; [split; assumption|]. split; assumption.
      * intros n it Hl. apply merge_star_keeps. apply Jo. exact Hl.
    + rewrite Hreassoc. eapply IH; [rewrite <- Hreassoc; exact Hstars | | exact HL].
      destruct HJ as [Jm Js Jc Jd Jn Jo].
      constructor; try assumption.
      intros text0 s0 t0 Hin Hs0. apply in_app_or in Hin. destruct Hin as [Hin|[Hin|[]]].
      * apply (Jd text0 s0 t0 Hin Hs0).
      * inversion Hin; subst. cbn [option_bind] in Et. rewrite Et in Hs0. discriminate.
Qed.

Lemma exports_inner_ok : forall fuel m v r v',
  exports_inner fuel w m v = Some (r, v') -> inner_ok m v r v'.
Proof.
  induction fuel as [|f IH]; intros m v r v' H; cbn [exports_inner] in H.
  - destruct (mem m v) eqn:E; [|discriminate]. inversion H; subst. apply mem_In in E.
    constructor.
    + intros x Hx; exact Hx.
    + exact E.
    + intros x Hx; left; exact Hx.
    + intros x [Hx Hn]; contradiction.
    + intro Hn; contradiction.
    + intros _; split; reflexivity.
    + intro Hn; contradiction.
  - destruct (mem m v) eqn:E.
    + inversion H; subst. apply mem_In in E.
      constructor.
      * intros x Hx; exact Hx.
      * exact E.
      * intros x Hx; left; exact Hx.
      * intros x [Hx Hn]; contradiction.
      * intro Hn; contradiction.
      * intros _; split; reflexivity.
      * intro Hn; contradiction.
    + apply mem_false_In in E.
      pose proof (stars_loop_inv (exports_inner f w) m v (fun t vv rr vv' Hc => IH t vv rr vv' Hc)
                    (sm_stars (get_mod w m)) [] (own_resolved m (own_of (get_mod w m))) [] (m :: v) r v') as HL.
      cbn [app] in HL.
      assert (HJ0 : loop_inv m v [] (m :: v) (own_resolved m (own_of (get_mod w m)))).
      { constructor.
        - intros x Hx; exact Hx.
        - intros x [Hx|Hx]; [right; left; symmetry; exact Hx | left; exact Hx].
        - intros x [Hx Hn]; contradiction.
        - intros text s t [].
        - intro n. rewrite own_resolved_keys. unfold own_names, own. split.
          + intro Hn; left; exact Hn.
          + intros [Hn|[_ [x [[Hx Hnx] _]]]]; [exact Hn | contradiction].
        - intros n it Hl. exact Hl. }
      specialize (HL (fun text s Hin => Hin) HJ0 H).
      destruct HL as [Jm Js Jc Jd Jn Jo].
      constructor.
      * intros x Hx. apply Jm. right. exact Hx.
      * apply Jm. left. reflexivity.
      * exact Js.
      * intros x [Hx Hnx] x' He.
        destruct (N.eq_dec x m) as [->|Hne].
        -- destruct He as [text [s [Hin Hs]]]. apply (Jd text s x' Hin Hs).
        -- apply (Jc x); [|exact He]. split; [exact Hx|].
           intros [Hc|Hc]; [apply Hne; symmetry; exact Hc | apply Hnx; exact Hc].
      * intros _ n. unfold names. rewrite Jn. split.
        -- intros [Hn|[Hd [x [[Hx Hnx] Ho]]]]; [left; exact Hn|].
           right. split; [exact Hd|]. exists x. split; [split; [exact Hx | intro Hc; apply Hnx; right; exact Hc]|].
           split; [intro Hc; apply Hnx; left; symmetry; exact Hc | exact Ho].
        -- intros [Hn|[Hd [x [[Hx Hnx] [Hxm Ho]]]]]; [left; exact Hn|].
           right. split; [exact Hd|]. exists x. split; [|exact Ho].
           split; [exact Hx | intros [Hc|Hc]; [apply Hxm; symmetry; exact Hc | apply Hnx; exact Hc]].
      * intro Hc; contradiction.
      * intros _ n it Hl. apply Jo. exact Hl.
Qed.

(* ---- the three property statements ---- *)

Theorem exports_set : forall m r,
  exports_of w m = Some r -> forall n, In n (names r) <-> Names m n.
Proof.
  intros m r H n. unfold exports_of in H.
  destruct (exports_inner (length (sw_mods w)) w m []) as [[r0 v']|] eqn:E; [|discriminate].
  inversion H; subst r0. pose proof (exports_inner_ok _ _ _ _ _ E) as Hok.
  assert (Hnm : ~ In m []) by (intros []).
  rewrite (io_names _ _ _ _ Hok Hnm n). unfold Names.
  assert (Hreach0 : forall a x, StarReach a x -> In a v' -> In x v').
  { intros a x Hx. induction Hx as [a b Hab | a b c _ IHx Hbc]; intro Ha.
    - apply (io_closed _ _ _ _ Hok a); [split; [exact Ha | intros []] | exact Hab].
    - apply (io_closed _ _ _ _ Hok b); [split; [apply IHx; exact Ha | intros []] | exact Hbc]. }
  assert (Hreach : forall x, StarReach m x -> In x v').
  { intros x Hx. apply (Hreach0 m x Hx). apply (io_self _ _ _ _ Hok). }
  split.
  - intros [Hn|[Hd [x [[Hx _] [Hxm Ho]]]]]; [left; exact Hn|].
    right. split; [exact Hd|]. exists x. split; [|exact Ho].
    destruct (io_sound _ _ _ _ Hok x Hx) as [[]|[Hc|Hc]]; [contradiction | exact Hc].
  - intros [Hn|[Hd [x [Hx Ho]]]]; [left; exact Hn|].
    destruct (N.eq_dec x m) as [->|Hne]; [left; exact Ho|].
    right. split; [exact Hd|]. exists x. split; [split; [apply Hreach; exact Hx | intros []]|].
    split; assumption.
Qed.

(* IndexMap semantics of the module's own export map: the last insertion of a name wins *)
Lemma own_resolved_lookup_gen : forall m l acc n,
  lookup n (fold_left (fun a e => imap_insert (fst e) (Export m (snd e)) a) l acc)
  = match lookup n (rev l) with Some s => Some (Export m s) | None => lookup n acc end.
Proof.
  intros m l. induction l as [|[k s] l IH]; intros acc n; cbn [fold_left rev].
  - reflexivity.
  - rewrite IH. rewrite lookup_app. destruct (lookup n (rev l)) as [s0|]; [reflexivity|].
    cbn [fst snd lookup]. rewrite lookup_imap_insert. destruct (N.eqb n k); reflexivity.
Qed.

Theorem own_first : forall m r n s,
  exports_of w m = Some r ->
  lookup n (rev (own w m)) = Some s ->
  lookup n (resolved r) = Some (Export m s).
Proof.
  intros m r n s H Hl. unfold exports_of in H.
  destruct (exports_inner (length (sw_mods w)) w m []) as [[r0 v']|] eqn:E; [|discriminate].
  inversion H; subst r0. pose proof (exports_inner_ok _ _ _ _ _ E) as Hok.
  apply (io_own_kept _ _ _ _ Hok); [intros []|].
  unfold own_resolved. rewrite own_resolved_lookup_gen. rewrite Hl. reflexivity.
Qed.

(* ---- fuel ---- *)

Lemma unseen_incl : forall U a b, incl a b -> (unseen U b <= unseen U a)%nat.
Proof.
  intros U a b Hi. unfold unseen. induction (dedup U) as [|u l IH]; cbn [filter length]; [lia|].
  destruct (mem u b) eqn:Eb; destruct (mem u a) eqn:Ea; cbn [negb length]; try lia.
  apply mem_In in Ea. apply Hi in Ea. apply mem_In in Ea. rewrite Ea in Eb. discriminate.
Qed.

Lemma unseen_cons : forall U v y, In y U -> ~ In y v -> S (unseen U (y :: v)) = unseen U v.
Proof.
  intros U v y Hy Hn. unfold unseen. apply filter_cons_seen;
    [apply dedup_NoDup | exact Hn | apply dedup_In; exact Hy].
Qed.

Lemma dedup_length : forall l, (length (dedup l) <= length l)%nat.
Proof.
  induction l as [|x l IH]; cbn [dedup length]; [lia|].
  destruct (mem x l); cbn [length]; lia.
Qed.

Lemma spec_to_module_key : forall s t, spec_to_module w s = Some t -> In t mod_keys.
Proof.
  intros s t H. unfold spec_to_module in H.
  destruct (lookup s (sw_s2m w)) as [k|]; [|discriminate].
  destruct (has_key k (sw_mods w)) eqn:E; [|discriminate].
  inversion H; subst. apply has_key_In. exact E.
Qed.

Lemma stars_loop_fuel : forall f m,
  (forall t vv, In t vv \/ In t mod_keys -> (unseen mod_keys vv <= f)%nat -> exports_inner f w t vv <> None) ->
  forall stars res unres vc,
  (unseen mod_keys vc <= f)%nat ->
  stars_loop (exports_inner f w) w m stars res unres vc <> None.
Proof.
  intros f m Hrec. induction stars as [|[text tgt] rest IH]; intros res unres vc Hle; cbn [stars_loop].
  - discriminate.
  - destruct (option_bind tgt (spec_to_module w)) as [t|] eqn:Et.
    + destruct tgt as [s|]; cbn [option_bind] in Et; [|discriminate].
      pose proof (spec_to_module_key _ _ Et) as Hk.
      destruct (exports_inner f w t vc) as [[ir vi]|] eqn:Er.
      * apply IH. pose proof (exports_inner_ok _ _ _ _ _ Er) as Hok.
        pose proof (unseen_incl mod_keys vc vi (io_mono _ _ _ _ Hok)). lia.
      * exfalso. apply (Hrec t vc); [right; exact Hk | exact Hle | exact Er].
    + apply IH. exact Hle.
Qed.

Lemma exports_inner_fuel : forall fuel m v,
  In m v \/ In m mod_keys -> (unseen mod_keys v <= fuel)%nat -> exports_inner fuel w m v <> None.
Proof.
  induction fuel as [|f IH]; intros m v Hm Hle; cbn [exports_inner].
  - destruct (mem m v) eqn:E; [discriminate|].
    apply mem_false_In in E. destruct Hm as [Hm|Hm]; [contradiction|].
    pose proof (unseen_cons mod_keys v m Hm E). lia.
  - destruct (mem m v) eqn:E; [discriminate|].
    apply mem_false_In in E. destruct Hm as [Hm|Hm]; [contradiction|].
    pose proof (unseen_cons mod_keys v m Hm E) as Hc.
    apply stars_loop_fuel; [exact IH | lia].
Qed.

Lemma exports_inner_top : forall m, has_key m (sw_mods w) = true ->
  exports_inner (length (sw_mods w)) w m [] <> None.
Proof.
  intros m Hk. apply exports_inner_fuel; [right; apply has_key_In; exact Hk|].
  unfold unseen. cbn [mem existsb negb].
  assert (Hf : forall l : list N, filter (fun _ : N => true) l = l).
  { induction l as [|x l IHl]; cbn [filter]; [reflexivity | rewrite IHl; reflexivity]. }
  rewrite Hf. pose proof (dedup_length mod_keys) as Hd. unfold mod_keys in *. rewrite map_length in Hd. exact Hd.
Qed.

Theorem exports_terminate : forall m, has_key m (sw_mods w) = true -> exports_of w m <> None.
Proof.
  intros m Hk. unfold exports_of. pose proof (exports_inner_top m Hk) as H.
  destruct (exports_inner (length (sw_mods w)) w m []) as [[r v']|]; [discriminate | exfalso; apply H; reflexivity].
Qed.

(* the decision procedure run on the implementation's name list *)
Theorem names_okb_correct : forall m impl,
  has_key m (sw_mods w) = true ->
  (names_okb w m impl = true <-> forall n, In n impl <-> Names m n).
Proof.
  intros m impl Hk. unfold names_okb.
  destruct (exports_of w m) as [r|] eqn:E; [|exfalso; exact (exports_terminate m Hk E)].
  rewrite andb_true_iff. rewrite !incl_b_incl. unfold incl. split.
  - intros [H1 H2] n. rewrite <- (exports_set m r E n). split; [apply H1 | apply H2].
  - intro H. split; intros n Hn.
    + apply (exports_set m r E n). apply H. exact Hn.
    + apply H. apply (exports_set m r E n). exact Hn.
Qed.

End Exports.

(* ------------------------------------------------------------------ *)
(* Part B: the symbol-table checker is sound                           *)

Lemma nodupb_NoDup : forall l, nodupb l = true -> NoDup l.
Proof.
  induction l as [|x l IH]; cbn [nodupb]; intro H; [constructor|].
  apply andb_prop in H. destruct H as [H1 H2]. apply negb_true_iff in H1. apply mem_false_In in H1.
  constructor; [exact H1 | apply IH; exact H2].
Qed.

Lemma opt_eqb_eq : forall a b, opt_eqb a b = true -> a = b.
Proof.
  intros [x|] [y|]; cbn [opt_eqb]; intro H; try discriminate; [|reflexivity].
  apply N.eqb_eq in H. subst. reflexivity.
Qed.

Lemma count_app : forall x a b, count x (a ++ b) = (count x a + count x b)%nat.
Proof.
  intros x a b. induction a as [|y a IH]; cbn [count app]; [reflexivity|].
  destruct (N.eqb y x); rewrite IH; reflexivity.
Qed.

Lemma count_In : forall x l, In x l <-> (1 <= count x l)%nat.
Proof.
  intros x l. induction l as [|y l IH]; cbn [count In].
  - split; [intros [] | lia].
  - destruct (N.eqb y x) eqn:E.
    + apply N.eqb_eq in E. subst. split; [lia | intros _; left; reflexivity].
    + rewrite <- IH. split; [intros [H|H]; [subst; rewrite N.eqb_refl in E; discriminate | exact H] | intro H; right; exact H].
Qed.

Section Wf.
Variable t : symtab.

Definition sym_in (s : sym) : Prop := In s (t_syms t).

(* c is listed as a child or as a member of the symbol with id p *)
Definition down (p c : N) : Prop := exists ps, sym_in ps /\ s_id ps = p /\ In c (listed ps).

(* a path of child/member listings from the module symbol to x *)
Inductive root_path : list N -> N -> Prop :=
| RP_root : root_path [t_root t] (t_root t)
| RP_step : forall l p c, root_path l p -> down p c -> root_path (l ++ [c]) c.

(* x and all its ancestors below the module symbol consist of definitions only *)
Inductive def_chain : N -> Prop :=
| DC_root : def_chain (t_root t)
| DC_step : forall s p, sym_in s -> all_def s = true -> s_parent s = Some p -> def_chain p ->
            def_chain (s_id s).

(* a is the k-th parent of x *)
Fixpoint ancestor (k : nat) (x a : N) : Prop :=
  match k with
  | O => x = a
  | S k' => exists s p, sym_in s /\ s_id s = x /\ s_parent s = Some p /\ ancestor k' p a
  end.

Record wf_symtab : Prop := {
  wf_ids : NoDup (map s_id (t_syms t));
  wf_root : exists r, sym_in r /\ s_id r = t_root t /\ s_parent r = None;
  wf_orphan : forall s, sym_in s -> s_parent s = None -> s_id s = t_root t;
  (* every other symbol has an existing parent; a definition symbol is listed there
     exactly once (children and members together), an alias symbol is not listed *)
  wf_parent : forall s, sym_in s -> s_id s <> t_root t ->
      exists p ps, s_parent s = Some p /\ sym_in ps /\ s_id ps = p /\
        (all_def s = true -> count (s_id s) (listed ps) = 1%nat) /\
        (all_def s = false -> ~ In (s_id s) (listed ps));
  (* every child / member id exists and is listed nowhere but at its parent *)
  wf_listed : forall ps c, sym_in ps -> In c (listed ps) ->
      exists cs, sym_in cs /\ s_id cs = c /\ s_parent cs = Some (s_id ps);
  wf_not_both : forall ps c, sym_in ps -> ~ (In c (s_children ps) /\ In c (s_members ps));
  wf_acyclic : forall s, sym_in s ->
      exists k, (k <= length (t_syms t))%nat /\ ancestor k (s_id s) (t_root t);
  wf_unique_path : forall x l1 l2, root_path l1 x -> root_path l2 x -> l1 = l2;
  wf_reachable : forall x, def_chain x -> exists l, root_path l x;
  wf_exports : forall s n i, sym_in s -> In (n, i) (s_exports s) -> exists x, sym_in x /\ s_id x = i;
  wf_decls : forall s d, sym_in s -> In d (s_decls s) ->
      d_name d = s_name s /\ d_start d <= d_end d /\ d_end d <= t_len t
}.

Lemma find_sym_some : forall id s, find_sym t id = Some s -> sym_in s /\ s_id s = id.
Proof.
  intros id s H. unfold find_sym in H. apply find_some in H. destruct H as [H1 H2].
  apply N.eqb_eq in H2. split; assumption.
Qed.

Lemma find_sym_in : forall s, NoDup (map s_id (t_syms t)) -> sym_in s -> find_sym t (s_id s) = Some s.
Proof.
  intros s. unfold sym_in, find_sym. induction (t_syms t) as [|a l IH]; intros Hnd Hin; [destruct Hin|].
  cbn [map] in Hnd. inversion Hnd as [|? ? Hn Hnd']; subst. cbn [find].
  destruct Hin as [Hin|Hin].
  - subst a. rewrite N.eqb_refl. reflexivity.
  - destruct (N.eqb (s_id a) (s_id s)) eqn:E.
    + apply N.eqb_eq in E. exfalso. apply Hn. rewrite E. apply in_map. exact Hin.
    + apply IH; assumption.
Qed.

Lemma sym_id_inj : forall a b, NoDup (map s_id (t_syms t)) -> sym_in a -> sym_in b -> s_id a = s_id b -> a = b.
Proof.
  intros a b Hnd Ha Hb He. pose proof (find_sym_in a Hnd Ha) as H1. pose proof (find_sym_in b Hnd Hb) as H2.
  rewrite He in H1. rewrite H1 in H2. inversion H2. reflexivity.
Qed.

Lemma reaches_root_ancestor : forall fuel id, reaches_root t fuel id = true ->
  exists k, (k <= fuel)%nat /\ ancestor k id (t_root t).
Proof.
  induction fuel as [|f IH]; intros id H; cbn [reaches_root] in H.
  - destruct (N.eqb id (t_root t)) eqn:E; [|discriminate]. apply N.eqb_eq in E.
    exists O. split; [lia | exact E].
  - destruct (N.eqb id (t_root t)) eqn:E.
    + apply N.eqb_eq in E. exists O. split; [lia | exact E].
    + destruct (find_sym t id) as [s|] eqn:Ef; [|discriminate].
      destruct (s_parent s) as [p|] eqn:Ep; [|discriminate].
      apply IH in H. destruct H as [k [Hk Ha]].
      apply find_sym_some in Ef. destruct Ef as [Hin Hid].
      exists (S k). split; [lia|]. cbn [ancestor]. exists s, p. repeat split; assumption.
Qed.

Theorem wf_symtabb_sound : wf_symtabb t = true -> wf_symtab.
Proof.
  unfold wf_symtabb, wf_symtabb_ex. intro H.
  apply andb_prop in H. destruct H as [H Hall]. apply andb_prop in H. destruct H as [Hnd Hroot].
  apply nodupb_NoDup in Hnd. rewrite forallb_forall in Hall.
  (* per-symbol facts *)
  assert (Hsym : forall s, sym_in s ->
            parent_okb no_excuse t s = true /\ listed_okb no_excuse t s = true /\ exports_okb t s = true /\
            forallb (decl_okb no_excuse t s) (s_decls s) = true /\
            reaches_root t (length (t_syms t)) (s_id s) = true).
  { intros s Hs. specialize (Hall s Hs). unfold sym_okb in Hall.
    apply andb_prop in Hall. destruct Hall as [Hall H5]. apply andb_prop in Hall. destruct Hall as [Hall H4].
    apply andb_prop in Hall. destruct Hall as [Hall H3]. apply andb_prop in Hall. destruct Hall as [H1 H2].
    repeat split; assumption. }
  (* root *)
  assert (Hr : exists r, sym_in r /\ s_id r = t_root t /\ s_parent r = None).
  { unfold root_okb in Hroot. destruct (find_sym t (t_root t)) as [r|] eqn:Ef; [|discriminate].
    apply find_sym_some in Ef. destruct Ef as [Hin Hid].
    destruct (s_parent r) eqn:Ep; [discriminate|]. exists r. repeat split; assumption. }
  (* parent facts *)
  assert (Hpar : forall s, sym_in s -> s_id s <> t_root t ->
      exists p ps, s_parent s = Some p /\ sym_in ps /\ s_id ps = p /\
        (all_def s = true -> count (s_id s) (listed ps) = 1%nat) /\
        (all_def s = false -> ~ In (s_id s) (listed ps))).
  { intros s Hs Hne. destruct (Hsym s Hs) as [H1 _]. unfold parent_okb in H1.
    destruct (s_parent s) as [p|] eqn:Ep.
    - apply andb_prop in H1. destruct H1 as [_ H1].
      destruct (find_sym t p) as [ps|] eqn:Ef; [|discriminate].
      apply find_sym_some in Ef. destruct Ef as [Hin Hid].
      exists p, ps. split; [reflexivity|]. split; [exact Hin|]. split; [exact Hid|].
      unfold no_excuse in H1. cbn [orb] in H1.
      destruct (all_def s); split; intro Hd; try discriminate.
      + apply Nat.eqb_eq in H1. exact H1.
      + apply Nat.eqb_eq in H1. intro Hin'. apply count_In in Hin'. lia.
    - apply N.eqb_eq in H1. contradiction. }
  assert (Horph : forall s, sym_in s -> s_parent s = None -> s_id s = t_root t).
  { intros s Hs Hp. destruct (Hsym s Hs) as [H1 _]. unfold parent_okb in H1. rewrite Hp in H1.
    apply N.eqb_eq in H1. exact H1. }
  assert (Hlisted : forall ps c, sym_in ps -> In c (listed ps) ->
      exists cs, sym_in cs /\ s_id cs = c /\ s_parent cs = Some (s_id ps)).
  { intros ps c Hps Hc. destruct (Hsym ps Hps) as [_ [H2 _]]. unfold listed_okb in H2.
    rewrite forallb_forall in H2. specialize (H2 c Hc).
    destruct (find_sym t c) as [cs|] eqn:Ef; [|discriminate].
    apply find_sym_some in Ef. destruct Ef as [Hin Hid].
    unfold no_excuse in H2. cbn [orb] in H2. apply opt_eqb_eq in H2.
    exists cs. repeat split; assumption. }
  (* the parent of a listed symbol is the lister *)
  assert (Hdown : forall p c, down p c -> forall cs, sym_in cs -> s_id cs = c -> s_parent cs = Some p).
  { intros p c [ps [Hps [Hid Hc]]] cs Hcs Hcid.
    destruct (Hlisted ps c Hps Hc) as [cs' [Hcs' [Hid' Hp']]].
    assert (cs = cs') by (apply sym_id_inj; try assumption; congruence). subst cs'. rewrite Hp'. rewrite Hid. reflexivity. }
  assert (Hnoroot : forall p, ~ down p (t_root t)).
  { intros p Hd. destruct Hr as [r [Hrin [Hrid Hrp]]]. pose proof (Hdown p (t_root t) Hd r Hrin Hrid) as Hc.
    rewrite Hrp in Hc. discriminate. }
  constructor.
  - exact Hnd.
  - exact Hr.
  - exact Horph.
  - exact Hpar.
  - exact Hlisted.
  - intros ps c Hps [Hc Hm].
    assert (Hl : In c (listed ps)) by (unfold listed; apply in_or_app; left; exact Hc).
    destruct (Hlisted ps c Hps Hl) as [cs [Hcs [Hid Hp]]].
    assert (Hne : s_id cs <> t_root t).
    { intro He. destruct Hr as [r [Hrin [Hrid Hrp]]].
      assert (cs = r) by (apply sym_id_inj; try assumption; congruence). subst. rewrite Hrp in Hp. discriminate. }
    destruct (Hpar cs Hcs Hne) as [p [ps' [Hp' [Hps' [Hid' [Hdef Hali]]]]]].
    rewrite Hp in Hp'. inversion Hp' as [Hpe].
    assert (ps' = ps) by (apply sym_id_inj; try assumption; congruence). subst ps'.
    assert (Hcnt : (2 <= count (s_id cs) (listed ps))%nat).
    { unfold listed. rewrite count_app. rewrite Hid.
      apply count_In in Hc. apply count_In in Hm. lia. }
    destruct (all_def cs) eqn:Ed.
    + specialize (Hdef eq_refl). lia.
    + apply (Hali eq_refl). rewrite Hid. exact Hl.
  - intros s Hs. destruct (Hsym s Hs) as [_ [_ [_ [_ H5]]]]. apply reaches_root_ancestor. exact H5.
  - intros x l1 l2 H1. revert l2. induction H1 as [|l p c H1 IH Hd]; intros l2 H2.
    + inversion H2 as [|l' p' c' H2' Hd' Heq]; [reflexivity|]. subst. exfalso. exact (Hnoroot p' Hd').
    + inversion H2 as [Heq1 Heq2|l' p' c' H2' Hd' Heq].
      * rewrite <- Heq2 in Hd. exfalso. exact (Hnoroot p Hd).
      * subst. destruct Hd as [ps [Hps [Hpid Hc]]].
        destruct (Hlisted ps c Hps Hc) as [cs [Hcs [Hcid Hcp]]].
        pose proof (Hdown p' c Hd' cs Hcs Hcid) as Hp'. rewrite Hcp in Hp'. inversion Hp' as [Hpp].
        rewrite Hpid in Hpp. subst p'. rewrite (IH l' H2'). reflexivity.
  - intros x Hx. induction Hx as [|s p Hs Hd Hp _ IH].
    + exists [t_root t]. constructor.
    + destruct IH as [l Hl]. destruct (N.eq_dec (s_id s) (t_root t)) as [He|Hne].
      * rewrite He. exists [t_root t]. constructor.
      * destruct (Hpar s Hs Hne) as [p' [ps [Hp' [Hps [Hpid [Hdef _]]]]]].
        rewrite Hp in Hp'. inversion Hp' as [Hpe].
        exists (l ++ [s_id s]). apply RP_step with (p := p); [exact Hl|].
        exists ps. split; [exact Hps|]. split; [congruence|]. apply count_In. rewrite (Hdef Hd). lia.
  - intros s n i Hs Hin. destruct (Hsym s Hs) as [_ [_ [H3 _]]]. unfold exports_okb in H3.
    rewrite forallb_forall in H3. specialize (H3 (n, i) Hin). cbn [snd] in H3.
    destruct (find_sym t i) as [x|] eqn:Ef; [|discriminate].
    apply find_sym_some in Ef. exists x. exact Ef.
  - intros s d Hs Hd. destruct (Hsym s Hs) as [_ [_ [_ [H4 _]]]]. rewrite forallb_forall in H4.
    specialize (H4 d Hd). unfold decl_okb, no_excuse in H4. cbn [orb] in H4.
    apply andb_prop in H4. destruct H4 as [H4 Hc]. apply andb_prop in H4. destruct H4 as [Ha Hb].
    apply opt_eqb_eq in Ha. apply N.leb_le in Hb. apply N.leb_le in Hc. repeat split; assumption.
Qed.

End Wf.

(* ------------------------------------------------------------------ *)
(* Part C: what the go-to-definition result checker guarantees         *)

Definition gres_ok (w : sworld) (g : gres) : Prop :=
  match g with
  | GDef m s i star =>
      exists md sy d, lookup m (sw_mods w) = Some md /\ sym_in (sm_tab md) sy /\ s_id sy = s /\
                      nth_error (s_decls sy) (N.to_nat i) = Some d /\
                      d_kind d = (if star then 4 else 0)
  | GUnres m _ => In m (map fst (sw_mods w))
  end.

Theorem goto_okb_sound : forall w gs, goto_okb w gs = true ->
  forall q g, In q gs -> In g (snd q) -> gres_ok w g.
Proof.
  intros w gs H q g Hq Hg. unfold goto_okb in H. rewrite forallb_forall in H.
  specialize (H q Hq). rewrite forallb_forall in H. specialize (H g Hg).
  destruct g as [m s i star|m k]; cbn [gres_okb gres_ok] in *.
  - destruct (lookup m (sw_mods w)) as [md|] eqn:El; [|discriminate].
    destruct (find_sym (sm_tab md) s) as [sy|] eqn:Ef; [|discriminate].
    destruct (nth_error (s_decls sy) (N.to_nat i)) as [d|] eqn:En; [|discriminate].
    apply find_sym_some in Ef. destruct Ef as [Hin Hid].
    exists md, sy, d. repeat split; try assumption.
    destruct star; apply N.eqb_eq in H; exact H.
  - apply has_key_In. exact H.
Qed.

(* ------------------------------------------------------------------ *)
(* Part D: go-to-definition, fragment without qualified names          *)

Lemma ueqb_eq : forall a b, ueqb a b = true <-> a = b.
Proof.
  intros [a1 a2] [b1 b2]. unfold ueqb. cbn [fst snd]. rewrite andb_true_iff. rewrite !N.eqb_eq.
  split; [intros [H1 H2]; subst; reflexivity | intro H; inversion H; split; reflexivity].
Qed.

Lemma umem_In : forall u l, umem u l = true <-> In u l.
Proof.
  intros u l. unfold umem. rewrite existsb_exists. split.
  - intros [x [Hx He]]. apply ueqb_eq in He. subst. exact Hx.
  - intro H. exists u. split; [exact H | apply ueqb_eq; reflexivity].
Qed.

Lemma umem_false_In : forall u l, umem u l = false <-> ~ In u l.
Proof.
  intros u l. rewrite <- umem_In. destruct (umem u l); split; intro H;
    try reflexivity; try discriminate; try (intro H'; discriminate); exfalso; apply H; reflexivity.
Qed.

Definition unseen2 (U v : list usym) : nat := length (filter (fun u => negb (umem u v)) U).

Lemma unseen2_incl : forall U a b, incl a b -> (unseen2 U b <= unseen2 U a)%nat.
Proof.
  intros U a b Hi. unfold unseen2. induction U as [|u l IH]; cbn [filter length]; [lia|].
  destruct (umem u b) eqn:Eb; destruct (umem u a) eqn:Ea; cbn [negb length]; try lia.
  apply umem_In in Ea. apply Hi in Ea. apply umem_In in Ea. rewrite Ea in Eb. discriminate.
Qed.

Lemma unseen2_cons : forall U v y, In y U -> ~ In y v -> (unseen2 U (y :: v) < unseen2 U v)%nat.
Proof.
  intros U v y Hy Hn. unfold unseen2.
  assert (Hle : forall l, (length (filter (fun u => negb (umem u (y :: v))) l)
                           <= length (filter (fun u => negb (umem u v)) l))%nat).
  { intro l. apply (unseen2_incl l v (y :: v)). intros x Hx. right. exact Hx. }
  induction U as [|u l IH]; [destruct Hy|].
  cbn [filter]. destruct Hy as [Hy|Hy].
  - subst u. assert (E1 : umem y (y :: v) = true) by (apply umem_In; left; reflexivity).
    assert (E2 : umem y v = false) by (apply umem_false_In; exact Hn).
    rewrite E1, E2. cbn [negb length]. specialize (Hle l). lia.
  - specialize (IH Hy).
    destruct (umem u (y :: v)) eqn:E1; destruct (umem u v) eqn:E2; cbn [negb length]; try lia.
    apply umem_In in E2. assert (Hc : In u (y :: v)) by (right; exact E2).
    apply umem_In in Hc. rewrite Hc in E1. discriminate.
Qed.

Section Goto.
Variable w : sworld.

Notation rec_t := (N -> N -> list usym -> option (list gres * list usym)).

(* a leaf of the path tree: an existing Definition declaration (or the FileRef Star
   declaration of an ExportStar definition), or an explicit unresolved marker *)
Definition leaf_ok (g : gres) : Prop :=
  match g with
  | GDef m s i star =>
      exists sy d, find_sym (sm_tab (get_mod w m)) s = Some sy /\
                   nth_error (s_decls sy) (N.to_nat i) = Some d /\
                   d_kind d = (if star then 4 else 0)
  | GUnres _ _ => True
  end.

Definition rec_mono (rec : rec_t) : Prop :=
  forall m s v ls v', rec m s v = Some (ls, v') -> incl v v'.
Definition rec_total (f : nat) (rec : rec_t) : Prop :=
  forall m s v, (unseen2 (universe w) v <= f)%nat -> rec m s v <> None.
Definition rec_ok (rec : rec_t) : Prop :=
  forall m s v ls v', rec m s v = Some (ls, v') -> Forall leaf_ok ls.

Lemma fes_mono : forall rec, rec_mono rec -> forall dep name stars v ls v',
  file_export_stars rec w dep name stars v = Some (ls, v') -> incl v v'.
Proof.
  intros rec Hm dep name. induction stars as [|[text tgt] rest IH]; intros v ls v' H; cbn [file_export_stars] in H.
  - inversion H; subst. intros x Hx; exact Hx.
  - destruct (option_bind tgt (spec_to_module w)) as [m'|]; [|apply (IH _ _ _ H)].
    destruct (exports_inner (length (sw_mods w)) w m' []) as [[inner vi]|]; [|discriminate].
    destruct (lookup name (resolved inner)) as [it|]; [|apply (IH _ _ _ H)].
    destruct (rec (fst (item_export it)) (snd (item_export it)) v) as [[paths v1]|] eqn:Er; [|discriminate].
    pose proof (Hm _ _ _ _ _ Er) as H1.
    destruct paths as [|p ps].
    + intros x Hx. apply (IH _ _ _ H). apply H1. exact Hx.
    + inversion H; subst. exact H1.
Qed.

Lemma fes_ok : forall rec, rec_ok rec -> forall dep name stars v ls v',
  file_export_stars rec w dep name stars v = Some (ls, v') -> Forall leaf_ok ls.
Proof.
  intros rec Hk dep name. induction stars as [|[text tgt] rest IH]; intros v ls v' H; cbn [file_export_stars] in H.
  - inversion H; subst. constructor; [exact I | constructor].
  - destruct (option_bind tgt (spec_to_module w)) as [m'|]; [|apply (IH _ _ _ H)].
    destruct (exports_inner (length (sw_mods w)) w m' []) as [[inner vi]|]; [|discriminate].
    destruct (lookup name (resolved inner)) as [it|]; [|apply (IH _ _ _ H)].
    destruct (rec (fst (item_export it)) (snd (item_export it)) v) as [[paths v1]|] eqn:Er; [|discriminate].
    pose proof (Hk _ _ _ _ _ Er) as H1.
    destruct paths as [|p ps].
    + apply (IH _ _ _ H).
    + inversion H; subst. exact H1.
Qed.

Lemma fes_total : forall f rec, rec_mono rec -> rec_total f rec -> forall dep name stars v,
  (unseen2 (universe w) v <= f)%nat -> file_export_stars rec w dep name stars v <> None.
Proof.
  intros f rec Hm Ht dep name. induction stars as [|[text tgt] rest IH]; intros v Hle; cbn [file_export_stars].
  - discriminate.
  - destruct (option_bind tgt (spec_to_module w)) as [m'|] eqn:Et; [|apply IH; exact Hle].
    destruct tgt as [sp|]; cbn [option_bind] in Et; [|discriminate].
    assert (Hk : has_key m' (sw_mods w) = true).
    { apply has_key_In. apply (spec_to_module_key w sp m' Et). }
    pose proof (exports_inner_top w m' Hk) as Htop.
    destruct (exports_inner (length (sw_mods w)) w m' []) as [[inner vi]|]; [|exfalso; apply Htop; reflexivity].
    destruct (lookup name (resolved inner)) as [it|]; [|apply IH; exact Hle].
    destruct (rec (fst (item_export it)) (snd (item_export it)) v) as [[paths v1]|] eqn:Er.
    + destruct paths as [|p ps]; [|discriminate].
      apply IH. pose proof (unseen2_incl (universe w) v v1 (Hm _ _ _ _ _ Er)). lia.
    + exfalso. exact (Ht _ _ _ Hle Er).
Qed.

(* one declaration of the loop: the `step` of decls_loop *)
Definition decl_step (rec : rec_t) (m s : N) (d : sdecl) (i : N) (visited : list usym) :=
  if N.eqb (d_kind d) 0 then Some ([GDef m s i false], visited)
  else if N.eqb (d_kind d) 4 then Some ([GDef m s i true], visited)
  else if N.eqb (d_kind d) 1 then
    match d_target d with
    | Some s' => rec m s' visited
    | None => Some ([], visited)
    end
  else if N.eqb (d_kind d) 3 then
    match option_bind (d_file d) (spec_to_module w) with
    | None => Some ([GUnres m 1], visited)
    | Some dep =>
        match own_export_symbol w dep (d_import d) with
        | Some es => rec dep es visited
        | None => file_export_stars rec w dep (d_import d) (sm_stars (get_mod w dep)) visited
        end
    end
  else Some ([GUnres m NOT_MODELLED], visited).

Lemma decls_loop_unfold : forall rec m s d rest i v,
  decls_loop rec w m s (d :: rest) i v =
  match decl_step rec m s d i v with
  | None => None
  | Some (ls, v1) =>
      match decls_loop rec w m s rest (i + 1) v1 with
      | None => None
      | Some (ls', v2) => Some (ls ++ ls', v2)
      end
  end.
Proof. intros. reflexivity. Qed.

Lemma step_mono : forall rec, rec_mono rec -> forall m s d i v ls v',
  decl_step rec m s d i v = Some (ls, v') -> incl v v'.
Proof.
  intros rec Hm m s d i v ls v' H. unfold decl_step in H.
  destruct (N.eqb (d_kind d) 0); [inversion H; subst; intros x Hx; exact Hx|].
  destruct (N.eqb (d_kind d) 4); [inversion H; subst; intros x Hx; exact Hx|].
  destruct (N.eqb (d_kind d) 1).
  { destruct (d_target d) as [s'|]; [apply (Hm _ _ _ _ _ H) | inversion H; subst; intros x Hx; exact Hx]. }
  destruct (N.eqb (d_kind d) 3); [|inversion H; subst; intros x Hx; exact Hx].
  destruct (option_bind (d_file d) (spec_to_module w)) as [dep|]; [|inversion H; subst; intros x Hx; exact Hx].
  destruct (own_export_symbol w dep (d_import d)) as [es|]; [apply (Hm _ _ _ _ _ H) | apply (fes_mono rec Hm _ _ _ _ _ _ H)].
Qed.

Lemma step_total : forall f rec, rec_mono rec -> rec_total f rec -> forall m s d i v,
  (unseen2 (universe w) v <= f)%nat -> decl_step rec m s d i v <> None.
Proof.
  intros f rec Hm Ht m s d i v Hle. unfold decl_step.
  destruct (N.eqb (d_kind d) 0); [discriminate|].
  destruct (N.eqb (d_kind d) 4); [discriminate|].
  destruct (N.eqb (d_kind d) 1).
  { destruct (d_target d) as [s'|]; [apply Ht; exact Hle | discriminate]. }
  destruct (N.eqb (d_kind d) 3); [|discriminate].
  destruct (option_bind (d_file d) (spec_to_module w)) as [dep|]; [|discriminate].
  destruct (own_export_symbol w dep (d_import d)) as [es|]; [apply Ht; exact Hle | apply (fes_total f rec Hm Ht); exact Hle].
Qed.

Lemma step_ok : forall rec, rec_ok rec -> forall m s sy d i v ls v',
  find_sym (sm_tab (get_mod w m)) s = Some sy ->
  nth_error (s_decls sy) (N.to_nat i) = Some d ->
  decl_step rec m s d i v = Some (ls, v') -> Forall leaf_ok ls.
Proof.
  intros rec Hk m s sy d i v ls v' Hf Hn H. unfold decl_step in H.
  destruct (N.eqb (d_kind d) 0) eqn:E0.
  { inversion H; subst. constructor; [|constructor]. cbn [leaf_ok]. exists sy, d.
    apply N.eqb_eq in E0. repeat split; assumption. }
  destruct (N.eqb (d_kind d) 4) eqn:E4.
  { inversion H; subst. constructor; [|constructor]. cbn [leaf_ok]. exists sy, d.
    apply N.eqb_eq in E4. repeat split; assumption. }
  destruct (N.eqb (d_kind d) 1).
  { destruct (d_target d) as [s'|]; [apply (Hk _ _ _ _ _ H) | inversion H; subst; constructor]. }
  destruct (N.eqb (d_kind d) 3); [|inversion H; subst; constructor; [exact I | constructor]].
  destruct (option_bind (d_file d) (spec_to_module w)) as [dep|]; [|inversion H; subst; constructor; [exact I | constructor]].
  destruct (own_export_symbol w dep (d_import d)) as [es|]; [apply (Hk _ _ _ _ _ H) | apply (fes_ok rec Hk _ _ _ _ _ _ H)].
Qed.

Lemma dl_mono : forall rec, rec_mono rec -> forall m s ds i v ls v',
  decls_loop rec w m s ds i v = Some (ls, v') -> incl v v'.
Proof.
  intros rec Hm m s. induction ds as [|d rest IH]; intros i v ls v' H.
  - cbn [decls_loop] in H. inversion H; subst. intros x Hx; exact Hx.
  - rewrite decls_loop_unfold in H.
    destruct (decl_step rec m s d i v) as [[l1 v1]|] eqn:Es; [|discriminate].
    destruct (decls_loop rec w m s rest (i + 1) v1) as [[l2 v2]|] eqn:El; [|discriminate].
    inversion H; subst. intros x Hx. apply (IH _ _ _ _ El). apply (step_mono rec Hm _ _ _ _ _ _ _ Es). exact Hx.
Qed.

Lemma dl_total : forall f rec, rec_mono rec -> rec_total f rec -> forall m s ds i v,
  (unseen2 (universe w) v <= f)%nat -> decls_loop rec w m s ds i v <> None.
Proof.
  intros f rec Hm Ht m s. induction ds as [|d rest IH]; intros i v Hle.
  - cbn [decls_loop]. discriminate.
  - rewrite decls_loop_unfold.
    destruct (decl_step rec m s d i v) as [[l1 v1]|] eqn:Es;
      [|exfalso; exact (step_total f rec Hm Ht m s d i v Hle Es)].
    assert (Hle1 : (unseen2 (universe w) v1 <= f)%nat).
    { pose proof (unseen2_incl (universe w) v v1 (step_mono rec Hm _ _ _ _ _ _ _ Es)). lia. }
    destruct (decls_loop rec w m s rest (i + 1) v1) as [[l2 v2]|] eqn:El; [discriminate|].
    exfalso. exact (IH (i + 1) v1 Hle1 El).
Qed.

Lemma dl_ok : forall rec, rec_ok rec -> forall m s sy,
  find_sym (sm_tab (get_mod w m)) s = Some sy ->
  forall ds i v ls v',
  (forall k d, nth_error ds k = Some d -> nth_error (s_decls sy) (N.to_nat i + k) = Some d) ->
  decls_loop rec w m s ds i v = Some (ls, v') -> Forall leaf_ok ls.
Proof.
  intros rec Hk m s sy Hf. induction ds as [|d rest IH]; intros i v ls v' Hnth H.
  - cbn [decls_loop] in H. inversion H; subst. constructor.
  - rewrite decls_loop_unfold in H.
    destruct (decl_step rec m s d i v) as [[l1 v1]|] eqn:Es; [|discriminate].
    destruct (decls_loop rec w m s rest (i + 1) v1) as [[l2 v2]|] eqn:El; [|discriminate].
    inversion H; subst. apply Forall_app. split.
    + apply (step_ok rec Hk m s sy d i v l1 v1 Hf); [|exact Es].
      specialize (Hnth O d eq_refl). rewrite Nat.add_0_r in Hnth. exact Hnth.
    + apply (IH (i + 1) v1 l2 v'); [|exact El].
      intros k d0 Hk0. specialize (Hnth (S k) d0 Hk0).
      replace (N.to_nat (i + 1) + k)%nat with (N.to_nat i + S k)%nat by lia. exact Hnth.
Qed.

Lemma in_universe : forall m s sy, find_sym (sm_tab (get_mod w m)) s = Some sy -> In (m, s) (universe w).
Proof.
  intros m s sy H. unfold get_mod in H.
  destruct (lookup m (sw_mods w)) as [md|] eqn:El.
  - apply lookup_In in El. apply find_sym_some in H. destruct H as [Hin Hid].
    unfold universe. apply in_flat_map. exists (m, md). split; [exact El|].
    cbn [fst snd]. apply in_map_iff. exists sy. split; [rewrite Hid; reflexivity | exact Hin].
  - cbn in H. discriminate.
Qed.

Lemma find_defs_mono : forall fuel, rec_mono (find_defs fuel w).
Proof.
  induction fuel as [|f IH]; intros m s v ls v' H; cbn [find_defs] in H.
  - destruct (umem (m, s) v); [inversion H; subst; intros x Hx; exact Hx|].
    destruct (find_sym (sm_tab (get_mod w m)) s); [discriminate | inversion H; subst; intros x Hx; exact Hx].
  - destruct (umem (m, s) v); [inversion H; subst; intros x Hx; exact Hx|].
    destruct (find_sym (sm_tab (get_mod w m)) s) as [sy|]; [|inversion H; subst; intros x Hx; exact Hx].
    intros x Hx. apply (dl_mono _ IH _ _ _ _ _ _ _ H). right. exact Hx.
Qed.

Lemma find_defs_ok : forall fuel, rec_ok (find_defs fuel w).
Proof.
  induction fuel as [|f IH]; intros m s v ls v' H; cbn [find_defs] in H.
  - destruct (umem (m, s) v); [inversion H; subst; constructor|].
    destruct (find_sym (sm_tab (get_mod w m)) s); [discriminate | inversion H; subst; constructor].
  - destruct (umem (m, s) v); [inversion H; subst; constructor|].
    destruct (find_sym (sm_tab (get_mod w m)) s) as [sy|] eqn:Ef; [|inversion H; subst; constructor].
    apply (dl_ok _ IH m s sy Ef (s_decls sy) 0 ((m, s) :: v) ls v'); [|exact H].
    intros k d Hk. cbn. exact Hk.
Qed.

Lemma find_defs_total : forall fuel, rec_total fuel (find_defs fuel w).
Proof.
  induction fuel as [|f IH]; intros m s v Hle; cbn [find_defs].
  - destruct (umem (m, s) v) eqn:Eu; [discriminate|].
    destruct (find_sym (sm_tab (get_mod w m)) s) as [sy|] eqn:Ef; [|discriminate].
    apply umem_false_In in Eu. pose proof (unseen2_cons (universe w) v (m, s) (in_universe m s sy Ef) Eu) as Hlt. exfalso.
    apply (Nat.nlt_0_r (unseen2 (universe w) ((m, s) :: v))). eapply Nat.lt_le_trans; [exact Hlt | exact Hle].
  - destruct (umem (m, s) v) eqn:Eu; [discriminate|].
    destruct (find_sym (sm_tab (get_mod w m)) s) as [sy|] eqn:Ef; [|discriminate].
    apply umem_false_In in Eu. pose proof (unseen2_cons (universe w) v (m, s) (in_universe m s sy Ef) Eu) as Hlt.
    apply (dl_total f (find_defs f w) (find_defs_mono f) IH).
    apply Nat.lt_succ_r. eapply Nat.lt_le_trans; [exact Hlt | exact Hle].
Qed.

Theorem goto_fragment_terminates : forall m s, goto_defs w m s <> None.
Proof.
  intros m s. unfold goto_defs.
  destruct (find_defs (S (length (universe w))) w m s []) as [[ls v]|] eqn:E; [discriminate|].
  exfalso. apply (find_defs_total (S (length (universe w))) m s []); [|exact E].
  unfold unseen2. cbn [umem existsb negb].
  assert (Hf : forall l : list usym, filter (fun _ : usym => true) l = l).
  { induction l as [|x l IHl]; cbn [filter]; [reflexivity | rewrite IHl; reflexivity]. }
  rewrite Hf. lia.
Qed.

Theorem goto_fragment_sound : forall m s ls, goto_defs w m s = Some ls -> Forall leaf_ok ls.
Proof.
  intros m s ls H. unfold goto_defs in H.
  destruct (find_defs (S (length (universe w))) w m s []) as [[ls0 v]|] eqn:E; [|discriminate].
  inversion H; subst. exact (find_defs_ok _ _ _ _ _ _ E).
Qed.

End Goto.
