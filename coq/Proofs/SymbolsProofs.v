From DG Require Import Base.Util Model.Symbols.
