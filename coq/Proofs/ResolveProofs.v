(* C14: ModuleGraph::resolve and the lookups built on it. *)
From Coq Require Import Arith PeanoNat.
From DG Require Import Base.Util Base.Sexp Base.Reach Model.Graph Model.Walk Model.RunC15 Model.RunC02 Model.RunC14.

(* resolve with an explicit loop budget; [resolve] is the instance 10 *)
Definition resolve_f (f : nat) (g : graph) (s : spec) : spec :=
  match redirect_of g s with
  | None => s
  | Some s1 =>
      let seen := if N.eqb s1 s then [s] else [s1; s] in
      resolve_loop f g s1 seen
  end.

Lemma resolve_is_resolve_f : forall g s, resolve g s = resolve_f MAX_REDIRECTS g s.
Proof. reflexivity. Qed.

(* ---------- termination: the loop never needs more than 10 - |seen| rounds ---------- *)

(* The cap test happens after insertion, so a generalised statement has to
   start from a seen-set below the cap. *)
Lemma resolve_loop_fuel : forall n f1 f2 g cur seen,
  (length seen + n = 10)%nat -> (1 <= n)%nat -> (n <= f1)%nat -> (n <= f2)%nat ->
  resolve_loop f1 g cur seen = resolve_loop f2 g cur seen.
Proof.
  induction n as [|n IH]; intros f1 f2 g cur seen Hlen Hn H1 H2; [lia|].
  destruct f1 as [|f1]; [lia|]. destruct f2 as [|f2]; [lia|].
  cbn [resolve_loop].
  destruct (redirect_of g cur) as [nxt|]; [|reflexivity].
  destruct (mem nxt seen); [reflexivity|].
  destruct (Nat.leb MAX_REDIRECTS (length (nxt :: seen))) eqn:E; [reflexivity|].
  apply Nat.leb_gt in E. cbn [length] in E. unfold MAX_REDIRECTS in E.
  apply IH; cbn [length]; lia.
Qed.

Theorem resolve_total : forall f g s, (MAX_REDIRECTS <= f)%nat -> resolve_f f g s = resolve g s.
Proof.
  intros f g s Hf. unfold resolve, resolve_f.
  destruct (redirect_of g s) as [s1|]; [|reflexivity].
  destruct (N.eqb s1 s).
  - apply (resolve_loop_fuel 9); cbn [length]; unfold MAX_REDIRECTS in *; lia.
  - apply (resolve_loop_fuel 8); cbn [length]; unfold MAX_REDIRECTS in *; lia.
Qed.

(* ---------- chains ---------- *)

(* n hops from s end at e, and e is not a redirect source *)
Inductive ChainTo (g : graph) : nat -> spec -> spec -> Prop :=
| CT_end : forall s, redirect_of g s = None -> ChainTo g 0 s s
| CT_hop : forall n s t e, redirect_of g s = Some t -> ChainTo g n t e -> ChainTo g (S n) s e.

Lemma chain_functional : forall g n s e, ChainTo g n s e ->
  forall n' e', ChainTo g n' s e' -> n = n' /\ e = e'.
Proof.
  intros g n s e H. induction H as [s Hs | n s t e Hs _ IH]; intros n' e' H'.
  - inversion H'; subst; [split; reflexivity | congruence].
  - inversion H' as [|n0 s0 t0 e0 Hs0 H0]; subst; [congruence|].
    rewrite Hs in Hs0. inversion Hs0; subst.
    destruct (IH _ _ H0) as [-> ->]. split; reflexivity.
Qed.

Lemma chain_end_no_redirect : forall g n s e, ChainTo g n s e -> redirect_of g e = None.
Proof. intros g n s e H. induction H; assumption. Qed.

Lemma resolve_loop_chain : forall g e n f cur seen,
  ChainTo g n cur e -> (n <= f)%nat -> (length seen + n <= 10)%nat ->
  (forall x, In x seen -> exists k, (n <= k)%nat /\ ChainTo g k x e) ->
  resolve_loop f g cur seen = e.
Proof.
  intros g e. induction n as [|n IH]; intros f cur seen HC Hf Hlen Hinv.
  - inversion HC; subst. destruct f; cbn [resolve_loop]; [reflexivity|].
    rewrite H. reflexivity.
  - inversion HC as [|n0 s0 t e0 Hr HC']; subst.
    destruct f as [|f]; [lia|]. cbn [resolve_loop]. rewrite Hr.
    assert (Hnot : mem t seen = false).
    { apply mem_false_In. intro Hin. destruct (Hinv t Hin) as [k [Hk HCk]].
      destruct (chain_functional _ _ _ _ HC' _ _ HCk) as [Heq _]. lia. }
    rewrite Hnot.
    destruct (Nat.leb MAX_REDIRECTS (length (t :: seen))) eqn:E.
    + apply Nat.leb_le in E. cbn [length] in E. unfold MAX_REDIRECTS in E.
      assert (n = 0)%nat by lia. subst. inversion HC'; subst. reflexivity.
    + apply IH; [exact HC' | lia | cbn [length]; lia |].
      intros x [Hx|Hx].
      * subst. exists n. split; [lia | exact HC'].
      * destruct (Hinv x Hx) as [k [Hk HCk]]. exists k. split; [lia | exact HCk].
Qed.

Theorem resolve_chain : forall g n s e,
  ChainTo g n s e -> (n <= 9)%nat -> resolve g s = e.
Proof.
  intros g n s e HC Hn. unfold resolve.
  inversion HC as [s0 Hr | n0 s0 t e0 Hr HC']; subst.
  - rewrite Hr. reflexivity.
  - rewrite Hr.
    assert (Hne : N.eqb t s = false).
    { apply N.eqb_neq. intro; subst.
      destruct (chain_functional _ _ _ _ HC _ _ HC') as [Heq _]. lia. }
    rewrite Hne.
    apply (resolve_loop_chain g e n0); [exact HC' | unfold MAX_REDIRECTS; lia | cbn [length]; lia |].
    intros x [Hx|[Hx|[]]]; subst.
    + exists n0. split; [lia | exact HC'].
    + exists (S n0). split; [lia | exact HC].
Qed.

Theorem resolve_idempotent : forall g n s e,
  ChainTo g n s e -> (n <= 9)%nat -> resolve g (resolve g s) = resolve g s.
Proof.
  intros g n s e HC Hn. rewrite (resolve_chain g n s e HC Hn).
  unfold resolve. rewrite (chain_end_no_redirect _ _ _ _ HC). reflexivity.
Qed.

(* ---------- what a walk reaches ---------- *)

(* no specifier on the chain before its end owns an entry *)
Inductive NoShadow (g : graph) : nat -> spec -> Prop :=
| NS_end : forall s, NoShadow g 0 s
| NS_hop : forall n s t, slot_of g s = None -> redirect_of g s = Some t -> NoShadow g n t -> NoShadow g (S n) s.

Definition end_entry (g : graph) (e : spec) : option spec :=
  match slot_of g e with
  | Some SPending => None
  | Some _ => Some e
  | None => None
  end.

Lemma follow_chain : forall g n fuel s e,
  ChainTo g n s e -> NoShadow g n s -> (n <= fuel)%nat ->
  follow fuel g s = end_entry g e.
Proof.
  intros g. induction n as [|n IH]; intros fuel s e HC HN Hf.
  - inversion HC; subst. unfold end_entry. destruct fuel; cbn [follow];
      destruct (slot_of g e) as [[| |]|]; try reflexivity; rewrite H; reflexivity.
  - inversion HC as [|n0 s0 t e0 Hr HC']; subst.
    inversion HN as [|n1 s1 t1 Hs Hr1 HN']; subst.
    rewrite Hr in Hr1. inversion Hr1; subst t1.
    destruct fuel as [|fuel]; [lia|]. cbn [follow]. rewrite Hs, Hr.
    apply IH; [exact HC' | exact HN' | lia].
Qed.

(* chain elements are distinct redirect keys, so a chain is never longer than the redirect map *)
Fixpoint chain_list (g : graph) (n : nat) (s : spec) : list spec :=
  match n with
  | O => []
  | S n' => s :: match redirect_of g s with Some t => chain_list g n' t | None => [] end
  end.

Lemma chain_list_spec : forall g n s e, ChainTo g n s e ->
  length (chain_list g n s) = n /\
  (forall x, In x (chain_list g n s) -> exists k, (1 <= k <= n)%nat /\ ChainTo g k x e) /\
  (forall x, In x (chain_list g n s) -> In x (map fst (g_redirects g))) /\
  NoDup (chain_list g n s).
Proof.
  intros g n s e H. induction H as [s Hs | n s t e Hs HC IH].
  - cbn [chain_list]. repeat split; try constructor; intros x [].
  - cbn [chain_list]. rewrite Hs. destruct IH as [Hl [Hk [Hin Hnd]]].
    split; [cbn [length]; rewrite Hl; reflexivity|]. split; [|split].
    + intros x [Hx|Hx].
      * subst. exists (S n). split; [lia|]. eapply CT_hop; eassumption.
      * destruct (Hk x Hx) as [k [Hkr HCk]]. exists k. split; [lia | exact HCk].
    + intros x [Hx|Hx].
      * subst. apply in_map_iff. exists (x, t). split; [reflexivity | apply lookup_In; exact Hs].
      * apply Hin; exact Hx.
    + constructor; [|exact Hnd].
      intro Hx. destruct (Hk s Hx) as [k [Hkr HCk]].
      assert (HCs : ChainTo g (S n) s e) by (eapply CT_hop; eassumption).
      destruct (chain_functional _ _ _ _ HCs _ _ HCk) as [Heq _]. lia.
Qed.

Lemma chain_length_bound : forall g n s e, ChainTo g n s e -> (n <= length (g_redirects g))%nat.
Proof.
  intros g n s e H. destruct (chain_list_spec g n s e H) as [Hl [_ [Hin Hnd]]].
  rewrite <- Hl. rewrite <- (map_length fst (g_redirects g)).
  apply NoDup_incl_length; [exact Hnd | exact Hin].
Qed.

Theorem walk_end_chain : forall g n s e,
  ChainTo g n s e -> NoShadow g n s -> walk_end g s = end_entry g e.
Proof.
  intros g n s e HC HN. unfold walk_end. apply (follow_chain g n); [exact HC | exact HN|].
  unfold follow_fuel. pose proof (chain_length_bound g n s e HC). lia.
Qed.

(* ---------- the lookups agree with what the walk reaches ---------- *)

Theorem lookups_agree : forall g n s e,
  ChainTo g n s e -> (n <= 9)%nat -> NoShadow g n s ->
  (* module lookup *)
  get g s = match walk_end g s with
            | Some x => match slot_of g x with Some (SMod m) => Some m | _ => None end
            | None => None end /\
  (* membership *)
  (contains g s = true <-> exists x m, walk_end g s = Some x /\ slot_of g x = Some (SMod m)) /\
  (* error-returning lookup *)
  try_get g s = match walk_end g s with
                | Some x => match slot_of g x with
                            | Some (SMod m) => TOkMod m
                            | Some (SErr _ er) => TErr er
                            | _ => TOkNone end
                | None => TOkNone end.
Proof.
  intros g n s e HC Hn HN.
  rewrite (walk_end_chain g n s e HC HN).
  unfold get, contains, get, try_get. rewrite (resolve_chain g n s e HC Hn).
  unfold end_entry. destruct (slot_of g e) as [[m|ms er|]|] eqn:Hs; cbn.
  - rewrite Hs. repeat split; try reflexivity. intros _. exists e, m. split; [reflexivity | exact Hs].
  - rewrite Hs. repeat split; try reflexivity; try discriminate.
    intros [x [m [Hx Hm]]]. inversion Hx; subst. congruence.
  - repeat split; try reflexivity; try discriminate. intros [x [m [Hx _]]]. discriminate.
  - repeat split; try reflexivity; try discriminate. intros [x [m [Hx _]]]. discriminate.
Qed.

(* ---------- listing ---------- *)

Theorem specifiers_one_hop : forall g a b sl,
  redirect_of g a = Some b -> slot_of g b = Some sl -> slot_visible sl = true ->
  NoDup (map fst (g_redirects g)) ->
  In (a, b) (specifiers g).
Proof.
  intros g a b sl Hr Hs Hv _. unfold specifiers. apply in_or_app. right.
  apply in_flat_map. exists (a, b). split; [apply lookup_In; exact Hr|].
  cbn [fst snd]. rewrite Hs, Hv. left; reflexivity.
Qed.

Theorem specifiers_slots : forall g s sl,
  In (s, sl) (g_slots g) -> slot_visible sl = true -> In (s, s) (specifiers g).
Proof.
  intros g s sl Hin Hv. unfold specifiers. apply in_or_app. left.
  apply in_map_iff. exists (s, sl). split; [reflexivity|].
  apply filter_In. split; [exact Hin | exact Hv].
Qed.

(* ---------- type-preferring dependency resolution ---------- *)

Definition is_mod_slot (g : graph) (s : spec) : bool :=
  match slot_of g s with Some (SMod _) => true | _ => false end.

Definition dep_first_target (d : dep) (prefer_types : bool) : option spec :=
  let first := if prefer_types then d_type d else d_code d in
  let second := if prefer_types then d_code d else d_type d in
  match res_spec first with Some s => Some s | None => res_spec second end.

Theorem resolve_dependency_prefer_types : forall g d r,
  resolve_dependency_from_dep g d true = Some r ->
  exists u m, dep_first_target d true = Some u /\ slot_of g (resolve g u) = Some (SMod m) /\
    ((exists t, types_dep_target m = Some t /\ is_mod_slot g (resolve g t) = true /\ r = resolve g t) \/
     (r = resolve g u /\
      (types_dep_target m = None \/
       exists t, types_dep_target m = Some t /\ is_mod_slot g (resolve g t) = false))).
Proof.
  intros g d r H. unfold resolve_dependency_from_dep in H.
  fold (dep_first_target d true) in H.
  destruct (dep_first_target d true) as [u|] eqn:Hu; [|discriminate].
  destruct (slot_of g (resolve g u)) as [[m|? ?|]|] eqn:Hs; try discriminate.
  exists u, m. split; [reflexivity|]. split; [exact Hs|].
  destruct (types_dep_target m) as [t|] eqn:Ht.
  - unfold is_mod_slot. destruct (slot_of g (resolve g t)) as [[m'|? ?|]|] eqn:Hst; inversion H; subst.
    + left. exists t. repeat split. rewrite Hst. reflexivity.
    + right. split; [reflexivity|]. right. exists t. rewrite Hst. split; reflexivity.
    + right. split; [reflexivity|]. right. exists t. rewrite Hst. split; reflexivity.
    + right. split; [reflexivity|]. right. exists t. rewrite Hst. split; reflexivity.
  - inversion H; subst. right. split; [reflexivity|]. left; reflexivity.
Qed.

Theorem resolve_dependency_code : forall g d r,
  resolve_dependency_from_dep g d false = Some r ->
  exists u, dep_first_target d false = Some u /\ r = resolve g u /\ is_mod_slot g r = true.
Proof.
  intros g d r H. unfold resolve_dependency_from_dep in H.
  fold (dep_first_target d false) in H.
  destruct (dep_first_target d false) as [u|] eqn:Hu; [|discriminate].
  destruct (slot_of g (resolve g u)) as [[m|? ?|]|] eqn:Hs; try discriminate.
  inversion H; subst. exists u. unfold is_mod_slot. rewrite Hs. repeat split.
Qed.
