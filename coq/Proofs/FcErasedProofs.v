(* C10: the decision procedure erasedxb decides ErasedX (for every relaxation,
   in particular erasedb decides the property Erased), by induction over the
   nested mutual summary family. *)
From Coq Require Import Arith.
From DG Require Import Base.Util Base.Sexp Model.FcSummary Model.RunC10.

Lemma forallb_Forall_iff : forall {A} (f : A -> bool) (P : A -> Prop) l,
  Forall (fun x => f x = true <-> P x) l -> (forallb f l = true <-> Forall P l).
Proof.
  intros A f P l H; induction H as [|x l Hx Hl IH]; cbn [forallb].
  - split; [constructor | reflexivity].
  - rewrite andb_true_iff, Hx, IH. split.
    + intros [H1 H2]; constructor; assumption.
    + intros H0; inversion H0; subst; split; assumption.
Qed.

Lemma forallb_Forall_all : forall {A} (f : A -> bool) (P : A -> Prop) l,
  (forall x, f x = true <-> P x) -> (forallb f l = true <-> Forall P l).
Proof.
  intros A f P l H; apply forallb_Forall_iff. apply Forall_forall; intros x _; apply H.
Qed.

(* ---- unfolding equations of the mutual checker *)
Lemma leavb_node : forall r l, leavb r (ENode l) = forallb (leavb r) l.
Proof. reflexivity. Qed.
Lemma leavb_as : forall r e, leavb r (EAs e) = leavb r e.
Proof. reflexivity. Qed.
Lemma leavb_fun : forall r f, leavb r (EFun f) = fnokb r f.
Proof. reflexivity. Qed.
Lemma fnokb_eq : forall r k ps ret a g b decos c i o,
  fnokb r (FnSum k ps ret a g b decos c i o) =
  forallb (paramokb r) ps && negb decos && negb g &&
  ((bodyokb k b && retokb r k ret b && negb a)
   || (rx_arrow r && is_arrow k && negb (has_ty ret) && match b with BExpr e => leavb r e | _ => false end)).
Proof. reflexivity. Qed.
Lemma paramokb_eq : forall r pat ty opt d decos inits prop name,
  paramokb r (Param pat ty opt d decos inits prop name) =
  negb decos && negb inits && is_noprop prop && negb (is_otherpat pat) &&
  (is_enone d || leavb r d) && (has_ty ty || leavb r d).
Proof. reflexivity. Qed.

Lemma is_enone_iff : forall e, is_enone e = true <-> e = ENone.
Proof. intros e; destruct e; cbn; split; intro H; try reflexivity; try discriminate. Qed.
Lemma is_eplaceholder_iff : forall e, is_eplaceholder e = true <-> e = EPlaceholder.
Proof. intros e; destruct e; cbn; split; intro H; try reflexivity; try discriminate. Qed.
Lemma is_ctor_iff : forall k, is_ctor k = true <-> k = FCtor.
Proof. intros k; destruct k; cbn; split; intro H; try reflexivity; try discriminate. Qed.
Lemma is_setter_iff : forall k, is_setter k = true <-> k = FSetter.
Proof. intros k; destruct k; cbn; split; intro H; try reflexivity; try discriminate. Qed.
Lemma is_arrow_iff : forall k, is_arrow k = true <-> k = FArrow.
Proof. intros k; destruct k; cbn; split; intro H; try reflexivity; try discriminate. Qed.
Lemma is_bnone_iff : forall b, is_bnone b = true <-> b = BNone.
Proof. intros b; destruct b; cbn; split; intro H; try reflexivity; try discriminate. Qed.
Lemma is_otherpat_false_iff : forall p, is_otherpat p = false <-> p <> POtherPat.
Proof.
  intros p; destruct p; cbn; split; intro H; try reflexivity; try discriminate;
    try (exfalso; apply H; reflexivity).
Qed.
Lemma is_private_iff : forall a, is_private a = true <-> a = AccPrivate.
Proof. intros a; destruct a; cbn; split; intro H; try reflexivity; try discriminate. Qed.
Lemma is_noprop_iff : forall p, is_noprop p = true <-> p = None.
Proof. intros p; destruct p; cbn; split; intro H; try reflexivity; try discriminate. Qed.

Lemma bodyokb_iff : forall k b, bodyokb k b = true <-> BodyOk k b.
Proof.
  intros k b; destruct b; cbn [bodyokb BodyOk]; try (split; [intros _; exact I | intros _; reflexivity]).
  - apply is_ctor_iff.
  - apply is_eplaceholder_iff.
  - split; [discriminate | intros []].
Qed.

Lemma retokb_iff : forall r k ret b, retokb r k ret b = true <-> RetOk r k ret b.
Proof.
  intros r k ret b; unfold retokb, RetOk.
  rewrite !orb_true_iff, andb_true_iff, is_ctor_iff, is_setter_iff, is_bnone_iff. tauto.
Qed.

(* ---- the nested mutual core *)
Lemma leav_family : forall r,
  (forall e, leavb r e = true <-> Leavable r e) /\
  (forall f, fnokb r f = true <-> FnOk r f) /\
  (forall p, paramokb r p = true <-> ParamOk r p) /\
  (forall b, forall e, b = BExpr e -> (leavb r e = true <-> Leavable r e)).
Proof.
  intro r. apply ecls_family_ind.
  - (* ENone *) split; [discriminate | intro H; inversion H].
  - split; [intros _; constructor | reflexivity].
  - split; [intros _; constructor | reflexivity].
  - (* ENode *) intros l IH. rewrite leavb_node, (forallb_Forall_iff _ _ _ IH).
    split; [intro H; constructor; exact H | intro H; inversion H; subst; assumption].
  - (* EAs *) intros e IH. rewrite leavb_as, IH.
    split; [intro H; constructor; exact H | intro H; inversion H; subst; assumption].
  - (* EFun *) intros f IH. rewrite leavb_fun, IH.
    split; [intro H; constructor; exact H | intro H; inversion H; subst; assumption].
  - split; [discriminate | intro H; inversion H].
  - (* FnSum *) intros k ps ret a g b d c i o IHps IHb.
    rewrite fnokb_eq.
    rewrite !andb_true_iff, orb_true_iff, !andb_true_iff, !negb_true_iff.
    rewrite (forallb_Forall_iff _ _ _ IHps), bodyokb_iff, retokb_iff, is_arrow_iff.
    split.
    + intros [[[Hps Hd] Hg] [[[Hb Hr] Ha] | [[[Hx Hk] Ht] Hl]]]; subst.
      * apply FnOkStd; assumption.
      * destruct b as [| | | |e|]; try discriminate.
        apply FnOkArrowKept; try assumption. apply (IHb e eq_refl); exact Hl.
    + intro H; inversion H; subst.
      * repeat split; try assumption; try reflexivity. left; repeat split; assumption.
      * repeat split; try assumption; try reflexivity. right; repeat split; try assumption; try reflexivity.
        apply (IHb e eq_refl); assumption.
  - (* Param *) intros pat ty opt d decos inits prop name IHd.
    rewrite paramokb_eq.
    rewrite !andb_true_iff, !orb_true_iff, !negb_true_iff, is_noprop_iff, is_otherpat_false_iff, is_enone_iff, IHd.
    split.
    + intros [[[[[Hd Hi] Hp] Hpat] Hdef] Hty]; subst. constructor; assumption.
    + intro H; inversion H; subst. repeat split; try assumption; reflexivity.
  - intros e H; discriminate.
  - intros e H; discriminate.
  - intros e H; discriminate.
  - intros n e H; discriminate.
  - intros e IH e0 H; inversion H; subst; exact IH.
  - intros e H; discriminate.
Qed.

Lemma leavb_iff : forall r e, leavb r e = true <-> Leavable r e.
Proof. intros r; apply (leav_family r). Qed.
Lemma fnokb_iff : forall r f, fnokb r f = true <-> FnOk r f.
Proof. intros r; apply (leav_family r). Qed.
Lemma paramokb_iff : forall r p, paramokb r p = true <-> ParamOk r p.
Proof. intros r; apply (leav_family r). Qed.

(* ---- the layers above *)
Lemma bindingokb_iff : forall r ty init, bindingokb r ty init = true <-> BindingOk r ty init.
Proof.
  intros r ty init; unfold bindingokb, BindingOk, InitOk.
  rewrite andb_true_iff, !orb_true_iff, is_enone_iff, leavb_iff. tauto.
Qed.

Lemma proplikeokb_iff : forall r key a ty init decos,
  proplikeokb r key a ty init decos = true <-> PropLikeOk r key a ty init decos.
Proof.
  intros r key a ty init decos; unfold proplikeokb, PropLikeOk.
  rewrite andb_true_iff, negb_true_iff.
  destruct (k_cls key); destruct a;
    rewrite ?orb_true_iff, ?bindingokb_iff, ?andb_true_iff, ?negb_true_iff, ?is_enone_iff; try tauto;
    (split; [intros [_ H]; discriminate | intros [_ []]]).
Qed.

Lemma memberokb_iff : forall r m, memberokb r m = true <-> MemberOk r m.
Proof.
  intros r m; destruct m as [a f|key a st ab op f|key a st ty de df op ro ab ov init decos|key a st ty init decos|i| |];
    cbn [memberokb MemberOk].
  - rewrite !andb_true_iff, orb_true_iff, negb_true_iff, is_ctor_iff, fnokb_iff.
    split.
    + intros [[Hk Hf] Hp]; repeat split; try assumption.
      intro Ha; subst a. destruct Hp as [Hp|Hp]; [discriminate|].
      destruct (fn_params f); [reflexivity | discriminate].
    + intros [Hk [Hf Hp]]; repeat split; try assumption.
      destruct a; try (left; reflexivity). right; rewrite (Hp eq_refl); reflexivity.
  - rewrite !andb_true_iff, !negb_true_iff, fnokb_iff.
    split.
    + intros [[[Hh Ha] Hk] Hf]; repeat split; try assumption.
      * intro E; subst a; discriminate.
      * intro E; rewrite E in Hk; discriminate.
    + intros [Hh [Ha [Hk Hf]]]; repeat split; try assumption.
      * destruct a; try reflexivity. exfalso; apply Ha; reflexivity.
      * destruct (fn_kind f); try reflexivity. exfalso; apply Hk; reflexivity.
  - apply proplikeokb_iff.
  - rewrite andb_true_iff, negb_true_iff, proplikeokb_iff.
    split.
    + intros [Hk Hp]; split; [|exact Hp]. intro E; rewrite E in Hk; discriminate.
    + intros [Hk Hp]; split; [|exact Hp]. destruct (k_cls key); try reflexivity. exfalso; apply Hk; reflexivity.
  - split; [intros _; exact I | reflexivity].
  - split; [discriminate | intros []].
  - split; [intros _; exact I | reflexivity].
Qed.

Lemma classokb_iff : forall r c, classokb r c = true <-> ClassOk r c.
Proof.
  intros r c; unfold classokb, ClassOk.
  rewrite !andb_true_iff, !negb_true_iff, (forallb_Forall_all _ _ _ (memberokb_iff r)), Nat.leb_le.
  split.
  - intros [[[Hd Hs] Hm] Hc]; repeat split; try assumption.
    intro E; rewrite E in Hs; discriminate.
  - intros [Hd [Hs [Hm Hc]]]; repeat split; try assumption.
    destruct (c_super c); try reflexivity. exfalso; apply Hs; reflexivity.
Qed.

Lemma ambientmemberokb_iff : forall m, ambientmemberokb m = true <-> AmbientMemberOk m.
Proof.
  intros m; destruct m; cbn [ambientmemberokb AmbientMemberOk];
    try apply is_bnone_iff; try (split; [intros _; exact I | reflexivity]).
  split; [discriminate | intros []].
Qed.

Lemma varokb_iff : forall r v, varokb r v = true <-> VarOk r v.
Proof. intros r v; apply bindingokb_iff. Qed.

Lemma itemokb_iff : forall r it, itemokb r it = true <-> ItemOk r it.
Proof.
  intros r it; induction it using item_ind_strong; cbn [itemokb].
  - split; [intros _; constructor | reflexivity].
  - split; [intros _; constructor | reflexivity].
  - split; [intros _; constructor | reflexivity].
  - destruct a.
    + rewrite is_bnone_iff. split; [intro H; constructor; exact H | intro H; inversion H; subst; assumption].
    + rewrite fnokb_iff. split; [intro H; constructor; exact H | intro H; inversion H; subst; assumption].
  - destruct a.
    + rewrite (forallb_Forall_all _ _ _ ambientmemberokb_iff).
      split; [intro H; constructor; exact H | intro H; inversion H; subst; assumption].
    + rewrite classokb_iff. split; [intro H; constructor; exact H | intro H; inversion H; subst; assumption].
  - destruct a.
    + split; [intros _; constructor | reflexivity].
    + rewrite (forallb_Forall_all _ _ _ (varokb_iff r)).
      split; [intro H; constructor; exact H | intro H; inversion H; subst; assumption].
  - split; [intros _; constructor | reflexivity].
  - split; [intros _; constructor | reflexivity].
  - split; [intros _; constructor | reflexivity].
  - rewrite (forallb_Forall_iff _ _ _ H).
    split; [intro H0; constructor; exact H0 | intro H0; inversion H0; subst; assumption].
  - rewrite leavb_iff. split; [intro H; constructor; exact H | intro H; inversion H; subst; assumption].
  - split; [discriminate | intro H; inversion H].
  - rewrite negb_true_iff, N.eqb_neq.
    split; [intro H; constructor; exact H | intro H; inversion H; subst; assumption].
Qed.

Theorem erasedxb_iff : forall r m, erasedxb r m = true <-> ErasedX r m.
Proof. intros r m; unfold erasedxb, ErasedX; apply forallb_Forall_all; apply itemokb_iff. Qed.

Theorem erasedb_correct : forall m, erasedb m = true <-> Erased m.
Proof. intro m; apply erasedxb_iff. Qed.

(* ---- the class tags mean what known_findings.json says: a tagged module violates the property
   and is accepted once exactly the tagged relaxations are switched on *)
Lemma first_accepting_sound : forall m l tags, first_accepting m l = tags -> tags <> [] ->
  (forall r t, In (r, t) l -> t <> []) ->
  exists r, In (r, tags) l /\ ErasedX r m.
Proof.
  intros m l; induction l as [|[r t] l IH]; cbn [first_accepting]; intros tags H Hne Hall.
  - subst; exfalso; apply Hne; reflexivity.
  - destruct (erasedxb r m) eqn:E.
    + subst. exists r. split; [left; reflexivity | apply erasedxb_iff; exact E].
    + destruct (IH tags H Hne) as [r' [Hin Hr']].
      * intros r0 t0 H0; apply (Hall r0 t0); right; exact H0.
      * exists r'; split; [right; exact Hin | exact Hr'].
Qed.

Theorem c10_classes_sound : forall m, c10_classes m <> [] ->
  ~ Erased m /\ exists r, In (r, c10_classes m) c10_relaxations /\ ErasedX r m.
Proof.
  intros m H. unfold c10_classes in *.
  destruct (erasedxb strict m) eqn:E0; [exfalso; apply H; reflexivity|].
  split; [intro He; apply erasedb_correct in He; unfold erasedb in He; congruence|].
  apply first_accepting_sound; [reflexivity | exact H |].
  intros r t Hin. cbn in Hin.
  repeat (destruct Hin as [Hin|Hin]; [inversion Hin; subst; discriminate|]). destruct Hin.
Qed.

(* no tag: the module either satisfies the property or violates it outside every known class *)
Theorem c10_classes_none : forall m, c10_classes m = [] -> erasedb m = false ->
  forall r t, In (r, t) c10_relaxations -> ~ ErasedX r m.
Proof.
  intros m Hc He r t Hin Hr. unfold c10_classes, erasedb in *. rewrite He in Hc.
  apply erasedxb_iff in Hr.
  cbn in Hin. cbn [c10_relaxations first_accepting] in Hc.
  repeat (destruct Hin as [Hin|Hin];
          [inversion Hin; subst; clear Hin;
           repeat match type of Hc with
                  | (if erasedxb ?r0 m then _ else _) = [] =>
                      let E := fresh "E" in destruct (erasedxb r0 m) eqn:E; [discriminate|]
                  end; congruence|]).
  destruct Hin.
Qed.
