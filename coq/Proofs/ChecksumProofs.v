(* C05 over the builder model: lockfile checksums are presented on every load,
   rejected content is never admitted, checksummed URLs must not redirect,
   existing lockfile entries are never overwritten, new entries are recorded
   once. *)
From Coq Require Import Arith.
From RecordUpdate Require Import RecordSet.
Import RecordSetNotations.
From DG Require Import Base.Util Base.Sexp Model.Graph Model.Builder Proofs.BuilderProofs.

(* ---------- invariants that do not look at slots: a generic closure argument ---------- *)
Section SlotIndependent.
Variable W : world.
Variable o : bopts.
Variable P : bstate -> Prop.
Hypothesis P_ext : forall st st',
  st_pending st' = st_pending st -> st_calls st' = st_calls st ->
  st_lock st' = st_lock st -> st_lock_sets st' = st_lock_sets st -> P st -> P st'.
Hypothesis P_queue : forall st s range asset in_dyn root attr count,
  P st -> P (queue_load st s range asset in_dyn root attr count).

Lemma load_P : forall st spec0 range asset in_dyn root attr count,
  P st -> P (load W o st spec0 range asset in_dyn root attr count).
Proof.
  intros st spec0 range asset in_dyn root attr count H. unfold load.
  set (s := load_target st spec0).
  destruct (sp_reject W s asset attr).
  { eapply P_ext; [| | | |exact H]; reflexivity. }
  destruct (attr_reject o asset attr).
  { eapply P_ext; [| | | |exact H]; reflexivity. }
  assert (Hp : P match class_of W s with
                 | SNode => (set_slot st s (BMod (node_module s))) <| st_has_node := true |>
                 | SPass => set_slot st s (BExternal false)
                 | SNpm r => st <| st_npm := st_npm st ++ [{| ni_spec := s; ni_req := r; ni_range := range; ni_dyn := in_dyn |}] |>
                 | SBad => set_slot st s (BErr (BBadSpecifier s range))
                 | SUrl => queue_load st s range asset in_dyn root attr count
                 end).
  { destruct (class_of W s); [apply P_queue; exact H | | | |]; (eapply P_ext; [| | | |exact H]; reflexivity). }
  assert (Hp' : P (if has_key s (st_redirects st) then set_slot st s (BErr (BLoad s range 1))
                   else match class_of W s with
                        | SNode => (set_slot st s (BMod (node_module s))) <| st_has_node := true |>
                        | SPass => set_slot st s (BExternal false)
                        | SNpm r => st <| st_npm := st_npm st ++ [{| ni_spec := s; ni_req := r; ni_range := range; ni_dyn := in_dyn |}] |>
                        | SBad => set_slot st s (BErr (BBadSpecifier s range))
                        | SUrl => queue_load st s range asset in_dyn root attr count
                        end)).
  { destruct (has_key s (st_redirects st)); [eapply P_ext; [| | | |exact H]; reflexivity | exact Hp]. }
  clear Hp. rename Hp' into Hp.
  destruct (lookup s (st_slots st)) as [sl|]; [|exact Hp].
  destruct (match sl with BExternal true => negb asset | _ => false end); [exact Hp|].
  destruct (match sl with BPending true => negb asset | _ => false end); [|exact H].
  eapply P_ext; [| | | |exact H]; reflexivity.
Qed.

Lemma visit_dep_P : forall st da, P st -> P (fst (visit_dep W o st da)).
Proof.
  intros st [d [asset sp]] H. unfold visit_dep. cbn [fst snd dfl_asset dfl_sp].
  destruct (d_dyn d && bo_skip_dynamic o); [exact H|]. cbn [fst].
  set (st1 := if include_code (bo_kind o) || is_rnone (d_type d)
              then match d_code d with
                   | ROk t range => if d_dyn d && negb (st_in_dyn st) then _ else _
                   | _ => st end
              else st).
  assert (H1 : P st1).
  { unfold st1. destruct (include_code (bo_kind o) || is_rnone (d_type d)); [|exact H].
    destruct (d_code d) as [|t range|e]; try exact H.
    destruct (d_dyn d && negb (st_in_dyn st)).
    - eapply P_ext; [| | | |exact H]; reflexivity.
    - apply load_P. exact H. }
  destruct (include_types (bo_kind o)); [|exact H1].
  destruct (d_type d) as [|t range|e]; try exact H1.
  destruct (d_dyn d && negb (st_in_dyn st1)).
  - eapply P_ext; [| | | |exact H1]; reflexivity.
  - apply load_P. exact H1.
Qed.

Lemma visit_deps_P : forall ds st, P st -> P (fst (visit_deps W o st ds)).
Proof.
  induction ds as [|da ds IH]; intros st H; cbn [visit_deps]; [exact H|].
  destruct (visit_dep W o st da) as [st1 d1] eqn:E1.
  destruct (visit_deps W o st1 ds) as [st2 rest] eqn:E2. cbn [fst].
  change st2 with (fst (st2, rest)). rewrite <- E2. apply IH.
  change st1 with (fst (st1, d1)). rewrite <- E1. apply visit_dep_P. exact H.
Qed.

Lemma load_types_dep_P : forall st tdep, P st -> P (load_types_dep W o st tdep).
Proof.
  intros st tdep H. unfold load_types_dep.
  destruct (include_types (bo_kind o)); [|exact H].
  destruct tdep as [td|]; [|exact H]. destruct (td_res td); try exact H. apply load_P. exact H.
Qed.

Lemma visit_module_P : forall st final wm, P st -> P (fst (visit_module W o st final wm)).
Proof.
  intros st final wm H. unfold visit_module.
  assert (Hd : P (fst (visit_deps W o st (wm_deps wm)))) by (apply visit_deps_P; exact H).
  destruct (wm_kind wm); cbn [fst]; try exact Hd;
    apply load_types_dep_P; destruct (follow_deps o wm); assumption.
Qed.

Lemma load_branches_P : forall bs st, P st -> P (load_branches W o st bs).
Proof.
  induction bs as [|[s b] bs IH]; intros st H; cbn [load_branches]; [exact H|]. apply IH. apply load_P. exact H.
Qed.
Lemma load_deferred_P : forall ds st, P st -> P (load_deferred W o st ds).
Proof.
  induction ds as [|[s d] ds IH]; intros st H; cbn [load_deferred]; [exact H|]. apply IH. apply load_P. exact H.
Qed.
Lemma load_roots_P : forall roots st, P st -> P (load_roots W o st roots).
Proof.
  induction roots as [|r rs IH]; intros st H; cbn [load_roots]; [exact H|]. apply IH. apply load_P. exact H.
Qed.
Lemma load_import_deps_P : forall ds st, P st -> P (load_import_deps W o st ds).
Proof.
  induction ds as [|d ds IH]; intros st H; cbn [load_import_deps]; [exact H|].
  apply IH. destruct (d_type d); try exact H. apply load_P. exact H.
Qed.
Lemma load_imports_P : forall imps st, P st -> P (load_imports W o st imps).
Proof.
  induction imps as [|[r ds] rest IH]; intros st H; cbn [load_imports]; [exact H|].
  apply IH. apply load_import_deps_P. exact H.
Qed.
Lemma reload_specs_P : forall specs st, P st -> P (reload_specs W o st specs).
Proof.
  induction specs as [|s rest IH]; intros st H; cbn [reload_specs]; [exact H|].
  apply IH. apply load_P. eapply P_ext; [| | | |exact H]; reflexivity.
Qed.

(* what remains per invariant: popping the head, logging its calls, recording a checksum *)
Hypothesis P_process_core : forall st it rest res calls,
  P st -> st_pending st = it :: rest -> try_load W it = (res, calls) ->
  P (st <| st_pending := rest |> <| st_calls := rev calls ++ st_calls st |>).
Hypothesis P_record : forall st final media wm,
  P st -> P (record_checksum W st final media wm).

Lemma check_specifier_P : forall st a b, P st -> P (check_specifier st a b).
Proof.
  intros st a b H. unfold check_specifier. destruct (N.eqb a b); [exact H|].
  eapply P_ext; [| | | |exact H]; reflexivity.
Qed.
Lemma add_resolved_root_P : forall st s, P st -> P (add_resolved_root st s).
Proof. intros st s H. eapply P_ext; [| | | |exact H]; reflexivity. Qed.
Lemma set_slot_P : forall st s v, P st -> P (set_slot st s v).
Proof. intros st s v H. eapply P_ext; [| | | |exact H]; reflexivity. Qed.

Lemma loop_step_P : forall st, P st -> P (loop_step W o st).
Proof.
  intros st H. unfold loop_step.
  set (st1 := match st_pending st with
              | it :: rest => process W o (st <| st_pending := rest |>) it
              | [] => st end).
  assert (H1 : P st1).
  { unfold st1. destruct (st_pending st) as [|it rest] eqn:Ep; [exact H|].
    unfold process. destruct (try_load W it) as [res calls] eqn:Et.
    pose proof (P_process_core st it rest res calls H Ep Et) as H0.
    set (st0 := st <| st_pending := rest |> <| st_calls := rev calls ++ st_calls (st <| st_pending := rest |>) |>).
    assert (HS : P st0) by exact H0.
    destruct res as [e|to|final wa|final wm|final wm].
    - apply set_slot_P. apply check_specifier_P. exact HS.
    - apply load_P. apply check_specifier_P. exact HS.
    - set (st2 := if pi_root it then _ else _).
      assert (H2 : P st2).
      { unfold st2. destruct (pi_root it); [apply add_resolved_root_P|]; apply check_specifier_P; exact HS. }
      destruct (lookup final (st_slots st2)) as [[m|b|e|b]|]; try exact H2; apply set_slot_P; exact H2.
    - apply set_slot_P. apply P_record.
      destruct (pi_root it); [apply add_resolved_root_P|]; apply check_specifier_P; exact HS.
    - apply set_slot_P. apply visit_module_P. apply P_record.
      destruct (pi_root it); [apply add_resolved_root_P|]; apply check_specifier_P; exact HS. }
  destruct (st_pending st1) as [|i r]; [|exact H1].
  destruct (st_deferred st1) as [|d ds].
  - destruct (st_in_dyn st1); [exact H1|]. apply load_branches_P. eapply P_ext; [| | | |exact H1]; reflexivity.
  - apply load_deferred_P. eapply P_ext; [| | | |exact H1]; reflexivity.
Qed.

Lemma resolve_pending_P : forall fuel st st', P st -> resolve_pending fuel W o st = Some st' -> P st'.
Proof.
  induction fuel as [|f IH]; intros st st' H HR; cbn [resolve_pending] in HR.
  - destruct (idle st); [inversion HR; subst; exact H | discriminate].
  - destruct (idle st); [inversion HR; subst; exact H|]. eapply IH; [|exact HR]. apply loop_step_P. exact H.
Qed.
End SlotIndependent.

(* ---------- the checksum invariant ---------- *)
Definition init_lock (W : world) (s : spec) : option N :=
  match w_lock W with Some l => lookup s l | None => None end.

Record ChkInv (W : world) (st : bstate) : Prop := {
  ci_ext : forall s c, init_lock W s = Some c -> lock_get st s = Some c;
  ci_pending : forall it c, In it (st_pending st) -> init_lock W (pi_spec it) = Some c -> pi_checksum it = Some c;
  ci_calls : forall call c, In call (st_calls st) -> init_lock W (lc_spec call) = Some c -> lc_checksum call = Some c;
  ci_sets : forall s h, In (s, h) (st_lock_sets st) -> init_lock W s = None /\ lock_get st s = Some h;
  ci_sets_nodup : NoDup (map fst (st_lock_sets st));
  ci_locker : st_lock st = None -> st_lock_sets st = []
}.

Lemma lookup_app_l : forall {V} k (l1 l2 : list (N * V)) v, lookup k l1 = Some v -> lookup k (l1 ++ l2) = Some v.
Proof.
  intros V k l1 l2 v. induction l1 as [|[k' v'] l1 IH]; cbn [lookup app]; [discriminate|].
  destruct (N.eqb k k'); [intro H; exact H | exact IH].
Qed.
Lemma lookup_app_new : forall {V} k (l : list (N * V)) v, lookup k l = None -> lookup k (l ++ [(k, v)]) = Some v.
Proof.
  intros V k l v. induction l as [|[k' v'] l IH]; cbn [lookup app].
  - intros _. rewrite N.eqb_refl. reflexivity.
  - destruct (N.eqb k k'); [discriminate | exact IH].
Qed.

Lemma try_load_calls : forall W it res calls call,
  try_load W it = (res, calls) -> In call calls ->
  lc_spec call = pi_spec it /\ lc_checksum call = pi_checksum it.
Proof.
  intros W it res calls call H Hin. unfold try_load in H.
  assert (Hc : forall l, (l = [{| lc_spec := pi_spec it; lc_asset := pi_asset it; lc_reload := false; lc_checksum := pi_checksum it |}] \/
                          l = [{| lc_spec := pi_spec it; lc_asset := pi_asset it; lc_reload := false; lc_checksum := pi_checksum it |};
                               {| lc_spec := pi_spec it; lc_asset := pi_asset it; lc_reload := true; lc_checksum := pi_checksum it |}]) ->
                         In call l -> lc_spec call = pi_spec it /\ lc_checksum call = pi_checksum it).
  { intros l Hl Hi. destruct Hl as [Hl|Hl]; subst l; cbn [In] in Hi.
    - destruct Hi as [Hi|[]]. subst call. split; reflexivity.
    - destruct Hi as [Hi|[Hi|[]]]; subst call; split; reflexivity. }
  destruct (loader_call W (pi_spec it) false (pi_checksum it)) as [[| |to|f|f wm]|];
    try (inversion H; subst; apply (Hc _ (or_introl eq_refl) Hin)).
  destruct (loader_call W (pi_spec it) true (pi_checksum it)) as [[| |to|f|f wm]|];
    inversion H; subst; apply (Hc _ (or_intror eq_refl) Hin).
Qed.

Section ChkProofs.
Variable W : world.
Variable o : bopts.

Lemma chk_ext : forall st st',
  st_pending st' = st_pending st -> st_calls st' = st_calls st ->
  st_lock st' = st_lock st -> st_lock_sets st' = st_lock_sets st -> ChkInv W st -> ChkInv W st'.
Proof.
  intros st st' Hp Hc Hl Hs [H1 H2 H3 H4 H5 H6].
  constructor; unfold lock_get in *; rewrite ?Hp, ?Hc, ?Hl, ?Hs; assumption.
Qed.

Lemma chk_queue : forall st s range asset in_dyn root attr count,
  ChkInv W st -> ChkInv W (queue_load st s range asset in_dyn root attr count).
Proof.
  intros st s range asset in_dyn root attr count [H1 H2 H3 H4 H5 H6].
  constructor; unfold queue_load, set_slot, lock_get in *; cbn in *; try assumption.
  intros it c Hin Hi. apply in_app_or in Hin. destruct Hin as [Hin|[<-|[]]].
  - apply (H2 it c Hin Hi).
  - cbn in *. apply (H1 s c Hi).
Qed.

Lemma chk_process_core : forall st it rest res calls,
  ChkInv W st -> st_pending st = it :: rest -> try_load W it = (res, calls) ->
  ChkInv W (st <| st_pending := rest |> <| st_calls := rev calls ++ st_calls st |>).
Proof.
  intros st it rest res calls [H1 H2 H3 H4 H5 H6] Hp Ht.
  constructor; unfold lock_get in *; cbn in *; try assumption.
  - intros it' c Hin Hi. apply (H2 it' c); [rewrite Hp; right; exact Hin | exact Hi].
  - intros call c Hin Hi. apply in_app_or in Hin. destruct Hin as [Hin|Hin]; [|apply (H3 call c Hin Hi)].
    apply in_rev in Hin. destruct (try_load_calls _ _ _ _ _ Ht Hin) as [Es Ec].
    rewrite Ec. apply (H2 it c); [rewrite Hp; left; reflexivity | rewrite <- Es; exact Hi].
Qed.

Lemma chk_record : forall st final media wm,
  ChkInv W st -> ChkInv W (record_checksum W st final media wm).
Proof.
  intros st final media wm HI. unfold record_checksum.
  destruct (st_lock st) as [l|] eqn:El; [|exact HI].
  destruct (negb (is_declaration media) && mem final (w_http W) && negb (has_key final l)) eqn:Eg; [|exact HI].
  destruct HI as [H1 H2 H3 H4 H5 H6].
  apply andb_true_iff in Eg. destruct Eg as [_ Ek]. apply negb_true_iff in Ek.
  assert (Hnone : lookup final l = None).
  { unfold has_key in Ek. destruct (lookup final l); [discriminate | reflexivity]. }
  assert (Hget : forall s, lock_get st s = lookup s l).
  { intro s. unfold lock_get. rewrite El. reflexivity. }
  constructor; unfold lock_get; cbn.
  - intros s c Hi. apply lookup_app_l. rewrite <- Hget. apply (H1 s c Hi).
  - exact H2.
  - exact H3.
  - intros s h [Heq|Hin].
    + inversion Heq; subst. split.
      * destruct (init_lock W s) as [c|] eqn:Ei; [|reflexivity].
        pose proof (H1 s c Ei) as Hc. rewrite Hget, Hnone in Hc. discriminate.
      * apply lookup_app_new. exact Hnone.
    + destruct (H4 s h Hin) as [Ha Hb]. split; [exact Ha | apply lookup_app_l; rewrite <- Hget; exact Hb].
  - constructor; [|exact H5]. intro Hin. apply in_map_iff in Hin. destruct Hin as [[s h] [Heq Hin]].
    cbn [fst] in Heq. subst s. destruct (H4 final h Hin) as [_ Hb]. rewrite Hget, Hnone in Hb. discriminate.
  - intro Hx. discriminate Hx.
Qed.

Lemma chk_init : forall g, ChkInv W (init_state W o g).
Proof.
  intros g. constructor; unfold lock_get, init_lock; cbn; try (intros; contradiction); try constructor; auto.
Qed.

Theorem build_chk : forall fuel g roots imports st,
  resolve_pending fuel W o
    (load_imports W o (load_roots W o (init_state W o g) roots) imports) = Some st ->
  ChkInv W st.
Proof.
  intros fuel g roots imports st HR.
  eapply (resolve_pending_P W o (ChkInv W) chk_ext chk_queue chk_process_core chk_record); [|exact HR].
  apply (load_imports_P W o (ChkInv W) chk_ext chk_queue).
  apply (load_roots_P W o (ChkInv W) chk_ext chk_queue). apply chk_init.
Qed.
End ChkProofs.

(* ---------- statements about a completed build ---------- *)

(* (1) every loader call for a specifier the lockfile knows presents that checksum *)
Theorem build_presents_checksums : forall W o g roots imports g',
  build W o g roots imports = Some g' ->
  forall call c, In call (bg_calls g') -> init_lock W (lc_spec call) = Some c -> lc_checksum call = Some c.
Proof.
  intros W o g roots imports g' Hb call c Hin Hi. unfold build in Hb.
  match type of Hb with context [resolve_pending ?f W o ?st] => destruct (resolve_pending f W o st) as [st'|] eqn:HR end;
    [|discriminate].
  inversion Hb; subst; clear Hb. cbn [bg_calls finish] in Hin. apply in_rev in Hin.
  exact (ci_calls W st' (build_chk W o _ g _ _ st' HR) call c Hin Hi).
Qed.

(* (4) existing lockfile entries are never overwritten and each new entry is recorded once *)
Theorem build_records_once : forall W o g roots imports g',
  build W o g roots imports = Some g' ->
  NoDup (map fst (bg_lock_sets g')) /\
  (forall s h, In (s, h) (bg_lock_sets g') -> init_lock W s = None) /\
  (w_lock W = None -> bg_lock_sets g' = []).
Proof.
  intros W o g roots imports g' Hb. unfold build in Hb.
  match type of Hb with context [resolve_pending ?f W o ?st] => destruct (resolve_pending f W o st) as [st'|] eqn:HR end;
    [|discriminate].
  inversion Hb; subst; clear Hb. cbn [bg_lock_sets finish].
  pose proof (build_chk W o _ g _ _ st' HR) as HI.
  split; [|split].
  - rewrite map_rev. apply NoDup_rev. exact (ci_sets_nodup W st' HI).
  - intros s h Hin. apply in_rev in Hin. exact (proj1 (ci_sets W st' HI s h Hin)).
  - intro Hn. 
    assert (st_lock st' = None -> st_lock_sets st' = []) by exact (ci_locker W st' HI).
    (* the locker is never created during a build *)
    assert (Hl : forall st, ChkInv W st -> w_lock W = None -> True) by (intros; exact I).
    destruct (st_lock st') eqn:E; [|rewrite (H eq_refl); reflexivity].
    exfalso.
    pose proof (ci_sets W st' HI) as Hs. pose proof (ci_ext W st' HI) as He.
    (* with no initial locker the state's locker stays None: shown by a second, tiny invariant *)
    clear -HR Hn E. match type of HR with resolve_pending ?f _ _ _ = _ => revert HR E; generalize f as fuel end.
    assert (Hinv : forall fuel st st', st_lock st = None -> resolve_pending fuel W o st = Some st' -> st_lock st' = None).
    { apply (fun P ext q pc r => resolve_pending_P W o P ext q pc r).
      - intros st0 st0' _ _ Hl0 _ H0. rewrite Hl0. exact H0.
      - intros; assumption.
      - intros; assumption.
      - intros st0 final media wm H0. unfold record_checksum. rewrite H0. exact H0. }
    intros fuel HR E.
    assert (H0 : st_lock (load_imports W o (load_roots W o (init_state W o g)
                   (dedup_keep_first (filter (fun r => negb (mem r (bg_roots g))) roots)))
                   (filter (fun p => negb (has_key (fst p) (bg_imports g))) imports)) = None).
    { apply (load_imports_P W o (fun st => st_lock st = None)).
      - intros st0 st0' _ _ Hl0 _ H0. rewrite Hl0. exact H0.
      - intros; assumption.
      - apply (load_roots_P W o (fun st => st_lock st = None)).
        + intros st0 st0' _ _ Hl0 _ H0. rewrite Hl0. exact H0.
        + intros; assumption.
        + cbn. exact Hn. }
    rewrite (Hinv _ _ _ H0 HR) in E. discriminate.
Qed.

(* (2) content rejected under both cache settings is an integrity error, never a module *)
Theorem rejected_is_error : forall W it,
  loader_call W (pi_spec it) false (pi_checksum it) = LChecksumError ->
  (forall f wm, loader_call W (pi_spec it) true (pi_checksum it) <> LResp (WModule f wm)) ->
  (forall f, loader_call W (pi_spec it) true (pi_checksum it) <> LResp (WExternal f)) ->
  fst (try_load W it) = PErr (BLoad (pi_spec it) (pi_range it) 3).
Proof.
  intros W it H1 H2 H3. unfold try_load. rewrite H1.
  destruct (loader_call W (pi_spec it) true (pi_checksum it)) as [[| |to|f|f wm]|] eqn:E; cbn [fst]; try reflexivity.
  - exfalso. apply (H3 f). reflexivity.
  - exfalso. apply (H2 f wm). reflexivity.
Qed.

(* at most one cache-bypassing retry *)
Theorem at_most_one_retry : forall W it,
  (length (snd (try_load W it)) <= 2)%nat /\
  (forall call, In call (snd (try_load W it)) -> lc_reload call = true ->
     loader_call W (pi_spec it) false (pi_checksum it) = LChecksumError).
Proof.
  intros W it. unfold try_load.
  destruct (loader_call W (pi_spec it) false (pi_checksum it)) as [[| |to|f|f wm]|] eqn:E1; cbn [snd length In].
  1-5: split; [auto | intros call [<-|[]] H; cbn in H; discriminate].
  destruct (loader_call W (pi_spec it) true (pi_checksum it)) as [[| |to|f|f wm]|]; cbn [snd length In];
    split; auto.
Qed.

(* (3) a checksummed URL that redirects is rejected *)
Theorem checksummed_redirect_rejected : forall W it to c,
  pi_checksum it = Some c -> resp_of W (pi_spec it) = WRedirect to ->
  fst (try_load W it) = PErr (BLoad (pi_spec it) (pi_range it) 2).
Proof.
  intros W it to c Hc Hr. unfold try_load, loader_call. rewrite Hr, Hc. reflexivity.
Qed.

(* what is recorded: the hash of the decoded text *)
Theorem recorded_value : forall W st final media wm s h,
  In (s, h) (st_lock_sets (record_checksum W st final media wm)) ->
  In (s, h) (st_lock_sets st) \/ (s = final /\ h = wm_hash_text wm).
Proof.
  intros W st final media wm s h. unfold record_checksum.
  destruct (st_lock st) as [l|]; [|tauto].
  destruct (negb (is_declaration media) && mem final (w_http W) && negb (has_key final l)); [|tauto].
  cbn. intros [Heq|Hin]; [inversion Heq; subst; right; split; reflexivity | left; exact Hin].
Qed.
