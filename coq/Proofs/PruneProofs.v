(* C17 (graph level): prune_types keeps exactly the code-reachable entries,
   leaves their code view unchanged and removes everything type-related. *)
From Coq Require Import Arith.
From DG Require Import Base.Util Base.Sexp Base.Reach Model.Graph Model.Walk Model.RunC15 Model.RunC02
  Model.RunC14 Model.Prune Model.RunC17.

Definition CodeReach (g : graph) (s : spec) : Prop :=
  Reachable (prune_expand g) (dedup (g_roots g)) s.

Lemma prune_expand_in_universe : forall g x y,
  In y (prune_expand g x) -> In y (prune_universe g).
Proof.
  intros g x y H. unfold prune_expand in H. unfold prune_universe.
  destruct (redirect_of g x) as [t|] eqn:Hr.
  - destruct H as [H|[]]. subst. apply in_or_app. right.
    apply in_map_iff. exists (x, y). split; [reflexivity | apply lookup_In; exact Hr].
  - destruct (slot_of g x) as [[m| |]|] eqn:Hs; try destruct H.
    apply in_or_app. left. apply in_flat_map. exists (x, SMod m).
    split; [apply lookup_In; exact Hs|]. cbn [snd].
    destruct (m_kind m); try destruct H; exact H.
Qed.

Theorem prune_terminates : forall g, prune g <> None.
Proof.
  intros g. unfold prune. destruct (negb (include_types (g_kind g))); [discriminate|].
  unfold prune_seen.
  pose proof (run_fuel_enough (prune_expand g) (prune_universe g) (prune_expand_in_universe g)
                (prune_fuel g) (dedup (g_roots g)) (dedup (g_roots g)) []) as HF.
  destruct (run (prune_expand g) (prune_fuel g) (dedup (g_roots g)) (dedup (g_roots g)) []) as [[out sn]|] eqn:HR.
  - discriminate.
  - exfalso. apply HF; [|reflexivity]. unfold prune_fuel.
    assert (H1 : (unseen (prune_universe g) (dedup (g_roots g)) <= length (dedup (prune_universe g)))%nat).
    { unfold unseen. generalize (dedup (prune_universe g)) as l.
      induction l as [|a l IH]; cbn [filter length]; [lia|].
      destruct (negb (mem a (dedup (g_roots g)))); cbn [length]; lia. }
    assert (H2 : (length (dedup (g_roots g)) <= length (g_roots g))%nat).
    { generalize (g_roots g) as l. induction l as [|a l IH]; cbn [dedup length]; [lia|].
      destruct (mem a l); cbn [length]; lia. }
    unfold spec in *. lia.
Qed.

Lemma prune_seen_spec : forall g seen,
  prune_seen g = Some seen -> forall s, In s seen <-> CodeReach g s.
Proof.
  intros g seen H s. unfold prune_seen in H.
  destruct (run (prune_expand g) (prune_fuel g) (dedup (g_roots g)) (dedup (g_roots g)) []) as [[out sn]|] eqn:HR;
    [|discriminate].
  inversion H; subst.
  pose proof (init_inv (prune_expand g) (dedup (g_roots g)) (dedup_NoDup (g_roots g))) as HI.
  destruct (run_sound_complete _ _ _ _ _ _ _ _ HI HR) as [_ Hiff]. apply Hiff.
Qed.

(* entries of the pruned graph *)
Theorem prune_entries : forall g g',
  include_types (g_kind g) = true -> prune g = Some g' ->
  (forall s sl', In (s, sl') (g_slots g') <->
     exists sl, In (s, sl) (g_slots g) /\ CodeReach g s /\ sl' = prune_slot g s sl) /\
  (forall a b, In (a, b) (g_redirects g') <-> In (a, b) (g_redirects g) /\ CodeReach g a) /\
  g_kind g' = KCodeOnly /\ g_imports g' = [] /\ g_roots g' = g_roots g.
Proof.
  intros g g' Hi H. unfold prune in H. rewrite Hi in H. cbn [negb] in H.
  destruct (prune_seen g) as [seen|] eqn:Hs; [|discriminate].
  inversion H; subst; clear H. cbn.
  pose proof (prune_seen_spec g seen Hs) as Hseen.
  repeat split.
  - intro Hin. apply in_map_iff in Hin. destruct Hin as [[s0 sl] [Heq Hf]].
    inversion Heq; subst. apply filter_In in Hf. destruct Hf as [Hin Hm]. cbn [fst] in Hm.
    exists sl. split; [exact Hin|]. split; [apply Hseen; apply mem_In; exact Hm | reflexivity].
  - intros [sl [Hin [Hr Heq]]]. subst. apply in_map_iff. exists (s, sl). split; [reflexivity|].
    apply filter_In. split; [exact Hin|]. cbn [fst]. apply mem_In. apply Hseen. exact Hr.
  - apply filter_In in H. tauto.
  - apply filter_In in H. destruct H as [_ H]. cbn [fst] in H. apply Hseen. apply mem_In. exact H.
  - intros [Hin Hr]. apply filter_In. split; [exact Hin|]. cbn [fst]. apply mem_In. apply Hseen. exact Hr.
Qed.

(* the code view of every kept entry is unchanged *)
Lemma code_edges_prune : forall m,
  code_edges (prune_module m) =
  match m_kind m with MkJs | MkWasm => map prune_dep (code_edges m) | _ => code_edges m end.
Proof.
  intros m. unfold prune_module, code_edges. destruct (m_kind m); cbn [m_deps]; try reflexivity.
  - induction (m_deps m) as [|d ds IH]; cbn [map filter]; [reflexivity|].
    cbn [prune_dep d_code]. destruct (negb (is_rnone (d_code d))); cbn [map]; rewrite IH; reflexivity.
  - induction (m_deps m) as [|d ds IH]; cbn [map filter]; [reflexivity|].
    cbn [prune_dep d_code]. destruct (negb (is_rnone (d_code d))); cbn [map]; rewrite IH; reflexivity.
Qed.

Lemma res_eqb_refl : forall r, res_eqb r r = true.
Proof. intros [|t r|e]; cbn; rewrite ?N.eqb_refl; reflexivity. Qed.

Lemma edge_eqb_prune : forall d, edge_eqb d (prune_dep d) = true.
Proof.
  intros d. unfold edge_eqb, prune_dep. cbn. rewrite N.eqb_refl, res_eqb_refl, Bool.eqb_reflx. reflexivity.
Qed.

Lemma edges_set_eq_map : forall ds,
  Nat.eqb (length ds) (length (map prune_dep ds)) &&
  forallb (fun a => existsb (edge_eqb a) (map prune_dep ds)) ds = true.
Proof.
  intros ds. rewrite map_length, Nat.eqb_refl. cbn [andb].
  apply forallb_forall. intros d Hd. apply existsb_exists. exists (prune_dep d).
  split; [apply in_map; exact Hd | apply edge_eqb_prune].
Qed.

Lemma edges_set_eq_refl : forall ds,
  Nat.eqb (length ds) (length ds) && forallb (fun a => existsb (edge_eqb a) ds) ds = true.
Proof.
  intros ds. rewrite Nat.eqb_refl. cbn [andb]. apply forallb_forall. intros d Hd.
  apply existsb_exists. exists d. split; [exact Hd|].
  unfold edge_eqb. rewrite N.eqb_refl, res_eqb_refl, Bool.eqb_reflx. reflexivity.
Qed.

Theorem prune_code_view : forall g g' s sl,
  g_errkinds g' = g_errkinds g ->
  slot_code_eqb g g' sl (prune_slot g s sl) = true.
Proof.
  intros g g' s sl Hek. destruct sl as [m|ms e|]; cbn [prune_slot slot_code_eqb].
  - destruct (prune_walked g s); cbn [slot_code_eqb].
    + rewrite code_edges_prune. unfold prune_module, mkind_eqb.
      destruct (m_kind m) eqn:Hk; cbn [m_kind m_media]; rewrite ?Hk, ?N.eqb_refl; cbn [andb];
        first [apply edges_set_eq_map | apply edges_set_eq_refl].
    + unfold mkind_eqb. rewrite !N.eqb_refl. cbn [andb]. apply edges_set_eq_refl.
  - unfold errkind. rewrite Hek. apply N.eqb_refl.
  - reflexivity.
Qed.

(* nothing type-related is left, provided no entry sits at a redirect source
   (such an entry is kept but not walked: see F-C14d) *)
Lemma prune_module_no_types : forall m,
  match m_kind m with MkJs | MkWasm => True | _ => module_no_types m = true end ->
  module_no_types (prune_module m) = true.
Proof.
  intros m H. unfold prune_module. destruct (m_kind m) eqn:Hk; try exact H.
  - unfold module_no_types. cbn. rewrite !andb_true_r.
    apply forallb_forall. intros d Hd. apply in_map_iff in Hd. destruct Hd as [d0 [Heq _]]. subst. reflexivity.
  - unfold module_no_types. cbn. rewrite !andb_true_r.
    apply forallb_forall. intros d Hd. apply in_map_iff in Hd. destruct Hd as [d0 [Heq _]]. subst. reflexivity.
Qed.

Definition NoEntryAtRedirect (g : graph) : Prop :=
  forall s sl, In (s, sl) (g_slots g) -> redirect_of g s = None.

(* non-Js/Wasm modules carry no type information to begin with *)
Definition PlainOthers (g : graph) : Prop :=
  forall s m, In (s, SMod m) (g_slots g) ->
    match m_kind m with MkJs | MkWasm => True | _ => module_no_types m = true end.

Theorem prune_no_types_left : forall g g',
  include_types (g_kind g) = true -> prune g = Some g' ->
  NoEntryAtRedirect g -> PlainOthers g -> no_types_left g' = true.
Proof.
  intros g g' Hi H Hne Hpl.
  destruct (prune_entries g g' Hi H) as [Hsl [_ [Hk [Him _]]]].
  unfold no_types_left. rewrite Hk, Him. cbn [andb].
  apply forallb_forall. intros [s sl'] Hin. cbn [snd].
  apply Hsl in Hin. destruct Hin as [sl [Hin [_ Heq]]]. subst.
  destruct sl as [m|ms e|]; cbn [prune_slot]; try reflexivity.
  unfold prune_walked. rewrite (Hne s (SMod m) Hin).
  apply prune_module_no_types. apply (Hpl s m Hin).
Qed.
