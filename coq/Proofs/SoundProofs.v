(* C01, stage B1: the converse - nothing unreachable is present - for worlds whose answers report the
   requested specifier as the final one and whose modules declare no asset imports (no text / bytes / css
   attribute imports and no source-phase-only imports; with them the statement is false: F-C01c).
   After a completed build from the empty graph, every entry is reachable from the roots and the
   configured import targets along the recorded redirects and the recorded dependencies (and types
   dependency) of module entries. *)
From Coq Require Import Arith Lia.
From RecordUpdate Require Import RecordSet.
Import RecordSetNotations.
From DG Require Import Base.Util Base.Sexp Model.Graph Model.Builder Model.RunJsr Model.RunC01 Model.RunJsrAll
  Proofs.BuilderProofs Proofs.ChecksumProofs Proofs.ClosureProofs Proofs.ReachJudge Proofs.Termination.

Definition mod_targets (m : module) : list spec :=
  flat_map b1_dep_targets (m_deps m) ++ match m_types_dep m with Some td => res_targets (td_res td) | None => [] end.

Definition sedges (slots : list (spec * bslot)) (reds : list (spec * spec)) (s : spec) : list spec :=
  (match lookup s reds with Some t => [t] | None => [] end) ++
  match lookup s slots with Some (BMod m) => mod_targets m | _ => [] end.

Lemma b1_edges_sedges : forall W g s, b1_edges W g false s = sedges (bg_slots g) (bg_redirects g) s.
Proof.
  intros W g s. unfold b1_edges, sedges, mod_targets. f_equal.
  destruct (lookup s (bg_slots g)) as [[m|b|e|b]|]; try reflexivity. destruct e; reflexivity.
Qed.

Lemma reaches_mono : forall (E E' : spec -> list spec) S S' x,
  (forall a b, In b (E a) -> In b (E' a)) -> (forall s, In s S -> In s S') ->
  Reaches E S x -> Reaches E' S' x.
Proof.
  intros E E' S S' x HE HS H. induction H as [s Hs|a b _ IH Hb]; [apply R_start; apply HS; exact Hs|].
  eapply R_edge; [exact IH | apply HE; exact Hb].
Qed.

Lemma reaches_cut : forall (E : spec -> list spec) S X y,
  (forall x, In x X -> Reaches E S x) -> Reaches E (S ++ X) y -> Reaches E S y.
Proof.
  intros E S X y HX H. induction H as [s Hs|a b _ IH Hb].
  - apply in_app_or in Hs. destruct Hs as [Hs|Hs]; [apply R_start; exact Hs | apply HX; exact Hs].
  - eapply R_edge; [exact IH | exact Hb].
Qed.

Lemma NoDup_app_one1 : forall {A} (l : list A) x, NoDup l -> ~ In x l -> NoDup (l ++ [x]).
Proof.
  intros A l x H Hn. induction H as [|a l Ha _ IH]; cbn; [constructor; [intros []|constructor]|].
  constructor.
  - intro Hin. apply in_app_or in Hin. destruct Hin as [Hin|[Hin|[]]]; [apply Ha; exact Hin|]. apply Hn. left. symmetry; exact Hin.
  - apply IH. intro Hin. apply Hn. right; exact Hin.
Qed.

Section Sound.
Variable W : world.
Variable o : bopts.
Variable starts : list spec.

Hypothesis Halias : forall s f wm,
  resp_of W s = WModule f wm \/ resp_reload_of W s = WModule f wm -> f = s.
Hypothesis HaliasX : forall s f,
  resp_of W s = WExternal f \/ resp_reload_of W s = WExternal f -> f = s.
Hypothesis Hnoasset : forall s f wm da,
  resp_of W s = WModule f wm \/ resp_reload_of W s = WModule f wm -> In da (wm_deps wm) -> dfl_asset (snd da) = false.

(* the specifier whose completed load is being processed (its item is no longer queued, its entry still pending) *)
Variable cur : option spec.
Definition inflight (st : bstate) : list spec :=
  (match cur with Some c => [c] | None => [] end) ++ map pi_spec (st_pending st).

Definition J (X : list spec) (st : bstate) (x : spec) : Prop :=
  Reaches (sedges (st_slots st) (st_redirects st)) (starts ++ X) x.

Definition EG (st st' : bstate) : Prop :=
  forall a b, In b (sedges (st_slots st) (st_redirects st) a) -> In b (sedges (st_slots st') (st_redirects st') a).

Lemma j_mono : forall X st st' x, EG st st' -> J X st x -> J X st' x.
Proof. intros X st st' x H. apply reaches_mono; [exact H | auto]. Qed.

Lemma j_weaken : forall X st x, J [] st x -> J X st x.
Proof.
  intros X st x. apply reaches_mono; [auto|]. intros s Hs. rewrite app_nil_r in Hs. apply in_or_app. left; exact Hs.
Qed.

Lemma eg_refl : forall st, EG st st. Proof. intros st a b H; exact H. Qed.
Lemma eg_trans : forall a b c, EG a b -> EG b c -> EG a c. Proof. intros a b c H1 H2 x y H. apply H2, H1, H. Qed.

Record SInv (X : list spec) (st : bstate) : Prop := {
  si_slots : forall s, has_key s (st_slots st) = true -> J X st s;
  si_pend : forall it, In it (st_pending st) -> J X st (pi_spec it);
  si_dyn : forall k b, In (k, b) (st_dyn st) -> J X st k;
  si_def : forall k d, In (k, d) (st_deferred st) -> J X st k;
  si_npm : forall it, In it (st_npm st) -> J X st (ni_spec it);
  si_pslot : forall s, In s (inflight st) ->
               (exists a, lookup s (st_slots st) = Some (BPending a)) /\
               has_key s (st_redirects st) = false;
  si_nodup : NoDup (inflight st);
  si_passet : forall it, In it (st_pending st) -> pi_asset it = false;
  si_dasset : forall k b, In (k, b) (st_dyn st) -> br_asset b = false
}.

(* states that differ only in fields the invariant does not read *)
Lemma sinv_ext : forall X st st',
  st_slots st' = st_slots st -> st_redirects st' = st_redirects st -> st_pending st' = st_pending st ->
  st_dyn st' = st_dyn st -> st_deferred st' = st_deferred st -> st_npm st' = st_npm st ->
  SInv X st -> SInv X st'.
Proof.
  intros X st st' E1 E2 E3 E4 E5 E6 [A B C D E F G H I].
  constructor; unfold J, inflight in *; rewrite ?E1, ?E2, ?E3, ?E4, ?E5, ?E6; assumption.
Qed.

Lemma sinv_weaken : forall X st, SInv [] st -> SInv X st.
Proof.
  intros X st [A B C D E F G H I]. constructor; auto.
  - intros s Hs. apply j_weaken. apply A; exact Hs.
  - intros it Hit. apply j_weaken. apply B; exact Hit.
  - intros k b Hk. apply j_weaken. eapply C; exact Hk.
  - intros k d Hk. apply j_weaken. eapply D; exact Hk.
  - intros it Hit. apply j_weaken. apply E; exact Hit.
Qed.

(* --- primitive updates --- *)
Lemma eg_set_slot : forall st s v,
  (forall m, lookup s (st_slots st) <> Some (BMod m)) -> EG st (set_slot st s v).
Proof.
  intros st s v Hn a b H. unfold set_slot, sedges in *. cbn.
  apply in_app_or in H. apply in_or_app. destruct H as [H|H]; [left; exact H|]. right.
  destruct (N.eq_dec a s) as [->|Hne].
  - destruct (lookup s (st_slots st)) as [[m|x|e|x]|] eqn:El; try destruct H. exfalso. eapply Hn. reflexivity.
  - rewrite lookup_set_assoc_other by exact Hne. exact H.
Qed.

Lemma not_pending_spec : forall X st s,
  SInv X st -> (forall a, lookup s (st_slots st) <> Some (BPending a)) -> ~ In s (inflight st).
Proof.
  intros X st s HI Hn Hin. destruct (si_pslot X st HI s Hin) as [[a Ha] _]. eapply Hn. exact Ha.
Qed.

Lemma sinv_set_slot : forall X st s v,
  SInv X st -> J X st s -> ~ In s (inflight st) ->
  (forall m, lookup s (st_slots st) <> Some (BMod m)) ->
  SInv X (set_slot st s v).
Proof.
  intros X st s v HI Hj Hnp Hnm. pose proof (eg_set_slot st s v Hnm) as G.
  destruct HI as [A B C D E F Gd H I]. constructor.
  - intros s0 Hs0. unfold set_slot in Hs0. cbn in Hs0. rewrite has_key_set_assoc in Hs0.
    destruct (N.eq_dec s0 s) as [Heq|Hne]; [rewrite Heq; eapply j_mono; [exact G | exact Hj]|].
    apply N.eqb_neq in Hne. rewrite Hne in Hs0. cbn [orb] in Hs0. eapply j_mono; [exact G | apply A; exact Hs0].
  - intros it Hit. eapply j_mono; [exact G | apply B; exact Hit].
  - intros k b Hk. eapply j_mono; [exact G | eapply C; exact Hk].
  - intros k d Hk. eapply j_mono; [exact G | eapply D; exact Hk].
  - intros it Hit. eapply j_mono; [exact G | apply E; exact Hit].
  - intros s1 Hs1. destruct (F s1 Hs1) as [[a Ha] Hk]. split; [|exact Hk]. exists a.
    unfold set_slot. cbn. rewrite lookup_set_assoc_other; [exact Ha|].
    intro Heq. apply Hnp. rewrite <- Heq. exact Hs1.
  - exact Gd.
  - exact H.
  - exact I.
Qed.

Lemma sinv_queue_load : forall X st s range in_dyn root attr count,
  SInv X st -> J X st s -> has_key s (st_redirects st) = false ->
  (forall a, lookup s (st_slots st) <> Some (BPending a)) -> (forall m, lookup s (st_slots st) <> Some (BMod m)) ->
  SInv X (queue_load st s range false in_dyn root attr count).
Proof.
  intros X st s range in_dyn root attr count HI Hj Hk Hnp Hnm.
  pose proof (not_pending_spec X st s HI Hnp) as Hns.
  pose proof (sinv_set_slot X st s (BPending false) HI Hj Hns Hnm) as H1.
  unfold queue_load. set (st1 := set_slot st s (BPending false)) in *.
  assert (Hj1 : J X st1 s) by (eapply j_mono; [apply eg_set_slot; exact Hnm | exact Hj]).
  destruct H1 as [A B C D E F G H I]. constructor; cbn; try assumption.
  - intros it Hit. apply in_app_or in Hit. destruct Hit as [Hit|[Hit|[]]]; [apply B; exact Hit|]. subst it. cbn. exact Hj1.
  - intros s1 Hs1. unfold inflight in Hs1. cbn in Hs1. rewrite map_app, app_assoc in Hs1. cbn [map] in Hs1.
    apply in_app_or in Hs1. destruct Hs1 as [Hs1|[Hs1|[]]]; [apply F; exact Hs1|]. subst s1.
    split; [exists false; unfold st1, set_slot; cbn; apply lookup_set_assoc_same | exact Hk].
  - unfold inflight. cbn. rewrite map_app, app_assoc. cbn [map]. apply NoDup_app_one1; [exact G | exact Hns].
  - intros it Hit. apply in_app_or in Hit. destruct Hit as [Hit|[Hit|[]]]; [apply H; exact Hit|]. subst it. reflexivity.
Qed.

Lemma sinv_check_specifier : forall X st req s',
  SInv X st -> J X st req -> ~ In req (inflight st) -> has_key req (st_redirects st) = false ->
  (forall m, lookup req (st_slots st) <> Some (BMod m)) ->
  SInv X (check_specifier st req s') /\ J X (check_specifier st req s') s' /\ EG st (check_specifier st req s').
Proof.
  intros X st req s' HI Hj Hnp Hk Hnm. unfold check_specifier.
  destruct (N.eqb_spec req s') as [<-|Hne]; [split; [exact HI|]; split; [exact Hj | apply eg_refl]|].
  set (slots' := match lookup req (st_slots st) with Some (BPending _) => remove_assoc req (st_slots st) | _ => st_slots st end).
  set (st' := st <| st_slots := slots' |> <| st_redirects := or_insert req s' (st_redirects st) |>).
  assert (Hl : lookup req (st_redirects st) = None).
  { unfold has_key in Hk. destruct (lookup req (st_redirects st)); [discriminate | reflexivity]. }
  assert (G : EG st st').
  { intros a b H. unfold st', sedges in *. cbn. apply in_app_or in H. apply in_or_app. destruct H as [H|H].
    - left. destruct (lookup a (st_redirects st)) as [t|] eqn:Ea; [|destruct H].
      rewrite (lookup_or_insert_keep _ _ _ _ _ Ea). exact H.
    - right. assert (Hs : lookup a slots' = lookup a (st_slots st) \/ (a = req /\ exists x, lookup req (st_slots st) = Some (BPending x))).
      { unfold slots'. destruct (lookup req (st_slots st)) as [[m|x|e|x]|] eqn:El; try (left; reflexivity).
        destruct (N.eq_dec a req) as [->|Hn]; [right; split; [reflexivity | exists x; reflexivity]|].
        left. apply lookup_remove_assoc_other. exact Hn. }
      destruct Hs as [Hs|[-> [x Hx]]]; [rewrite Hs; exact H|]. rewrite Hx in H. destruct H. }
  assert (Hj' : J X st' s').
  { eapply R_edge; [eapply j_mono; [exact G | exact Hj]|]. unfold st', sedges. cbn.
    rewrite (lookup_or_insert_new _ _ _ Hl). left. reflexivity. }
  split; [|split; [exact Hj' | exact G]].
  destruct HI as [A B C D E F Gd H I]. constructor; cbn.
  - intros s0 Hs0. eapply j_mono; [exact G|]. apply A.
    unfold slots' in Hs0. destruct (lookup req (st_slots st)) as [[m|x|e|x]|]; try exact Hs0.
    destruct (N.eq_dec s0 req) as [->|Hn].
    + unfold has_key in Hs0. rewrite lookup_remove_assoc_same in Hs0. discriminate.
    + rewrite has_key_remove_assoc in Hs0 by exact Hn. exact Hs0.
  - intros it Hit. eapply j_mono; [exact G | apply B; exact Hit].
  - intros k b Hk0. eapply j_mono; [exact G | eapply C; exact Hk0].
  - intros k d Hk0. eapply j_mono; [exact G | eapply D; exact Hk0].
  - intros it Hit. eapply j_mono; [exact G | apply E; exact Hit].
  - intros s1 Hs1. destruct (F s1 Hs1) as [[a Ha] Hk1].
    assert (Hn : s1 <> req) by (intro Heq; apply Hnp; rewrite <- Heq; exact Hs1).
    split.
    + exists a. unfold slots'. destruct (lookup req (st_slots st)) as [[m|x|e|x]|]; try exact Ha.
      rewrite lookup_remove_assoc_other by exact Hn. exact Ha.
    + rewrite Termination.has_key_or_insert. apply N.eqb_neq in Hn. rewrite Hn. cbn [orb]. exact Hk1.
  - exact Gd.
  - exact H.
  - exact I.
Qed.

Lemma rstar_j : forall X st a b, RStar (st_redirects st) a b -> J X st a -> J X st b.
Proof.
  intros X st a b H. induction H as [s|s r e Hl _ IH]; intro Hj; [exact Hj|].
  apply IH. eapply R_edge; [exact Hj|]. unfold sedges. rewrite Hl. apply in_or_app. left. left. reflexivity.
Qed.

Lemma load_target_j : forall X st spec0, J X st spec0 -> J X st (load_target st spec0).
Proof.
  intros X st spec0 Hj. unfold load_target.
  pose proof (resolve_rstar (redirect_graph (st_redirects st)) spec0) as HR. cbn [redirect_graph g_redirects] in HR.
  eapply rstar_j; eassumption.
Qed.

Lemma sinv_load : forall X st spec0 range in_dyn root attr count,
  SInv X st -> J X st spec0 ->
  SInv X (load W o st spec0 range false in_dyn root attr count) /\
  EG st (load W o st spec0 range false in_dyn root attr count).
Proof.
  intros X st spec0 range in_dyn root attr count HI Hj0.
  pose proof (load_target_j X st spec0 Hj0) as Hj. unfold load.
  set (s := load_target st spec0) in *.
  change (sp_reject W s false attr) with false. change (attr_reject o false attr) with false. cbv iota.
  assert (Hproceed : lookup s (st_slots st) = None \/ lookup s (st_slots st) = Some (BExternal true) ->
    SInv X (if has_key s (st_redirects st) then set_slot st s (BErr (BLoad s range 1))
            else match class_of W s with
                 | SNode => (set_slot st s (BMod (node_module s))) <| st_has_node := true |>
                 | SPass => set_slot st s (BExternal false)
                 | SNpm r => st <| st_npm := st_npm st ++ [{| ni_spec := s; ni_req := r; ni_range := range; ni_dyn := in_dyn |}] |>
                 | SBad => set_slot st s (BErr (BBadSpecifier s range))
                 | SUrl => queue_load st s range false in_dyn root attr count
                 end) /\
    EG st (if has_key s (st_redirects st) then set_slot st s (BErr (BLoad s range 1))
            else match class_of W s with
                 | SNode => (set_slot st s (BMod (node_module s))) <| st_has_node := true |>
                 | SPass => set_slot st s (BExternal false)
                 | SNpm r => st <| st_npm := st_npm st ++ [{| ni_spec := s; ni_req := r; ni_range := range; ni_dyn := in_dyn |}] |>
                 | SBad => set_slot st s (BErr (BBadSpecifier s range))
                 | SUrl => queue_load st s range false in_dyn root attr count
                 end)).
  { intros Hc.
    assert (Hnp : forall a, lookup s (st_slots st) <> Some (BPending a)) by (intros a; destruct Hc as [Hc|Hc]; rewrite Hc; discriminate).
    assert (Hnm : forall m, lookup s (st_slots st) <> Some (BMod m)) by (intros m; destruct Hc as [Hc|Hc]; rewrite Hc; discriminate).
    pose proof (not_pending_spec X st s HI Hnp) as Hns.
    destruct (has_key s (st_redirects st)) eqn:Ek.
    { split; [apply sinv_set_slot; assumption | apply eg_set_slot; exact Hnm]. }
    destruct (class_of W s) as [| | | |r].
    - split; [apply sinv_queue_load; assumption|]. unfold queue_load. intros a b H.
      apply (eg_set_slot st s (BPending false) Hnm a b) in H. exact H.
    - split.
      + eapply sinv_ext; [| | | | | |apply (sinv_set_slot X st s (BMod (node_module s))); assumption]; reflexivity.
      + intros a b H. apply (eg_set_slot st s (BMod (node_module s)) Hnm a b) in H. exact H.
    - split; [apply sinv_set_slot; assumption | apply eg_set_slot; exact Hnm].
    - split; [apply sinv_set_slot; assumption | apply eg_set_slot; exact Hnm].
    - split; [|intros a b H; exact H]. destruct HI as [A B C D E F G H I]. constructor; cbn; try assumption.
      intros it Hit. apply in_app_or in Hit. destruct Hit as [Hit|[Hit|[]]]; [apply E; exact Hit|]. subst it. cbn. exact Hj. }
  destruct (lookup s (st_slots st)) as [sl|] eqn:El; [|apply Hproceed; left; reflexivity].
  destruct sl as [m|[|]|e|[|]]; cbn [negb]; try (split; [exact HI | apply eg_refl]).
  - apply Hproceed. right. reflexivity.
  - (* a module request behind an asset load in flight *)
    split; [|intros a b H; exact H]. destruct HI as [A B C D E F G H I]. constructor; cbn; try assumption.
    intros k d Hk. apply Termination.in_or_insert in Hk. destruct Hk as [Hk|[-> _]]; [eapply D; exact Hk | exact Hj].
Qed.

(* --- the dependencies of a visited module; X contains the targets of the module entry being built --- *)
Lemma sinv_with_dyn : forall X st t b,
  SInv X st -> J X st t -> br_asset b = false -> SInv X (with_dyn st (set_assoc t b (st_dyn st))).
Proof.
  intros X st t b [A B C D E F G H I] Hj Hb. constructor; cbn; try assumption.
  - intros k b0 Hk. apply in_set_assoc in Hk. destruct Hk as [[-> _]|Hk]; [exact Hj | eapply C; exact Hk].
  - intros k b0 Hk. apply in_set_assoc in Hk. destruct Hk as [[_ ->]|Hk]; [exact Hb | eapply I; exact Hk].
Qed.

Lemma j_start : forall X st x, In x X -> J X st x.
Proof. intros X st x H. apply R_start. apply in_or_app. right; exact H. Qed.

Lemma sinv_visit_dep : forall X st da,
  SInv X st -> dfl_asset (snd da) = false ->
  (forall x, In x (b1_dep_targets (snd (visit_dep W o st da))) -> In x X) ->
  SInv X (fst (visit_dep W o st da)) /\ EG st (fst (visit_dep W o st da)).
Proof.
  intros X st [d [asset sp]] HI Ha HT. cbn [snd dfl_asset] in Ha. subst asset.
  unfold visit_dep in *. cbn [fst snd dfl_asset dfl_sp] in *.
  destruct (d_dyn d && bo_skip_dynamic o); [cbn [fst]; split; [exact HI | apply eg_refl]|].
  cbn [fst snd] in *. unfold b1_dep_targets in HT. cbn [d_code d_type] in HT.
  set (attr := dep_lattr d {| dfl_asset := false; dfl_sp := sp |}) in *.
  set (code_side := include_code (bo_kind o) || is_rnone (d_type d)) in *.
  set (st1 := if code_side then match d_code d with
                                | ROk t range => if d_dyn d && negb (st_in_dyn st) then _ else _
                                | _ => st end else st).
  assert (H1 : SInv X st1 /\ EG st st1).
  { unfold st1. destruct code_side; [|split; [exact HI | apply eg_refl]].
    destruct (d_code d) as [|t range|e] eqn:Ec; try (split; [exact HI | apply eg_refl]).
    assert (Hj : J X st t) by (apply j_start; apply HT; apply in_or_app; left; left; reflexivity).
    destruct (d_dyn d && negb (st_in_dyn st)).
    - split; [|intros a b H; exact H]. apply sinv_with_dyn; [exact HI | exact Hj | reflexivity].
    - apply sinv_load; assumption. }
  destruct H1 as [HI1 G1].
  destruct (include_types (bo_kind o)); [|split; [exact HI1 | exact G1]].
  destruct (d_type d) as [|t range|e] eqn:Et; try (split; [exact HI1 | exact G1]).
  assert (Hj : J X st1 t) by (apply j_start; apply HT; apply in_or_app; right; left; reflexivity).
  destruct (d_dyn d && negb (st_in_dyn st1)).
  - split; [|intros a b H; apply G1 in H; exact H]. apply sinv_with_dyn; [exact HI1 | exact Hj | reflexivity].
  - destruct (sinv_load X st1 t (Some range) (st_in_dyn st1) (mem t (st_resolved_roots st1)) attr 0 HI1 Hj) as [A B].
    split; [exact A | eapply eg_trans; eassumption].
Qed.

Lemma sinv_visit_deps : forall X ds st,
  SInv X st -> (forall da, In da ds -> dfl_asset (snd da) = false) ->
  (forall d' x, In d' (snd (visit_deps W o st ds)) -> In x (b1_dep_targets d') -> In x X) ->
  SInv X (fst (visit_deps W o st ds)) /\ EG st (fst (visit_deps W o st ds)).
Proof.
  intros X. induction ds as [|da ds IH]; intros st HI Ha HT; cbn [visit_deps] in *; [split; [exact HI | apply eg_refl]|].
  destruct (visit_dep W o st da) as [st1 d1] eqn:E1.
  destruct (visit_deps W o st1 ds) as [st2 rest] eqn:E2. cbn [fst snd] in *.
  assert (H1 : SInv X st1 /\ EG st st1).
  { pose proof (sinv_visit_dep X st da HI (Ha da (or_introl eq_refl))) as H. rewrite E1 in H. cbn [fst snd] in H.
    apply H. intros x Hx. apply (HT d1 x); [left; reflexivity | exact Hx]. }
  destruct H1 as [HI1 G1].
  pose proof (IH st1 HI1 (fun da0 H => Ha da0 (or_intror H))) as H2. rewrite E2 in H2. cbn [fst snd] in H2.
  destruct H2 as [HI2 G2]; [intros d' x Hd Hx; apply (HT d' x); [right; exact Hd | exact Hx]|].
  split; [exact HI2 | eapply eg_trans; eassumption].
Qed.

Lemma sinv_visit_module : forall st final wm,
  SInv [] st -> (forall da, In da (wm_deps wm) -> dfl_asset (snd da) = false) ->
  SInv (mod_targets (snd (visit_module W o st final wm))) (fst (visit_module W o st final wm)) /\
  EG st (fst (visit_module W o st final wm)).
Proof.
  intros st final wm HI0 Ha. set (X := mod_targets (snd (visit_module W o st final wm))).
  pose proof (sinv_weaken X st HI0) as HI. unfold visit_module in *.
  destruct (wm_kind wm) eqn:Ek; cbn [fst snd] in *.
  3: { (* wasm *)
    apply sinv_visit_deps; [exact HI | exact Ha|]. intros d' x Hd Hx. unfold X, mod_targets. cbn [m_deps m_types_dep].
    apply in_or_app. left. apply in_flat_map. exists d'. split; assumption. }
  all: set (r := if follow_deps o wm then visit_deps W o st (wm_deps wm) else (st, [])) in *.
  all: assert (H1 : SInv X (fst r) /\ EG st (fst r));
    [ unfold r; destruct (follow_deps o wm); [|cbn [fst]; split; [exact HI | apply eg_refl]];
      apply sinv_visit_deps; [exact HI | exact Ha|]; intros d' x Hd Hx; unfold X, mod_targets; cbn [m_deps m_types_dep];
      apply in_or_app; left; apply in_flat_map; exists d'; split; assumption |].
  all: destruct H1 as [HI1 G1]; unfold load_types_dep.
  all: destruct (include_types (bo_kind o)) eqn:Eit; [|split; [exact HI1 | exact G1]].
  all: destruct (wm_tdep wm) as [td|] eqn:Etd; [|split; [exact HI1 | exact G1]].
  all: destruct (td_res td) as [|t range|e] eqn:Er; try (split; [exact HI1 | exact G1]).
  all: assert (Hj : J X (fst r) t) by (apply j_start; unfold X, mod_targets; cbn [m_deps m_types_dep]; apply in_or_app; right; rewrite Er; left; reflexivity).
  all: destruct (sinv_load X (fst r) t (Some range) false (mem t (st_resolved_roots (fst r))) no_attr 0 HI1 Hj) as [A B].
  all: split; [exact A | eapply eg_trans; eassumption].
Qed.
End Sound.

(* ---------- one completed load, the loop, the build ---------- *)
Section Sound2.
Variable W : world.
Variable o : bopts.
Variable starts : list spec.

Hypothesis Halias : forall s f wm,
  resp_of W s = WModule f wm \/ resp_reload_of W s = WModule f wm -> f = s.
Hypothesis HaliasX : forall s f,
  resp_of W s = WExternal f \/ resp_reload_of W s = WExternal f -> f = s.
Hypothesis Hnoasset : forall s f wm da,
  resp_of W s = WModule f wm \/ resp_reload_of W s = WModule f wm -> In da (wm_deps wm) -> dfl_asset (snd da) = false.

Notation SI := (SInv starts).
Notation Jn := (J starts).

Lemma sinv_drop_cur : forall X c st,
  SI (Some c) X st ->
  SI None X st /\ ~ In c (map pi_spec (st_pending st)) /\
  (exists a, lookup c (st_slots st) = Some (BPending a)) /\ has_key c (st_redirects st) = false.
Proof.
  intros X c st [A B C D E F G H I]. unfold inflight in *. cbn [app] in *.
  inversion G as [|? ? Hn Hnd]; subst.
  split; [|split; [exact Hn | apply F; left; reflexivity]].
  constructor; auto. intros s Hs. apply F. right. exact Hs.
Qed.

Lemma module_result_cases : forall it f wm r,
  module_result W it f wm = r ->
  (exists e, r = PErr e /\ berr_spec e = f) \/ r = PJson f wm \/ r = PCode f wm.
Proof.
  intros it f wm r H. unfold module_result in H.
  destruct (accept W f wm (pi_attr it) (pi_range it) (pi_root it) (pi_dyn it)) as [| |e] eqn:Ea; subst r.
  - right; left; reflexivity.
  - right; right; reflexivity.
  - left. exists e. split; [reflexivity | eapply accept_err_spec; exact Ea].
Qed.

(* what a non-asset load can deliver in a world without aliases *)
Definition ResOK (it : pitem) (res : presult) : Prop :=
  match res with
  | PErr e => berr_spec e = pi_spec it
  | PRedirect _ => True
  | PExternal f wa => f = pi_spec it /\ wa = false
  | PJson f wm | PCode f wm =>
      f = pi_spec it /\
      (resp_of W (pi_spec it) = WModule f wm \/ resp_reload_of W (pi_spec it) = WModule f wm)
  end.

Lemma try_load_resok : forall it res calls,
  pi_asset it = false -> try_load W it = (res, calls) -> ResOK it res.
Proof.
  intros it res calls Ha H. unfold try_load, loader_call in H. rewrite Ha in H.
  assert (Main : forall f wm r, (resp_of W (pi_spec it) = WModule f wm \/ resp_reload_of W (pi_spec it) = WModule f wm) ->
                 module_result W it f wm = r -> ResOK it r).
  { intros f wm r Hr Hm. pose proof (Halias _ _ _ Hr) as Hf.
    destruct (module_result_cases it f wm r Hm) as [[e [-> He]]|[->| ->]]; cbn [ResOK].
    - rewrite He. exact Hf.
    - split; [exact Hf | exact Hr].
    - split; [exact Hf | exact Hr]. }
  destruct (resp_of W (pi_spec it)) as [| |to|f|f wm] eqn:Er.
  - inversion H; subst. reflexivity.
  - inversion H; subst. reflexivity.
  - inversion H; subst. destruct (pi_checksum it); [reflexivity|].
    destruct (Nat.leb (w_max_redirects W) (pi_count it) || N.eqb to (pi_spec it)); [reflexivity | exact I].
  - inversion H; subst. cbn [ResOK]. split; [apply (HaliasX (pi_spec it)); left; exact Er | reflexivity].
  - destruct (pi_checksum it) as [c|].
    + destruct (N.eqb c (wm_hash_raw wm)).
      * inversion H; subst. eapply Main; [left; reflexivity | reflexivity].
      * destruct (resp_reload_of W (pi_spec it)) as [| |to2|f2|f2 wm2] eqn:Er2;
          try (inversion H; subst; reflexivity).
        destruct (N.eqb c (wm_hash_raw wm2)).
        -- inversion H; subst. eapply Main; [right; reflexivity | reflexivity].
        -- inversion H; subst. reflexivity.
    + inversion H; subst. eapply Main; [left; reflexivity | reflexivity].
Qed.

Lemma mod_targets_json : forall s, mod_targets (json_module s) = [].
Proof. reflexivity. Qed.

Lemma record_checksum_fields : forall st f media wm,
  st_slots (record_checksum W st f media wm) = st_slots st /\ st_pending (record_checksum W st f media wm) = st_pending st /\
  st_redirects (record_checksum W st f media wm) = st_redirects st /\ st_dyn (record_checksum W st f media wm) = st_dyn st /\
  st_deferred (record_checksum W st f media wm) = st_deferred st /\ st_npm (record_checksum W st f media wm) = st_npm st.
Proof.
  intros st f media wm. unfold record_checksum. destruct (st_lock st) as [l|]; [|repeat split; reflexivity].
  destruct (negb (is_declaration media) && mem f (w_http W) && negb (has_key f l)); repeat split; reflexivity.
Qed.

Lemma root_fields : forall (b : bool) st s,
  let st' := if b then add_resolved_root st s else st in
  st_slots st' = st_slots st /\ st_pending st' = st_pending st /\ st_redirects st' = st_redirects st /\
  st_dyn st' = st_dyn st /\ st_deferred st' = st_deferred st /\ st_npm st' = st_npm st.
Proof. intros b st s. destruct b; repeat split; reflexivity. Qed.

(* the state has [it] in flight (cur = its specifier); afterwards nothing is in flight *)
Lemma sinv_process : forall st it,
  SI (Some (pi_spec it)) [] st -> Jn [] st (pi_spec it) -> pi_asset it = false ->
  SI None [] (process W o st it).
Proof.
  intros st it HI Hj Ha. unfold process.
  destruct (try_load W it) as [res calls] eqn:Et.
  pose proof (try_load_resok it res calls Ha Et) as HR.
  set (st0 := st <| st_calls := rev calls ++ st_calls st |>).
  assert (HI0 : SI (Some (pi_spec it)) [] st0) by (eapply sinv_ext; [| | | | | |exact HI]; reflexivity).
  assert (Hj0 : Jn [] st0 (pi_spec it)) by exact Hj.
  destruct (sinv_drop_cur [] (pi_spec it) st0 HI0) as [HN [Hnp [[a0 Hsl] Hk]]].
  assert (Hnm : forall m, lookup (pi_spec it) (st_slots st0) <> Some (BMod m)) by (intro m; rewrite Hsl; discriminate).
  destruct res as [e|to|final wa|final wm|final wm]; cbn [ResOK] in HR.
  - rewrite HR. rewrite check_specifier_same. apply sinv_set_slot; assumption.
  - destruct (sinv_check_specifier starts None [] st0 (pi_spec it) to HN Hj0 Hnp Hk Hnm) as [H1 [Hjt _]].
    rewrite Ha. apply (sinv_load W o starts None [] _ to (pi_range it) (pi_dyn it) (pi_root it) (pi_attr it) (S (pi_count it)) H1 Hjt).
  - destruct HR as [-> ->]. rewrite check_specifier_same.
    set (st2 := if pi_root it then add_resolved_root st0 (pi_spec it) else st0).
    assert (H2 : SI None [] st2) by (unfold st2; destruct (pi_root it); [eapply sinv_ext; [| | | | | |exact HN]; reflexivity | exact HN]).
    assert (Hs2 : st_slots st2 = st_slots st0 /\ st_pending st2 = st_pending st0 /\ st_redirects st2 = st_redirects st0)
      by (unfold st2; destruct (pi_root it); repeat split; reflexivity).
    destruct Hs2 as [E1 [E2 E3]].
    assert (Hset : SI None [] (set_slot st2 (pi_spec it) (BExternal false))).
    { apply sinv_set_slot; [exact H2 | | |].
      - unfold J. rewrite E1, E3. exact Hj0.
      - unfold inflight. cbn [app]. rewrite E2. exact Hnp.
      - rewrite E1. exact Hnm. }
    destruct (lookup (pi_spec it) (st_slots st2)) as [[m|b|e|b]|]; try exact Hset; exact H2.
  - destruct HR as [-> _]. rewrite check_specifier_same.
    set (st2 := if pi_root it then add_resolved_root st0 (pi_spec it) else st0).
    set (st3 := record_checksum W st2 (pi_spec it) MJson wm).
    assert (E : st_slots st3 = st_slots st0 /\ st_pending st3 = st_pending st0 /\ st_redirects st3 = st_redirects st0 /\
                st_dyn st3 = st_dyn st0 /\ st_deferred st3 = st_deferred st0 /\ st_npm st3 = st_npm st0).
    { destruct (record_checksum_fields st2 (pi_spec it) MJson wm) as [R1 [R2 [R3 [R4 [R5 R6]]]]].
      pose proof (root_fields (pi_root it) st0 (pi_spec it)) as Q. cbv zeta in Q. fold st2 in Q.
      destruct Q as [Q1 [Q2 [Q3 [Q4 [Q5 Q6]]]]]. fold st3 in R1, R2, R3, R4, R5, R6. repeat split; congruence. }
    destruct E as [E1 [E2 [E3 [E4 [E5 E6]]]]].
    assert (H3 : SI None [] st3) by (eapply sinv_ext; [| | | | | |exact HN]; assumption).
    apply sinv_set_slot; [exact H3 | | |].
    + unfold J. rewrite E1, E3. exact Hj0.
    + unfold inflight. cbn [app]. rewrite E2. exact Hnp.
    + rewrite E1. exact Hnm.
  - destruct HR as [-> Hresp]. rewrite check_specifier_same.
    set (st2 := if pi_root it then add_resolved_root st0 (pi_spec it) else st0).
    set (media := match wm_kind wm with MkWasm => MWasm | _ => match wm_media wm with MUnknown => MJavaScript | m => m end end).
    set (st3 := record_checksum W st2 (pi_spec it) media wm).
    assert (E : st_slots st3 = st_slots st0 /\ st_pending st3 = st_pending st0 /\ st_redirects st3 = st_redirects st0 /\
                st_dyn st3 = st_dyn st0 /\ st_deferred st3 = st_deferred st0 /\ st_npm st3 = st_npm st0).
    { destruct (record_checksum_fields st2 (pi_spec it) media wm) as [R1 [R2 [R3 [R4 [R5 R6]]]]].
      pose proof (root_fields (pi_root it) st0 (pi_spec it)) as Q. cbv zeta in Q. fold st2 in Q.
      destruct Q as [Q1 [Q2 [Q3 [Q4 [Q5 Q6]]]]]. fold st3 in R1, R2, R3, R4, R5, R6. repeat split; congruence. }
    destruct E as [E1 [E2 [E3 [E4 [E5 E6]]]]].
    assert (H3 : SI (Some (pi_spec it)) [] st3) by (eapply sinv_ext; [| | | | | |exact HI0]; assumption).
    assert (Hda : forall da, In da (wm_deps wm) -> dfl_asset (snd da) = false) by (intros da Hd; eapply Hnoasset; eassumption).
    destruct (sinv_visit_module W o starts (Some (pi_spec it)) st3 (pi_spec it) wm H3 Hda) as [H4 G4].
    set (r := visit_module W o st3 (pi_spec it) wm) in *.
    set (X := mod_targets (snd r)) in *.
    destruct (sinv_drop_cur X (pi_spec it) (fst r) H4) as [HN4 [Hnp4 [[a4 Hsl4] Hk4]]].
    assert (Hj3 : Jn [] st3 (pi_spec it)) by (unfold J; rewrite E1, E3; exact Hj0).
    assert (Hj4 : Jn X (fst r) (pi_spec it)) by (apply j_weaken; eapply j_mono; [exact G4 | exact Hj3]).
    assert (Hnm4 : forall m, lookup (pi_spec it) (st_slots (fst r)) <> Some (BMod m)) by (intro m; rewrite Hsl4; discriminate).
    pose proof (sinv_set_slot starts None X (fst r) (pi_spec it) (BMod (snd r)) HN4 Hj4 Hnp4 Hnm4) as H5.
    (* the targets of the new module entry are its edges: the extra starting points can go *)
    set (st5 := set_slot (fst r) (pi_spec it) (BMod (snd r))) in *.
    assert (Hself : Jn [] st5 (pi_spec it)).
    { eapply j_mono; [apply eg_set_slot; exact Hnm4|]. eapply j_mono; [exact G4 | exact Hj3]. }
    assert (Hcut : forall y, Jn X st5 y -> Jn [] st5 y).
    { intros y Hy. unfold J in *. rewrite app_nil_r. eapply reaches_cut; [|exact Hy].
      intros x Hx. eapply R_edge; [rewrite app_nil_r in Hself; exact Hself|].
      unfold st5, set_slot, sedges. cbn. rewrite lookup_set_assoc_same. apply in_or_app. right. exact Hx. }
    destruct H5 as [A B C D E F G H I]. constructor; auto.
    + intros k b Hk0. apply Hcut. eapply C; exact Hk0.
    + intros k d Hk0. apply Hcut. eapply D; exact Hk0.
Qed.

Lemma sinv_take_head : forall st it rest,
  SI None [] st -> st_pending st = it :: rest ->
  SI (Some (pi_spec it)) [] (st <| st_pending := rest |>) /\ Jn [] (st <| st_pending := rest |>) (pi_spec it) /\ pi_asset it = false.
Proof.
  intros st it rest [A B C D E F G H I] Ep. unfold inflight in F, G. cbn [app] in F, G. rewrite Ep in *.
  split; [|split].
  - constructor; unfold inflight; cbn.
    + exact A.
    + intros i Hi. apply B. right; exact Hi.
    + exact C.
    + exact D.
    + exact E.
    + exact F.
    + exact G.
    + intros i Hi. apply H. right; exact Hi.
    + exact I.
  - apply (B it). left; reflexivity.
  - apply H. left; reflexivity.
Qed.

Lemma sinv_load_branches : forall bs st,
  SI None [] st -> (forall s b, In (s, b) bs -> Jn [] st s /\ br_asset b = false) ->
  SI None [] (load_branches W o st bs).
Proof.
  induction bs as [|[s b] bs IH]; intros st HI HB; cbn [load_branches]; [exact HI|].
  destruct (HB s b (or_introl eq_refl)) as [Hj Hb]. rewrite Hb.
  destruct (sinv_load W o starts None [] st s (Some (br_range b)) true (mem s (st_resolved_roots st)) (br_attr b) 0 HI Hj) as [H1 G1].
  apply IH; [exact H1|]. intros s0 b0 Hin. destruct (HB s0 b0 (or_intror Hin)) as [Hj0 Hb0].
  split; [eapply j_mono; [exact G1 | exact Hj0] | exact Hb0].
Qed.

Lemma sinv_load_deferred : forall ds st,
  SI None [] st -> (forall s d, In (s, d) ds -> Jn [] st s) -> SI None [] (load_deferred W o st ds).
Proof.
  induction ds as [|[s d] ds IH]; intros st HI HB; cbn [load_deferred]; [exact HI|].
  pose proof (HB s d (or_introl eq_refl)) as Hj.
  destruct (sinv_load W o starts None [] st s (df_range d) (df_dyn d) (df_root d) (df_attr d) 0 HI Hj) as [H1 G1].
  apply IH; [exact H1|]. intros s0 d0 Hin. eapply j_mono; [exact G1 | eapply HB; right; exact Hin].
Qed.

Theorem sinv_loop_step : forall st, SI None [] st -> SI None [] (loop_step W o st).
Proof.
  intros st HI. unfold loop_step.
  set (st1 := match st_pending st with it :: rest => process W o _ it | [] => st end).
  assert (H1 : SI None [] st1).
  { unfold st1. destruct (st_pending st) as [|it rest] eqn:Ep; [exact HI|].
    destruct (sinv_take_head st it rest HI Ep) as [A [B C]]. apply sinv_process; assumption. }
  destruct (st_pending st1) as [|i r] eqn:Ep1; [|exact H1].
  destruct (st_deferred st1) as [|d ds] eqn:Ed.
  - destruct (st_in_dyn st1); [exact H1|].
    apply sinv_load_branches.
    + destruct H1 as [A B C D E F G H I]. constructor; cbn; auto; intros k b [].
    + intros s b Hin. destruct H1 as [A B C D E F G H I]. split; [eapply C; exact Hin | eapply I; exact Hin].
  - apply sinv_load_deferred.
    + destruct H1 as [A B C D E F G H I]. constructor; cbn; auto; intros k d0 [].
    + intros s d0 Hin. destruct H1 as [A B C D E F G H I]. eapply D. rewrite Ed. exact Hin.
Qed.

Lemma sinv_resolve_pending : forall fuel st st',
  SI None [] st -> resolve_pending fuel W o st = Some st' -> SI None [] st'.
Proof.
  induction fuel as [|f IH]; intros st st' HI HR; cbn [resolve_pending] in HR.
  - destruct (idle st); [inversion HR; subst; exact HI | discriminate].
  - destruct (idle st); [inversion HR; subst; exact HI|]. eapply IH; [apply sinv_loop_step; exact HI | exact HR].
Qed.

Lemma sinv_load_roots : forall rs st,
  SI None [] st -> (forall r, In r rs -> In r starts) -> SI None [] (load_roots W o st rs).
Proof.
  induction rs as [|r rs IH]; intros st HI HS; cbn [load_roots]; [exact HI|].
  apply IH; [|intros r0 H; apply HS; right; exact H].
  apply sinv_load; [exact HI|]. apply R_start. apply in_or_app. left. apply HS. left; reflexivity.
Qed.

Lemma sinv_load_import_deps : forall ds st,
  SI None [] st -> (forall d t rg, In d ds -> d_type d = ROk t rg -> In t starts) -> SI None [] (load_import_deps W o st ds).
Proof.
  induction ds as [|d ds IH]; intros st HI HS; cbn [load_import_deps]; [exact HI|].
  apply IH; [|intros d0 t rg H Ht; apply (HS d0 t rg); [right; exact H | exact Ht]].
  destruct (d_type d) as [|t rg|e] eqn:Et; try exact HI.
  apply sinv_load; [exact HI|]. apply R_start. apply in_or_app. left. apply (HS d t rg); [left; reflexivity | exact Et].
Qed.

Lemma sinv_load_imports : forall imps st,
  SI None [] st -> (forall k ds d t rg, In (k, ds) imps -> In d ds -> d_type d = ROk t rg -> In t starts) ->
  SI None [] (load_imports W o st imps).
Proof.
  induction imps as [|[k ds] rest IH]; intros st HI HS; cbn [load_imports]; [exact HI|].
  apply IH; [|intros k0 ds0 d t rg H Hd Ht; apply (HS k0 ds0 d t rg); [right; exact H | exact Hd | exact Ht]].
  apply sinv_load_import_deps; [exact HI|]. intros d t rg Hd Ht. apply (HS k ds d t rg); [left; reflexivity | exact Hd | exact Ht].
Qed.
End Sound2.

(* ---------- the theorem ---------- *)
Lemma dkf_aux_sub : forall l seen x, In x (dedup_keep_first_aux seen l) -> In x l.
Proof.
  induction l as [|y l IH]; intros seen x H; cbn [dedup_keep_first_aux] in H; [destruct H|].
  destruct (mem y seen); [right; eapply IH; exact H|].
  destruct H as [H|H]; [left; exact H | right; eapply IH; exact H].
Qed.

Lemma in_has_key : forall {V} (l : list (N * V)) s v, In (s, v) l -> has_key s l = true.
Proof.
  intros V l s v. unfold has_key. induction l as [|[k0 v0] l IH]; intro H; [destruct H|]. cbn [lookup].
  destruct (N.eqb_spec s k0) as [_|Hne]; [reflexivity|].
  destruct H as [H|H]; [inversion H; subst; contradiction | apply IH; exact H].
Qed.

(* the npm stage at the end of a build adds finished entries for specifiers that were requested *)
Lemma set_assoc_keys : forall {V} k (v : V) l x, In x (map fst (set_assoc k v l)) -> x = k \/ In x (map fst l).
Proof.
  intros V k v l. induction l as [|[k' v'] l IH]; intros x H; cbn [set_assoc] in H.
  - destruct H as [H|[]]. left. symmetry. exact H.
  - destruct (N.eqb_spec k k') as [->|Hne]; cbn [map fst In] in *.
    + destruct H as [H|H]; [left; symmetry; exact H | right; right; exact H].
    + destruct H as [H|H]; [right; left; exact H|]. destruct (IH x H) as [H'|H']; [left; exact H' | right; right; exact H'].
Qed.

Lemma npm_main_keys : forall ans items x, In x (map fst (npm_main ans items)) -> In x (map ni_spec items).
Proof.
  intros ans items x. unfold npm_main.
  assert (G : forall reqs acc, (forall y, In y (map fst acc) -> In y (map ni_spec items)) ->
              In x (map fst (fold_left (fun acc r => fold_left (fun acc it =>
                if N.eqb (ni_req it) r
                then set_assoc (ni_spec it) (if N.eqb (npm_code ans r) 1 then BErr (BNpm (ni_spec it) (ni_range it) 0) else BMod (npm_module (ni_spec it))) acc
                else acc) items acc) reqs acc)) -> In x (map ni_spec items)).
  { induction reqs as [|r reqs IH]; intros acc Hacc H; cbn [fold_left] in H; [apply Hacc; exact H|].
    eapply IH; [|exact H]. clear H IH.
    assert (G2 : forall its acc0, (forall it, In it its -> In it items) -> (forall y, In y (map fst acc0) -> In y (map ni_spec items)) ->
                 forall y, In y (map fst (fold_left (fun acc it =>
                   if N.eqb (ni_req it) r
                   then set_assoc (ni_spec it) (if N.eqb (npm_code ans r) 1 then BErr (BNpm (ni_spec it) (ni_range it) 0) else BMod (npm_module (ni_spec it))) acc
                   else acc) its acc0)) -> In y (map ni_spec items)).
    { induction its as [|it its IH2]; intros acc0 Hsub Ha y Hy; cbn [fold_left] in Hy; [apply Ha; exact Hy|].
      eapply IH2; [intros i Hi; apply Hsub; right; exact Hi| |exact Hy].
      intros z Hz. destruct (N.eqb (ni_req it) r); [|apply Ha; exact Hz].
      apply set_assoc_keys in Hz. destruct Hz as [->|Hz]; [apply in_map; apply Hsub; left; reflexivity | apply Ha; exact Hz]. }
    apply G2; [auto | exact Hacc]. }
  apply G. intros y [].
Qed.

Lemma npm_dynamic_keys : forall ans items its acc x,
  (forall it, In it its -> In it items) -> (forall y, In y (map fst acc) -> In y (map ni_spec items)) ->
  In x (map fst (npm_dynamic ans its acc)) -> In x (map ni_spec items).
Proof.
  intros ans items. unfold npm_dynamic. induction its as [|it its IH]; intros acc x Hsub Ha H; cbn [fold_left] in H; [apply Ha; exact H|].
  eapply IH; [intros i Hi; apply Hsub; right; exact Hi| |exact H].
  intros y Hy. apply set_assoc_keys in Hy. destruct Hy as [->|Hy]; [apply in_map; apply Hsub; left; reflexivity | apply Ha; exact Hy].
Qed.

Lemma npm_resolve_keys : forall W items x,
  In x (map fst (no_slots (npm_resolve W items))) -> In x (map ni_spec items).
Proof.
  intros W items x H. unfold npm_resolve in H. destruct (w_npm W) as [ans|]; [|destruct H]. cbn [no_slots] in H.
  eapply npm_dynamic_keys; [| |exact H].
  - intros it Hit. apply filter_In in Hit. exact (proj1 Hit).
  - intros y Hy. match type of Hy with context [if ?c then _ else _] => destruct c end; [|destruct Hy].
    apply npm_main_keys in Hy. apply in_map_iff in Hy. destruct Hy as [it [E Hit]]. apply filter_In in Hit.
    rewrite <- E. apply in_map. exact (proj1 Hit).
Qed.

Lemma npm_fill_lookup_keep : forall new slots s v, lookup s slots = Some v -> lookup s (npm_fill slots new) = Some v.
Proof.
  unfold npm_fill. induction new as [|[k x] new IH]; intros slots s v H; cbn [fold_left]; [exact H|].
  apply IH. cbn [fst snd]. apply lookup_or_insert_keep. exact H.
Qed.

Lemma npm_fill_keys : forall new slots x, In x (map fst (npm_fill slots new)) -> In x (map fst slots) \/ In x (map fst new).
Proof.
  unfold npm_fill. induction new as [|[k v] new IH]; intros slots x H; cbn [fold_left] in H; [left; exact H|].
  destruct (IH _ _ H) as [H'|H']; [|right; right; exact H'].
  cbn [fst snd] in H'. unfold or_insert in H'. destruct (lookup k slots); [left; exact H'|].
  rewrite map_app in H'. apply in_app_or in H'. destruct H' as [H'|[H'|[]]]; [left; exact H' | right; left; exact H'].
Qed.

Lemma has_key_in_keys : forall {V} (l : list (N * V)) s, In s (map fst l) -> has_key s l = true.
Proof.
  intros V l s H. apply in_map_iff in H. destruct H as [[k v] [E Hin]]. cbn in E. subst k. eapply in_has_key. exact Hin.
Qed.

Theorem build_sound : forall W o k roots imports g,
  (forall s f wm, resp_of W s = WModule f wm \/ resp_reload_of W s = WModule f wm -> f = s) ->
  (forall s f, resp_of W s = WExternal f \/ resp_reload_of W s = WExternal f -> f = s) ->
  (forall s f wm da, resp_of W s = WModule f wm \/ resp_reload_of W s = WModule f wm ->
     In da (wm_deps wm) -> dfl_asset (snd da) = false) ->
  build W o (empty_bgraph k) roots imports = Some g ->
  forall s sl, In (s, sl) (bg_slots g) -> Reaches (b1_edges W g false) (b1_starts roots imports) s.
Proof.
  intros W o k roots imports g Ha Hx Hn Hb s sl Hin. unfold build in Hb.
  match type of Hb with context [resolve_pending ?f W o ?st0] => set (fuel := f) in *; set (st2 := st0) in * end.
  destruct (resolve_pending fuel W o st2) as [st|] eqn:HR; [|discriminate].
  inversion Hb; subst g; clear Hb. cbn [bg_slots finish] in Hin.
  set (starts := b1_starts roots imports).
  assert (H2 : SInv starts None [] st2).
  { unfold st2. apply (sinv_load_imports W o starts).
    - apply (sinv_load_roots W o starts).
      + constructor; cbn; try (intros; discriminate); try (intros; contradiction); constructor.
      + intros r Hr. apply dkf_aux_sub in Hr. apply filter_In in Hr. destruct Hr as [Hr _].
        unfold starts, b1_starts. apply in_or_app. left. exact Hr.
    - intros k0 ds d t rg Hk Hd Ht. apply filter_In in Hk. destruct Hk as [Hk _].
      unfold starts, b1_starts. apply in_or_app. right. apply in_flat_map. exists (k0, ds). split; [exact Hk|].
      cbn [snd]. apply in_flat_map. exists d. split; [exact Hd|]. rewrite Ht. left. reflexivity. }
  pose proof (sinv_resolve_pending W o starts Ha Hx Hn fuel st2 st H2 HR) as H3.
  assert (Hj : J starts [] st s).
  { apply (in_map fst) in Hin. cbn [fst] in Hin. apply npm_fill_keys in Hin. destruct Hin as [Hin|Hin].
    - apply (si_slots starts None [] st H3). apply has_key_in_keys. exact Hin.
    - apply npm_resolve_keys in Hin. apply in_map_iff in Hin. destruct Hin as [it [E Hit]]. rewrite <- E.
      apply (si_npm starts None [] st H3 it Hit). }
  unfold J in Hj. rewrite app_nil_r in Hj.
  eapply reaches_mono; [| |exact Hj]; [|auto].
  intros a b Hab. rewrite b1_edges_sedges. cbn [bg_slots bg_redirects finish]. unfold sedges in *.
  apply in_app_or in Hab. apply in_or_app. destruct Hab as [Hab|Hab]; [left; exact Hab|]. right.
  destruct (lookup a (st_slots st)) as [v|] eqn:El; [|destruct Hab].
  rewrite (npm_fill_lookup_keep _ _ _ _ El). exact Hab.
Qed.

(* the hypotheses as computable predicates on the world *)
Definition noasset_world (W : world) : bool :=
  forallb (fun p : spec * wresp =>
             match snd p with
             | WModule _ wm => forallb (fun da : dep * dflags => negb (dfl_asset (snd da))) (wm_deps wm)
             | _ => true end) (w_resp W ++ w_resp_reload W).

Lemma resp_in : forall W s r, resp_of W s = r -> r = WMissing \/ In (s, r) (w_resp W).
Proof.
  intros W s r H. unfold resp_of in H. destruct (lookup s (w_resp W)) as [r0|] eqn:El; [|left; symmetry; exact H].
  right. subst r0. apply lookup_In. exact El.
Qed.

Lemma resp_reload_in : forall W s r, resp_reload_of W s = r -> r = WMissing \/ In (s, r) (w_resp W) \/ In (s, r) (w_resp_reload W).
Proof.
  intros W s r H. unfold resp_reload_of in H. destruct (lookup s (w_resp_reload W)) as [r0|] eqn:El.
  - right. right. subst r0. apply lookup_In. exact El.
  - destruct (resp_in W s r H) as [H'|H']; [left; exact H' | right; left; exact H'].
Qed.

Lemma resp_any_in : forall W s r,
  resp_of W s = r \/ resp_reload_of W s = r -> r = WMissing \/ In (s, r) (w_resp W ++ w_resp_reload W).
Proof.
  intros W s r [H|H].
  - destruct (resp_in W s r H) as [H'|H']; [left; exact H' | right; apply in_or_app; left; exact H'].
  - destruct (resp_reload_in W s r H) as [H'|[H'|H']]; [left; exact H' | right; apply in_or_app; left; exact H' | right; apply in_or_app; right; exact H'].
Qed.

Theorem build_sound_b : forall W o k roots imports g,
  noalias_world W = true -> noasset_world W = true ->
  build W o (empty_bgraph k) roots imports = Some g ->
  forall s sl, In (s, sl) (bg_slots g) -> Reaches (b1_edges W g false) (b1_starts roots imports) s.
Proof.
  intros W o k roots imports g Hal Has. 
  assert (Hall : forall p, In p (w_resp W ++ w_resp_reload W) -> noalias_wresp p = true).
  { unfold noalias_world in Hal. apply andb_true_iff in Hal. destruct Hal as [A B]. rewrite forallb_forall in A, B.
    intros p Hp. apply in_app_or in Hp. destruct Hp as [Hp|Hp]; [apply A | apply B]; exact Hp. }
  unfold noasset_world in Has. rewrite forallb_forall in Has.
  apply build_sound.
  - intros s f wm H. destruct (resp_any_in W s (WModule f wm) H) as [H'|H']; [discriminate|].
    specialize (Hall _ H'). unfold noalias_wresp in Hall. cbn [snd fst] in Hall. apply N.eqb_eq in Hall. exact Hall.
  - intros s f H. destruct (resp_any_in W s (WExternal f) H) as [H'|H']; [discriminate|].
    specialize (Hall _ H'). unfold noalias_wresp in Hall. cbn [snd fst] in Hall. apply N.eqb_eq in Hall. exact Hall.
  - intros s f wm da H Hda. destruct (resp_any_in W s (WModule f wm) H) as [H'|H']; [discriminate|].
    specialize (Has _ H'). cbn [snd] in Has. rewrite forallb_forall in Has. specialize (Has da Hda).
    destruct (dfl_asset (snd da)); [discriminate | reflexivity].
Qed.
