(* C10: the model of the transform (Model/FcTransform.v) produces erased function-likes or
   diagnostics; outside the known classes the output is erased in the strict sense. *)
From Coq Require Import Arith.
From DG Require Import Base.Util Base.Sexp Model.FcSummary Model.FcTransform Model.RunC10 Proofs.FcErasedProofs.

Lemma app_nil_both : forall {A} (a b : list A), a ++ b = [] -> a = [] /\ b = [].
Proof. intros A a b H; apply app_eq_nil in H; exact H. Qed.

(* ---- generic traversal lemmas *)
Lemma tleav_list_ok : forall {A} (f : A -> bool * ecls * list N) (P : ecls -> Prop) l,
  Forall (fun x => forall ok x' ds, f x = (ok, x', ds) -> ds = [] -> ok = true -> P x') l ->
  forall ok l' ds, tleav_list f l = (ok, l', ds) -> ds = [] -> ok = true -> Forall P l'.
Proof.
  intros A f P l H; induction H as [|x l Hx Hl IH]; intros ok l' ds E Hd Ho; cbn [tleav_list] in E.
  - injection E as E1 E2 E3. rewrite <- E2. constructor.
  - destruct (f x) as [[okx x'] dx] eqn:Ex. destruct okx.
    + destruct (tleav_list f l) as [[okr r'] dr] eqn:Er. injection E as E1 E2 E3.
      rewrite <- E3 in Hd. apply app_nil_both in Hd. destruct Hd as [Hd1 Hd2].
      rewrite <- E2. rewrite <- E1 in Ho.
      constructor; [eapply Hx; eauto | eapply IH; eauto].
    + injection E as E1 E2 E3. rewrite <- E1 in Ho. discriminate.
Qed.

Lemma tparams_list_ok : forall tp ov start (P : param -> Prop) l,
  (ov = false -> Forall (fun p => forall io, snd (tp p io) = [] -> P (fst (tp p io))) l) ->
  (forall p, P (overload_param p)) ->
  forall i, snd (tparams_list tp ov start l i) = [] -> Forall P (fst (tparams_list tp ov start l i)).
Proof.
  intros tp ov start P l; induction l as [|p l IH]; intros H Hov i E; cbn [tparams_list] in *.
  - constructor.
  - destruct ov.
    + destruct (tparams_list tp true start l (S i)) as [r' dr] eqn:Er. cbn [fst snd] in *.
      constructor; [apply Hov|].
      specialize (IH (fun Hf => ltac:(discriminate Hf)) Hov (S i)). rewrite Er in IH. apply IH. exact E.
    + destruct (tp p (is_optional_at start i)) as [p' dp] eqn:Ep.
      destruct (tparams_list tp false start l (S i)) as [r' dr] eqn:Er. cbn [fst snd] in *.
      apply app_nil_both in E. destruct E as [E1 E2].
      specialize (H eq_refl). inversion H as [|? ? Hp Hl]; subst.
      constructor.
      * specialize (Hp (is_optional_at start i)). rewrite Ep in Hp. apply Hp. reflexivity.
      * specialize (IH (fun _ => Hl) Hov (S i)). rewrite Er in IH. apply IH. reflexivity.
Qed.

Lemma tleav_node : forall l, tleav (SNode l) = let '(ok, l', ds) := tleav_list tleav l in (ok, ENode l', ds).
Proof. reflexivity. Qed.
Lemma tleav_tpl : forall l, tleav (STpl l) = let '(ok, l', ds) := tleav_list tleav l in (ok, ENode l', ds).
Proof. reflexivity. Qed.
Lemma tleav_sat : forall e, tleav (SSat e) = let '(ok, e', ds) := tleav e in (ok, ENode [e'], ds).
Proof. reflexivity. Qed.
Lemma tleav_fn : forall f, tleav (SFnE f) = let (f', ds) := tfn false f in (true, EFun f', ds).
Proof. reflexivity. Qed.
Lemma tleav_arrow : forall f, tleav (SArrowE f) = let (f', ds) := tfn false f in (true, EFun f', ds).
Proof. reflexivity. Qed.

Lemma has_ty_ty_of : forall c, has_ty (ty_of c) = match c with TyNone => false | _ => true end.
Proof. intros c; destruct c; reflexivity. Qed.


Lemma infer_not_none : forall e c v, infer e = Some (c, v) -> c <> TyNone.
Proof.
  induction e; cbn [infer]; intros c v H; try discriminate; try (inversion H; subst; discriminate).
  - destruct (simple_ty t); [|discriminate]. inversion H; subst. unfold sty_cls. destruct t; try discriminate.
    destruct kw; try discriminate. destruct p; discriminate.
  - eapply IHe; eauto.
Qed.

Lemma overload_param_ok : forall r p, ParamOk r (overload_param p).
Proof.
  intros r p; unfold overload_param.
  destruct p as [pat ty opt d prop]; destruct pat; try (constructor; [discriminate | left; reflexivity | left; reflexivity]).
  destruct d; constructor; try discriminate; try (left; reflexivity).
Qed.

Lemma body_ok_std : forall k b ret rv,
  BodyOk k match b with SBNone => BNone | _ => match ret with TyNone => BEmpty | _ => if rv : bool then BEmpty else BRet end end.
Proof. intros k b ret rv; destruct b; destruct ret; try destruct rv; exact I. Qed.

(* ---- the model yields erased function-likes (for the relaxation r that the source needs) *)
Theorem transform_family_erased : forall r,
  (forall e, gf_e r e = true -> forall ok e' ds, tleav e = (ok, e', ds) -> ds = [] -> ok = true -> Leavable r e') /\
  (forall f, gf_f r f = true -> forall ov, snd (tfn ov f) = [] -> FnOk r (fst (tfn ov f))) /\
  (forall p, gf_p r p = true -> forall io, snd (tparam p io) = [] -> ParamOk r (fst (tparam p io))) /\
  (forall b, forall e, b = SBExpr e ->
     gf_e r e = true -> forall ok e' ds, tleav e = (ok, e', ds) -> ds = [] -> ok = true -> Leavable r e').
Proof.
  intro r. apply sx_family_ind.
  - (* SAbsent *) intros _ ok e' ds H _ Ho. cbn in H. inversion H; subst; discriminate.
  - intros _ ok e' ds H _ _. cbn in H. inversion H; subst; constructor.
  - intros _ ok e' ds H _ _. cbn in H. inversion H; subst; constructor.
  - (* SNode *) intros l IH Hg ok e' ds H Hd Ho. rewrite tleav_node in H.
    destruct (tleav_list tleav l) as [[okl l'] dl] eqn:El. inversion H; subst.
    constructor. eapply (tleav_list_ok tleav (Leavable r) l); eauto.
    cbn [gf_e] in Hg. rewrite forallb_forall in Hg.
    rewrite Forall_forall in *. intros x Hx ok0 x' ds0 E0 Hd0 Ho0. eapply IH; eauto.
  - (* STpl *) intros l IH Hg ok e' ds H Hd Ho. rewrite tleav_tpl in H.
    destruct (tleav_list tleav l) as [[okl l'] dl] eqn:El. inversion H; subst.
    constructor. eapply (tleav_list_ok tleav (Leavable r) l); eauto.
    cbn [gf_e] in Hg. rewrite forallb_forall in Hg.
    rewrite Forall_forall in *. intros x Hx ok0 x' ds0 E0 Hd0 Ho0. eapply IH; eauto.
  - (* SAs *) intros t e _ _ ok e' ds H _ _. cbn in H. inversion H; subst. constructor. constructor.
  - (* SSat *) intros e IH Hg ok e' ds H Hd Ho. rewrite tleav_sat in H.
    destruct (tleav e) as [[ok1 e1] d1] eqn:E1. inversion H; subst.
    constructor. constructor; [|constructor]. eapply IH; eauto.
  - (* SSymbol *) intros _ ok e' ds H _ Ho. cbn in H. inversion H; subst; discriminate.
  - (* SFnE *) intros f IH Hg ok e' ds H Hd Ho. rewrite tleav_fn in H.
    destruct (tfn false f) as [f' df] eqn:Ef. inversion H; subst.
    constructor. specialize (IH Hg false). rewrite Ef in IH. apply IH. reflexivity.
  - (* SArrowE *) intros f IH Hg ok e' ds H Hd Ho. rewrite tleav_arrow in H.
    destruct (tfn false f) as [f' df] eqn:Ef. inversion H; subst.
    constructor. specialize (IH Hg false). rewrite Ef in IH. apply IH. reflexivity.
  - (* SOtherE *) intros _ ok e' ds H _ Ho. cbn in H. inversion H; subst; discriminate.
  - (* SFn *)
    intros k ps ret rv a g b d IHps IHb Hg ov Hds.
    cbn [gf_f] in Hg. apply andb_true_iff in Hg. destruct Hg as [Hgp Hgb].
    cbn [tfn] in *.
    destruct (tparams_list tparam ov (optional_start ps) ps 0) as [ps' dps] eqn:Eps.
    assert (Hps : dps = [] -> Forall (ParamOk r) ps').
    { intro Hd.
      assert (T1 : ov = false -> Forall (fun p => forall io, snd (tparam p io) = [] -> ParamOk r (fst (tparam p io))) ps).
      { intros _. rewrite forallb_forall in Hgp. rewrite Forall_forall in *.
        intros p Hp io Hio. apply IHps; [exact Hp | apply Hgp; exact Hp | exact Hio]. }
      pose proof (tparams_list_ok tparam ov (optional_start ps) (ParamOk r) ps T1 (overload_param_ok r) 0%nat) as T.
      rewrite Eps in T. cbn [fst snd] in T. apply T; exact Hd. }
    destruct (is_arrow_kind k) eqn:Ek.
    + (* arrow *)
      destruct ret.
      * destruct b as [|stmts|e].
        -- cbn in Hds. discriminate.
        -- destruct (body_return FArrow (analyze_body stmts)); cbn [fst snd app] in *; [|discriminate].
           apply FnOkStd; [apply Hps; exact Hds | destruct a; cbn; try exact I; reflexivity | right; right; left; reflexivity].
        -- destruct (infer e) as [[c v]|] eqn:Ei.
           ++ cbn [fst snd app] in *.
              assert (Hc : (if a then TyOther else c) <> TyNone)
                by (destruct a; [discriminate | eapply infer_not_none; eauto]).
              destruct (if a then TyOther else c) eqn:Ec; [exfalso; apply Hc; reflexivity | |];
                (apply FnOkStd; [apply Hps; exact Hds | destruct (if a then false else v); cbn; try exact I; reflexivity
                                | right; right; left; reflexivity]).
           ++ destruct (tleav e) as [[ok e'] de] eqn:Et. cbn [fst snd] in *.
              apply app_nil_both in Hds. destruct Hds as [Hd1 Hd2].
              apply app_nil_both in Hd1. destruct Hd1 as [Hde Hok].
              destruct ok; [|discriminate].
              apply andb_true_iff in Hgb. destruct Hgb as [Hra Hge].
              apply FnOkArrowKept; [exact Hra | reflexivity | apply Hps; exact Hd2 |].
              eapply (IHb e eq_refl); eauto.
      * cbn [fst snd app] in *.
        apply FnOkStd; [apply Hps; exact Hds | destruct rv; cbn; try exact I; reflexivity | right; right; left; reflexivity].
      * cbn [fst snd app] in *.
        apply FnOkStd; [apply Hps; exact Hds | destruct rv; cbn; try exact I; reflexivity | right; right; left; reflexivity].
    + (* function / method / accessor *)
      set (ret0 := if ov then TyAny else ret) in *.
      destruct (match k with FSetter => false | _ => match ret0 with TyNone => true | _ => false end end) eqn:Em.
      * (* missing return type *)
        assert (Hk : k <> FSetter) by (intro E; subst k; discriminate).
        assert (Hr0 : ret = TyNone /\ ov = false).
        { unfold ret0 in Em. destruct ov; destruct k; try discriminate; destruct ret; try discriminate; split; reflexivity. }
        destruct Hr0 as [Hret Hov]. subst ret.
        destruct g; [cbn in Hds; discriminate|].
        destruct b as [|stmts|e].
        -- cbn [fst snd app] in *.
           apply FnOkStd; [apply Hps; exact Hds | exact I |].
           apply orb_true_iff in Hgb. destruct Hgb as [Hgb|Hgb].
           ++ apply orb_true_iff in Hgb. destruct Hgb as [Hgb|Hgb].
              ** apply is_setter_iff in Hgb. right; left; exact Hgb.
              ** apply is_ctor_iff in Hgb. left; exact Hgb.
           ++ right; right; right; split; [exact Hgb | reflexivity].
        -- destruct (body_return k (analyze_body stmts)); cbn [fst snd app] in *; [|discriminate].
           apply FnOkStd; [apply Hps; exact Hds | destruct a; exact I | right; right; left; reflexivity].
        -- cbn in Hds. discriminate.
      * (* return type present, or a setter *)
        cbn [fst snd app] in *.
        apply FnOkStd; [apply Hps; exact Hds | apply body_ok_std |].
        destruct k; try (right; left; reflexivity);
          (right; right; left; destruct ret0; [discriminate | reflexivity | reflexivity]).
  - (* SParam *)
    intros pat ty opt d prop IHd Hg io Hds. cbn [gf_p] in Hg. cbn [tparam] in *.
    destruct (sx_absent d) eqn:Ea.
    + destruct pat; try (destruct ty; cbn [fst snd] in *; try discriminate;
                         (constructor; [discriminate | left; reflexivity | left; reflexivity])).
    + destruct pat.
      * (* identifier with default *)
        destruct ty.
        -- destruct (infer d) as [[c v]|] eqn:Ei.
           ++ assert (Hc : c <> TyNone) by (eapply infer_not_none; eauto).
              destruct io; cbn [fst snd] in *;
                (constructor; [discriminate | left; reflexivity | left]); try reflexivity.
              destruct c; [exfalso; apply Hc; reflexivity | reflexivity | reflexivity].
           ++ destruct (tleav d) as [[ok d'] dd] eqn:Et. cbn [fst snd] in *.
              apply app_nil_both in Hds. destruct Hds as [Hdd Hok]. destruct ok; [|discriminate].
              assert (Hl : Leavable r d') by (eapply IHd; eauto).
              constructor; [discriminate | right; exact Hl | right; exact Hl].
        -- destruct io; cbn [fst snd] in *; (constructor; [discriminate | left; reflexivity | left; reflexivity]).
        -- destruct io; cbn [fst snd] in *; (constructor; [discriminate | left; reflexivity | left; reflexivity]).
      * (* array pattern with default *)
        destruct ty.
        -- destruct (tleav d) as [[ok d'] dd] eqn:Et. cbn [fst snd] in *.
           apply app_nil_both in Hds. destruct Hds as [Hdd Hok]. destruct ok; [|discriminate].
           assert (Hl : Leavable r d') by (eapply IHd; eauto).
           constructor; [discriminate | right; exact Hl | right; exact Hl].
        -- cbn [fst snd] in *. constructor; [discriminate | right; constructor | left; reflexivity].
        -- cbn [fst snd] in *. constructor; [discriminate | right; constructor | left; reflexivity].
      * destruct ty.
        -- destruct (tleav d) as [[ok d'] dd] eqn:Et. cbn [fst snd] in *.
           apply app_nil_both in Hds. destruct Hds as [Hdd Hok]. destruct ok; [|discriminate].
           assert (Hl : Leavable r d') by (eapply IHd; eauto).
           constructor; [discriminate | right; exact Hl | right; exact Hl].
        -- cbn [fst snd] in *. constructor; [discriminate | right; constructor | left; reflexivity].
        -- cbn [fst snd] in *. constructor; [discriminate | right; constructor | left; reflexivity].
      * cbn in Hds; discriminate.
      * cbn in Hds; discriminate.
  - intros e H; discriminate.
  - intros s e H; discriminate.
  - intros e IH e0 H; inversion H; subst; exact IH.
Qed.

Lemma gf_f_eq : forall r k ps ret rv a g b d,
  gf_f r (SFn k ps ret rv a g b d) =
  forallb (gf_p r) ps &&
  (if is_arrow_kind k then
     match ret, b with
     | TyNone, SBExpr e => match infer e with Some _ => true | None => rx_arrow r && gf_e r e end
     | _, _ => true
     end
   else match ret, b with
        | TyNone, SBNone => is_setter k || is_ctor k || rx_sig r
        | _, _ => true
        end).
Proof. reflexivity. Qed.

(* every source is gap-free once the two function-level relaxations are on *)
Lemma gf_all : forall r, rx_arrow r = true -> rx_sig r = true ->
  (forall e, gf_e r e = true) /\ (forall f, gf_f r f = true) /\ (forall p, gf_p r p = true) /\
  (forall b, forall e, b = SBExpr e -> gf_e r e = true).
Proof.
  intros r Ha Hs. apply sx_family_ind; try reflexivity.
  - intros l IH. cbn [gf_e]. apply forallb_forall. rewrite Forall_forall in IH. exact IH.
  - intros l IH. cbn [gf_e]. apply forallb_forall. rewrite Forall_forall in IH. exact IH.
  - intros e IH. exact IH.
  - intros f IH. exact IH.
  - intros f IH. exact IH.
  - intros k ps ret rv a g b d IHps IHb. rewrite gf_f_eq. apply andb_true_iff; split.
    + apply forallb_forall. rewrite Forall_forall in IHps. exact IHps.
    + destruct (is_arrow_kind k).
      * destruct ret; try reflexivity. destruct b as [|s|e]; try reflexivity.
        destruct (infer e); [reflexivity|]. rewrite Ha. cbn [andb]. exact (IHb e eq_refl).
      * destruct ret; try reflexivity. destruct b; try reflexivity. rewrite Hs. apply orb_true_r.
  - intros pat ty opt d prop IH. exact IH.
  - intros e H; discriminate.
  - intros s e H; discriminate.
  - intros e IH e0 H; inversion H; subst; exact IH.
Qed.

Definition rx_fn : relax := {| rx_arrow := true; rx_sig := true; rx_bare := false |}.

(* the model always yields a diagnostic or a function-like that is erased up to the known classes *)
Theorem tfn_erased_or_diagnostic : forall ov f,
  snd (tfn ov f) <> [] \/ FnOk rx_fn (fst (tfn ov f)).
Proof.
  intros ov f. destruct (snd (tfn ov f)) eqn:E; [right | left; discriminate].
  apply (proj1 (proj2 (transform_family_erased rx_fn))); [|exact E].
  apply (gf_all rx_fn eq_refl eq_refl).
Qed.

(* outside the known classes (source-level reading) the output is erased in the strict sense *)
Theorem tfn_strict_outside_known_classes : forall ov f,
  gf_f strict f = true -> snd (tfn ov f) = [] -> FnOk strict (fst (tfn ov f)).
Proof. intros ov f Hg E. apply (proj1 (proj2 (transform_family_erased strict))); assumption. Qed.

(* first-error mode reports exactly one diagnostic iff collect mode reports any *)
Theorem first_error_spec : forall ds,
  (first_error ds = [] <-> ds = []) /\ (length (first_error ds) <= 1)%nat /\
  (forall d, In d (first_error ds) -> In d ds).
Proof.
  intros ds; destruct ds as [|d r]; cbn [first_error]; repeat split; try tauto; try discriminate; cbn; try lia.
Qed.

(* ---- constructors *)
Lemma infer_absent : forall d, sx_absent d = true -> infer d = None.
Proof. intros d H; destruct d; try discriminate; reflexivity. Qed.

Lemma tparamprop_ok : forall r p m ds, tparamprop p = Some (m, ds) -> ds = [] -> gf_prop r p = true -> MemberOk r m.
Proof.
  intros r p m ds H Hd Hg. destruct p as [pat ty opt d prop]. cbn [tparamprop] in H.
  destruct prop as [[a ro]|]; [|discriminate].
  destruct pat; try (inversion H; subst; discriminate).
  inversion H; subst; clear H. unfold MemberOk, PropLikeOk. cbn [k_cls].
  split; [reflexivity|].
  assert (Hpub : a <> AccPrivate ->
    BindingOk r (ty_of match ty with
                       | TyNone => if negb (sx_absent d) then match infer d with Some (c, _) => c | None => TyNone end else TyNone
                       | _ => ty end) ENone \/
    (rx_bare r = true /\
     has_ty (ty_of match ty with
                   | TyNone => if negb (sx_absent d) then match infer d with Some (c, _) => c | None => TyNone end else TyNone
                   | _ => ty end) = false /\ ENone = ENone)).
  { intro Ha. destruct ty.
    - cbn [gf_prop] in Hg.
      destruct (infer d) as [[c v]|] eqn:Ei.
      + destruct (sx_absent d) eqn:Eab; [rewrite (infer_absent d Eab) in Ei; discriminate|]. cbn [negb].
        left. split; [left; reflexivity | left]. pose proof (infer_not_none _ _ _ Ei) as Hc.
        destruct c; [exfalso; apply Hc; reflexivity | reflexivity | reflexivity].
      + right. rewrite orb_false_r in Hg.
        destruct a; cbn [is_private orb] in Hg; try (exfalso; apply Ha; reflexivity);
          (split; [exact Hg | split; [destruct (negb (sx_absent d)); reflexivity | reflexivity]]).
    - left. split; [left; reflexivity | left; reflexivity].
    - left. split; [left; reflexivity | left; reflexivity]. }
  destruct a.
  - apply Hpub; discriminate.
  - apply Hpub; discriminate.
  - split; reflexivity.
Qed.

Lemma flat_map_nil_each : forall {A B} (f : A -> list B) l, flat_map f l = [] -> forall x, In x l -> f x = [].
Proof.
  intros A B f l; induction l as [|a l IH]; cbn [flat_map]; intros H x Hx; [destruct Hx|].
  apply app_nil_both in H. destruct H as [H1 H2]. destruct Hx as [Hx|Hx]; [subst; exact H1 | apply IH; assumption].
Qed.

(* the constructor part of transform_class_member *)
Theorem tctor_erased : forall r a ov f props out ds,
  tctor a ov f = (props, out, ds) -> ds = [] ->
  gf_f r f = true -> (forall p, In p (match f with SFn _ ps _ _ _ _ _ _ => ps end) -> gf_prop r p = true) ->
  MemberOk r (MCtor a out) /\ Forall (MemberOk r) props.
Proof.
  intros r a ov f props out ds H Hd Hg Hpr. destruct f as [k ps ret rv fa fg b d].
  unfold tctor in H.
  set (body' := match b with SBBlock stmts => match count_super stmts with 0 => BEmpty | n => BSuper n end | _ => BNone end) in *.
  set (P := flat_map (fun p => match tparamprop p with Some (m, _) => [m] | None => [] end) ps) in *.
  set (DP := flat_map (fun p => match tparamprop p with Some (_, d0) => d0 | None => [] end) ps) in *.
  assert (Hbody : BodyOk FCtor body').
  { unfold body'. destruct b as [|stmts|e]; try exact I. destruct (count_super stmts); [exact I | reflexivity]. }
  assert (Hprops : DP = [] -> Forall (MemberOk r) P).
  { intro HDP. unfold P. apply Forall_forall. intros m Hm. apply in_flat_map in Hm. destruct Hm as [p [Hp Hm]].
    destruct (tparamprop p) as [[m0 d0]|] eqn:Et; [|destruct Hm].
    destruct Hm as [Hm|[]]; subst m0.
    pose proof (flat_map_nil_each _ ps HDP p Hp) as Hd0. cbn beta in Hd0. rewrite Et in Hd0.
    eapply tparamprop_ok; eauto. }
  destruct a.
  - (* public *)
    destruct (tparams_list tparam ov (optional_start ps) ps 0) as [ps' dps] eqn:Eps.
    injection H as Hp1 Hp2 Hp3. subst props out. rewrite <- Hp3 in Hd. apply app_nil_both in Hd. destruct Hd as [HDP Hdps].
    split; [|apply Hprops; exact HDP].
    cbn [MemberOk fn_kind fn_params]. split; [reflexivity | split; [|intro E; discriminate]].
    apply FnOkStd; [| exact Hbody | left; reflexivity].
    rewrite gf_f_eq in Hg. apply andb_true_iff in Hg. destruct Hg as [Hgp _].
    assert (T1 : ov = false -> Forall (fun p => forall io, snd (tparam p io) = [] -> ParamOk r (fst (tparam p io))) ps).
    { intros _. rewrite forallb_forall in Hgp. apply Forall_forall.
      intros p Hp io Hio. apply (proj1 (proj2 (proj2 (transform_family_erased r)))); [apply Hgp; exact Hp | exact Hio]. }
    pose proof (tparams_list_ok tparam ov (optional_start ps) (ParamOk r) ps T1 (overload_param_ok r) 0%nat) as T.
    rewrite Eps in T. cbn [fst snd] in T. apply T; exact Hdps.
  - (* protected *)
    destruct (tparams_list tparam ov (optional_start ps) ps 0) as [ps' dps] eqn:Eps.
    injection H as Hp1 Hp2 Hp3. subst props out. rewrite <- Hp3 in Hd. apply app_nil_both in Hd. destruct Hd as [HDP Hdps].
    split; [|apply Hprops; exact HDP].
    cbn [MemberOk fn_kind fn_params]. split; [reflexivity | split; [|intro E; discriminate]].
    apply FnOkStd; [| exact Hbody | left; reflexivity].
    rewrite gf_f_eq in Hg. apply andb_true_iff in Hg. destruct Hg as [Hgp _].
    assert (T1 : ov = false -> Forall (fun p => forall io, snd (tparam p io) = [] -> ParamOk r (fst (tparam p io))) ps).
    { intros _. rewrite forallb_forall in Hgp. apply Forall_forall.
      intros p Hp io Hio. apply (proj1 (proj2 (proj2 (transform_family_erased r)))); [apply Hgp; exact Hp | exact Hio]. }
    pose proof (tparams_list_ok tparam ov (optional_start ps) (ParamOk r) ps T1 (overload_param_ok r) 0%nat) as T.
    rewrite Eps in T. cbn [fst snd] in T. apply T; exact Hdps.
  - (* private: no parameters are kept *)
    injection H as Hp1 Hp2 Hp3. subst props out. rewrite <- Hp3 in Hd.
    split; [|apply Hprops; exact Hd].
    cbn [MemberOk fn_kind fn_params]. split; [reflexivity | split; [|intros _; reflexivity]].
    apply FnOkStd; [constructor | exact Hbody | left; reflexivity].
Qed.
