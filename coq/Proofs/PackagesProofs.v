(* Proofs for the C07 model (Model/Packages.v, Model/RunC07.v). *)
From Coq Require Import Arith.
From DG Require Import Base.Util Base.Sexp Model.Packages Model.RunC07.

(* ------------------------------------------------------------------ *)
(* comparisons on N as propositions *)

Ltac nbool :=
  repeat match goal with
  | H : context [N.leb ?a ?b] |- _ => destruct (N.leb_spec a b)
  | |- context [N.leb ?a ?b] => destruct (N.leb_spec a b)
  | H : context [N.eqb ?a ?b] |- _ => destruct (N.eqb_spec a b)
  | |- context [N.eqb ?a ?b] => destruct (N.eqb_spec a b)
  | H : context [N.ltb ?a ?b] |- _ => destruct (N.ltb_spec a b)
  | |- context [N.ltb ?a ?b] => destruct (N.ltb_spec a b)
  end.

(* ------------------------------------------------------------------ *)
(* strings *)

Lemma str_eqb_eq : forall a b, str_eqb a b = true <-> a = b.
Proof.
  induction a as [|x a IH]; intros [|y b]; cbn [str_eqb]; split; intro H;
    try reflexivity; try discriminate.
  - apply andb_true_iff in H. destruct H as [H1 H2]. apply N.eqb_eq in H1. apply IH in H2. subst. reflexivity.
  - inversion H; subst. apply andb_true_iff. split; [apply N.eqb_refl | apply IH; reflexivity].
Qed.

Lemma str_eqb_refl : forall a, str_eqb a a = true.
Proof. intro a. apply str_eqb_eq. reflexivity. Qed.

Lemma str_eqb_neq : forall a b, str_eqb a b = false <-> a <> b.
Proof.
  intros a b. split.
  - intros H E. apply str_eqb_eq in E. rewrite E in H. discriminate.
  - intro H. destruct (str_eqb a b) eqn:E; [|reflexivity]. apply str_eqb_eq in E. contradiction.
Qed.

Lemma strip_prefix_app : forall p s, strip_prefix p (p ++ s) = Some s.
Proof.
  induction p as [|a p IH]; intro s; cbn [strip_prefix app]; [reflexivity|].
  rewrite N.eqb_refl. apply IH.
Qed.

Lemma strip_prefix_Some : forall p s r, strip_prefix p s = Some r -> s = p ++ r.
Proof.
  induction p as [|a p IH]; intros s r H; cbn [strip_prefix] in H.
  - inversion H. reflexivity.
  - destruct s as [|b s]; [discriminate|].
    destruct (N.eqb a b) eqn:E; [|discriminate]. apply N.eqb_eq in E. subst b.
    cbn [app]. f_equal. apply IH. exact H.
Qed.

Definition is_prefix (p s : str) : Prop := exists t, s = p ++ t.

Lemma is_prefix_b_iff : forall p s, is_prefix_b p s = true <-> is_prefix p s.
Proof.
  intros p s. unfold is_prefix_b, is_prefix. split.
  - destruct (strip_prefix p s) as [r|] eqn:E; [|discriminate]. intros _. exists r. apply strip_prefix_Some. exact E.
  - intros [t Ht]. subst s. rewrite strip_prefix_app. reflexivity.
Qed.

Definition no_slash (s : str) : Prop := ~ In SLASH s.

Lemma span_slash_app : forall a r, no_slash a -> span_slash (a ++ SLASH :: r) = (a, Some r).
Proof.
  induction a as [|x a IH]; intros r H; cbn [app span_slash].
  - rewrite N.eqb_refl. reflexivity.
  - destruct (N.eqb x SLASH) eqn:E.
    + apply N.eqb_eq in E. exfalso. apply H. left. exact E.
    + rewrite IH; [reflexivity|]. intro Hin. apply H. right. exact Hin.
Qed.

Lemma span_slash_Some : forall s h r, span_slash s = (h, Some r) -> s = h ++ SLASH :: r /\ no_slash h.
Proof.
  induction s as [|x s IH]; intros h r H; cbn [span_slash] in H; [discriminate|].
  destruct (N.eqb x SLASH) eqn:E.
  - apply N.eqb_eq in E. inversion H; subst. split; [reflexivity | intros []].
  - destruct (span_slash s) as [h' r'] eqn:Es. inversion H; subst.
    destruct (IH h' r eq_refl) as [H1 H2]. subst s. split; [reflexivity|].
    intros [Hx|Hin]; [subst x; rewrite N.eqb_refl in E; discriminate | exact (H2 Hin)].
Qed.

Lemma span_slash_fst_no_slash : forall s, no_slash (fst (span_slash s)).
Proof.
  induction s as [|x s IH]; cbn [span_slash]; [intros []|].
  destruct (N.eqb x SLASH) eqn:E; [intros []|].
  destruct (span_slash s) as [h r]. cbn [fst] in *.
  intros [Hx|Hin]; [subst x; rewrite N.eqb_refl in E; discriminate | exact (IH Hin)].
Qed.

(* ------------------------------------------------------------------ *)
(* version text: parse (print v) = v *)

Definition all_chars (P : N -> bool) (s : str) : Prop := forall c, In c s -> P c = true.

Definition wf_num (d : str) : Prop :=
  d <> [] /\ all_chars is_digit d /\ strip_zeros d = d /\ fits_u64 d = true.
Definition wf_part (p : str) : Prop := p <> [] /\ all_chars is_part_char p.
Definition wf_parts (ps : list str) : Prop := forall p, In p ps -> wf_part p.

(* what Version::to_string can print: canonical u64 numbers, non-empty [-0-9A-Za-z] parts *)
Definition wf_version (v : version) : Prop :=
  wf_num (v_major v) /\ wf_num (v_minor v) /\ wf_num (v_patch v) /\
  wf_parts (v_pre v) /\ wf_parts (v_build v).

Lemma part_char_bounds : forall c, is_part_char c = true -> 45 <= c /\ c <= 122.
Proof.
  intros c H. unfold is_part_char, is_digit, is_alpha, DASH in H. nbool; cbn in H; try discriminate; lia.
Qed.

Lemma digit_part_char : forall c, is_digit c = true -> is_part_char c = true.
Proof. intros c H. unfold is_part_char. rewrite H. reflexivity. Qed.

Lemma not_ws_in_range : forall c, 43 <= c -> c <= 122 -> is_ws c = false.
Proof.
  intros c H1 H2. unfold is_ws.
  assert (E1 : N.leb c 13 = false) by (apply N.leb_gt; lia).
  assert (E2 : N.eqb c 32 = false) by (apply N.eqb_neq; lia).
  assert (E3 : N.eqb c 133 = false) by (apply N.eqb_neq; lia).
  assert (E4 : N.eqb c 160 = false) by (apply N.eqb_neq; lia).
  assert (E5 : N.eqb c 5760 = false) by (apply N.eqb_neq; lia).
  assert (E6 : N.leb 8192 c = false) by (apply N.leb_gt; lia).
  assert (E7 : N.eqb c 8232 = false) by (apply N.eqb_neq; lia).
  assert (E8 : N.eqb c 8233 = false) by (apply N.eqb_neq; lia).
  assert (E9 : N.eqb c 8239 = false) by (apply N.eqb_neq; lia).
  assert (E10 : N.eqb c 8287 = false) by (apply N.eqb_neq; lia).
  assert (E11 : N.eqb c 12288 = false) by (apply N.eqb_neq; lia).
  rewrite E1, E2, E3, E4, E5, E6, E7, E8, E9, E10, E11. rewrite andb_false_r. reflexivity.
Qed.

Lemma part_char_not_digit_dot : forall c, c = DOT \/ c = PLUS \/ c = DASH -> is_digit c = false.
Proof. intros c [H|[H|H]]; subst c; reflexivity. Qed.

Lemma drop_ws_id : forall s, (match s with c :: _ => is_ws c = false | [] => True end) -> drop_ws s = s.
Proof. intros [|c s] H; cbn [drop_ws]; [reflexivity|]. rewrite H. reflexivity. Qed.

Lemma trim_id : forall s, (forall c, In c s -> is_ws c = false) -> trim s = s.
Proof.
  intros s H. unfold trim.
  rewrite (drop_ws_id s).
  2:{ destruct s as [|c s]; [exact I|]. apply H. left. reflexivity. }
  rewrite (drop_ws_id (rev s)).
  2:{ destruct (rev s) as [|c r] eqn:E; [exact I|]. apply H. apply in_rev. rewrite E. left. reflexivity. }
  apply rev_involutive.
Qed.

Lemma span_digits_app : forall d r,
  all_chars is_digit d -> (match r with c :: _ => is_digit c = false | [] => True end) ->
  span_digits (d ++ r) = (d, r).
Proof.
  induction d as [|x d IH]; intros r Hd Hr; cbn [app].
  - destruct r as [|c r]; cbn [span_digits]; [reflexivity|]. rewrite Hr. reflexivity.
  - cbn [span_digits]. rewrite (Hd x (or_introl eq_refl)).
    rewrite IH; [reflexivity| |exact Hr]. intros c Hc. apply Hd. right. exact Hc.
Qed.

Lemma nr_app : forall d r,
  wf_num d -> (match r with c :: _ => is_digit c = false | [] => True end) ->
  nr (d ++ r) = Some (d, r).
Proof.
  intros d r [Hne [Hd [Hz Hf]]] Hr. unfold nr. rewrite (span_digits_app d r Hd Hr).
  destruct d as [|x d]; [contradiction|]. rewrite Hz, Hf. reflexivity.
Qed.

Lemma parts_go_part : forall p cur acc rest,
  all_chars is_part_char p ->
  parts_go (Some cur) acc (p ++ rest) = parts_go (Some (cur ++ p)) acc rest.
Proof.
  induction p as [|c p IH]; intros cur acc rest H; cbn [app].
  - rewrite app_nil_r. reflexivity.
  - cbn [parts_go]. rewrite (H c (or_introl eq_refl)).
    rewrite IH; [|intros x Hx; apply H; right; exact Hx].
    rewrite <- app_assoc. reflexivity.
Qed.

Lemma parts_go_first : forall p acc rest,
  wf_part p -> parts_go None acc (p ++ rest) = parts_go (Some p) acc rest.
Proof.
  intros [|c p] acc rest [Hne H]; [contradiction|]. cbn [app parts_go].
  rewrite (H c (or_introl eq_refl)).
  rewrite parts_go_part; [reflexivity|]. intros x Hx. apply H. right. exact Hx.
Qed.

(* the text that may follow a list of parts: nothing, or '+...' *)
Definition stops (b : str) : Prop := b = [] \/ exists r, b = PLUS :: r.

Lemma parts_go_join : forall ps acc b,
  wf_parts ps -> ps <> [] -> stops b ->
  parts_go None acc (join_dot ps ++ b) = (acc ++ ps, b).
Proof.
  induction ps as [|p ps IH]; intros acc b Hw Hne Hb; [contradiction|].
  assert (Hp : wf_part p) by (apply Hw; left; reflexivity).
  cbn [join_dot]. destruct ps as [|q ps].
  - rewrite parts_go_first by exact Hp.
    destruct Hb as [Hb|[r Hb]]; subst b; cbn [parts_go]; [reflexivity|].
    change (is_part_char PLUS) with false. cbv iota. change (N.eqb PLUS DOT) with false. reflexivity.
  - rewrite <- app_assoc. rewrite parts_go_first by exact Hp.
    cbn [app parts_go]. change (is_part_char DOT) with false. cbv iota.
    rewrite N.eqb_refl.
    rewrite IH; [rewrite <- app_assoc; reflexivity| |discriminate|exact Hb].
    intros x Hx. apply Hw. right. exact Hx.
Qed.

Lemma parts_join : forall ps b, wf_parts ps -> ps <> [] -> stops b -> parts (join_dot ps ++ b) = Some (ps, b).
Proof.
  intros ps b Hw Hne Hb. unfold parts. rewrite (parts_go_join ps [] b Hw Hne Hb). cbn [app].
  destruct ps; [contradiction|reflexivity].
Qed.

Lemma parts_stops : forall b, stops b -> parts b = None.
Proof. intros b [Hb|[r Hb]]; subst b; reflexivity. Qed.

Definition pre_text (ps : list str) : str := match ps with [] => [] | _ => DASH :: join_dot ps end.
Definition build_text (ps : list str) : str := match ps with [] => [] | _ => PLUS :: join_dot ps end.

Lemma print_version_eq : forall v,
  print_version v = v_major v ++ DOT :: v_minor v ++ DOT :: v_patch v ++ pre_text (v_pre v) ++ build_text (v_build v).
Proof. intro v. unfold print_version, pre_text, build_text. destruct (v_pre v); destruct (v_build v); reflexivity. Qed.

Lemma build_text_stops : forall ps, stops (build_text ps).
Proof. intros [|p ps]; [left; reflexivity | right; eexists; reflexivity]. Qed.

Lemma wf_num_head : forall d, wf_num d -> exists c r, d = c :: r /\ is_digit c = true.
Proof.
  intros [|c r] [Hne [Hd _]]; [contradiction|]. exists c, r. split; [reflexivity|]. apply Hd. left. reflexivity.
Qed.

Lemma join_dot_chars : forall ps c, wf_parts ps -> In c (join_dot ps) -> is_part_char c = true \/ c = DOT.
Proof.
  induction ps as [|p ps IH]; intros c Hw Hc; cbn [join_dot] in Hc; [destruct Hc|].
  destruct ps as [|q ps].
  - left. apply (Hw p (or_introl eq_refl)). exact Hc.
  - apply in_app_or in Hc. destruct Hc as [Hc|[Hc|Hc]].
    + left. apply (Hw p (or_introl eq_refl)). exact Hc.
    + right. symmetry. exact Hc.
    + apply IH; [|exact Hc]. intros x Hx. apply Hw. right. exact Hx.
Qed.

(* every character of a printed version is a digit, letter, '-', '.', or '+' *)
Lemma print_version_chars : forall v c, wf_version v -> In c (print_version v) ->
  is_part_char c = true \/ c = DOT \/ c = PLUS.
Proof.
  intros v c [H1 [H2 [H3 [H4 H5]]]] Hc. rewrite print_version_eq in Hc.
  assert (Hnum : forall d, wf_num d -> In c d -> is_part_char c = true).
  { intros d [_ [Hd _]] Hin. apply digit_part_char. apply Hd. exact Hin. }
  apply in_app_or in Hc. destruct Hc as [Hc|[Hc|Hc]]; [left; exact (Hnum _ H1 Hc) | right; left; symmetry; exact Hc |].
  apply in_app_or in Hc. destruct Hc as [Hc|[Hc|Hc]]; [left; exact (Hnum _ H2 Hc) | right; left; symmetry; exact Hc |].
  apply in_app_or in Hc. destruct Hc as [Hc|Hc]; [left; exact (Hnum _ H3 Hc)|].
  apply in_app_or in Hc. destruct Hc as [Hc|Hc].
  - unfold pre_text in Hc. destruct (v_pre v) as [|p ps] eqn:E; [destruct Hc|].
    destruct Hc as [Hc|Hc]; [left; subst c; reflexivity|].
    destruct (join_dot_chars _ c H4 Hc) as [Hx|Hx]; [left; exact Hx | right; left; exact Hx].
  - unfold build_text in Hc. destruct (v_build v) as [|p ps] eqn:E; [destruct Hc|].
    destruct Hc as [Hc|Hc]; [right; right; symmetry; exact Hc|].
    destruct (join_dot_chars _ c H5 Hc) as [Hx|Hx]; [left; exact Hx | right; left; exact Hx].
Qed.

Lemma print_version_no_ws : forall v c, wf_version v -> In c (print_version v) -> is_ws c = false.
Proof.
  intros v c Hv Hc. destruct (print_version_chars v c Hv Hc) as [H|[H|H]].
  - apply part_char_bounds in H. apply not_ws_in_range; lia.
  - subst c. reflexivity.
  - subst c. reflexivity.
Qed.

Lemma print_version_no_slash : forall v, wf_version v -> no_slash (print_version v).
Proof.
  intros v Hv Hc. destruct (print_version_chars v SLASH Hv Hc) as [H|[H|H]]; discriminate.
Qed.

Lemma eat_other : forall c x s, x <> c -> eat c (x :: s) = x :: s.
Proof. intros c x s H. cbn [eat]. destruct (N.eqb_spec x c); [contradiction|reflexivity]. Qed.

Lemma expect_cons : forall c s, expect c (c :: s) = Some s.
Proof. intros c s. cbn [expect]. rewrite N.eqb_refl. reflexivity. Qed.

Theorem parse_print : forall v, wf_version v -> parse_standard (print_version v) = Some v.
Proof.
  intros v Hv. unfold parse_standard.
  rewrite (trim_id _ (fun c Hc => print_version_no_ws v c Hv Hc)).
  destruct Hv as [H1 [H2 [H3 [H4 H5]]]]. rewrite print_version_eq.
  destruct (wf_num_head _ H1) as [c0 [r0 [E0 Hc0]]].
  assert (Hd0 : c0 <> EQSIGN /\ c0 <> LOWER_V /\ is_ws c0 = false).
  { unfold is_digit in Hc0. unfold EQSIGN, LOWER_V. nbool; cbn in Hc0; try discriminate.
    repeat split; try lia. apply not_ws_in_range; lia. }
  destruct Hd0 as [Ha [Hb Hc]].
  rewrite E0. cbn [app]. rewrite (eat_other EQSIGN c0 _ Ha).
  rewrite (drop_ws_id (c0 :: _) Hc). rewrite (eat_other LOWER_V c0 _ Hb). rewrite (drop_ws_id (c0 :: _) Hc).
  change (c0 :: r0 ++ DOT :: v_minor v ++ DOT :: v_patch v ++ pre_text (v_pre v) ++ build_text (v_build v))
    with ((c0 :: r0) ++ DOT :: v_minor v ++ DOT :: v_patch v ++ pre_text (v_pre v) ++ build_text (v_build v)).
  rewrite <- E0.
  rewrite (nr_app (v_major v)); [|exact H1|reflexivity]. cbn [option_bind]. rewrite expect_cons. cbn [option_bind].
  rewrite (nr_app (v_minor v)); [|exact H2|reflexivity]. cbn [option_bind]. rewrite expect_cons. cbn [option_bind].
  assert (Hq : match pre_text (v_pre v) ++ build_text (v_build v) with c :: _ => is_digit c = false | [] => True end).
  { unfold pre_text, build_text. destruct (v_pre v); [destruct (v_build v)|]; cbn [app]; try exact I; reflexivity. }
  rewrite (nr_app (v_patch v) _ H3 Hq). cbn [option_bind].
  destruct v as [maj mnr pat pre bld]. cbn [v_major v_minor v_patch v_pre v_build] in *.
  destruct pre as [|p ps].
  - (* no pre-release part *)
    cbn [pre_text app]. unfold parse_pre.
    assert (He : eat DASH (build_text bld) = build_text bld).
    { destruct bld; [reflexivity|]. cbn [build_text]. apply eat_other. discriminate. }
    rewrite He. rewrite (parts_stops _ (build_text_stops bld)).
    destruct bld as [|b bs].
    + reflexivity.
    + cbn [build_text parse_build]. rewrite N.eqb_refl.
      rewrite <- (app_nil_r (join_dot (b :: bs))).
      rewrite (parts_join (b :: bs) [] H5); [reflexivity|discriminate|left; reflexivity].
  - cbn [pre_text app]. unfold parse_pre. cbn [eat]. rewrite N.eqb_refl.
    rewrite (parts_join (p :: ps) (build_text bld) H4); [|discriminate|apply build_text_stops].
    destruct bld as [|b bs].
    + reflexivity.
    + cbn [build_text parse_build]. rewrite N.eqb_refl.
      rewrite <- (app_nil_r (join_dot (b :: bs))).
      rewrite (parts_join (b :: bs) [] H5); [reflexivity|discriminate|left; reflexivity].
Qed.

(* ------------------------------------------------------------------ *)
(* registry URL <-> name@version *)

Lemma upto_last_slash_dir : forall s, upto_last_slash (s ++ [SLASH]) = s ++ [SLASH].
Proof.
  induction s as [|x s IH]; cbn [app upto_last_slash].
  - rewrite N.eqb_refl. reflexivity.
  - rewrite IH. destruct (N.eqb x SLASH); [reflexivity|].
    destruct (s ++ [SLASH]) eqn:E; [destruct s; discriminate | reflexivity].
Qed.

Lemma cut_query_id : forall s, has_query_or_fragment s = false -> cut_query s = s.
Proof.
  unfold has_query_or_fragment. induction s as [|c s IH]; intro H; cbn [cut_query]; [reflexivity|].
  cbn [existsb] in H. apply orb_false_iff in H. destruct H as [H1 H2]. rewrite H1. f_equal. apply IH. exact H2.
Qed.

Lemma ends_with_slash_split : forall s, ends_with_slash s = true -> exists s', s = s' ++ [SLASH].
Proof.
  intros s H. unfold ends_with_slash in H. destruct (rev s) as [|c r] eqn:E; [discriminate|].
  apply N.eqb_eq in H. subst c. exists (rev r).
  rewrite <- (rev_involutive s). rewrite E. reflexivity.
Qed.

(* a registry URL that is a plain directory URL *)
Definition dir_base (base : str) : Prop :=
  ends_with_slash base = true /\ has_query_or_fragment base = false.

Lemma wf_base_dir : forall base, wf_base_b base = true -> dir_base base.
Proof.
  intros base H. unfold wf_base_b in H. apply andb_true_iff in H. destruct H as [H H3].
  apply andb_true_iff in H. destruct H as [_ H2]. split; [exact H2|].
  unfold has_query_or_fragment. destruct (existsb _ base); [discriminate|reflexivity].
Qed.

Lemma dir_of_dir : forall base, dir_base base -> dir_of base = base.
Proof.
  intros base [H1 H2]. unfold dir_of. rewrite (cut_query_id _ H2).
  destruct (ends_with_slash_split _ H1) as [s' E]. subst base. apply upto_last_slash_dir.
Qed.

(* what the model's package URL is, whenever it is defined *)
Lemma pkg_url_shape : forall base name vt p,
  pkg_url base name vt = Some p -> p = dir_of base ++ name ++ SLASH :: vt ++ [SLASH].
Proof.
  intros base name vt p H. unfold pkg_url, url_join in H.
  destruct (base_ok base && rel_ok (name ++ SLASH :: vt ++ [SLASH])); [|discriminate].
  inversion H. reflexivity.
Qed.

Lemma pkg_url_dir : forall base name vt p,
  dir_base base -> pkg_url base name vt = Some p -> p = base ++ name ++ SLASH :: vt ++ [SLASH].
Proof. intros base name vt p Hb H. rewrite <- (dir_of_dir base Hb) at 1. apply pkg_url_shape. exact H. Qed.

Lemma pkg_url_defined : forall base name vt,
  base_ok base = true -> rel_ok (name ++ SLASH :: vt ++ [SLASH]) = true ->
  exists p, pkg_url base name vt = Some p.
Proof. intros base name vt H1 H2. unfold pkg_url, url_join. rewrite H1, H2. eexists. reflexivity. Qed.

Lemma wf_name_decomp : forall name, wf_name_b name = true ->
  exists scope nm, name = scope ++ SLASH :: nm /\ scope <> [] /\ no_slash scope /\ no_slash nm.
Proof.
  intros name H. unfold wf_name_b in H.
  destruct (span_slash name) as [scope r1] eqn:E1. destruct scope as [|c scope]; [discriminate|].
  destruct r1 as [r1|]; [|discriminate].
  destruct (span_slash r1) as [nm r2] eqn:E2. destruct r2; [discriminate|].
  destruct (span_slash_Some _ _ _ E1) as [Hn Hs]. exists (c :: scope), r1.
  split; [exact Hn|]. split; [discriminate|]. split; [exact Hs|].
  pose proof (span_slash_fst_no_slash r1) as Hr. rewrite E2 in Hr. cbn [fst] in Hr.
  assert (r1 = nm).
  { clear -E2. revert nm E2. induction r1 as [|x r IH]; intros nm E; cbn [span_slash] in E.
    - inversion E. reflexivity.
    - destruct (N.eqb x SLASH); [discriminate|]. destruct (span_slash r) as [h o] eqn:Eh.
      inversion E; subst. f_equal. apply IH. reflexivity. }
  subst nm. exact Hr.
Qed.

Lemma eat_slash_scope : forall scope r, scope <> [] -> no_slash scope -> eat SLASH (scope ++ r) = scope ++ r.
Proof.
  intros [|c scope] r Hne Hs; [contradiction|]. cbn [app]. apply eat_other.
  intro E. apply Hs. left. exact E.
Qed.

Lemma nv_segments_build : forall base scope nm ver tail,
  scope <> [] -> no_slash scope -> no_slash nm -> no_slash ver ->
  nv_segments base (base ++ scope ++ SLASH :: nm ++ SLASH :: ver ++ SLASH :: tail) = Some (scope, nm, ver).
Proof.
  intros base scope nm ver tail Hne Hs Hn Hv. unfold nv_segments.
  rewrite strip_prefix_app. cbn [option_bind].
  rewrite (eat_slash_scope scope _ Hne Hs).
  rewrite (span_slash_app scope _ Hs). cbn [option_bind].
  rewrite (span_slash_app nm _ Hn). cbn [option_bind].
  rewrite (span_slash_app ver _ Hv). reflexivity.
Qed.

(* C07_url_roundtrip *)
Theorem url_roundtrip : forall base name v p path,
  wf_base_b base = true -> wf_name_b name = true -> wf_version v ->
  pkg_url base name (print_version v) = Some p ->
  to_nv base (p ++ path) = Some (name, v).
Proof.
  intros base name v p path Hb Hn Hv Hp.
  rewrite (pkg_url_dir _ _ _ _ (wf_base_dir _ Hb) Hp).
  destruct (wf_name_decomp _ Hn) as [scope [nm [En [Hne [Hs Hm]]]]]. subst name.
  unfold to_nv.
  replace ((base ++ (scope ++ SLASH :: nm) ++ SLASH :: print_version v ++ [SLASH]) ++ path)
    with (base ++ scope ++ SLASH :: nm ++ SLASH :: print_version v ++ SLASH :: path).
  2:{ repeat (rewrite <- app_assoc; cbn [app]). reflexivity. }
  rewrite (nv_segments_build base scope nm (print_version v) path Hne Hs Hm (print_version_no_slash v Hv)).
  cbn [option_bind fst snd]. rewrite (parse_print v Hv). reflexivity.
Qed.

(* a URL under one package's URL is attributed to that package and to no other *)
Theorem url_unique_owner : forall base name v p path name' v',
  wf_base_b base = true -> wf_name_b name = true -> wf_version v ->
  pkg_url base name (print_version v) = Some p ->
  to_nv base (p ++ path) = Some (name', v') -> name' = name /\ v' = v.
Proof.
  intros base name v p path name' v' Hb Hn Hv Hp H.
  rewrite (url_roundtrip base name v p path Hb Hn Hv Hp) in H. inversion H. split; reflexivity.
Qed.

Lemma nv_segments_Some : forall base u scope nm ver,
  nv_segments base u = Some (scope, nm, ver) ->
  exists rest tail, strip_prefix base u = Some rest /\
    eat SLASH rest = scope ++ SLASH :: nm ++ SLASH :: ver ++ tail /\ (tail = [] \/ exists t, tail = SLASH :: t).
Proof.
  intros base u scope nm ver H. unfold nv_segments in H.
  destruct (strip_prefix base u) as [rest|] eqn:E; [|discriminate]. cbn [option_bind] in H.
  destruct (span_slash (eat SLASH rest)) as [sc r1] eqn:E1. destruct r1 as [p1|]; [|discriminate].
  cbn [option_bind] in H. destruct (span_slash p1) as [n2 r2] eqn:E2. destruct r2 as [p2|]; [|discriminate].
  cbn [option_bind] in H. destruct (span_slash p2) as [v3 r3] eqn:E3. inversion H; subst.
  destruct (span_slash_Some _ _ _ E1) as [H1 _]. destruct (span_slash_Some _ _ _ E2) as [H2 _].
  exists rest. destruct r3 as [t|].
  - destruct (span_slash_Some _ _ _ E3) as [H3 _]. exists (SLASH :: t).
    split; [reflexivity|]. split; [|right; eexists; reflexivity]. rewrite H1, H2, H3. reflexivity.
  - exists []. split; [reflexivity|]. split; [|left; reflexivity].
    assert (p2 = ver).
    { clear -E3. revert ver E3. induction p2 as [|x r IH]; intros ver E; cbn [span_slash] in E.
      - inversion E. reflexivity.
      - destruct (N.eqb x SLASH); [discriminate|]. destruct (span_slash r) as [h o] eqn:Eh.
        inversion E; subst. f_equal. apply IH. reflexivity. }
    subst p2. rewrite H1, H2. rewrite app_nil_r. reflexivity.
Qed.

(* C07_url_no_misattribution, outside the known classes *)
Theorem url_no_misattribution : forall base u name v,
  to_nv base u = Some (name, v) -> c07_url_class base u = 0 ->
  is_prefix (base ++ name ++ SLASH :: print_version v) u /\ dir_base base.
Proof.
  intros base u name v H Hc. unfold to_nv in H.
  destruct (nv_segments base u) as [[[scope nm] ver]|] eqn:Es; [|discriminate].
  cbn [option_bind fst snd] in H.
  destruct (parse_standard ver) as [v0|] eqn:Ev; [|discriminate]. cbn [option_bind] in H.
  inversion H; subst. clear H.
  destruct (nv_segments_Some _ _ _ _ _ Es) as [rest [tail [Hr [He _]]]].
  unfold c07_url_class in Hc.
  destruct (negb (ends_with_slash base) || has_query_or_fragment base) eqn:Eb; [discriminate|].
  apply orb_false_iff in Eb. destruct Eb as [Eb1 Eb2]. apply negb_false_iff in Eb1.
  rewrite Hr in Hc. destruct rest as [|c rest].
  { cbn [eat] in He. destruct scope; discriminate. }
  destruct (N.eqb c SLASH) eqn:Ec; [discriminate|].
  rewrite Es in Hc. cbn [fst snd] in Hc.
  destruct (scheme_like (scope ++ [SLASH])); [discriminate|].
  rewrite Ev in Hc. destruct (str_eqb (print_version v) ver) eqn:Eq; [|discriminate].
  apply str_eqb_eq in Eq. subst ver.
  split; [|split; assumption].
  cbn [eat] in He. rewrite Ec in He.
  exists tail. rewrite (strip_prefix_Some _ _ _ Hr). rewrite He.
  repeat (rewrite <- app_assoc; cbn [app]). reflexivity.
Qed.

Lemma strip_slash_dir : forall s, strip_slash (s ++ [SLASH]) = s.
Proof. intro s. unfold strip_slash. rewrite rev_app_distr. cbn [rev app]. rewrite N.eqb_refl. apply rev_involutive. Qed.

(* ... in terms of the package URL *)
Theorem url_no_misattribution_pkg_url : forall base u name v p,
  to_nv base u = Some (name, v) -> c07_url_class base u = 0 ->
  pkg_url base name (print_version v) = Some p ->
  is_prefix (strip_slash p) u.
Proof.
  intros base u name v p H Hc Hp.
  destruct (url_no_misattribution base u name v H Hc) as [Hpre Hb].
  rewrite (pkg_url_dir _ _ _ _ Hb Hp).
  replace (base ++ name ++ SLASH :: print_version v ++ [SLASH])
    with ((base ++ name ++ SLASH :: print_version v) ++ [SLASH]).
  2:{ repeat (rewrite <- app_assoc; cbn [app]). reflexivity. }
  rewrite strip_slash_dir. exact Hpre.
Qed.

(* the judgement computed on the real results is the statement *)
Lemma no_misattr_b_iff : forall u nv purl,
  no_misattr_b u nv purl = true <->
  (nv = None \/ exists p, purl = Some p /\ is_prefix (strip_slash p) u).
Proof.
  intros u nv purl. unfold no_misattr_b. destruct nv as [x|].
  - destruct purl as [p|].
    + rewrite is_prefix_b_iff. split.
      * intro H. right. exists p. split; [reflexivity|exact H].
      * intros [H|[p' [E H]]]; [discriminate|]. inversion E; subst. exact H.
    + split; [discriminate|]. intros [H|[p' [E _]]]; discriminate.
  - split; [intros _; left; reflexivity | reflexivity].
Qed.

(* ------------------------------------------------------------------ *)
(* export lookup *)

Lemma str_mem_In : forall k l, str_mem k l = true <-> In k l.
Proof.
  intros k l. unfold str_mem. rewrite existsb_exists. split.
  - intros [x [Hx He]]. apply str_eqb_eq in He. subst. exact Hx.
  - intro H. exists k. split; [exact H | apply str_eqb_refl].
Qed.

Lemma nub_keys_In : forall k l, In k (nub_keys l) <-> In k l.
Proof.
  intros k l. induction l as [|x l IH]; cbn [nub_keys]; [tauto|].
  destruct (str_mem x l) eqn:E.
  - rewrite IH. split; [intro H; right; exact H|].
    intros [H|H]; [subst; apply str_mem_In; exact E | exact H].
  - cbn [In]. rewrite IH. tauto.
Qed.

Lemma nub_keys_NoDup : forall l, NoDup (nub_keys l).
Proof.
  induction l as [|x l IH]; cbn [nub_keys]; [constructor|].
  destruct (str_mem x l) eqn:E; [exact IH|].
  constructor; [|exact IH]. rewrite nub_keys_In. intro H. apply str_mem_In in H. rewrite H in E. discriminate.
Qed.

Lemma obj_get_key : forall k f x, obj_get k f = Some x -> In k (map fst f).
Proof.
  induction f as [|[k' v] f IH]; intros x H; cbn [obj_get] in H; [discriminate|].
  cbn [map fst In]. destruct (obj_get k f) as [y|] eqn:E.
  - right. eapply IH. reflexivity.
  - destruct (str_eqb k k') eqn:Ek; [|discriminate]. left. apply str_eqb_eq in Ek. symmetry. exact Ek.
Qed.

(* serde_json keeps the LAST value of a repeated key *)
Lemma obj_get_last : forall k v f1 f2,
  ~ In k (map fst f2) -> obj_get k (f1 ++ (k, v) :: f2) = Some v.
Proof.
  induction f1 as [|[k' v'] f1 IH]; intros f2 H; cbn [app obj_get].
  - destruct (obj_get k f2) as [y|] eqn:E; [exfalso; apply H; eapply obj_get_key; exact E|].
    rewrite str_eqb_refl. reflexivity.
  - rewrite (IH f2 H). reflexivity.
Qed.

Lemma obj_get_none : forall k f, ~ In k (map fst f) -> obj_get k f = None.
Proof.
  intros k f H. destruct (obj_get k f) as [x|] eqn:E; [|reflexivity].
  exfalso. apply H. eapply obj_get_key. exact E.
Qed.

Lemma keep_strings_In : forall f keys k v,
  In (k, v) (keep_strings f keys) <-> In k keys /\ obj_get k f = Some (JStr v).
Proof.
  intros f keys k v. induction keys as [|k0 keys IH]; cbn [keep_strings]; [cbn [In]; tauto|].
  destruct (obj_get k0 f) as [[s|t]|] eqn:E.
  - cbn [In]. rewrite IH. split.
    + intros [H|[H1 H2]]; [inversion H; subst; split; [left; reflexivity | exact E] | split; [right; exact H1 | exact H2]].
    + intros [[H|H] H2]; [subst k0; rewrite E in H2; inversion H2; subst; left; reflexivity | right; split; assumption].
  - rewrite IH. cbn [In]. split; [intros [H1 H2]; split; [right; exact H1 | exact H2]|].
    intros [[H|H] H2]; [subst k0; rewrite E in H2; discriminate | split; assumption].
  - rewrite IH. cbn [In]. split; [intros [H1 H2]; split; [right; exact H1 | exact H2]|].
    intros [[H|H] H2]; [subst k0; rewrite E in H2; discriminate | split; assumption].
Qed.

Lemma keep_strings_keys : forall f keys k, In k (map fst (keep_strings f keys)) -> In k keys.
Proof.
  intros f keys k H. apply in_map_iff in H. destruct H as [[k' v] [E H]]. cbn [fst] in E. subst k'.
  apply keep_strings_In in H. exact (proj1 H).
Qed.

Lemma keep_strings_NoDup : forall f keys, NoDup keys -> NoDup (map fst (keep_strings f keys)).
Proof.
  intros f keys H. induction H as [|k keys Hn Hd IH]; cbn [keep_strings]; [constructor|].
  destruct (obj_get k f) as [[s|t]|]; try exact IH.
  cbn [map fst]. constructor; [|exact IH]. intro Hin. apply Hn. eapply keep_strings_keys. exact Hin.
Qed.

(* exports() lists exactly the pairs export() resolves *)
Theorem export_iff_listed : forall e k v, In (k, v) (exports e) <-> export e k = Some v.
Proof.
  intros [s|f|t] k v; cbn [exports export].
  - cbn [In]. split.
    + intros [H|[]]. inversion H; subst. rewrite str_eqb_refl. reflexivity.
    + destruct (str_eqb k DOT_STR) eqn:E; [|discriminate]. apply str_eqb_eq in E. subst k.
      intro H. inversion H. left. reflexivity.
  - rewrite keep_strings_In. rewrite nub_keys_In. split.
    + intros [_ H]. rewrite H. reflexivity.
    + destruct (obj_get k f) as [[s|t]|] eqn:E; try discriminate. intro H. inversion H; subst.
      split; [eapply obj_get_key; exact E | reflexivity].
  - split; [intros [] | discriminate].
Qed.

Theorem exports_keys_NoDup : forall e, NoDup (map fst (exports e)).
Proof.
  intros [s|f|t]; cbn [exports map fst].
  - constructor; [intros [] | constructor].
  - apply keep_strings_NoDup. apply nub_keys_NoDup.
  - constructor.
Qed.

Theorem export_string : forall s k p, export (EStr s) k = Some p <-> k = DOT_STR /\ p = s.
Proof.
  intros s k p. cbn [export]. destruct (str_eqb k DOT_STR) eqn:E.
  - apply str_eqb_eq in E. split; [intro H; inversion H; split; [exact E|reflexivity] | intros [_ H]; subst; reflexivity].
  - apply str_eqb_neq in E. split; [discriminate | intros [H _]; contradiction].
Qed.

Theorem export_object : forall f k p,
  export (EObj f) k = Some p <-> obj_get k f = Some (JStr p).
Proof.
  intros f k p. cbn [export]. destruct (obj_get k f) as [[s|t]|]; split; intro H; try discriminate; inversion H; reflexivity.
Qed.

Theorem norm_export_shape : forall sub,
  norm_export sub = DOT_STR \/ is_prefix DOT_SLASH (norm_export sub).
Proof.
  intros [p|]; cbn [norm_export]; [|left; reflexivity].
  destruct (str_eqb p [] || str_eqb p [SLASH] || str_eqb p DOT_STR); [left; reflexivity|].
  right. destruct (is_prefix_b DOT_SLASH (strip_suffix_slash p)) eqn:E.
  - apply is_prefix_b_iff. exact E.
  - eexists. reflexivity.
Qed.

(* ------------------------------------------------------------------ *)
(* every version the parser returns is one Version::to_string can print, so
   its print is canonical: parse (print v) = v *)

Lemma span_digits_spec : forall s d r, span_digits s = (d, r) -> s = d ++ r /\ all_chars is_digit d.
Proof.
  induction s as [|c s IH]; intros d r H; cbn [span_digits] in H.
  - inversion H. split; [reflexivity | intros x []].
  - destruct (is_digit c) eqn:Ec.
    + destruct (span_digits s) as [d' r'] eqn:Es. inversion H; subst.
      destruct (IH d' r eq_refl) as [E Hd]. split; [cbn [app]; rewrite E; reflexivity|].
      intros x [Hx|Hx]; [subst; exact Ec | apply Hd; exact Hx].
    + inversion H. split; [reflexivity | intros x []].
Qed.

Lemma strip_zeros_sub : forall d x, In x (strip_zeros d) -> In x d.
Proof.
  induction d as [|c d IH]; intros x H; cbn [strip_zeros] in H; [exact H|].
  destruct (N.eqb c ZERO); [|exact H]. destruct d as [|c' d']; [exact H|]. right. apply IH. exact H.
Qed.

Lemma strip_zeros_nonempty : forall d, d <> [] -> strip_zeros d <> [].
Proof.
  induction d as [|c d IH]; intro H; [contradiction|]. cbn [strip_zeros].
  destruct (N.eqb c ZERO); [|discriminate]. destruct d as [|c' d']; [discriminate|]. apply IH. discriminate.
Qed.

Lemma strip_zeros_idem : forall d, strip_zeros (strip_zeros d) = strip_zeros d.
Proof.
  induction d as [|c d IH]; [reflexivity|]. cbn [strip_zeros].
  destruct (N.eqb c ZERO) eqn:E.
  - destruct d as [|c' d']; [cbn [strip_zeros]; rewrite E; reflexivity | exact IH].
  - cbn [strip_zeros]. rewrite E. reflexivity.
Qed.

Lemma nr_wf : forall s c r, nr s = Some (c, r) -> wf_num c.
Proof.
  intros s c r H. unfold nr in H. destruct (span_digits s) as [d r'] eqn:Es.
  destruct (span_digits_spec _ _ _ Es) as [_ Hd].
  destruct d as [|x d]; [discriminate|].
  assert (Hne : x :: d <> []) by discriminate. revert Hd Hne H. generalize (x :: d). intros d0 Hd Hne H.
  destruct (fits_u64 (strip_zeros d0)) eqn:Ef; [|discriminate]. inversion H; subst.
  split; [apply strip_zeros_nonempty; exact Hne|].
  split; [intros y Hy; apply Hd; apply strip_zeros_sub; exact Hy|].
  split; [apply strip_zeros_idem | exact Ef].
Qed.

Lemma parts_go_wf : forall s cur acc ps r,
  (match cur with Some p => wf_part p | None => True end) -> wf_parts acc ->
  parts_go cur acc s = (ps, r) -> wf_parts ps.
Proof.
  induction s as [|c s IH]; intros cur acc ps r Hc Ha H; cbn [parts_go] in H.
  - inversion H; subst. destruct cur as [p|]; [|exact Ha].
    intros x Hx. apply in_app_or in Hx. destruct Hx as [Hx|[Hx|[]]]; [apply Ha; exact Hx | subst; exact Hc].
  - destruct (is_part_char c) eqn:Ec.
    + eapply IH; [| exact Ha | exact H]. destruct cur as [p|].
      * destruct Hc as [Hne Hall]. split; [destruct p; discriminate|].
        intros x Hx. apply in_app_or in Hx. destruct Hx as [Hx|[Hx|[]]]; [apply Hall; exact Hx | subst; exact Ec].
      * split; [discriminate | intros x [Hx|[]]; subst; exact Ec].
    + destruct cur as [p|].
      * assert (Ha' : wf_parts (acc ++ [p])).
        { intros x Hx. apply in_app_or in Hx. destruct Hx as [Hx|[Hx|[]]]; [apply Ha; exact Hx | subst; exact Hc]. }
        destruct (N.eqb c DOT).
        -- exact (IH None (acc ++ [p]) ps r I Ha' H).
        -- inversion H; subst. exact Ha'.
      * inversion H; subst. exact Ha.
Qed.

Lemma parts_wf : forall s ps r, parts s = Some (ps, r) -> wf_parts ps.
Proof.
  intros s ps r H. unfold parts in H. destruct (parts_go None [] s) as [ps' r'] eqn:E.
  destruct ps' as [|p ps']; [discriminate|]. inversion H; subst.
  apply (parts_go_wf s None [] (p :: ps') r I); [intros x [] | exact E].
Qed.

Theorem parse_standard_wf : forall t v, parse_standard t = Some v -> wf_version v.
Proof.
  intros t v H. unfold parse_standard in H.
  destruct (nr _) as [[maj s1]|] eqn:E1; [|discriminate]. cbn [option_bind] in H.
  destruct (expect DOT s1) as [s2|]; [|discriminate]. cbn [option_bind] in H.
  destruct (nr s2) as [[mnr s3]|] eqn:E2; [|discriminate]. cbn [option_bind] in H.
  destruct (expect DOT s3) as [s4|]; [|discriminate]. cbn [option_bind] in H.
  destruct (nr s4) as [[pat s5]|] eqn:E3; [|discriminate]. cbn [option_bind] in H.
  assert (Hpre : wf_parts (fst (match parse_pre s5 with Some (ps, r) => (ps, r) | None => ([], s5) end))).
  { destruct (parse_pre s5) as [[ps r]|] eqn:Ep; cbn [fst]; [|intros x []]. unfold parse_pre in Ep. eapply parts_wf. exact Ep. }
  destruct (match parse_pre s5 with Some (ps, r) => (ps, r) | None => ([], s5) end) as [pre s6].
  assert (Hbld : wf_parts (fst (match parse_build s6 with Some (ps, r) => (ps, r) | None => ([], s6) end))).
  { destruct (parse_build s6) as [[ps r]|] eqn:Ep; cbn [fst]; [|intros x []]. unfold parse_build in Ep.
    destruct s6 as [|c s6]; [discriminate|]. destruct (N.eqb c PLUS); [|discriminate]. eapply parts_wf. exact Ep. }
  destruct (match parse_build s6 with Some (ps, r) => (ps, r) | None => ([], s6) end) as [bld s7].
  destruct s7; [|discriminate]. inversion H; subst. cbn [fst] in Hpre, Hbld.
  unfold wf_version. cbn [v_major v_minor v_patch v_pre v_build].
  split; [eapply nr_wf; exact E1|]. split; [eapply nr_wf; exact E2|]. split; [eapply nr_wf; exact E3|].
  split; assumption.
Qed.

(* the name@version the conversion returns converts back to itself from its own package URL *)
Theorem to_nv_result_roundtrips : forall base u name v p path,
  to_nv base u = Some (name, v) ->
  wf_base_b base = true -> wf_name_b name = true ->
  pkg_url base name (print_version v) = Some p ->
  to_nv base (p ++ path) = Some (name, v).
Proof.
  intros base u name v p path H Hb Hn Hp. apply url_roundtrip; try assumption.
  unfold to_nv in H. destruct (nv_segments base u) as [[sn ver]|]; [|discriminate]. cbn [option_bind] in H.
  destruct (parse_standard ver) as [v0|] eqn:Ev; [|discriminate]. cbn [option_bind] in H. inversion H; subst.
  eapply parse_standard_wf. exact Ev.
Qed.

(* witness values used by Props/C07.v *)
Definition v_100 : version := {| v_major := [49]; v_minor := [48]; v_patch := [48]; v_pre := []; v_build := [] |}.

Lemma wf_version_100 : wf_version v_100.
Proof.
  assert (W : forall c, is_digit c = true -> wf_num [c]).
  { intros c Hc. split; [discriminate|]. split; [intros x [Hx|[]]; subst; exact Hc|].
    split; [cbn [strip_zeros]; destruct (N.eqb c ZERO); reflexivity | reflexivity]. }
  unfold wf_version, v_100. cbn [v_major v_minor v_patch v_pre v_build].
  split; [apply W; reflexivity|]. split; [apply W; reflexivity|]. split; [apply W; reflexivity|].
  split; intros q [].
Qed.
