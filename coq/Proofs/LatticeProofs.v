(* Laws of the export-subset lattice (Model/Lattice.v). *)
From Coq Require Import Arith.
From DG Require Import Base.Util Model.Lattice.

(* ------------------------------------------------------------------ *)
(* IndexMap primitives                                                 *)
(* ------------------------------------------------------------------ *)
Lemma nlookup_nset_same : forall k v s, nlookup k (nset k v s) = Some v.
Proof.
  intros k v s; induction s as [|k' e r IH] using named_ind; cbn [nset nlookup].
  - rewrite N.eqb_refl; reflexivity.
  - destruct (N.eqb k k') eqn:E; cbn [nlookup]; rewrite E; [reflexivity | exact IH].
Qed.

Lemma nlookup_nset_other : forall k k' v s, k' <> k -> nlookup k' (nset k v s) = nlookup k' s.
Proof.
  intros k k' v s Hne; induction s as [|k0 e r IH] using named_ind; cbn [nset nlookup].
  - destruct (N.eqb k' k) eqn:E; [apply N.eqb_eq in E; contradiction | reflexivity].
  - destruct (N.eqb k k0) eqn:E; cbn [nlookup].
    + apply N.eqb_eq in E; subst k0.
      destruct (N.eqb k' k) eqn:E2; [apply N.eqb_eq in E2; contradiction | reflexivity].
    + destruct (N.eqb k' k0); [reflexivity | exact IH].
Qed.

Lemma nlookup_nset : forall k k' v s,
  nlookup k' (nset k v s) = if N.eqb k' k then Some v else nlookup k' s.
Proof.
  intros k k' v s; destruct (N.eqb k' k) eqn:E.
  - apply N.eqb_eq in E; subst; apply nlookup_nset_same.
  - apply N.eqb_neq in E; apply nlookup_nset_other; exact E.
Qed.

Lemma nhas_nset : forall k k' v s, nhas k' (nset k v s) = N.eqb k' k || nhas k' s.
Proof.
  intros; unfold nhas; rewrite nlookup_nset; destruct (N.eqb k' k); reflexivity.
Qed.

Lemma wf_nset : forall k v s, wf_n s = true -> wf_e v = true -> wf_n (nset k v s) = true.
Proof.
  intros k v s; induction s as [|k' e r IH] using named_ind; intros Hs Hv; cbn [nset wf_n].
  - cbn [nhas nlookup wf_n]. unfold nhas; cbn [nlookup]. rewrite Hv; reflexivity.
  - cbn [wf_n] in Hs. apply andb_true_iff in Hs; destruct Hs as [Hs Hr].
    apply andb_true_iff in Hs; destruct Hs as [Hk He].
    destruct (N.eqb k k') eqn:E; cbn [wf_n].
    + rewrite Hk, Hv, Hr; reflexivity.
    + rewrite nhas_nset. rewrite N.eqb_sym, E. cbn [orb]. rewrite Hk, He, (IH Hr Hv); reflexivity.
Qed.

Lemma wf_lookup : forall s k e, wf_n s = true -> nlookup k s = Some e -> wf_e e = true.
Proof.
  induction s as [|k' e' r IH] using named_ind; intros k e Hs Hl; cbn [nlookup] in Hl; [discriminate|].
  cbn [wf_n] in Hs. apply andb_true_iff in Hs; destruct Hs as [Hs Hr].
  apply andb_true_iff in Hs; destruct Hs as [_ He].
  destruct (N.eqb k k'); [inversion Hl; subst; exact He | exact (IH _ _ Hr Hl)].
Qed.

Lemma in_n_cons : forall s k q,
  in_n s (k :: q) = in_oe (nlookup k s) q.
Proof.
  intros s k q; cbn [in_n]. destruct (nlookup k s) as [[|s']|]; reflexivity.
Qed.

Lemma in_n_ext : forall s1 s2, (forall k, nlookup k s1 = nlookup k s2) -> forall p, in_n s1 p = in_n s2 p.
Proof.
  intros s1 s2 H [|k q]; [reflexivity|]. rewrite !in_n_cons, H; reflexivity.
Qed.

Lemma nis_empty_lookup : forall s, nis_empty s = true -> forall k, nlookup k s = None.
Proof. intros [|k e r] H k'; [reflexivity | discriminate]. Qed.

Lemma nis_empty_false_in : forall s, nis_empty s = false -> exists k e, nlookup k s = Some e.
Proof.
  intros [|k e r] H; [discriminate|]. exists k, e. cbn [nlookup]. rewrite N.eqb_refl; reflexivity.
Qed.

(* ------------------------------------------------------------------ *)
(* The facts about one Exports::extend call                            *)
(* ------------------------------------------------------------------ *)
Definition prefix (a b : list name) : Prop := exists r, b = a ++ r.

Definition Efacts (new : exports) : Prop :=
  forall cur, wf_e cur = true -> wf_e new = true ->
    wf_e (fst (ext_e cur new)) = true
    /\ (forall x, snd (ext_e cur new) = Some x -> wf_e x = true)
    (* sound, exactly *)
    /\ (forall q, in_e (fst (ext_e cur new)) q = in_e cur q || in_e new q)
    (* covers *)
    /\ (forall q, in_e new q = true -> in_e cur q = false -> in_oe (snd (ext_e cur new)) q = true)
    (* no more than what came in *)
    /\ (forall q, in_oe (snd (ext_e cur new)) q = true -> in_e new q = true)
    (* every reported path has a prefix that is really new *)
    /\ (forall q, in_oe (snd (ext_e cur new)) q = true ->
          exists q', prefix q' q /\ in_e (fst (ext_e cur new)) q' = true /\ in_e cur q' = false).

(* lookup-level description of NamedSubset::extend *)
Definition cur_after (cur new : named) (k : name) : option exports :=
  match nlookup k new with
  | None => nlookup k cur
  | Some e => match nlookup k cur with
              | None => Some e
              | Some c => Some (fst (ext_e c e))
              end
  end.

Definition diff_after (cur diff new : named) (k : name) : option exports :=
  match nlookup k new with
  | None => nlookup k diff
  | Some e => match nlookup k cur with
              | None => Some e
              | Some c => snd (ext_e c e)
              end
  end.

Definition Nchar (new : named) : Prop :=
  forall cur diff,
    wf_n cur = true -> wf_n new = true -> wf_n diff = true ->
    (forall k, nhas k new = true -> nhas k diff = false) ->
    wf_n (fst (ext_n cur diff new)) = true
    /\ wf_n (snd (ext_n cur diff new)) = true
    /\ (forall k, nlookup k (fst (ext_n cur diff new)) = cur_after cur new k)
    /\ (forall k, nlookup k (snd (ext_n cur diff new)) = diff_after cur diff new k).

Definition Nentries (new : named) : Prop :=
  forall k e, nlookup k new = Some e -> Efacts e.

(* denotational facts at the NamedSubset level, from the lookup description *)
Section NamedFacts.
Variables (cur new cur' d : named).
Hypothesis Hwc : wf_n cur = true.
Hypothesis Hwn : wf_n new = true.
Hypothesis Hent : Nentries new.
Hypothesis Hc : forall k, nlookup k cur' = cur_after cur new k.
Hypothesis Hd : forall k, nlookup k d = diff_after cur NNil new k.

Lemma named_sound : forall p, in_n cur' p = in_n cur p || in_n new p.
Proof.
  intros [|k q]; [reflexivity|]. rewrite !in_n_cons, Hc. unfold cur_after.
  destruct (nlookup k new) as [e|] eqn:En.
  - destruct (nlookup k cur) as [c|] eqn:Ec.
    + cbn [in_oe].
      destruct (Hent k e En c (wf_lookup _ _ _ Hwc Ec) (wf_lookup _ _ _ Hwn En)) as [_ [_ [Hs _]]].
      apply Hs.
    + reflexivity.
  - cbn [in_oe]. rewrite orb_false_r; reflexivity.
Qed.

Lemma named_covers : forall p, in_n new p = true -> in_n cur p = false -> in_n d p = true.
Proof.
  intros [|k q]; [discriminate|]. rewrite !in_n_cons, Hd. unfold diff_after.
  destruct (nlookup k new) as [e|] eqn:En; [|discriminate].
  destruct (nlookup k cur) as [c|] eqn:Ec.
  - cbn [in_oe]. intros H1 H2.
    destruct (Hent k e En c (wf_lookup _ _ _ Hwc Ec) (wf_lookup _ _ _ Hwn En)) as [_ [_ [_ [Hcov _]]]].
    apply Hcov; assumption.
  - intros H1 _; exact H1.
Qed.

Lemma named_no_more : forall p, in_n d p = true -> in_n new p = true.
Proof.
  intros [|k q]; [discriminate|]. rewrite !in_n_cons, Hd. unfold diff_after.
  destruct (nlookup k new) as [e|] eqn:En; [|cbn [nlookup in_oe]; discriminate].
  destruct (nlookup k cur) as [c|] eqn:Ec.
  - destruct (Hent k e En c (wf_lookup _ _ _ Hwc Ec) (wf_lookup _ _ _ Hwn En)) as [_ [_ [_ [_ [Hnm _]]]]].
    apply Hnm.
  - intro H; exact H.
Qed.

Lemma named_strict : forall p, in_n d p = true ->
  exists p', prefix p' p /\ in_n cur' p' = true /\ in_n cur p' = false.
Proof.
  intros [|k q]; [discriminate|]. intro H.
  assert (Hnew : in_n new (k :: q) = true) by (apply named_no_more; exact H).
  rewrite in_n_cons, Hd in H. unfold diff_after in H.
  destruct (nlookup k new) as [e|] eqn:En; [|discriminate].
  destruct (nlookup k cur) as [c|] eqn:Ec.
  - destruct (Hent k e En c (wf_lookup _ _ _ Hwc Ec) (wf_lookup _ _ _ Hwn En)) as [_ [_ [_ [_ [_ Hst]]]]].
    destruct (Hst q H) as [q' [[r Hr] [H1 H2]]].
    exists (k :: q'). split; [exists r; subst q; reflexivity|].
    rewrite !in_n_cons, Hc, Ec. unfold cur_after. rewrite En, Ec. cbn [in_oe]. split; assumption.
  - exists (k :: q). split; [exists []; rewrite app_nil_r; reflexivity|].
    split.
    + rewrite named_sound, Hnew, orb_true_r; reflexivity.
    + rewrite in_n_cons, Ec; reflexivity.
Qed.
End NamedFacts.

(* ------------------------------------------------------------------ *)
(* The mutual induction                                                *)
(* ------------------------------------------------------------------ *)
Lemma ext_e_EAll_cur : forall new, ext_e EAll new = (EAll, None).
Proof. intros [|s]; reflexivity. Qed.

Lemma efacts_all : Efacts EAll.
Proof.
  intros [|cs] Hc _.
  - cbn [ext_e fst snd]. repeat split; try discriminate; try reflexivity.
  - cbn [ext_e fst snd in_e in_oe wf_e].
    split; [reflexivity|]. split; [intros x Hx; inversion Hx; reflexivity|].
    split; [intro q; rewrite orb_true_r; reflexivity|].
    split; [reflexivity|]. split; [reflexivity|].
    intros q _. exists []. split; [exists q; reflexivity|]. split; reflexivity.
Qed.

Lemma efacts_sub : forall ns, Nchar ns -> Nentries ns -> Efacts (ESub ns).
Proof.
  intros ns Hchar Hent [|cs] Hc Hn.
  - cbn [ext_e fst snd in_e in_oe wf_e]. repeat split; try discriminate; try reflexivity.
  - cbn [wf_e] in Hc, Hn.
    destruct (Hchar cs NNil Hc Hn eq_refl (fun _ _ => eq_refl)) as [Hw1 [Hw2 [Hl1 Hl2]]].
    cbn [ext_e]. destruct (ext_n cs NNil ns) as [cs' d] eqn:Eext. cbn [fst snd] in *.
    pose proof (named_sound cs ns cs' Hc Hn Hent Hl1) as Hsound.
    pose proof (named_covers cs ns d Hc Hn Hent Hl2) as Hcov.
    pose proof (named_no_more cs ns d Hc Hn Hent Hl2) as Hnm.
    pose proof (named_strict cs ns cs' d Hc Hn Hent Hl1 Hl2) as Hst.
    cbn [in_e wf_e].
    split; [exact Hw1|].
    split; [destruct (nis_empty d); intros x Hx; inversion Hx; exact Hw2|].
    split; [exact Hsound|].
    split.
    { intros q H1 H2. pose proof (Hcov q H1 H2) as H3.
      destruct (nis_empty d) eqn:Ee; cbn [in_oe in_e]; [|exact H3].
      destruct q as [|k q]; [discriminate|]. rewrite in_n_cons, (nis_empty_lookup _ Ee) in H3. discriminate. }
    split.
    { intros q H. destruct (nis_empty d); cbn [in_oe in_e] in H; [discriminate|]. apply Hnm; exact H. }
    { intros q H. destruct (nis_empty d); cbn [in_oe in_e] in H; [discriminate|]. apply Hst; exact H. }
Qed.

Lemma nhas_false_lookup : forall k s, nhas k s = false -> nlookup k s = None.
Proof. intros k s; unfold nhas; destruct (nlookup k s); [discriminate | reflexivity]. Qed.

Lemma dadd_vacant : forall k x diff, nhas k diff = false -> dadd k x diff = nset k x diff.
Proof. intros k x diff H; unfold dadd; rewrite (nhas_false_lookup _ _ H); reflexivity. Qed.

Lemma nchar_nil : Nchar NNil.
Proof.
  intros cur diff Hc _ Hd _. cbn [ext_n fst snd]. repeat split; try assumption; reflexivity.
Qed.

Lemma nchar_cons : forall k e rest, Efacts e -> Nchar rest -> Nchar (NCons k e rest).
Proof.
  intros k e rest He Hrest cur diff Hc Hn Hd Hdis.
  cbn [wf_n] in Hn. apply andb_true_iff in Hn; destruct Hn as [Hn Hr].
  apply andb_true_iff in Hn; destruct Hn as [Hk Hwe]. apply negb_true_iff in Hk.
  assert (Hkd : nhas k diff = false).
  { apply Hdis. unfold nhas; cbn [nlookup]. rewrite N.eqb_refl; reflexivity. }
  cbn [ext_n].
  destruct (nlookup k cur) as [entry|] eqn:Ek.
  - pose proof (wf_lookup _ _ _ Hc Ek) as Hwentry.
    destruct (He entry Hwentry Hwe) as [Hw1 [Hw2 _]].
    destruct (ext_e entry e) as [entry' sd] eqn:Ee. cbn [fst snd] in Hw1, Hw2.
    set (cur1 := nset k entry' cur).
    set (diff1 := match sd with Some x => dadd k x diff | None => diff end).
    assert (Hc1 : wf_n cur1 = true) by (apply wf_nset; assumption).
    assert (Hd1 : wf_n diff1 = true).
    { unfold diff1; destruct sd as [x|]; [|exact Hd]. rewrite dadd_vacant by exact Hkd.
      apply wf_nset; [exact Hd | apply Hw2; reflexivity]. }
    assert (Hdis1 : forall k0, nhas k0 rest = true -> nhas k0 diff1 = false).
    { intros k0 H0. unfold diff1. destruct sd as [x|].
      - rewrite dadd_vacant by exact Hkd. rewrite nhas_nset.
        destruct (N.eqb k0 k) eqn:E0.
        + apply N.eqb_eq in E0; subst k0. rewrite Hk in H0; discriminate.
        + cbn [orb]. apply Hdis. unfold nhas in *; cbn [nlookup]. rewrite E0. exact H0.
      - apply Hdis. unfold nhas in *; cbn [nlookup].
        destruct (N.eqb k0 k); [reflexivity | exact H0]. }
    destruct (Hrest cur1 diff1 Hc1 Hr Hd1 Hdis1) as [R1 [R2 [R3 R4]]].
    split; [exact R1|]. split; [exact R2|]. split.
    + intro k0. rewrite R3. unfold cur_after. cbn [nlookup].
      destruct (N.eqb k0 k) eqn:E0.
      * apply N.eqb_eq in E0; subst k0. rewrite (nhas_false_lookup _ _ Hk).
        unfold cur1. rewrite nlookup_nset_same, Ek, Ee. reflexivity.
      * unfold cur1. rewrite nlookup_nset_other by (apply N.eqb_neq; exact E0). reflexivity.
    + intro k0. rewrite R4. unfold diff_after. cbn [nlookup].
      destruct (N.eqb k0 k) eqn:E0.
      * apply N.eqb_eq in E0; subst k0. rewrite (nhas_false_lookup _ _ Hk).
        rewrite Ek, Ee. cbn [snd]. unfold diff1. destruct sd as [x|].
        -- rewrite dadd_vacant by exact Hkd. apply nlookup_nset_same.
        -- apply nhas_false_lookup; exact Hkd.
      * unfold cur1, diff1. rewrite nlookup_nset_other by (apply N.eqb_neq; exact E0).
        destruct (nlookup k0 rest); [reflexivity|].
        destruct sd as [x|]; [|reflexivity].
        rewrite dadd_vacant by exact Hkd. apply nlookup_nset_other. apply N.eqb_neq; exact E0.
  - set (cur1 := nset k e cur).
    set (diff1 := dadd k e diff).
    assert (Hc1 : wf_n cur1 = true) by (apply wf_nset; assumption).
    assert (Hd1 : wf_n diff1 = true).
    { unfold diff1. rewrite dadd_vacant by exact Hkd. apply wf_nset; assumption. }
    assert (Hdis1 : forall k0, nhas k0 rest = true -> nhas k0 diff1 = false).
    { intros k0 H0. unfold diff1. rewrite dadd_vacant by exact Hkd. rewrite nhas_nset.
      destruct (N.eqb k0 k) eqn:E0.
      + apply N.eqb_eq in E0; subst k0. rewrite Hk in H0; discriminate.
      + cbn [orb]. apply Hdis. unfold nhas in *; cbn [nlookup]. rewrite E0. exact H0. }
    destruct (Hrest cur1 diff1 Hc1 Hr Hd1 Hdis1) as [R1 [R2 [R3 R4]]].
    split; [exact R1|]. split; [exact R2|]. split.
    + intro k0. rewrite R3. unfold cur_after. cbn [nlookup].
      destruct (N.eqb k0 k) eqn:E0.
      * apply N.eqb_eq in E0; subst k0. rewrite (nhas_false_lookup _ _ Hk).
        unfold cur1. rewrite nlookup_nset_same, Ek. reflexivity.
      * unfold cur1. rewrite nlookup_nset_other by (apply N.eqb_neq; exact E0). reflexivity.
    + intro k0. rewrite R4. unfold diff_after. cbn [nlookup].
      destruct (N.eqb k0 k) eqn:E0.
      * apply N.eqb_eq in E0; subst k0. rewrite (nhas_false_lookup _ _ Hk).
        rewrite Ek. unfold diff1. rewrite dadd_vacant by exact Hkd. apply nlookup_nset_same.
      * unfold cur1, diff1. rewrite nlookup_nset_other by (apply N.eqb_neq; exact E0).
        destruct (nlookup k0 rest); [reflexivity|].
        rewrite dadd_vacant by exact Hkd. apply nlookup_nset_other. apply N.eqb_neq; exact E0.
Qed.

Lemma nentries_cons : forall k e rest, Efacts e -> Nentries rest -> Nentries (NCons k e rest).
Proof.
  intros k e rest He Hr k0 e0 H. cbn [nlookup] in H.
  destruct (N.eqb k0 k); [inversion H; subst; exact He | exact (Hr _ _ H)].
Qed.

Lemma lattice_mutual :
  (forall e, Efacts e) /\ (forall s, Nchar s /\ Nentries s).
Proof.
  apply exports_named_mutind.
  - exact efacts_all.
  - intros s [H1 H2]; apply efacts_sub; assumption.
  - split; [exact nchar_nil | intros k e H; discriminate].
  - intros k e He rest [H1 H2]. split; [apply nchar_cons | apply nentries_cons]; assumption.
Qed.

Lemma efacts : forall e, Efacts e.
Proof. exact (proj1 lattice_mutual). Qed.
Lemma nchar : forall s, Nchar s.
Proof. intro s; exact (proj1 (proj2 lattice_mutual s)). Qed.
Lemma nentries : forall s, Nentries s.
Proof. intro s; exact (proj2 (proj2 lattice_mutual s)). Qed.

(* ------------------------------------------------------------------ *)
(* Exports::extend                                                     *)
(* ------------------------------------------------------------------ *)
Section ExportsExtend.
Variables (cur new cur' : exports) (d : option exports).
Hypothesis Hwc : wf_e cur = true.
Hypothesis Hwn : wf_e new = true.
Hypothesis Hrun : ext_e cur new = (cur', d).

Lemma e_extend_wf : wf_e cur' = true /\ (forall x, d = Some x -> wf_e x = true).
Proof.
  destruct (efacts new cur Hwc Hwn) as [H1 [H2 _]]. rewrite Hrun in *. split; assumption.
Qed.
Lemma e_extend_sound : forall q, in_e cur' q = in_e cur q || in_e new q.
Proof. destruct (efacts new cur Hwc Hwn) as [_ [_ [H _]]]. rewrite Hrun in *. exact H. Qed.
Lemma e_extend_covers : forall q, in_e new q = true -> in_e cur q = false -> in_oe d q = true.
Proof. destruct (efacts new cur Hwc Hwn) as [_ [_ [_ [H _]]]]. rewrite Hrun in *. exact H. Qed.
Lemma e_extend_no_more : forall q, in_oe d q = true -> in_e new q = true.
Proof. destruct (efacts new cur Hwc Hwn) as [_ [_ [_ [_ [H _]]]]]. rewrite Hrun in *. exact H. Qed.
Lemma e_extend_strict : forall q, in_oe d q = true ->
  exists q', prefix q' q /\ in_e cur' q' = true /\ in_e cur q' = false.
Proof. destruct (efacts new cur Hwc Hwn) as [_ [_ [_ [_ [_ H]]]]]. rewrite Hrun in *. exact H. Qed.
End ExportsExtend.

(* ------------------------------------------------------------------ *)
(* NamedSubset::extend                                                 *)
(* ------------------------------------------------------------------ *)
Section NamedExtend.
Variables (cur new cur' d : named).
Hypothesis Hwc : wf_n cur = true.
Hypothesis Hwn : wf_n new = true.
Hypothesis Hrun : n_extend cur new = (cur', d).

Lemma n_extend_char :
  wf_n cur' = true /\ wf_n d = true
  /\ (forall k, nlookup k cur' = cur_after cur new k)
  /\ (forall k, nlookup k d = diff_after cur NNil new k).
Proof.
  pose proof (nchar new cur NNil Hwc Hwn eq_refl (fun _ _ => eq_refl)) as H.
  unfold n_extend in Hrun. rewrite Hrun in H. exact H.
Qed.

Lemma n_extend_wf : wf_n cur' = true /\ wf_n d = true.
Proof. destruct n_extend_char as [H1 [H2 _]]; split; assumption. Qed.
Lemma n_extend_sound : forall p, in_n cur' p = in_n cur p || in_n new p.
Proof.
  destruct n_extend_char as [_ [_ [H3 H4]]].
  exact (named_sound cur new cur' Hwc Hwn (nentries new) H3).
Qed.
Lemma n_extend_covers : forall p, in_n new p = true -> in_n cur p = false -> in_n d p = true.
Proof.
  destruct n_extend_char as [_ [_ [H3 H4]]].
  exact (named_covers cur new d Hwc Hwn (nentries new) H4).
Qed.
Lemma n_extend_no_more : forall p, in_n d p = true -> in_n new p = true.
Proof.
  destruct n_extend_char as [_ [_ [H3 H4]]].
  exact (named_no_more cur new d Hwc Hwn (nentries new) H4).
Qed.
Lemma n_extend_strict : forall p, in_n d p = true ->
  exists p', prefix p' p /\ in_n cur' p' = true /\ in_n cur p' = false.
Proof.
  destruct n_extend_char as [_ [_ [H3 H4]]].
  exact (named_strict cur new cur' d Hwc Hwn (nentries new) H3 H4).
Qed.
End NamedExtend.

(* ------------------------------------------------------------------ *)
(* add / add_qualified / from_parts / add_named                        *)
(* ------------------------------------------------------------------ *)
Fixpoint is_prefixb (a b : list name) : bool :=
  match a, b with
  | [], _ => true
  | x :: a', y :: b' => N.eqb x y && is_prefixb a' b'
  | _ :: _, [] => false
  end.

Lemma n_add_wf : forall s k, wf_n s = true -> wf_n (n_add s k) = true.
Proof. intros; unfold n_add; apply wf_nset; [assumption | reflexivity]. Qed.

Lemma n_add_den : forall s k p, in_n (n_add s k) p = in_n s p || is_prefixb [k] p.
Proof.
  intros s k [|k' q]; [reflexivity|]. unfold n_add. rewrite !in_n_cons, nlookup_nset. cbn [is_prefixb].
  rewrite (N.eqb_sym k k'). destruct (N.eqb k' k); cbn [in_oe in_e andb].
  - rewrite orb_true_r; reflexivity.
  - rewrite orb_false_r; reflexivity.
Qed.

Lemma n_add_qualified_wf : forall q s k, wf_n s = true -> wf_n (n_add_qualified s k q) = true.
Proof.
  induction q as [|k1 q IH]; intros s k Hs; cbn [n_add_qualified].
  - apply n_add_wf; exact Hs.
  - destruct (nlookup k s) as [[|inner]|] eqn:E.
    + exact Hs.
    + apply wf_nset; [exact Hs|]. cbn [wf_e]. apply IH.
      pose proof (wf_lookup _ _ _ Hs E) as H; exact H.
    + apply wf_nset; [exact Hs|]. cbn [wf_e]. apply IH. reflexivity.
Qed.

Lemma n_add_qualified_den : forall q s k p,
  in_n (n_add_qualified s k q) p = in_n s p || is_prefixb (k :: q) p.
Proof.
  induction q as [|k1 q IH]; intros s k p; cbn [n_add_qualified].
  - apply n_add_den.
  - destruct p as [|k' r]; [reflexivity|].
    cbn [is_prefixb]. rewrite (N.eqb_sym k k').
    destruct (nlookup k s) as [[|inner]|] eqn:E.
    + rewrite in_n_cons. destruct (N.eqb k' k) eqn:E'.
      * apply N.eqb_eq in E'; subst k'. rewrite E. reflexivity.
      * cbn [andb]. rewrite orb_false_r; reflexivity.
    + rewrite !in_n_cons, nlookup_nset. destruct (N.eqb k' k) eqn:E'.
      * apply N.eqb_eq in E'; subst k'. rewrite E. cbn [in_oe in_e andb]. apply IH.
      * cbn [andb]. rewrite orb_false_r; reflexivity.
    + rewrite !in_n_cons, nlookup_nset. destruct (N.eqb k' k) eqn:E'.
      * apply N.eqb_eq in E'; subst k'. rewrite E. cbn [in_oe in_e andb]. rewrite IH.
        destruct r; reflexivity.
      * cbn [andb]. rewrite orb_false_r; reflexivity.
Qed.

Lemma n_from_parts_wf : forall parts, wf_n (n_from_parts parts) = true.
Proof. intros [|k q]; [reflexivity|]. apply n_add_qualified_wf; reflexivity. Qed.

Lemma n_from_parts_den : forall parts p, parts <> [] ->
  in_n (n_from_parts parts) p = is_prefixb parts p.
Proof.
  intros [|k q] p H; [contradiction|]. cbn [n_from_parts]. rewrite n_add_qualified_den.
  destruct p; reflexivity.
Qed.

Lemma n_add_named_wf : forall s k x, wf_n s = true -> wf_e x = true -> wf_n (n_add_named s k x) = true.
Proof.
  intros s k x Hs Hx; unfold n_add_named. destruct (nlookup k s) as [entry|] eqn:E.
  - apply wf_nset; [exact Hs|].
    destruct (efacts x entry (wf_lookup _ _ _ Hs E) Hx) as [H _]; exact H.
  - apply wf_nset; assumption.
Qed.

Lemma n_add_named_den : forall s k x p, wf_n s = true -> wf_e x = true ->
  in_n (n_add_named s k x) p =
  in_n s p || match p with [] => false | k' :: r => N.eqb k' k && in_e x r end.
Proof.
  intros s k x [|k' r] Hs Hx; [reflexivity|]. unfold n_add_named.
  destruct (nlookup k s) as [entry|] eqn:E; rewrite !in_n_cons, nlookup_nset;
    destruct (N.eqb k' k) eqn:E'; cbn [andb]; try (rewrite orb_false_r; reflexivity).
  - apply N.eqb_eq in E'; subst k'. rewrite E. cbn [in_oe].
    destruct (efacts x entry (wf_lookup _ _ _ Hs E) Hx) as [_ [_ [H _]]]. apply H.
  - apply N.eqb_eq in E'; subst k'. rewrite E. reflexivity.
Qed.

(* ------------------------------------------------------------------ *)
(* ImportedExports::add                                                *)
(* ------------------------------------------------------------------ *)
(* the class in which the real code over-approximates: a `default` entry that
   is a proper subset meets Star *)
Definition qualified_default (s : named) : bool :=
  match nlookup DEFAULT s with Some (ESub _) => true | _ => false end.
Definition over_class (cur new : imported) : bool :=
  match cur, new with
  | IStar, ISub ns => qualified_default ns
  | ISub cs, IStar => qualified_default cs
  | _, _ => false
  end.

Lemma in_n_head : forall s k q, in_n s (k :: q) = true -> nhas k s = true.
Proof. intros s k q; rewrite in_n_cons; unfold nhas; destruct (nlookup k s); [reflexivity | discriminate]. Qed.

Lemma default_only_den : forall p, in_n default_only p = match p with [] => false | k :: _ => N.eqb k DEFAULT end.
Proof.
  intros [|k q]; [reflexivity|]. rewrite in_n_cons. unfold default_only; cbn [nlookup].
  destruct (N.eqb k DEFAULT); reflexivity.
Qed.

Section ImportedAdd.
Variables (cur new cur' : imported) (d : option imported).
Hypothesis Hwc : wf_i cur = true.
Hypothesis Hwn : wf_i new = true.
Hypothesis Hrun : i_add cur new = (cur', d).

Lemma i_add_wf : wf_i cur' = true /\ (forall x, d = Some x -> wf_i x = true).
Proof.
  destruct cur as [| |cs], new as [| |ns]; cbn [i_add] in Hrun;
    try (inversion Hrun; subst; split; [reflexivity | intros x Hx; inversion Hx; reflexivity]).
  - destruct (nhas DEFAULT ns); inversion Hrun; subst;
      (split; [reflexivity | intros x Hx; inversion Hx; reflexivity]).
  - destruct (nhas DEFAULT cs); inversion Hrun; subst;
      (split; [reflexivity | intros x Hx; inversion Hx; reflexivity]).
  - destruct (n_extend cs ns) as [cs' dd] eqn:E. inversion Hrun; subst.
    destruct (n_extend_wf cs ns cs' dd Hwc Hwn E) as [H1 H2].
    split; [exact H1 | intros x Hx; inversion Hx; exact H2].
Qed.

(* nothing that was traced or requested is lost *)
Lemma i_add_sound : forall p, in_i cur p || in_i new p = true -> in_i cur' p = true.
Proof.
  intros p H.
  destruct cur as [| |cs], new as [| |ns]; cbn [i_add] in Hrun.
  - inversion Hrun; subst. rewrite orb_diag in H; exact H.
  - inversion Hrun; subst. rewrite orb_true_iff in H; destruct H as [H|H]; destruct p; try discriminate; reflexivity.
  - destruct (nhas DEFAULT ns) eqn:E; inversion Hrun; subst.
    + destruct p; [|reflexivity]. cbn [in_i in_n orb] in H; discriminate.
    + apply orb_true_iff in H; destruct H as [H|H]; [exact H|].
      destruct p as [|k q]; [discriminate|]. cbn [in_i] in *.
      apply in_n_head in H. destruct (N.eqb k DEFAULT) eqn:Ek; [|reflexivity].
      apply N.eqb_eq in Ek; subst k. rewrite H in E; discriminate.
  - inversion Hrun; subst. rewrite orb_true_iff in H; destruct H as [H|H]; destruct p; try discriminate; reflexivity.
  - inversion Hrun; subst. rewrite orb_diag in H; exact H.
  - inversion Hrun; subst. apply orb_true_iff in H; destruct H as [H|H]; [exact H|].
    destruct p; [discriminate | reflexivity].
  - destruct p as [|k q]; [cbn [in_i in_n orb] in H; discriminate|].
    destruct (nhas DEFAULT cs) eqn:E; inversion Hrun; subst; [reflexivity|].
    apply orb_true_iff in H; destruct H as [H|H]; [|exact H].
    cbn [in_i] in *. apply in_n_head in H. destruct (N.eqb k DEFAULT) eqn:Ek; [|reflexivity].
    apply N.eqb_eq in Ek; subst k. rewrite H in E; discriminate.
  - inversion Hrun; subst. apply orb_true_iff in H; destruct H as [H|H]; destruct p; try discriminate; reflexivity.
  - destruct (n_extend cs ns) as [cs' dd] eqn:E. inversion Hrun; subst. cbn [in_i] in *.
    rewrite (n_extend_sound cs ns cs' dd Hwc Hwn E). exact H.
Qed.

(* the one that matters: everything requested and not yet traced is reported *)
Lemma i_add_covers : forall p, in_i new p = true -> in_i cur p = false -> in_oi d p = true.
Proof.
  intros p H1 H2.
  destruct cur as [| |cs], new as [| |ns]; cbn [i_add] in Hrun.
  - rewrite H1 in H2; discriminate.
  - inversion Hrun; subst. cbn [in_oi in_i]. rewrite default_only_den.
    destruct p as [|k q]; [discriminate|]. cbn [in_i] in H2. apply negb_false_iff in H2; exact H2.
  - destruct p as [|k q]; [discriminate|]. cbn [in_i] in H1, H2. apply negb_false_iff in H2.
    apply N.eqb_eq in H2; subst k. rewrite (in_n_head _ _ _ H1) in Hrun. inversion Hrun; subst.
    cbn [in_oi in_i]. rewrite default_only_den. reflexivity.
  - destruct p; discriminate.
  - destruct p; discriminate.
  - cbn [in_i] in H1, H2. destruct p; discriminate.
  - inversion Hrun; subst. exact H1.
  - inversion Hrun; subst. exact H1.
  - destruct (n_extend cs ns) as [cs' dd] eqn:E. inversion Hrun; subst. cbn [in_oi in_i] in *.
    exact (n_extend_covers cs ns cs' dd Hwc Hwn E p H1 H2).
Qed.

Lemma i_add_none : d = None -> forall p, in_i new p = true -> in_i cur p = true.
Proof.
  intros Hd p H. destruct (in_i cur p) eqn:E; [reflexivity|].
  pose proof (i_add_covers p H E) as H'. rewrite Hd in H'. discriminate.
Qed.

(* the difference stays inside the new state *)
Lemma i_add_no_more_state : forall p, in_oi d p = true -> in_i cur' p = true.
Proof.
  intros p H.
  destruct cur as [| |cs], new as [| |ns]; cbn [i_add] in Hrun.
  - inversion Hrun; subst; discriminate.
  - inversion Hrun; subst. cbn [in_oi in_i] in *. destruct p; [discriminate | reflexivity].
  - destruct (nhas DEFAULT ns); inversion Hrun; subst; [|discriminate].
    cbn [in_oi in_i] in *. destruct p; [discriminate | reflexivity].
  - inversion Hrun; subst; discriminate.
  - inversion Hrun; subst; discriminate.
  - inversion Hrun; subst; discriminate.
  - cbn [in_oi] in *. destruct (nhas DEFAULT cs); inversion Hrun; subst; [|exact H].
    cbn [in_i] in *. destruct p; [discriminate | reflexivity].
  - inversion Hrun; subst. exact H.
  - destruct (n_extend cs ns) as [cs' dd] eqn:E. inversion Hrun; subst. cbn [in_oi in_i] in *.
    rewrite (n_extend_sound cs ns cs' dd Hwc Hwn E).
    rewrite (n_extend_no_more cs ns cs' dd Hwc Hwn E p H). apply orb_true_r.
Qed.

(* outside the over-approximation class the new state is exactly the union
   and the difference is part of what came in *)
Lemma i_add_exact : over_class cur new = false ->
  forall p, in_i cur' p = in_i cur p || in_i new p.
Proof.
  intros Hcl p.
  destruct cur as [| |cs], new as [| |ns]; cbn [i_add] in Hrun; cbn [over_class] in Hcl.
  - inversion Hrun; subst. rewrite orb_diag; reflexivity.
  - inversion Hrun; subst. destruct p as [|k q]; [reflexivity|]. cbn [in_i]. rewrite orb_true_r; reflexivity.
  - destruct p as [|k q]; [destruct (nhas DEFAULT ns); inversion Hrun; subst; reflexivity|].
    unfold qualified_default in Hcl.
    destruct (nhas DEFAULT ns) eqn:E; inversion Hrun; subst; cbn [in_i].
    + destruct (N.eqb k DEFAULT) eqn:Ek; [|reflexivity]. cbn [negb orb].
      apply N.eqb_eq in Ek; subst k. rewrite in_n_cons.
      unfold nhas in E. destruct (nlookup DEFAULT ns) as [[|x]|]; try discriminate. reflexivity.
    + destruct (N.eqb k DEFAULT) eqn:Ek; [|reflexivity]. cbn [negb orb].
      apply N.eqb_eq in Ek; subst k. rewrite in_n_cons.
      unfold nhas in E. destruct (nlookup DEFAULT ns); [discriminate | reflexivity].
  - inversion Hrun; subst. destruct p; reflexivity.
  - inversion Hrun; subst. rewrite orb_diag; reflexivity.
  - inversion Hrun; subst. destruct p as [|k q]; [reflexivity|]. reflexivity.
  - destruct p as [|k q]; [destruct (nhas DEFAULT cs); inversion Hrun; subst; reflexivity|].
    unfold qualified_default in Hcl.
    destruct (nhas DEFAULT cs) eqn:E; inversion Hrun; subst; cbn [in_i].
    + destruct (N.eqb k DEFAULT) eqn:Ek; [|rewrite orb_true_r; reflexivity]. cbn [negb]. rewrite orb_false_r.
      apply N.eqb_eq in Ek; subst k. rewrite in_n_cons.
      unfold nhas in E. destruct (nlookup DEFAULT cs) as [[|x]|]; try discriminate. reflexivity.
    + destruct (N.eqb k DEFAULT) eqn:Ek; [|rewrite orb_true_r; reflexivity]. cbn [negb]. rewrite orb_false_r.
      apply N.eqb_eq in Ek; subst k. rewrite in_n_cons.
      unfold nhas in E. destruct (nlookup DEFAULT cs); [discriminate | reflexivity].
  - inversion Hrun; subst. destruct p as [|k q]; [reflexivity|]. cbn [in_i]. rewrite orb_true_r; reflexivity.
  - destruct (n_extend cs ns) as [cs' dd] eqn:E. inversion Hrun; subst. cbn [in_i].
    apply (n_extend_sound cs ns cs' dd Hwc Hwn E).
Qed.

Lemma i_add_no_more : over_class cur new = false ->
  forall p, in_oi d p = true -> in_i new p = true.
Proof.
  intros Hcl p H.
  destruct cur as [| |cs], new as [| |ns]; cbn [i_add] in Hrun; cbn [over_class] in Hcl.
  - inversion Hrun; subst; discriminate.
  - inversion Hrun; subst. cbn [in_oi in_i] in *. destruct p; [discriminate | reflexivity].
  - unfold qualified_default in Hcl.
    destruct (nhas DEFAULT ns) eqn:E; inversion Hrun; subst; [|discriminate].
    cbn [in_oi in_i] in *. rewrite default_only_den in H. destruct p as [|k q]; [discriminate|].
    apply N.eqb_eq in H; subst k. rewrite in_n_cons.
    unfold nhas in E. destruct (nlookup DEFAULT ns) as [[|x]|]; try discriminate. reflexivity.
  - inversion Hrun; subst; discriminate.
  - inversion Hrun; subst; discriminate.
  - inversion Hrun; subst; discriminate.
  - inversion Hrun; subst. exact H.
  - inversion Hrun; subst. exact H.
  - destruct (n_extend cs ns) as [cs' dd] eqn:E. inversion Hrun; subst. cbn [in_oi in_i] in *.
    exact (n_extend_no_more cs ns cs' dd Hwc Hwn E p H).
Qed.

(* progress: a reported path either raises the constructor rank or has a
   prefix that is new in the traced set *)
Lemma i_add_progress : forall p, in_oi d p = true ->
  (rank_i cur < rank_i cur')%nat
  \/ (rank_i cur = rank_i cur'
      /\ exists p', prefix p' p /\ in_i cur' p' = true /\ in_i cur p' = false).
Proof.
  intros p H.
  destruct cur as [| |cs], new as [| |ns]; cbn [i_add] in Hrun.
  - inversion Hrun; subst; discriminate.
  - inversion Hrun; subst. left; cbn [rank_i]; lia.
  - destruct (nhas DEFAULT ns); inversion Hrun; subst; [|discriminate]. left; cbn [rank_i]; lia.
  - inversion Hrun; subst; discriminate.
  - inversion Hrun; subst; discriminate.
  - inversion Hrun; subst; discriminate.
  - left. destruct (nhas DEFAULT cs); inversion Hrun; subst; cbn [rank_i]; lia.
  - inversion Hrun; subst. left; cbn [rank_i]; lia.
  - destruct (n_extend cs ns) as [cs' dd] eqn:E. inversion Hrun; subst. right.
    split; [reflexivity|]. cbn [in_oi in_i] in *.
    exact (n_extend_strict cs ns cs' dd Hwc Hwn E p H).
Qed.
End ImportedAdd.

(* ------------------------------------------------------------------ *)
(* Worklist measure                                                    *)
(* ------------------------------------------------------------------ *)
Lemma filter_count_mono : forall (T : Type) (f g : T -> bool) (U : list T),
  (forall x, In x U -> f x = true -> g x = true) ->
  (length (filter f U) <= length (filter g U))%nat.
Proof.
  intros T f g U; induction U as [|x U IH]; intro H; cbn [filter]; [lia|].
  assert (IH' : (length (filter f U) <= length (filter g U))%nat)
    by (apply IH; intros y Hy; apply H; right; exact Hy).
  destruct (f x) eqn:Ef.
  - rewrite (H x (or_introl eq_refl) Ef). cbn [length]. lia.
  - destruct (g x); cbn [length]; lia.
Qed.

Lemma filter_count_strict : forall (T : Type) (f g : T -> bool) (U : list T),
  (forall x, In x U -> f x = true -> g x = true) ->
  (exists x, In x U /\ g x = true /\ f x = false) ->
  (length (filter f U) < length (filter g U))%nat.
Proof.
  intros T f g U; induction U as [|x U IH]; intros H [y [Hy [Hg Hf]]]; [destruct Hy|].
  assert (Hmono : (length (filter f U) <= length (filter g U))%nat)
    by (apply filter_count_mono; intros z Hz; apply H; right; exact Hz).
  cbn [filter]. destruct Hy as [Hy|Hy].
  - subst y. rewrite Hf, Hg. cbn [length]. lia.
  - assert (IH' : (length (filter f U) < length (filter g U))%nat).
    { apply IH; [intros z Hz; apply H; right; exact Hz | exists y; auto]. }
    destruct (f x) eqn:Ef.
    + rewrite (H x (or_introl eq_refl) Ef). cbn [length]. lia.
    + destruct (g x); cbn [length]; lia.
Qed.

Lemma filter_length_le : forall (T : Type) (f : T -> bool) (U : list T),
  (length (filter f U) <= length U)%nat.
Proof.
  intros T f U; induction U as [|x U IH]; cbn [filter length]; [lia|].
  destruct (f x); cbn [length]; lia.
Qed.

Definition prefix_closed (U : list (list name)) : Prop :=
  forall p p', In p U -> prefix p' p -> p' <> [] -> In p' U.

Lemma in_i_nonempty : forall i p, in_i i p = true -> p <> [].
Proof. intros [| |s] [|k q] H; try discriminate; intro H'; discriminate. Qed.

Lemma measure_bound : forall U i, (measure_i U i <= 3 * length U + 2)%nat.
Proof.
  intros U i; unfold measure_i, count_i.
  pose proof (filter_length_le _ (in_i i) U).
  destruct i; cbn [rank_i]; lia.
Qed.

Lemma measure_grows : forall U cur new cur' d p,
  wf_i cur = true -> wf_i new = true ->
  i_add cur new = (cur', Some d) ->
  prefix_closed U -> In p U -> in_i d p = true ->
  (measure_i U cur < measure_i U cur')%nat.
Proof.
  intros U cur new cur' d p Hwc Hwn Hrun HU Hp Hd.
  assert (Hmono : forall x, In x U -> in_i cur x = true -> in_i cur' x = true).
  { intros x _ Hx. apply (i_add_sound cur new cur' (Some d) Hwc Hwn Hrun). rewrite Hx; reflexivity. }
  destruct (i_add_progress cur new cur' (Some d) Hwc Hwn Hrun p Hd) as [Hr | [Hr [p' [Hpre [H1 H2]]]]].
  - unfold measure_i.
    pose proof (filter_length_le _ (in_i cur) U). unfold count_i.
    assert (S (rank_i cur) * S (length U) <= rank_i cur' * S (length U))%nat
      by (apply Nat.mul_le_mono_r; lia).
    lia.
  - unfold measure_i. rewrite Hr. apply Nat.add_lt_mono_l. unfold count_i.
    apply filter_count_strict; [exact Hmono|].
    exists p'. split; [|split; assumption].
    apply (HU p p' Hp Hpre). exact (in_i_nonempty _ _ H1).
Qed.

(* ------------------------------------------------------------------ *)
(* HandledExports::add / PendingTraces::add: lifting                   *)
(* ------------------------------------------------------------------ *)
Lemma handled_add_new : forall h spec t,
  lookup spec h = None -> handled_add h spec t = (h ++ [(spec, t)], Some t).
Proof. intros h spec t H; unfold handled_add; rewrite H; reflexivity. Qed.

Lemma handled_add_old : forall h spec t cur,
  lookup spec h = Some cur -> snd (handled_add h spec t) = snd (i_add cur t).
Proof.
  intros h spec t cur H; unfold handled_add; rewrite H. destruct (i_add cur t); reflexivity.
Qed.
