(* Proofs about Model/Pragma.v: every recogniser captures a contiguous piece of
   the comment text (between two quote characters unless quote-less), and the
   range computed by comment_source_to_position_range, mapped back onto the
   whole source, is exactly that piece (with its quotes). *)
From DG Require Import Base.Util Model.TextPos Model.Pragma Proofs.TextPosProofs.

Definition suffix (r s : text) : Prop := exists a, s = a ++ r.

Lemma suffix_refl : forall s, suffix s s.
Proof. intro s; exists []; reflexivity. Qed.

Lemma suffix_trans : forall a b c, suffix a b -> suffix b c -> suffix a c.
Proof.
  intros a b c [x Hx] [y Hy]. exists (y ++ x). rewrite Hy, Hx, app_assoc. reflexivity.
Qed.

Lemma suffix_cons : forall c r s, suffix r s -> suffix r (c :: s).
Proof. intros c r s [a Ha]. exists (c :: a). rewrite Ha. reflexivity. Qed.

Lemma skip_suffix : forall f s, suffix (skip f s) s.
Proof.
  intros f; induction s as [|c s IH]; cbn [skip]; [apply suffix_refl|].
  destruct (f c); [apply suffix_cons; exact IH | apply suffix_refl].
Qed.

Lemma lit_ci_suffix : forall kw s r, lit_ci kw s = Some r -> suffix r s.
Proof.
  induction kw as [|k kw IH]; intros s r H; cbn [lit_ci] in H.
  - inversion H; apply suffix_refl.
  - destruct s as [|c s]; [discriminate|]. destruct (ci_match k c); [|discriminate].
    apply suffix_cons. exact (IH _ _ H).
Qed.

Lemma chr_eq : forall c s r, chr c s = Some r -> s = c :: r.
Proof.
  intros c s r H; unfold chr in H. destruct s as [|d s]; [discriminate|].
  destruct (d =? c) eqn:E; [|discriminate]. apply N.eqb_eq in E. inversion H; subst; reflexivity.
Qed.

Lemma chr_suffix : forall c s r, chr c s = Some r -> suffix r s.
Proof. intros c s r H. rewrite (chr_eq _ _ _ H). exists [c]; reflexivity. Qed.

Lemma span_app : forall f s, fst (span f s) ++ snd (span f s) = s.
Proof.
  intros f; induction s as [|c s IH]; cbn [span]; [reflexivity|].
  destruct (f c); cbn [fst snd app]; [rewrite IH; reflexivity | reflexivity].
Qed.

Lemma span_stop : forall f s c r, snd (span f s) = c :: r -> f c = false.
Proof.
  intros f; induction s as [|d s IH]; intros c r H; cbn [span] in H; [discriminate|].
  destruct (f d) eqn:E; cbn [snd] in H; [exact (IH _ _ H)|]. inversion H; subst; exact E.
Qed.

(* what a successful recogniser guarantees about its capture *)
Definition captures_ok (ql : bool) (s cap rest : text) : Prop :=
  exists a, s = a ++ cap ++ rest /\
    (ql = false -> exists a' q1 q2 r',
        a = a' ++ [q1] /\ rest = q2 :: r' /\ is_quote q1 = true /\ is_quote q2 = true).

Lemma captures_ok_suffix : forall ql s1 s cap rest,
  suffix s1 s -> captures_ok ql s1 cap rest -> captures_ok ql s cap rest.
Proof.
  intros ql s1 s cap rest [x Hx] [a [Ha Hq]]. exists (x ++ a). split.
  - rewrite Hx, Ha, app_assoc. reflexivity.
  - intro E. destruct (Hq E) as [a' [q1 [q2 [r' [H1 [H2 [H3 H4]]]]]]].
    exists (x ++ a'), q1, q2, r'. rewrite H1, app_assoc. repeat split; assumption.
Qed.

Lemma quoted_ok : forall ne s t r, quoted ne s = Some (t, r) -> captures_ok false s t r.
Proof.
  intros ne s t r H. unfold quoted in H. destruct s as [|q s1]; [discriminate|].
  destruct (is_quote q) eqn:Eq; [|discriminate].
  destruct (snd (span not_quote s1)) as [|q2 r'] eqn:Er; [discriminate|].
  assert (Hq2 : is_quote q2 = true).
  { pose proof (span_stop _ _ _ _ Er) as Hs. unfold not_quote in Hs.
    destruct (is_quote q2); [reflexivity | discriminate]. }
  destruct (ne && is_nil (fst (span not_quote s1))); [discriminate|].
  inversion H; subst t r. exists [q]. split.
  - cbn [app]. f_equal. rewrite <- Er. symmetry. apply span_app.
  - intros _. exists [], q, q2, r'. repeat split; assumption.
Qed.

Lemma nonspace_ok : forall s t r, nonspace s = Some (t, r) -> captures_ok true s t r.
Proof.
  intros s t r H. unfold nonspace in H.
  destruct (is_nil (fst (span not_ws s))); [discriminate|]. inversion H; subst t r.
  exists []. split; [cbn [app]; symmetry; apply span_app | intro E; discriminate].
Qed.

Lemma search_ok : forall {T} (p : text -> option T) (P : text -> T -> Prop),
  (forall s x, p s = Some x -> P s x) ->
  (forall c s x, P s x -> P (c :: s) x) ->
  forall s x, search p s = Some x -> P s x.
Proof.
  intros T p P Hp Hc. induction s as [|c s IH]; intros x H; cbn [search] in H.
  - destruct (p []) eqn:E; [inversion H; subst; exact (Hp _ _ E) | discriminate].
  - destruct (p (c :: s)) eqn:E; [inversion H; subst; exact (Hp _ _ E)|].
    apply Hc. exact (IH _ H).
Qed.

Lemma attr_at_ok : forall kw s t r, attr_at kw s = Some (t, r) -> captures_ok false s t r.
Proof.
  intros kw s t r H. unfold attr_at in H. destruct s as [|c s1]; [discriminate|].
  destruct (is_ws c); [|discriminate].
  destruct (lit_ci kw s1) as [s2|] eqn:E2; [|discriminate].
  destruct (chr 61 (skip is_ws s2)) as [s3|] eqn:E3; [|discriminate].
  apply quoted_ok in H. refine (captures_ok_suffix _ _ _ _ _ _ H).
  apply suffix_cons.
  eapply suffix_trans; [apply skip_suffix|].
  eapply suffix_trans; [exact (chr_suffix _ _ _ E3)|].
  eapply suffix_trans; [apply skip_suffix|]. exact (lit_ci_suffix _ _ _ E2).
Qed.

Lemma search_attr_ok : forall kw s t r,
  search (attr_at kw) s = Some (t, r) -> captures_ok false s t r.
Proof.
  intros kw s t r H.
  apply (search_ok (attr_at kw) (fun s x => captures_ok false s (fst x) (snd x))) in H; [exact H| |].
  - intros s0 [t0 r0] H0. exact (attr_at_ok _ _ _ _ H0).
  - intros c s0 x Hx. exact (captures_ok_suffix _ _ _ _ _ (suffix_cons c _ _ (suffix_refl s0)) Hx).
Qed.

Lemma jsx_at_ok : forall kw s t r, jsx_at kw s = Some (t, r) -> captures_ok true s t r.
Proof.
  intros kw s t r H. unfold jsx_at in H.
  destruct (lit_ci kw (skip star_or_ws s)) as [[|c s1]|] eqn:E1; try discriminate.
  destruct (is_ws c); [|discriminate].
  apply nonspace_ok in H. refine (captures_ok_suffix _ _ _ _ _ _ H).
  eapply suffix_trans; [apply skip_suffix|].
  eapply suffix_trans; [apply (suffix_cons c); apply suffix_refl|].
  eapply suffix_trans; [exact (lit_ci_suffix _ _ _ E1)|]. apply skip_suffix.
Qed.

Lemma source_map_at_ok : forall s t r, source_map_at s = Some (t, r) -> captures_ok true s t r.
Proof.
  intros s t r H. unfold source_map_at in H. destruct s as [|c s1]; [discriminate|].
  destruct ((c =? 35) || (c =? 64)); [|discriminate].
  destruct (lit_ci kw_source_mapping_url (skip is_ws s1)) as [s2|] eqn:E2; [|discriminate].
  destruct (chr 61 (skip is_ws s2)) as [s3|] eqn:E3; [|discriminate].
  apply nonspace_ok in H. refine (captures_ok_suffix _ _ _ _ _ _ H).
  apply suffix_cons.
  eapply suffix_trans; [apply skip_suffix|].
  eapply suffix_trans; [exact (chr_suffix _ _ _ E3)|].
  eapply suffix_trans; [apply skip_suffix|].
  eapply suffix_trans; [exact (lit_ci_suffix _ _ _ E2)|]. apply skip_suffix.
Qed.

Lemma types_prefix_suffix : forall kw s r, types_prefix kw s = Some r -> suffix r s.
Proof.
  intros kw s r H. unfold types_prefix in H.
  destruct (lit_ci kw (skip is_ws s)) as [s1|] eqn:E1; [|discriminate].
  destruct (chr 61 (skip is_ws s1)) as [s2|] eqn:E2; [|discriminate].
  inversion H; subst r.
  eapply suffix_trans; [apply skip_suffix|].
  eapply suffix_trans; [exact (chr_suffix _ _ _ E2)|].
  eapply suffix_trans; [apply skip_suffix|].
  eapply suffix_trans; [exact (lit_ci_suffix _ _ _ E1)|]. apply skip_suffix.
Qed.

Theorem recognise_ok : forall p s cap rest ql,
  recognise p s = Some (cap, rest, ql) -> captures_ok ql s cap rest.
Proof.
  intros p s cap rest ql H. destruct p; cbn [recognise] in H.
  - destruct (search (attr_at kw_path) s) as [[t r]|] eqn:E; cbn [with_ql] in H; [|discriminate].
    inversion H; subst. exact (search_attr_ok _ _ _ _ E).
  - destruct (search (attr_at kw_types) s) as [[t r]|] eqn:E; cbn [with_ql] in H; [|discriminate].
    inversion H; subst. exact (search_attr_ok _ _ _ _ E).
  - destruct (search (attr_at kw_resolution_mode) s) as [[t r]|] eqn:E; cbn [with_ql] in H; [|discriminate].
    inversion H; subst. exact (search_attr_ok _ _ _ _ E).
  - destruct (jsx_at kw_jsx_import_source s) as [[t r]|] eqn:E; cbn [with_ql] in H; [|discriminate].
    inversion H; subst. exact (jsx_at_ok _ _ _ _ E).
  - destruct (jsx_at kw_jsx_import_source_types s) as [[t r]|] eqn:E; cbn [with_ql] in H; [|discriminate].
    inversion H; subst. exact (jsx_at_ok _ _ _ _ E).
  - destruct (source_map_at s) as [[t r]|] eqn:E; cbn [with_ql] in H; [|discriminate].
    inversion H; subst. exact (source_map_at_ok _ _ _ E).
  - destruct (types_prefix kw_ts_self_types s) as [s1|] eqn:E1; [|discriminate].
    destruct (quoted true s1) as [[t r]|] eqn:E; cbn [with_ql] in H; [|discriminate].
    inversion H; subst.
    exact (captures_ok_suffix _ _ _ _ _ (types_prefix_suffix _ _ _ E1) (quoted_ok _ _ _ _ E)).
  - destruct (types_prefix kw_ts_types s) as [s1|] eqn:E1; [|discriminate].
    destruct (quoted true s1) as [[t r]|] eqn:E; cbn [with_ql] in H; [|discriminate].
    inversion H; subst.
    exact (captures_ok_suffix _ _ _ _ _ (types_prefix_suffix _ _ _ E1) (quoted_ok _ _ _ _ E)).
  - destruct (types_prefix kw_deno_types s) as [s1|] eqn:E1; [|discriminate].
    destruct (quoted true s1) as [[t r]|] eqn:E; cbn [with_ql] in H.
    + inversion H; subst.
      exact (captures_ok_suffix _ _ _ _ _ (types_prefix_suffix _ _ _ E1) (quoted_ok _ _ _ _ E)).
    + destruct (nonspace s1) as [[t r]|] eqn:E'; cbn [with_ql] in H; [|discriminate].
      inversion H; subst.
      exact (captures_ok_suffix _ _ _ _ _ (types_prefix_suffix _ _ _ E1) (nonspace_ok _ _ _ E')).
Qed.

Lemma is_quote_ascii : forall q, is_quote q = true -> utf8_len q = 1.
Proof.
  intros q H. unfold is_quote in H. apply orb_true_iff in H.
  destruct H as [H|H]; apply N.eqb_eq in H; subst q; reflexivity.
Qed.

Lemma open_delim_len : forall b, byte_len (open_delim b) = 2.
Proof. intros [|]; reflexivity. Qed.

Lemma open_delim_nonempty : forall b x, open_delim b ++ x <> [].
Proof. intros [|] x; discriminate. Qed.

Lemma roundtrip_at : forall src P Q,
  src = P ++ Q -> P <> [] ->
  offset_of_pos src (pos_of_offset src (byte_len P)) = byte_len P.
Proof.
  intros src P Q Hs Hne. subst src. apply roundtrip. intro E. contradiction.
Qed.

(* the match range is the byte range of the capture inside the comment text *)
Lemma match_offsets : forall a cap rest,
  match_start (a ++ cap ++ rest) cap rest = byte_len a /\
  match_end (a ++ cap ++ rest) rest = byte_len a + byte_len cap.
Proof.
  intros a cap rest. unfold match_start, match_end. rewrite !byte_len_app. split; lia.
Qed.

Theorem range_exact : forall p pre block ctext tail cap rest ql,
  recognise p ctext = Some (cap, rest, ql) ->
  let src := pre ++ open_delim block ++ ctext ++ tail in
  let ms := match_start ctext cap rest in
  let me := match_end ctext rest in
  let r := comment_range src (byte_len pre) ms me ql in
  slice ctext ms me = cap /\
  exists q1 q2,
    slice src (offset_of_pos src (r_start r)) (offset_of_pos src (r_end r))
      = (if ql then cap else q1 :: cap ++ [q2]) /\
    (ql = false -> is_quote q1 = true /\ is_quote q2 = true).
Proof.
  intros p pre block ctext tail cap rest ql H src ms me r.
  destruct (recognise_ok _ _ _ _ _ H) as [a [Ha Hq]].
  destruct (match_offsets a cap rest) as [Hms Hme].
  assert (Ems : ms = byte_len a) by (unfold ms; rewrite Ha; exact Hms).
  assert (Eme : me = byte_len a + byte_len cap) by (unfold me; rewrite Ha; exact Hme).
  split.
  { rewrite Ems, Eme, Ha. apply slice_app. }
  pose proof (open_delim_len block) as Ho.
  destruct ql.
  - (* quote-less: the range is the capture itself *)
    exists 0, 0. split; [|intro E; discriminate].
    set (P1 := pre ++ open_delim block ++ a).
    assert (Hs1 : src = P1 ++ (cap ++ rest ++ tail)).
    { unfold src, P1. rewrite Ha. repeat rewrite <- app_assoc. reflexivity. }
    assert (Hs2 : src = (P1 ++ cap) ++ (rest ++ tail)).
    { rewrite Hs1. repeat rewrite <- app_assoc. reflexivity. }
    assert (Hne1 : P1 <> []).
    { unfold P1. intro E. apply app_eq_nil in E. destruct E as [_ E]. exact (open_delim_nonempty _ _ E). }
    assert (Hne2 : P1 ++ cap <> []).
    { intro E. apply app_eq_nil in E. destruct E as [E _]. exact (Hne1 E). }
    assert (Hb1 : byte_len pre + 2 + ms - 0 = byte_len P1).
    { unfold P1. rewrite !byte_len_app, Ho, Ems. lia. }
    assert (Hb2 : byte_len pre + 2 + me + 0 = byte_len (P1 ++ cap)).
    { unfold P1. rewrite !byte_len_app, Ho, Eme. lia. }
    unfold r, comment_range. cbn [r_start r_end]. rewrite Hb1, Hb2.
    rewrite (roundtrip_at src P1 _ Hs1 Hne1), (roundtrip_at src (P1 ++ cap) _ Hs2 Hne2).
    rewrite byte_len_app. rewrite Hs1 at 1. apply slice_app.
  - (* quoted: one character more on either side, and these are the quotes *)
    destruct (Hq eq_refl) as [a' [q1 [q2 [r' [Ea [Er [Hq1 Hq2]]]]]]].
    exists q1, q2. split; [|intros _; split; assumption].
    pose proof (is_quote_ascii _ Hq1) as L1. pose proof (is_quote_ascii _ Hq2) as L2.
    set (P1 := pre ++ open_delim block ++ a').
    set (M := q1 :: cap ++ [q2]).
    assert (Hs1 : src = P1 ++ (M ++ r' ++ tail)).
    { unfold src, P1, M. rewrite Ha, Ea, Er. cbn [app]. repeat rewrite <- app_assoc. cbn [app]. reflexivity. }
    assert (Hs2 : src = (P1 ++ M) ++ (r' ++ tail)).
    { rewrite Hs1. repeat rewrite <- app_assoc. reflexivity. }
    assert (Hne1 : P1 <> []).
    { unfold P1. intro E. apply app_eq_nil in E. destruct E as [_ E]. exact (open_delim_nonempty _ _ E). }
    assert (Hne2 : P1 ++ M <> []).
    { intro E. apply app_eq_nil in E. destruct E as [E _]. exact (Hne1 E). }
    assert (HbM : byte_len M = 1 + byte_len cap + 1).
    { unfold M. cbn [byte_len]. rewrite byte_len_app. cbn [byte_len]. lia. }
    assert (Hba : byte_len a = byte_len a' + 1).
    { rewrite Ea, byte_len_app. cbn [byte_len]. lia. }
    assert (Hb1 : byte_len pre + 2 + ms - 1 = byte_len P1).
    { unfold P1. rewrite !byte_len_app, Ho, Ems, Hba. lia. }
    assert (Hb2 : byte_len pre + 2 + me + 1 = byte_len (P1 ++ M)).
    { unfold P1. rewrite !byte_len_app, Ho, Eme, Hba, HbM. lia. }
    unfold r, comment_range. cbn [r_start r_end]. rewrite Hb1, Hb2.
    rewrite (roundtrip_at src P1 _ Hs1 Hne1), (roundtrip_at src (P1 ++ M) _ Hs2 Hne2).
    rewrite byte_len_app. rewrite Hs1 at 1. apply slice_app.
Qed.
