(* Extraction of the executable models. ExtrOcamlBasic only: bool, option,
   unit, list, prod, sumbool, sumor map to OCaml's; N/positive/nat stay the
   extracted inductives.  No Extract Constant. *)
From Coq Require Import ExtrOcamlBasic.
From DG Require Import Base.Util Base.Sexp Model.Graph Model.Walk Model.RunC15 Model.RunC02 Model.RunC14 Model.Packages Model.RunC07.
Extraction "model.ml" run_c15 run_c02 run_c14 run_c07.
