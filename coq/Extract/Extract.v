(* Extraction of the executable models. ExtrOcamlBasic only: bool, option,
   unit, list, prod, sumbool, sumor map to OCaml's; N/positive/nat stay the
   extracted inductives.  No Extract Constant. *)
From Coq Require Import ExtrOcamlBasic.
From DG Require Import Base.Util Base.Sexp Model.Graph Model.Walk Model.RunC15 Model.RunC02 Model.RunC14 Model.Prune Model.RunC17 Model.RunC18 Model.Builder Model.RunC01 Model.RunC19 Model.RunC05 Model.Version Model.RunC06 Model.Codec Model.RunC13 Model.Text Model.RunC20 Model.Packages Model.RunC07 Model.Symbols Model.RunC16 Model.TextPos Model.Pragma Model.RunC08 Model.Jsr Model.RunJsr Model.Decl Model.RunDecl Model.RunJsrAll Model.Lattice Model.FcClosure Model.RunC09 Model.FcDriver Model.RunC12 Model.FcSummary Model.FcTransform Model.RunC10 Model.RunC11.
Extraction "model.ml" run_c15 run_c02 run_c14 run_c17 run_c18 run_c01 run_c19 run_c05 run_c06 run_c13 run_c20 run_c07 run_c16 run_c08 run_jsr run_decl run_decl_any run_c01j run_c03 run_c04 run_c05j run_c07j run_c06j run_c13j run_c09 run_c12 run_c10 run_c11.
