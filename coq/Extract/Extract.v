(* Extraction of the executable models. ExtrOcamlBasic only: bool, option,
   unit, list, prod, sumbool, sumor map to OCaml's; N/positive/nat stay the
   extracted inductives.  No Extract Constant. *)
From Coq Require Import ExtrOcamlBasic.
From DG Require Import Base.Util Base.Sexp Model.Graph Model.Walk Model.RunC15 Model.RunC02 Model.RunC14 Model.Prune Model.RunC17 Model.RunC18 Model.Builder Model.RunC01 Model.Version Model.RunC06 Model.TextPos Model.Pragma Model.RunC08.
Extraction "model.ml" run_c15 run_c02 run_c14 run_c17 run_c18 run_c01 run_c06 run_c08.
