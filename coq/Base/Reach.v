(* Generic worklist exploration with a seen-set.

   [run] pops the head of the queue, and pushes every not-yet-seen successor
   of the popped element to the FRONT of the queue (marking it seen).  This is
   the discipline of deno_graph's ModuleEntryIterator; the theorems below do
   not depend on where successors are pushed, only on "seen before queued".

   Results:
     run_sound_complete : the popped elements are exactly the elements
                          reachable from the initial queue through [expand],
                          each popped exactly once;
     run_fuel_enough    : fuel >= |queue| + |universe \ seen| suffices.     *)
From DG Require Import Base.Util.

Lemma NoDup_app_iff : forall (a b : list N),
  NoDup (a ++ b) <-> NoDup a /\ NoDup b /\ (forall x, In x a -> ~ In x b).
Proof.
  induction a as [|y a IH]; intros b; cbn [app].
  - split; [intro H; repeat split; [constructor | exact H | intros x []] | intros [_ [H _]]; exact H].
  - split.
    + intro H; inversion H as [|? ? Hn Hd]; subst.
      apply IH in Hd; destruct Hd as [Ha [Hb Hab]].
      repeat split.
      * constructor; [intro Hin; apply Hn; apply in_or_app; left; exact Hin | exact Ha].
      * exact Hb.
      * intros x [Hx|Hx]; [subst; intro Hin; apply Hn; apply in_or_app; right; exact Hin | apply Hab; exact Hx].
    + intros [Ha [Hb Hab]]; inversion Ha as [|? ? Hn Hd]; subst.
      constructor.
      * intro Hin; apply in_app_or in Hin; destruct Hin as [Hin|Hin];
          [apply Hn; exact Hin | apply (Hab y); [left; reflexivity | exact Hin]].
      * apply IH; repeat split; [exact Hd | exact Hb | intros x Hx; apply Hab; right; exact Hx].
Qed.

Section Reach.
Variable expand : N -> list N.

Fixpoint push_all (xs seen queue : list N) : list N * list N :=
  match xs with
  | [] => (seen, queue)
  | x :: xs' =>
      if mem x seen then push_all xs' seen queue
      else push_all xs' (x :: seen) (x :: queue)
  end.

(* returns the popped elements (most recent first) and the final seen set *)
Fixpoint run (fuel : nat) (seen queue out : list N) : option (list N * list N) :=
  match queue with
  | [] => Some (out, seen)
  | x :: q =>
      match fuel with
      | O => None
      | S f =>
          let '(seen', q') := push_all (expand x) seen q in
          run f seen' q' (x :: out)
      end
  end.

Inductive Reachable (roots : list N) : N -> Prop :=
| R_root : forall x, In x roots -> Reachable roots x
| R_step : forall x y, Reachable roots x -> In y (expand x) -> Reachable roots y.

Lemma push_all_spec : forall xs seen queue seen' queue',
  push_all xs seen queue = (seen', queue') ->
  exists new,
    queue' = new ++ queue /\ NoDup new /\
    (forall x, In x new <-> In x xs /\ ~ In x seen) /\
    (forall x, In x seen' <-> In x seen \/ In x xs).
Proof.
  induction xs as [|y xs IH]; intros seen queue seen' queue' H; cbn [push_all] in H.
  - inversion H; subst. exists [].
    split; [reflexivity|]. split; [constructor|]. split.
    + intro x; cbn [In]; tauto.
    + intro x; cbn [In]; tauto.
  - destruct (mem y seen) eqn:E.
    + apply IH in H. destruct H as [new [Hq [Hnd [Hnew Hseen]]]].
      apply mem_In in E.
      exists new.
      split; [exact Hq|]. split; [exact Hnd|]. split.
      * intro x. rewrite Hnew. cbn [In]. split.
        -- tauto.
        -- intros [[Hx|Hx] Hn]; [subst; contradiction | tauto].
      * intro x. rewrite Hseen. cbn [In]. split.
        -- tauto.
        -- intros [Hx|[Hx|Hx]]; [tauto | subst; tauto | tauto].
    + apply IH in H. destruct H as [new [Hq [Hnd [Hnew Hseen]]]].
      apply mem_false_In in E.
      exists (new ++ [y]).
      split; [rewrite Hq; rewrite <- app_assoc; reflexivity|].
      split.
      { apply NoDup_app_iff. split; [exact Hnd|]. split; [constructor; [intros []|constructor]|].
        intros x Hx [Hy|[]]. subst. apply Hnew in Hx. destruct Hx as [_ Hn]. apply Hn. left; reflexivity. }
      split.
      * intro x. rewrite in_app_iff. rewrite Hnew. cbn [In]. split.
        -- intros [[Hx Hn]|[Hx|[]]].
           ++ split; [right; exact Hx | intro Hs; apply Hn; right; exact Hs].
           ++ subst. split; [left; reflexivity | exact E].
        -- intros [[Hx|Hx] Hn].
           ++ right; left; exact Hx.
           ++ destruct (N.eq_dec x y) as [->|Hne]; [right; left; reflexivity|].
              left. split; [exact Hx|]. intros [Hs|Hs]; [congruence | contradiction].
      * intro x. rewrite Hseen. cbn [In]. tauto.
Qed.

Record Inv (roots seen queue out : list N) : Prop := {
  inv_seen   : forall x, In x seen <-> In x queue \/ In x out;
  inv_nodup  : NoDup (queue ++ out);
  inv_closed : forall x, In x out -> forall y, In y (expand x) -> In y seen;
  inv_reach  : forall x, In x seen -> Reachable roots x;
  inv_roots  : forall x, In x roots -> In x seen
}.

Lemma In_dec_N : forall (x : N) l, In x l \/ ~ In x l.
Proof.
  intros x l. destruct (mem x l) eqn:E; [left; apply mem_In; exact E | right; apply mem_false_In; exact E].
Qed.

Lemma step_inv : forall roots seen x q out seen' q',
  Inv roots seen (x :: q) out ->
  push_all (expand x) seen q = (seen', q') ->
  Inv roots seen' q' (x :: out).
Proof.
  intros roots seen x q out seen' q' HI HP.
  destruct HI as [Hseen Hnd Hcl Hre Hro].
  apply push_all_spec in HP. destruct HP as [new [Hq [Hndn [Hnew Hs']]]].
  subst q'.
  constructor.
  - intro z. rewrite Hs'. rewrite Hseen. cbn [In]. rewrite in_app_iff.
    split.
    + intros [[[Hz|Hz]|Hz]|Hz]; try tauto.
      destruct (In_dec_N z seen) as [Hin|Hnin].
      * apply Hseen in Hin. cbn [In] in Hin. tauto.
      * left; left. apply Hnew. tauto.
    + intros [[Hz|Hz]|[Hz|Hz]]; try tauto.
      apply Hnew in Hz. tauto.
  - cbn [app] in Hnd. inversion Hnd as [|? ? Hxn Hnd']; subst.
    apply NoDup_app_iff in Hnd'. destruct Hnd' as [Hq [Ho Hqo]].
    rewrite <- app_assoc. apply NoDup_app_iff. repeat split.
    + exact Hndn.
    + apply NoDup_app_iff. repeat split.
      * exact Hq.
      * constructor; [intro Hin; apply Hxn; apply in_or_app; right; exact Hin | exact Ho].
      * intros z Hz [Hzx|Hzo]; [subst; apply Hxn; apply in_or_app; left; exact Hz | apply (Hqo z Hz Hzo)].
    + intros z Hz Hin. apply Hnew in Hz. destruct Hz as [_ Hn]. apply Hn.
      apply Hseen. cbn [In]. apply in_app_or in Hin. cbn [In] in Hin. tauto.
  - intros z [Hz|Hz] y Hy; apply Hs'.
    + subst. right; exact Hy.
    + left. apply (Hcl z Hz y Hy).
  - intros z Hz. apply Hs' in Hz. destruct Hz as [Hz|Hz].
    + apply Hre; exact Hz.
    + apply R_step with (x := x); [apply Hre; apply Hseen; left; left; reflexivity | exact Hz].
  - intros z Hz. apply Hs'. left. apply Hro; exact Hz.
Qed.

Lemma run_inv : forall fuel roots seen queue out out' seen',
  Inv roots seen queue out ->
  run fuel seen queue out = Some (out', seen') ->
  Inv roots seen' [] out'.
Proof.
  induction fuel as [|f IH]; intros roots seen queue out out' seen' HI HR.
  - destruct queue; cbn [run] in HR; [inversion HR; subst; exact HI | discriminate].
  - destruct queue as [|x q]; cbn [run] in HR; [inversion HR; subst; exact HI|].
    destruct (push_all (expand x) seen q) as [s1 q1] eqn:HP.
    eapply IH; [|exact HR]. eapply step_inv; eassumption.
Qed.

Lemma final_inv_complete : forall roots seen out,
  Inv roots seen [] out -> forall x, Reachable roots x -> In x out.
Proof.
  intros roots seen out [Hseen _ Hcl _ Hro] x HR.
  induction HR as [x Hx | x y _ IH Hy].
  - apply Hro in Hx. apply Hseen in Hx. destruct Hx as [[]|Hx]; exact Hx.
  - specialize (Hcl x IH y Hy). apply Hseen in Hcl. destruct Hcl as [[]|H]; exact H.
Qed.

Theorem run_sound_complete : forall fuel roots seen queue out out' seen',
  Inv roots seen queue out ->
  run fuel seen queue out = Some (out', seen') ->
  NoDup out' /\ (forall x, In x out' <-> Reachable roots x).
Proof.
  intros fuel roots seen queue out out' seen' HI HR.
  pose proof (run_inv _ _ _ _ _ _ _ HI HR) as HF.
  split.
  - destruct HF as [_ Hnd _ _ _]. exact Hnd.
  - intro x. split.
    + intro Hx. destruct HF as [Hseen _ _ Hre _]. apply Hre. apply Hseen. right; exact Hx.
    + apply final_inv_complete with (seen := seen'). exact HF.
Qed.

(* The initial state used by all instances: queue = roots (no duplicates),
   seen = roots, nothing popped yet. *)
Lemma init_inv : forall roots, NoDup roots -> Inv roots roots roots [].
Proof.
  intros roots Hnd. constructor.
  - intro x. cbn [In]. tauto.
  - rewrite app_nil_r. exact Hnd.
  - intros x [].
  - intros x Hx. apply R_root; exact Hx.
  - intros x Hx; exact Hx.
Qed.

(* Pushing further start points (e.g. configured imports) in front of the
   roots keeps the invariant, with the root set enlarged. *)
Lemma push_init_inv : forall roots extra seen' queue',
  NoDup roots ->
  push_all extra roots roots = (seen', queue') ->
  Inv (roots ++ extra) seen' queue' [].
Proof.
  intros roots extra seen' queue' Hnd HP.
  apply push_all_spec in HP. destruct HP as [new [Hq [Hndn [Hnew Hs']]]]. subst queue'.
  constructor.
  - intro x. rewrite Hs'. rewrite in_app_iff. cbn [In]. split.
    + intros [Hx|Hx]; [tauto|].
      destruct (In_dec_N x roots) as [Hin|Hnin]; [tauto|]. left; left. apply Hnew; tauto.
    + intros [[Hx|Hx]|[]]; [apply Hnew in Hx; tauto | tauto].
  - rewrite app_nil_r. apply NoDup_app_iff. repeat split; [exact Hndn | exact Hnd |].
    intros x Hx. apply Hnew in Hx. tauto.
  - intros x [].
  - intros x Hx. apply R_root. apply Hs' in Hx. apply in_or_app. exact Hx.
  - intros x Hx. apply Hs'. apply in_app_or in Hx. exact Hx.
Qed.

(* ---------------- fuel ---------------- *)

Definition unseen (U seen : list N) : nat :=
  length (filter (fun u => negb (mem u seen)) (dedup U)).

Lemma filter_cons_seen : forall (l seen : list N) y,
  NoDup l -> ~ In y seen -> In y l ->
  S (length (filter (fun u => negb (mem u (y :: seen))) l))
  = length (filter (fun u => negb (mem u seen)) l).
Proof.
  induction l as [|a l IH]; intros seen y Hnd Hns Hin; [destruct Hin|].
  inversion Hnd as [|? ? Han Hnd']; subst.
  cbn [filter]. unfold mem at 1 3. cbn [existsb]. fold (mem a seen).
  destruct (N.eqb a y) eqn:E.
  - apply N.eqb_eq in E. subst a. cbn [orb negb].
    apply mem_false_In in Hns. rewrite Hns. cbn [negb length]. f_equal.
    (* y not in l: both filters agree *)
    clear IH Hin Hnd. induction l as [|b l IHl]; [reflexivity|].
    cbn [filter]. unfold mem at 1 3. cbn [existsb]. fold (mem b seen).
    assert (Hb : N.eqb b y = false).
    { apply N.eqb_neq. intro; subst. apply Han. left; reflexivity. }
    rewrite Hb. cbn [orb].
    inversion Hnd' as [|? ? Hbn Hnd'']; subst.
    destruct (negb (mem b seen)); cbn [length]; [f_equal|]; apply IHl;
      try assumption; intro H; apply Han; right; exact H.
  - cbn [orb]. destruct Hin as [Hin|Hin]; [subst; rewrite N.eqb_refl in E; discriminate|].
    destruct (negb (mem a seen)); cbn [length]; [f_equal|]; apply IH; assumption.
Qed.

Lemma filter_cons_seen_notin : forall (l seen : list N) y,
  ~ In y l ->
  length (filter (fun u => negb (mem u (y :: seen))) l)
  = length (filter (fun u => negb (mem u seen)) l).
Proof.
  induction l as [|a l IH]; intros seen y Hn; [reflexivity|].
  cbn [filter]. unfold mem at 1 3. cbn [existsb]. fold (mem a seen).
  assert (Ha : N.eqb a y = false).
  { apply N.eqb_neq. intro; subst. apply Hn. left; reflexivity. }
  rewrite Ha. cbn [orb].
  destruct (negb (mem a seen)); cbn [length]; [f_equal|]; apply IH; intro H; apply Hn; right; exact H.
Qed.

Lemma push_all_measure : forall U xs seen queue seen' queue',
  (forall y, In y xs -> In y U) ->
  push_all xs seen queue = (seen', queue') ->
  (length queue' + unseen U seen' = length queue + unseen U seen)%nat.
Proof.
  intros U. induction xs as [|y xs IH]; intros seen queue seen' queue' HU HP; cbn [push_all] in HP.
  - inversion HP; subst; reflexivity.
  - destruct (mem y seen) eqn:E.
    + apply IH in HP; [exact HP | intros z Hz; apply HU; right; exact Hz].
    + apply IH in HP; [|intros z Hz; apply HU; right; exact Hz].
      rewrite HP. cbn [length]. unfold unseen.
      rewrite <- (filter_cons_seen (dedup U) seen y).
      * lia.
      * apply dedup_NoDup.
      * apply mem_false_In; exact E.
      * apply dedup_In. apply HU. left; reflexivity.
Qed.

Theorem run_fuel_enough : forall U,
  (forall x y, In y (expand x) -> In y U) ->
  forall fuel seen queue out,
  (length queue + unseen U seen <= fuel)%nat ->
  run fuel seen queue out <> None.
Proof.
  intros U HU. induction fuel as [|f IH]; intros seen queue out Hle.
  - destruct queue; cbn [run]; [discriminate | cbn [length] in Hle; lia].
  - destruct queue as [|x q]; cbn [run]; [discriminate|].
    destruct (push_all (expand x) seen q) as [s1 q1] eqn:HP.
    apply IH.
    pose proof (push_all_measure U (expand x) seen q s1 q1 (HU x) HP) as HM.
    cbn [length] in Hle. lia.
Qed.

End Reach.
