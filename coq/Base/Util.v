(* Base utilities: association lists and membership on N keys. Stdlib only. *)
From Coq Require Export List NArith Bool Lia.
Export ListNotations.
Open Scope N_scope.

Arguments N.add : simpl never.
Arguments N.sub : simpl never.
Arguments N.mul : simpl never.
Arguments N.eqb : simpl never.
Arguments N.ltb : simpl never.
Arguments N.leb : simpl never.

Definition mem (x : N) (l : list N) : bool := existsb (N.eqb x) l.

Fixpoint lookup {V : Type} (k : N) (l : list (N * V)) : option V :=
  match l with
  | [] => None
  | (k', v) :: l' => if N.eqb k k' then Some v else lookup k l'
  end.

Definition has_key {V : Type} (k : N) (l : list (N * V)) : bool :=
  match lookup k l with Some _ => true | None => false end.

Fixpoint dedup (l : list N) : list N :=
  match l with
  | [] => []
  | x :: l' => if mem x l' then dedup l' else x :: dedup l'
  end.

(* first occurrences, in order (IndexSet collection) *)
Fixpoint dedup_keep_first_aux (seen l : list N) : list N :=
  match l with
  | [] => []
  | x :: l' => if mem x seen then dedup_keep_first_aux seen l' else x :: dedup_keep_first_aux (x :: seen) l'
  end.
Definition dedup_keep_first (l : list N) : list N := dedup_keep_first_aux [] l.

Definition option_bind {A B : Type} (o : option A) (f : A -> option B) : option B :=
  match o with Some a => f a | None => None end.

Fixpoint map_opt {A B : Type} (f : A -> option B) (l : list A) : option (list B) :=
  match l with
  | [] => Some []
  | a :: l' =>
      match f a with
      | None => None
      | Some b => match map_opt f l' with None => None | Some bs => Some (b :: bs) end
      end
  end.

(* insertion sort on N, used only to canonicalise observations *)
Fixpoint insert_sorted (x : N) (l : list N) : list N :=
  match l with
  | [] => [x]
  | y :: l' => if N.leb x y then x :: l else y :: insert_sorted x l'
  end.
Definition sort_n (l : list N) : list N := fold_right insert_sorted [] l.

Lemma mem_In : forall x l, mem x l = true <-> In x l.
Proof.
  intros x l; unfold mem; rewrite existsb_exists; split.
  - intros [y [Hy He]]; apply N.eqb_eq in He; subst; exact Hy.
  - intros H; exists x; split; [exact H | apply N.eqb_refl].
Qed.

Lemma mem_false_In : forall x l, mem x l = false <-> ~ In x l.
Proof.
  intros x l; rewrite <- mem_In; destruct (mem x l); split; intro H;
    try reflexivity; try discriminate; try (intro H'; discriminate);
    exfalso; apply H; reflexivity.
Qed.

Lemma lookup_In : forall {V} k (l : list (N * V)) v, lookup k l = Some v -> In (k, v) l.
Proof.
  intros V k l; induction l as [|[k' v'] l IH]; cbn [lookup]; intros v H; [discriminate|].
  destruct (N.eqb k k') eqn:E.
  - apply N.eqb_eq in E; subst; inversion H; subst; left; reflexivity.
  - right; apply IH; exact H.
Qed.

Lemma dedup_In : forall x l, In x (dedup l) <-> In x l.
Proof.
  intros x l; induction l as [|y l IH]; cbn [dedup]; [tauto|].
  destruct (mem y l) eqn:E.
  - rewrite IH; split; [intro H; right; exact H|].
    intros [H|H]; [subst; apply mem_In; exact E | exact H].
  - cbn [In]; rewrite IH; tauto.
Qed.

Lemma dedup_NoDup : forall l, NoDup (dedup l).
Proof.
  induction l as [|y l IH]; cbn [dedup]; [constructor|].
  destruct (mem y l) eqn:E; [exact IH|].
  constructor; [|exact IH].
  rewrite dedup_In; apply mem_false_In; exact E.
Qed.

Lemma dedup_keep_first_aux_In : forall l seen x,
  In x l -> In x seen \/ In x (dedup_keep_first_aux seen l).
Proof.
  induction l as [|y l IH]; intros seen x H; [destruct H|]. cbn [dedup_keep_first_aux].
  destruct (mem y seen) eqn:E.
  - destruct H as [->|H]; [left; apply mem_In; exact E | apply IH; exact H].
  - destruct H as [->|H]; [right; left; reflexivity|].
    destruct (IH (y :: seen) x H) as [[->|Hs]|Hd]; [right; left; reflexivity | left; exact Hs | right; right; exact Hd].
Qed.

Lemma dedup_keep_first_In : forall l x, In x l -> In x (dedup_keep_first l).
Proof.
  intros l x H. unfold dedup_keep_first. destruct (dedup_keep_first_aux_In l [] x H) as [[]|H']. exact H'.
Qed.
