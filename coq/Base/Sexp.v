(* S-expressions over N atoms: the wire format between the Rust harness,
   the extracted model (OCaml) and in-Coq evaluation.  Decoders are ordinary
   total Gallina functions (option monad), so they are extracted with the
   model and no per-property OCaml glue exists. *)
From DG Require Import Base.Util.

Inductive sexp : Type :=
| A (n : N)
| L (l : list sexp).

Definition as_atom (s : sexp) : option N := match s with A n => Some n | L _ => None end.
Definition as_list (s : sexp) : option (list sexp) := match s with L l => Some l | A _ => None end.
Definition as_bool (s : sexp) : option bool :=
  match s with A n => Some (negb (N.eqb n 0)) | L _ => None end.
Definition of_bool (b : bool) : sexp := A (if b then 1 else 0).

Definition as_atoms (s : sexp) : option (list N) :=
  option_bind (as_list s) (map_opt as_atom).
Definition of_atoms (l : list N) : sexp := L (map A l).

Definition as_option {T} (f : sexp -> option T) (s : sexp) : option (option T) :=
  match s with
  | L [] => Some None
  | L [x] => option_bind (f x) (fun v => Some (Some v))
  | _ => None
  end.
Definition of_option {T} (f : T -> sexp) (o : option T) : sexp :=
  match o with None => L [] | Some v => L [f v] end.

Definition as_pair {X Y} (f : sexp -> option X) (g : sexp -> option Y) (s : sexp) : option (X * Y) :=
  match s with
  | L [x; y] => option_bind (f x) (fun a => option_bind (g y) (fun b => Some (a, b)))
  | _ => None
  end.

Definition as_list_of {T} (f : sexp -> option T) (s : sexp) : option (list T) :=
  option_bind (as_list s) (map_opt f).

Notation "'do' x <- e ; k" := (option_bind e (fun x => k))
  (at level 200, x pattern, e at level 100, k at level 200, right associativity).

(* error marker printed by run_* functions when decoding fails *)
Definition decode_error : sexp := L [A 999999; A 999999; A 999999].

(* A judgement flag: the model's verdict on the implementation's observation.
   The comparator first compares everything else (model vs implementation);
   only a difference confined to judgement flags can be a known finding. *)
Definition JUDGETAG : N := 666666.
Definition judge (b : bool) : sexp := L [A JUDGETAG; of_bool b].
