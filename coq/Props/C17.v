(* C17 — pruning types from a full graph gives the code-only graph.
   Property theorems only; proofs in Proofs/PruneProofs.v.

   Two layers.  Graph level (this file, complete for the model, for ANY graph):
   prune_types terminates, keeps exactly the entries and redirects whose key is
   code-reachable from the roots, leaves the code view (module kind, media
   type, code edges with targets/errors and dynamic flags, error kinds) of every
   kept entry unchanged, removes everything type-related and reports itself
   code-only with no configured imports.
   Build level ("equal to the graph BUILT code-only"): decided on every run on
   the real code by the relational check (prune(build All) vs build CodeOnly
   judged by the extracted obs_code_eqb); the theorem over the builder model is
   C01's closure theorem instantiated twice and is listed as partial until
   Model/Builder.v covers it.  Known findings F-C17a/b are refutations of the
   build-level equality on the real code. *)
From DG Require Import Base.Util Base.Sexp Base.Reach Model.Graph Model.Walk Model.RunC15 Model.RunC02
  Model.RunC14 Model.Prune Model.RunC17 Proofs.PruneProofs.

Theorem C17_terminates : forall g, prune g <> None.
Proof. exact prune_terminates. Qed.
Print Assumptions C17_terminates.

(* CodeReach g s: s is reachable from the roots through redirects and the code
   targets (static or dynamic) of the dependencies of Js/Wasm modules. *)
Theorem C17_entries : forall g g',
  include_types (g_kind g) = true -> prune g = Some g' ->
  (forall s sl', In (s, sl') (g_slots g') <->
     exists sl, In (s, sl) (g_slots g) /\ CodeReach g s /\ sl' = prune_slot g s sl) /\
  (forall a b, In (a, b) (g_redirects g') <-> In (a, b) (g_redirects g) /\ CodeReach g a) /\
  g_kind g' = KCodeOnly /\ g_imports g' = [] /\ g_roots g' = g_roots g.
Proof. exact prune_entries. Qed.
Print Assumptions C17_entries.

Theorem C17_code_view_unchanged : forall g g' s sl,
  g_errkinds g' = g_errkinds g -> slot_code_eqb g g' sl (prune_slot g s sl) = true.
Proof. exact prune_code_view. Qed.
Print Assumptions C17_code_view_unchanged.

Theorem C17_no_types_left : forall g g',
  include_types (g_kind g) = true -> prune g = Some g' ->
  NoEntryAtRedirect g -> PlainOthers g -> no_types_left g' = true.
Proof. exact prune_no_types_left. Qed.
Print Assumptions C17_no_types_left.

(* a graph that is already code-only is returned unchanged *)
Theorem C17_code_only_noop : forall g, include_types (g_kind g) = false -> prune g = Some g.
Proof. intros g H. unfold prune. rewrite H. reflexivity. Qed.
Print Assumptions C17_code_only_noop.

(* Non-vacuity: root 1 imports 2 (code) and 3 (type only); 3 is dropped, 2 kept, types cleared. *)
Definition c17_dep (t : N) (c ty : res) : dep :=
  {| d_text := t; d_filelike := false; d_code := c; d_type := ty; d_dyn := false; d_deno_types := false; d_attr := 0 |}.
Definition c17_mod (s : spec) (ds : list dep) : slot :=
  SMod {| m_kind := MkJs; m_spec := s; m_media := MTypeScript; m_deps := ds; m_types_dep := None;
          m_fc_deps := None; m_dts := false |}.
Definition c17_graph : graph :=
  {| g_kind := KAll; g_roots := [1];
     g_slots := [(1, c17_mod 1 [c17_dep 10 (ROk 2 0) RNone; c17_dep 11 RNone (ROk 3 0)]);
                 (2, c17_mod 2 []); (3, c17_mod 3 [])];
     g_redirects := []; g_imports := [(9, [c17_dep 12 RNone (ROk 3 0)])]; g_schemes := [];
     g_has_node := false; g_errkinds := [] |}.
Example C17_nonvacuous :
  option_map (fun g' => (map fst (g_slots g'), no_types_left g')) (prune c17_graph) = Some ([1; 2], true).
Proof. vm_compute. reflexivity. Qed.
