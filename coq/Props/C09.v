(* C09 - fast-check output parses and is closed under reference.

   What is proved here (all inputs, no bounds):

   L. the export-subset LATTICE of the public-range tracer (Model/Lattice.v,
      a transcription of src/fast_check/range_finder.rs:41-278).  den(x) is the
      set of qualified export paths x covers (in_n / in_e / in_i).  For
      NamedSubset::extend, Exports::extend and ImportedExports::add:
        sound    : nothing traced or requested is lost,
        covers   : everything requested and not yet traced is in the returned
                   difference (an under-approximated difference would be an
                   untraced export, i.e. a dangling reference in some output),
        no_more  : the difference contains nothing that was not requested,
        progress : a difference that denotes anything strictly grows a bounded measure.
      The IndexMap invariant (unique keys at every level) is wf_n / wf_e / wf_i and is
      preserved by every operation.
      Two of DESIGN's laws are FALSE of the faithful model in one narrow class
      (a `default` entry that is a proper subset meets Star): the new state is then
      StarWithDefault, an OVER-approximation (L_add_exact_refuted,
      L_add_no_more_refuted; confirmed on the real code through the hook by the exhaustive
      enumeration, where model and code agree).  Over-approximation cannot lose a
      reference; the laws are proved exactly outside that class.

   P. the PER-OUTPUT judge: closedb = true <-> Closed (C09_closedb_correct), run on
      the facts of every real emitted module (corpus + generated), and the
      characterisation of the known class F-C09a.

   Not proved: that the tracer + transform always produce closed outputs (no model of
   resolve_deps_with_namespace / the SWC transform); clause 5 (source maps) is about
   SWC's emitter: checked per output, not proved. *)
From DG Require Import Base.Util Base.Reach Model.Lattice Model.FcClosure Model.RunC09
  Proofs.LatticeProofs Proofs.FcClosureProofs.

(* ================= NamedSubset::extend ================= *)
Theorem L_extend_wf : forall cur new cur' d,
  wf_n cur = true -> wf_n new = true -> n_extend cur new = (cur', d) ->
  wf_n cur' = true /\ wf_n d = true.
Proof. exact n_extend_wf. Qed.
Print Assumptions L_extend_wf.

Theorem L_extend_sound : forall cur new cur' d,
  wf_n cur = true -> wf_n new = true -> n_extend cur new = (cur', d) ->
  forall p, in_n cur' p = in_n cur p || in_n new p.
Proof. exact n_extend_sound. Qed.
Print Assumptions L_extend_sound.

Theorem L_extend_covers : forall cur new cur' d,
  wf_n cur = true -> wf_n new = true -> n_extend cur new = (cur', d) ->
  forall p, in_n new p = true -> in_n cur p = false -> in_n d p = true.
Proof. exact n_extend_covers. Qed.
Print Assumptions L_extend_covers.

Theorem L_extend_no_more : forall cur new cur' d,
  wf_n cur = true -> wf_n new = true -> n_extend cur new = (cur', d) ->
  forall p, in_n d p = true -> in_n new p = true.
Proof. exact n_extend_no_more. Qed.
Print Assumptions L_extend_no_more.

Theorem L_extend_strict : forall cur new cur' d,
  wf_n cur = true -> wf_n new = true -> n_extend cur new = (cur', d) ->
  forall p, in_n d p = true ->
  exists p', prefix p' p /\ in_n cur' p' = true /\ in_n cur p' = false.
Proof. exact n_extend_strict. Qed.
Print Assumptions L_extend_strict.

(* ================= Exports::extend ================= *)
Theorem L_exports_extend_wf : forall cur new cur' d,
  wf_e cur = true -> wf_e new = true -> ext_e cur new = (cur', d) ->
  wf_e cur' = true /\ (forall x, d = Some x -> wf_e x = true).
Proof. exact e_extend_wf. Qed.
Print Assumptions L_exports_extend_wf.

Theorem L_exports_extend_sound : forall cur new cur' d,
  wf_e cur = true -> wf_e new = true -> ext_e cur new = (cur', d) ->
  forall q, in_e cur' q = in_e cur q || in_e new q.
Proof. exact e_extend_sound. Qed.
Print Assumptions L_exports_extend_sound.

Theorem L_exports_extend_covers : forall cur new cur' d,
  wf_e cur = true -> wf_e new = true -> ext_e cur new = (cur', d) ->
  forall q, in_e new q = true -> in_e cur q = false -> in_oe d q = true.
Proof. exact e_extend_covers. Qed.
Print Assumptions L_exports_extend_covers.

Theorem L_exports_extend_no_more : forall cur new cur' d,
  wf_e cur = true -> wf_e new = true -> ext_e cur new = (cur', d) ->
  forall q, in_oe d q = true -> in_e new q = true.
Proof. exact e_extend_no_more. Qed.
Print Assumptions L_exports_extend_no_more.

Theorem L_exports_extend_strict : forall cur new cur' d,
  wf_e cur = true -> wf_e new = true -> ext_e cur new = (cur', d) ->
  forall q, in_oe d q = true ->
  exists q', prefix q' q /\ in_e cur' q' = true /\ in_e cur q' = false.
Proof. exact e_extend_strict. Qed.
Print Assumptions L_exports_extend_strict.

(* ================= add / add_qualified / from_parts / add_named ================= *)
Theorem L_add_name_den : forall s k p, in_n (n_add s k) p = in_n s p || is_prefixb [k] p.
Proof. exact n_add_den. Qed.
Print Assumptions L_add_name_den.

Theorem L_add_qualified_den : forall q s k p,
  in_n (n_add_qualified s k q) p = in_n s p || is_prefixb (k :: q) p.
Proof. exact n_add_qualified_den. Qed.
Print Assumptions L_add_qualified_den.

Theorem L_from_parts_den : forall parts p, parts <> [] ->
  in_n (n_from_parts parts) p = is_prefixb parts p.
Proof. exact n_from_parts_den. Qed.
Print Assumptions L_from_parts_den.

Theorem L_add_named_den : forall s k x p, wf_n s = true -> wf_e x = true ->
  in_n (n_add_named s k x) p =
  in_n s p || match p with [] => false | k' :: r => N.eqb k' k && in_e x r end.
Proof. exact n_add_named_den. Qed.
Print Assumptions L_add_named_den.

Theorem L_ops_wf : forall s k q x, wf_n s = true -> wf_e x = true ->
  wf_n (n_add s k) = true /\ wf_n (n_add_qualified s k q) = true
  /\ wf_n (n_from_parts q) = true /\ wf_n (n_add_named s k x) = true.
Proof.
  exact (fun s k q x Hs Hx =>
    conj (n_add_wf s k Hs) (conj (n_add_qualified_wf q s k Hs)
      (conj (n_from_parts_wf q) (n_add_named_wf s k x Hs Hx)))).
Qed.
Print Assumptions L_ops_wf.

(* ================= ImportedExports::add ================= *)
Theorem L_add_wf : forall cur new cur' d,
  wf_i cur = true -> wf_i new = true -> i_add cur new = (cur', d) ->
  wf_i cur' = true /\ (forall x, d = Some x -> wf_i x = true).
Proof. exact i_add_wf. Qed.
Print Assumptions L_add_wf.

(* den cur U den new is included in den cur' *)
Theorem L_add_sound : forall cur new cur' d,
  wf_i cur = true -> wf_i new = true -> i_add cur new = (cur', d) ->
  forall p, in_i cur p || in_i new p = true -> in_i cur' p = true.
Proof. exact i_add_sound. Qed.
Print Assumptions L_add_sound.

(* den new \ den cur is included in den diff: the law that matters *)
Theorem L_add_covers : forall cur new cur' d,
  wf_i cur = true -> wf_i new = true -> i_add cur new = (cur', d) ->
  forall p, in_i new p = true -> in_i cur p = false -> in_oi d p = true.
Proof. exact i_add_covers. Qed.
Print Assumptions L_add_covers.

(* diff = None means nothing new *)
Theorem L_add_none : forall cur new cur',
  wf_i cur = true -> wf_i new = true -> i_add cur new = (cur', None) ->
  forall p, in_i new p = true -> in_i cur p = true.
Proof.
  exact (fun cur new cur' Hc Hn Hr => i_add_none cur new cur' None Hc Hn Hr eq_refl).
Qed.
Print Assumptions L_add_none.

(* the difference never leaves the new state *)
Theorem L_add_no_more_state : forall cur new cur' d,
  wf_i cur = true -> wf_i new = true -> i_add cur new = (cur', d) ->
  forall p, in_oi d p = true -> in_i cur' p = true.
Proof. exact i_add_no_more_state. Qed.
Print Assumptions L_add_no_more_state.

(* DESIGN's L_add_sound as an EQUALITY and L_add_no_more hold outside one class ... *)
Theorem L_add_exact_outside_class : forall cur new cur' d,
  wf_i cur = true -> wf_i new = true -> i_add cur new = (cur', d) ->
  over_class cur new = false ->
  forall p, in_i cur' p = in_i cur p || in_i new p.
Proof. exact i_add_exact. Qed.
Print Assumptions L_add_exact_outside_class.

Theorem L_add_no_more_outside_class : forall cur new cur' d,
  wf_i cur = true -> wf_i new = true -> i_add cur new = (cur', d) ->
  over_class cur new = false ->
  forall p, in_oi d p = true -> in_i new p = true.
Proof. exact i_add_no_more. Qed.
Print Assumptions L_add_no_more_outside_class.

(* ... and are false inside it: Star + {default: {a}} becomes StarWithDefault and reports
   {default: All}, although neither side covers the path [default] (over-approximation;
   harmless for closure, it only traces more) *)
Definition qdef_new : imported := ISub (NCons DEFAULT (ESub (NCons 1 EAll NNil)) NNil).

Theorem L_add_exact_refuted :
  exists cur new p, wf_i cur = true /\ wf_i new = true /\ over_class cur new = true /\
    in_i (fst (i_add cur new)) p = true /\ in_i cur p || in_i new p = false.
Proof. exists IStar, qdef_new, [DEFAULT]. vm_compute. repeat split; reflexivity. Qed.
Print Assumptions L_add_exact_refuted.

Theorem L_add_no_more_refuted :
  exists cur new p, wf_i cur = true /\ wf_i new = true /\ over_class cur new = true /\
    in_oi (snd (i_add cur new)) p = true /\ in_i cur p || in_i new p = false.
Proof. exists IStar, qdef_new, [DEFAULT]. vm_compute. repeat split; reflexivity. Qed.
Print Assumptions L_add_no_more_refuted.

(* the mirrored case: {default: {a}} + Star becomes StarWithDefault *)
Theorem L_add_exact_refuted_mirror :
  exists cur new p, wf_i cur = true /\ wf_i new = true /\ over_class cur new = true /\
    in_i (fst (i_add cur new)) p = true /\ in_i cur p || in_i new p = false.
Proof. exists qdef_new, IStar, [DEFAULT]. vm_compute. repeat split; reflexivity. Qed.
Print Assumptions L_add_exact_refuted_mirror.

(* ================= worklist termination measure ================= *)
(* For a finite, prefix-closed universe U of export paths: whenever add reports a
   difference that denotes some path of U, the measure of the traced state strictly
   grows; the measure is bounded by 3|U| + 2.  So only finitely many denoting
   differences can ever be queued for one specifier. *)
Theorem L_terminates : forall U cur new cur' d p,
  wf_i cur = true -> wf_i new = true ->
  i_add cur new = (cur', Some d) ->
  prefix_closed U -> In p U -> in_i d p = true ->
  (measure_i U cur < measure_i U cur')%nat.
Proof. exact measure_grows. Qed.
Print Assumptions L_terminates.

Theorem L_measure_bounded : forall U i, (measure_i U i <= 3 * length U + 2)%nat.
Proof. exact measure_bound. Qed.
Print Assumptions L_measure_bounded.

Theorem L_add_progress : forall cur new cur' d,
  wf_i cur = true -> wf_i new = true -> i_add cur new = (cur', d) ->
  forall p, in_oi d p = true ->
  (rank_i cur < rank_i cur')%nat
  \/ (rank_i cur = rank_i cur'
      /\ exists p', prefix p' p /\ in_i cur' p' = true /\ in_i cur p' = false).
Proof. exact i_add_progress. Qed.
Print Assumptions L_add_progress.

(* HandledExports::add is ImportedExports::add on the entry of the specifier *)
Theorem L_handled_add : forall h spec t,
  (lookup spec h = None -> handled_add h spec t = (h ++ [(spec, t)], Some t))
  /\ (forall cur, lookup spec h = Some cur -> snd (handled_add h spec t) = snd (i_add cur t)).
Proof.
  exact (fun h spec t => conj (handled_add_new h spec t) (fun cur => handled_add_old h spec t cur)).
Qed.
Print Assumptions L_handled_add.

(* ================= per-output judge ================= *)
Theorem C09_closedb_correct : forall ms m, closedb ms m = true <-> Closed ms m.
Proof. exact closedb_correct. Qed.
Print Assumptions C09_closedb_correct.

Theorem C09_exportedb_correct : forall ms t x, exportedb ms t x = true <-> Exported ms t x.
Proof. exact exportedb_spec. Qed.
Print Assumptions C09_exportedb_correct.

(* known finding F-C09a: private members of ambient classes are kept verbatim but never
   traced.  The class is exactly "clause 2 fails, and only through identifiers that occur
   nowhere outside private class members" ... *)
Theorem C09_private_member_class : forall m,
  private_member_classb m = true <->
  mf_out m = true
  /\ (forall x, In x (mf_unres m) -> ~ In x (mf_top m))
  /\ (exists x, In x (mf_unres_priv m) /\ In x (mf_top m)).
Proof. exact private_member_class_spec. Qed.
Print Assumptions C09_private_member_class.

(* ... so a clause-2 failure outside the class exhibits a dangling identifier outside them *)
Theorem C09_dangling_outside_known_class : forall m,
  mf_out m = true -> c2b m = false -> private_member_classb m = false ->
  exists x, In x (mf_unres m) /\ In x (mf_top m).
Proof. exact c2_fails_outside_class. Qed.
Print Assumptions C09_dangling_outside_known_class.

(* The real output of tests/specs/graph/fast_check/class_ctors.txt, abstracted: the emitted
   `export declare class C { private constructor(prop: string, other: Private1); }` refers to
   `Private1`, a module-level class of the original that the output no longer declares
   (name ids: 1 = Private1, 2 = C). *)
Definition sm_empty : srcmap :=
  {| sm_decodes := true; sm_nsrc := 1; sm_out_lens := [0]; sm_orig_lens := [0]; sm_segs := [] |}.
Definition f_c09a : modfacts :=
  {| mf_id := 0; mf_out := true; mf_parse := true; mf_open := false; mf_own := [2]; mf_stars := [];
     mf_unres := []; mf_unres_priv := [1]; mf_top := [1; 2]; mf_imports := []; mf_rel := []; mf_sm := sm_empty |}.

Theorem C09_closed_ambient_private_refuted :
  private_member_classb f_c09a = true /\ ~ Closed [f_c09a] f_c09a.
Proof.
  split; [vm_compute; reflexivity|].
  intro H. apply closedb_correct in H. vm_compute in H. discriminate.
Qed.
Print Assumptions C09_closed_ambient_private_refuted.

(* ================= non-vacuity ================= *)
Definition ns_a_b1 : named := NCons 1 EAll (NCons 2 (ESub (NCons 11 EAll NNil)) NNil).
Definition ns_b : named :=
  NCons 1 (ESub (NCons 10 EAll NNil)) (NCons 3 EAll (NCons 2 (ESub (NCons 11 EAll (NCons 12 EAll NNil))) NNil)).

(* the crate's own unit test `named_subset_extend`, on the model *)
Example L_extend_example :
  n_extend ns_a_b1 ns_b =
    (NCons 1 EAll (NCons 2 (ESub (NCons 11 EAll (NCons 12 EAll NNil))) (NCons 3 EAll NNil)),
     NCons 3 EAll (NCons 2 (ESub (NCons 12 EAll NNil)) NNil)).
Proof. vm_compute. reflexivity. Qed.

Example L_add_examples :
  i_add IStar IStarDef = (IStarDef, Some (ISub default_only))
  /\ i_add (ISub (NCons DEFAULT EAll NNil)) IStar = (IStarDef, Some IStar)
  /\ i_add IStar (ISub (NCons 1 EAll NNil)) = (IStar, None)
  /\ n_from_parts [1; 2; 3] = NCons 1 (ESub (NCons 2 (ESub (NCons 3 EAll NNil)) NNil)) NNil.
Proof. repeat split; vm_compute; reflexivity. Qed.

(* two modules: m0 `export * from m1` and imports {7} from itself through the star; m1 exports 7 *)
Definition f_m1 : modfacts :=
  {| mf_id := 1; mf_out := true; mf_parse := true; mf_open := false; mf_own := [7]; mf_stars := [0];
     mf_unres := [5]; mf_unres_priv := []; mf_top := [7]; mf_imports := []; mf_rel := [true]; mf_sm := sm_empty |}.
Definition f_m0 : modfacts :=
  {| mf_id := 0; mf_out := true; mf_parse := true; mf_open := false; mf_own := []; mf_stars := [1];
     mf_unres := []; mf_unres_priv := []; mf_top := []; mf_imports := [(0, 7)]; mf_rel := [true]; mf_sm := sm_empty |}.
Example C09_closed_example :
  Closed [f_m0; f_m1] f_m0 /\ Closed [f_m0; f_m1] f_m1
  /\ exportedb [f_m0; f_m1] 0 DEFAULT = false.
Proof.
  split; [apply closedb_correct; vm_compute; reflexivity|].
  split; [apply closedb_correct; vm_compute; reflexivity|].
  vm_compute; reflexivity.
Qed.
