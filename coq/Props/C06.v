(* C06 — JSR requirements resolve to the specified version (selection-function level).
   Property theorems only; proofs in Proofs/VersionProofs.v, model in Model/Version.v.

   rank    : Version::cmp as a total preorder (data from the real crate)
   matches : VersionReq::matches for the requirement at hand (data)
   info    : the registry's version map in HashMap iteration order
   c       : the cutoff in force for this package (get_for_package)

   Graph-level statements (probe skipping, tag rejection, lockfile seeds, yanked
   bookkeeping) belong to the builder model and are not part of this file. *)
From Coq Require Import Arith Permutation.
From DG Require Import Base.Util Model.Version Proofs.VersionProofs.

(* the free function resolve_version: a highest date-admissible match of the
   sequence, else whether anything matched the requirement at all *)
Theorem C06_resolve_version : forall rank matches c l,
  match resolve_version rank matches c l with
  | RSome v => cand matches c l v /\ forall u, cand matches c l u -> rank u <= rank v
  | RNone had => (forall v, ~ cand matches c l v) /\ (had = true <-> anym matches l)
  end.
Proof. exact resolve_version_spec. Qed.
Print Assumptions C06_resolve_version.

(* full characterisation of the four tiers and of the error (see select_spec) *)
Theorem C06_select : forall rank matches info c existing cached,
  NoDup (versions info) ->
  select_spec rank matches info c existing cached (pkg_resolve rank matches info c existing cached).
Proof. exact pkg_resolve_spec. Qed.
Print Assumptions C06_select.

(* when Version::cmp separates the versions, the statement allows exactly one answer *)
Theorem C06_select_unique : forall rank matches info c existing cached r r',
  inj_on rank (versions info) -> inj_on rank existing ->
  select_spec rank matches info c existing cached r ->
  select_spec rank matches info c existing cached r' -> r = r'.
Proof. exact select_unique. Qed.
Print Assumptions C06_select_unique.

(* with no hypothesis on the ranks: two allowed answers are the same error, or two
   versions of Equal precedence from the same collection (same yanked flag if the
   same version) *)
Theorem C06_select_unique_up_to_rank : forall rank matches info c existing cached r r',
  select_spec rank matches info c existing cached r ->
  select_spec rank matches info c existing cached r' -> same_up_to_rank rank info existing r r'.
Proof. exact select_unique_up_to_rank. Qed.
Print Assumptions C06_select_unique_up_to_rank.

(* HashMap / iterator / HashSet order does not matter *)
Theorem C06_order_free : forall rank matches info info' c ex ex' ca ca',
  NoDup (versions info) -> NoDup (versions info') ->
  (forall e, In e info <-> In e info') ->
  (forall v, In v ex <-> In v ex') -> (forall v, In v ca <-> In v ca') ->
  inj_on rank (versions info) -> inj_on rank ex ->
  pkg_resolve rank matches info c ex ca = pkg_resolve rank matches info' c ex' ca'.
Proof. exact pkg_resolve_order_free. Qed.
Print Assumptions C06_order_free.

Theorem C06_order_free_perm : forall rank matches info info' c ex ex' ca ca',
  NoDup (versions info) ->
  Permutation info info' -> Permutation ex ex' -> Permutation ca ca' ->
  inj_on rank (versions info) -> inj_on rank ex ->
  pkg_resolve rank matches info c ex ca = pkg_resolve rank matches info' c ex' ca'.
Proof. exact pkg_resolve_perm. Qed.
Print Assumptions C06_order_free_perm.

(* the hypotheses of the two theorems above are decidable; the harness inputs
   of the well-formed streams satisfy them (flag printed by run_c06) *)
Theorem C06_wf_ranks_decided : forall rank l, distinct_ranksb rank l = true <-> inj_on rank l.
Proof. exact distinct_ranksb_inj. Qed.
Print Assumptions C06_wf_ranks_decided.

Theorem C06_wf_nodup_decided : forall l, nodupb l = true <-> NoDup l.
Proof. exact nodupb_NoDup. Qed.
Print Assumptions C06_wf_nodup_decided.

(* exclusions: exact name or name prefix switches the cutoff off, nothing else does *)
Theorem C06_get_for_package : forall o name,
  (excluded o name -> get_for_package o name = None) /\
  (~ excluded o name -> get_for_package o name = o_date o).
Proof. exact get_for_package_spec. Qed.
Print Assumptions C06_get_for_package.

Theorem C06_excluded : forall rank matches o name info existing cached,
  excluded o name ->
  jsr_resolve rank matches o name info existing cached = pkg_resolve rank matches info None existing cached.
Proof. exact excluded_no_cutoff. Qed.
Print Assumptions C06_excluded.

Theorem C06_not_excluded : forall rank matches o name info existing cached,
  ~ excluded o name ->
  jsr_resolve rank matches o name info existing cached = pkg_resolve rank matches info (o_date o) existing cached.
Proof. exact not_excluded_cutoff. Qed.
Print Assumptions C06_not_excluded.

Theorem C06_no_cutoff_no_date_filter : forall info v, date_ok None info v = true.
Proof. exact date_ok_none. Qed.
Print Assumptions C06_no_cutoff_no_date_filter.

(* the not-found error: nothing qualifies in any tier, and the error carries the
   date iff a matching registry version was excluded by it *)
Theorem C06_error_flag : forall rank matches info c existing cached f,
  NoDup (versions info) ->
  pkg_resolve rank matches info c existing cached = RErr f ->
  none (T1 matches) existing /\ none (T2 matches info c) (versions info) /\
  none (T3 matches info c) (versions info) /\
  forall d, f = Some d <->
            c = Some d /\ exists v, In v (versions info) /\ matches v = true /\ date_ok c info v = false.
Proof. exact error_flag. Qed.
Print Assumptions C06_error_flag.

(* interpretation recorded in DESIGN.md: the model follows the code's strict comparison *)
Theorem C06_cutoff_strict : forall y cutoff t,
  vinfo_matches_date {| vi_yanked := y; vi_created := Some t |} cutoff = true <-> t < cutoff.
Proof. exact cutoff_boundary. Qed.
Print Assumptions C06_cutoff_strict.

Theorem C06_no_creation_date_is_old : forall y cutoff,
  vinfo_matches_date {| vi_yanked := y; vi_created := None |} cutoff = true.
Proof. exact no_created_is_old. Qed.
Print Assumptions C06_no_creation_date_is_old.

(* the decision procedure that judges the implementation's answers *)
Theorem C06_spec_okb_correct : forall rank matches info c existing cached r,
  spec_okb rank matches info c existing cached r = true <->
  select_spec rank matches info c existing cached r.
Proof. exact spec_okb_correct. Qed.
Print Assumptions C06_spec_okb_correct.

(* ---------- refutation of order independence without distinct ranks (known finding F-C06a) ----------
   Version::cmp ignores build metadata while Eq/Hash do not: 1.0.0+a and 1.0.0+b
   are two keys of the registry HashMap with Equal precedence; the strict `is_lt`
   keeps whichever the (randomly seeded) HashMap yields first. *)
Definition two_builds : pkginfo :=
  [(1, {| vi_yanked := false; vi_created := None |}); (2, {| vi_yanked := false; vi_created := None |})].
Theorem C06_order_free_equal_rank_refuted :
  exists rank matches info info' c ex ca,
    NoDup (versions info) /\ Permutation info info' /\
    pkg_resolve rank matches info c ex ca <> pkg_resolve rank matches info' c ex ca.
Proof.
  exists (fun _ => 7), (fun _ => true), two_builds, (rev two_builds), None, [], [].
  split; [|split].
  - apply nodupb_NoDup; vm_compute; reflexivity.
  - apply Permutation_rev.
  - vm_compute; discriminate.
Qed.
Print Assumptions C06_order_free_equal_rank_refuted.

(* Non-vacuity: one registry in which every tier and the dated error occur, with
   the hypotheses of C06_select / C06_order_free satisfied.
   ids: 0=0.9.0 (yanked) 1=1.0.0 2=1.1.0 (created after the cutoff) 3=2.0.0 (yanked); rank = id *)
Definition ex_info : pkginfo :=
  [(2, {| vi_yanked := false; vi_created := Some 11 |});
   (0, {| vi_yanked := true;  vi_created := Some 1 |});
   (3, {| vi_yanked := true;  vi_created := None |});
   (1, {| vi_yanked := false; vi_created := Some 9 |})].
Definition ex_rank (v : ver) : N := v.
Definition caret1 (v : ver) : bool := N.eqb v 1 || N.eqb v 2.      (* ^1 *)
Definition any (v : ver) : bool := true.                           (* * *)
Definition lt1 (v : ver) : bool := N.eqb v 0.                      (* <1 *)
Definition eq110 (v : ver) : bool := N.eqb v 2.                    (* =1.1.0 *)
Example C06_nonvacuous :
  NoDup (versions ex_info) /\ inj_on ex_rank (versions ex_info) /\
  (* tier 1: the existing 1.0.0 wins although 1.1.0 is in the registry and no cutoff is set *)
  pkg_resolve ex_rank caret1 ex_info None [1; 0] [] = ROk 1 false /\
  (* tier 1.5: cached 1.0.0 is preferred to the newer 1.1.0 *)
  pkg_resolve ex_rank caret1 ex_info None [] [1] = ROk 1 false /\
  (* tier 2 without / with cutoff 10 (1.1.0 created at 11 is excluded; created at 10 would be too) *)
  pkg_resolve ex_rank caret1 ex_info None [] [] = ROk 2 false /\
  pkg_resolve ex_rank caret1 ex_info (Some 10) [] [] = ROk 1 false /\
  pkg_resolve ex_rank caret1 ex_info (Some 11) [] [] = ROk 1 false /\
  pkg_resolve ex_rank caret1 ex_info (Some 12) [] [] = ROk 2 false /\
  (* tier 2 beats a higher yanked version; tier 3 when only yanked versions match *)
  pkg_resolve ex_rank any ex_info None [] [] = ROk 2 false /\
  pkg_resolve ex_rank lt1 ex_info None [] [] = ROk 0 true /\
  (* error with and without the date sentence *)
  pkg_resolve ex_rank eq110 ex_info (Some 10) [] [] = RErr (Some 10) /\
  pkg_resolve ex_rank (fun _ => false) ex_info (Some 10) [] [] = RErr None /\
  (* exclusion by exact name and by prefix *)
  get_for_package {| o_date := Some 10; o_exclude := [[64; 97; 47; 98]]; o_exclude_prefixes := [] |} [64; 97; 47; 98] = None /\
  get_for_package {| o_date := Some 10; o_exclude := []; o_exclude_prefixes := [[64; 97; 47]] |} [64; 97; 47; 98] = None /\
  get_for_package {| o_date := Some 10; o_exclude := [[64; 97; 47]]; o_exclude_prefixes := [[97]] |} [64; 97; 47; 98] = Some 10.
Proof.
  split; [apply nodupb_NoDup; vm_compute; reflexivity|].
  split; [apply distinct_ranksb_inj; vm_compute; reflexivity|].
  repeat split; vm_compute; reflexivity.
Qed.

(* the judge is not vacuous either: it accepts the answer of the model and rejects
   a lower version, a wrong yanked flag, a missed tier and a wrong error flag *)
Example C06_judge_discriminates :
  spec_okb ex_rank caret1 ex_info None [] [] (ROk 2 false) = true /\
  spec_okb ex_rank caret1 ex_info None [] [] (ROk 1 false) = false /\
  spec_okb ex_rank caret1 ex_info None [] [] (ROk 2 true) = false /\
  spec_okb ex_rank caret1 ex_info None [1] [] (ROk 2 false) = false /\
  spec_okb ex_rank any ex_info None [] [] (ROk 3 true) = false /\
  spec_okb ex_rank eq110 ex_info (Some 10) [] [] (RErr (Some 10)) = true /\
  spec_okb ex_rank eq110 ex_info (Some 10) [] [] (RErr None) = false /\
  spec_okb ex_rank eq110 ex_info (Some 10) [] [] (ROk 2 false) = false.
Proof. repeat split; vm_compute; reflexivity. Qed.

(* ---------- graph level (registry stage of the builder model, Model/Jsr.v) ----------
   Lockfile-seeded selections (ModuleGraph::fill_from_lockfile) are honoured by every build,
   restarts included: the seeded versions stay selected, and every requirement is mapped either
   exactly as the lockfile wrote it or - once resolved - to a version that is not below any
   seeded version of its package that satisfies it ("the highest version already selected that
   satisfies it" can never be lower than a satisfying lockfile selection). Before the repair of
   F-C06b (Builder::restart dropped what the lockfile had filled in) this was false of the code and
   of the model. *)
From DG Require Base.Sexp Model.Jsr Model.RunJsr Proofs.JsrTable.

Theorem C06_registry_lockfile_respected : forall W o roots g,
  Jsr.jbuild W o roots = Some g ->
  (forall r p v, In (r, (p, v)) (Jsr.jw_seed W) -> In (p, v) (Jsr.pt_by_name (Jsr.jg_pkgs g))) /\
  (forall req p v, lookup req (Jsr.pt_map (Jsr.jg_pkgs g)) = Some (p, v) ->
     In (req, (p, v)) (Jsr.jw_seed W) \/
     forall s, In s (Jsr.seeded_versions W p) -> Jsr.matches W req s = true -> (s <= v)%N).
Proof.
  intros W o roots g H. exact (proj2 (proj2 (JsrTable.jbuild_table W o roots g H))).
Qed.
Print Assumptions C06_registry_lockfile_respected.

(* Every jsr: specifier the build resolved (it has a redirect) has its requirement mapped to a
   version that no lockfile-selected version of that package satisfying the requirement exceeds;
   and the judgement the registry stream evaluates on each case of the real builder
   (RunJsr.c06_judgement) is therefore always "true" on the model: a case on which the real
   builder's graph equals the model's and the flag differs cannot exist - a mismatch of the
   graphs is what a change of the code shows up as. *)
From DG Require Proofs.JsrSeed.

Theorem C06_registry_resolved_not_below_lockfile : forall W, Jsr.wf_jworld W = true -> forall o roots g,
  Jsr.jbuild W o roots = Some g ->
  forall s t p r e, lookup s (Jsr.jg_redirects g) = Some t -> Jsr.cls_of W s = Jsr.CJsr p r e ->
  exists p' v, lookup r (Jsr.pt_map (Jsr.jg_pkgs g)) = Some (p', v) /\
    forall x, In x (Jsr.seeded_versions W p') -> Jsr.matches W r x = true -> (x <= v)%N.
Proof. exact JsrSeed.jbuild_resolved_above_seeds. Qed.
Print Assumptions C06_registry_resolved_not_below_lockfile.

Theorem C06_registry_judgement_holds : forall W, Jsr.wf_jworld W = true -> forall o roots g,
  Jsr.jbuild W o roots = Some g -> RunJsr.c06_judgement W g roots = [Sexp.judge true].
Proof. exact JsrSeed.c06_judgement_true. Qed.
Print Assumptions C06_registry_judgement_holds.

(* the newest-dependency date at graph level: the version the builder picks for a requirement that no
   version already selected in the graph satisfies is never too new for its package (late_of W p: the
   versions of p for which JsrVersionResolver::get_for_package(p).matches_newest_dependency_date is false,
   computed by the real crate, exclusions included) *)
Theorem C06_registry_selection_in_date : forall W req versions existing cached late v y,
  Jsr.resolve_version W req versions existing cached late = Some (v, y) ->
  Jsr.best_match W req existing None = None -> mem v late = false.
Proof. exact JsrSeed.resolve_version_in_date. Qed.
Print Assumptions C06_registry_selection_in_date.

(* Non-vacuity, and the reproduction of F-C06b as the model sees it (the world is the harness's
   abstraction of: main.ts imports jsr:@s/a@1 and jsr:@s/b@2; @s/a has 1.0.0 and 1.1.0; @s/b has only
   1.0.0, so the first pass cannot satisfy @s/b@2 and the builder restarts; the lockfile selects
   @s/a@1 -> 1.0.0). Requirement 1 = @s/a@1, package 1 = @s/a, versions 1 = 1.0.0, 2 = 1.1.0. *)
Definition c06j_world_sx : Sexp.sexp :=
  Sexp.L [Sexp.L [Sexp.L [Sexp.A 2; Sexp.A 3; Sexp.A 1; Sexp.A 1; Sexp.A 2]; Sexp.L [Sexp.A 3; Sexp.A 3; Sexp.A 1; Sexp.A 1; Sexp.A 3]; Sexp.L [Sexp.A 5; Sexp.A 3; Sexp.A 1; Sexp.A 2; Sexp.A 2]; Sexp.L [Sexp.A 6; Sexp.A 3; Sexp.A 1; Sexp.A 2; Sexp.A 3]; Sexp.L [Sexp.A 9; Sexp.A 3; Sexp.A 4; Sexp.A 1; Sexp.A 2]; Sexp.L [Sexp.A 12; Sexp.A 1; Sexp.A 1; Sexp.A 1; Sexp.A 5]; Sexp.L [Sexp.A 13; Sexp.A 1; Sexp.A 4; Sexp.A 2; Sexp.A 5]]; Sexp.L [Sexp.L [Sexp.A 1; Sexp.L [Sexp.A 4; Sexp.A 1; Sexp.A 6; Sexp.A 1; Sexp.A 0; Sexp.L [Sexp.L [Sexp.A 12; Sexp.A 7; Sexp.A 0]; Sexp.L [Sexp.A 13; Sexp.A 8; Sexp.A 0]]]]; Sexp.L [Sexp.A 3; Sexp.L [Sexp.A 4; Sexp.A 3; Sexp.A 9; Sexp.A 1; Sexp.A 0; Sexp.L []]]; Sexp.L [Sexp.A 6; Sexp.L [Sexp.A 4; Sexp.A 6; Sexp.A 10; Sexp.A 1; Sexp.A 0; Sexp.L []]]]; Sexp.L []; Sexp.L [Sexp.L [Sexp.A 1; Sexp.A 8; Sexp.L [Sexp.A 1; Sexp.L [Sexp.L [Sexp.A 1; Sexp.A 0]; Sexp.L [Sexp.A 2; Sexp.A 0]]]; Sexp.L [Sexp.A 1; Sexp.L [Sexp.L [Sexp.A 1; Sexp.A 0]; Sexp.L [Sexp.A 2; Sexp.A 0]]]]; Sexp.L [Sexp.A 4; Sexp.A 11; Sexp.L [Sexp.A 1; Sexp.L [Sexp.L [Sexp.A 1; Sexp.A 0]]]; Sexp.L [Sexp.A 1; Sexp.L [Sexp.L [Sexp.A 1; Sexp.A 0]]]]]; Sexp.L [Sexp.L [Sexp.A 1; Sexp.A 1; Sexp.A 4; Sexp.A 2; Sexp.L [Sexp.A 1; Sexp.A 11; Sexp.L []; Sexp.L [Sexp.L [Sexp.A 5; Sexp.A 3]]; Sexp.L []; Sexp.L []]; Sexp.A 0]; Sexp.L [Sexp.A 1; Sexp.A 2; Sexp.A 7; Sexp.A 5; Sexp.L [Sexp.A 1; Sexp.A 11; Sexp.L []; Sexp.L [Sexp.L [Sexp.A 5; Sexp.A 6]]; Sexp.L []; Sexp.L []]; Sexp.A 0]; Sexp.L [Sexp.A 4; Sexp.A 1; Sexp.A 10; Sexp.A 9; Sexp.L [Sexp.A 0; Sexp.A 0]; Sexp.A 0]]; Sexp.L [Sexp.L [Sexp.A 1; Sexp.L [Sexp.A 1; Sexp.A 2]]; Sexp.L [Sexp.A 2; Sexp.L []]]; Sexp.L []; Sexp.L []; Sexp.L [Sexp.A 2; Sexp.A 3; Sexp.A 4; Sexp.A 5; Sexp.A 6; Sexp.A 7; Sexp.A 8; Sexp.A 9; Sexp.A 10; Sexp.A 11]; Sexp.A 12; Sexp.A 10; Sexp.L [Sexp.L [Sexp.A 1; Sexp.A 1; Sexp.A 1]]].

Example C06_registry_lockfile_nonvacuous :
  match RunJsr.dec_jworld c06j_world_sx with
  | Some W =>
      Jsr.wf_jworld W = true /\ Jsr.jw_seed W = [(1, (1, 1))]%N /\
      Jsr.matches W 1 1 = true /\ Jsr.matches W 1 2 = true /\
      match Jsr.jbuild W {| Jsr.jo_prefer_cached := false |} [1%N] with
      | Some g => Jsr.jg_restarted g = true /\ lookup 1%N (Jsr.pt_map (Jsr.jg_pkgs g)) = Some (1, 1)%N
      | None => False
      end
  | None => False
  end.
Proof. vm_compute. repeat split; reflexivity. Qed.
