(* C04 — build results do not depend on load completion order or on the run.
   Model/Sched.v refines the builder's loop with an adversarial schedule that
   decides which outstanding load completes next and when the build is polled;
   FuturesOrdered delivers a result only when it is at the head of the queue.
   Proved: two schedules under which the build completes end in the SAME state
   (graph, redirects, errors with referrers, loader-call log), which is the
   state of the sequential loop.  Assumptions (trusted base): the loader is a
   function of its arguments; dynamic branches and deferred loads are iterated
   in insertion order (true since the fix: commit 7535c3a; before it they were
   HashMaps - known finding F-C04a, fixed).  The content-load queue of JSR
   packages (FuturesUnordered) and the metadata store are not in this stage.
   On the real code every case is built under random completion schedules
   through gated futures and repeatedly with fresh hasher state; all
   observations must be identical, and equal to the model's graph. *)
From DG Require Import Base.Util Base.Sexp Model.Graph Model.Builder Model.Sched Proofs.SchedProofs.

Theorem C04_schedule_independent : forall W o st0 evs1 evs2,
  idle (ss_st (srun W o (start st0) evs1)) = true ->
  idle (ss_st (srun W o (start st0) evs2)) = true ->
  ss_st (srun W o (start st0) evs1) = ss_st (srun W o (start st0) evs2).
Proof. exact schedule_independent. Qed.
Print Assumptions C04_schedule_independent.

Theorem C04_scheduled_equals_sequential : forall fuel W o st0 st' evs,
  resolve_pending fuel W o st0 = Some st' ->
  idle (ss_st (srun W o (start st0) evs)) = true ->
  ss_st (srun W o (start st0) evs) = st'.
Proof. exact scheduled_equals_sequential. Qed.
Print Assumptions C04_scheduled_equals_sequential.

Theorem C04_poll_delivers : forall W o s,
  idle (ss_st s) = false -> head_ready s = true ->
  ss_st (sstep W o s Poll) = loop_step W o (ss_st s).
Proof. exact poll_delivers. Qed.
Print Assumptions C04_poll_delivers.

(* Non-vacuity: two loads outstanding; completing them in either order and polling gives the same state. *)
Definition c04_world : world :=
  {| w_resp := [(1, WMissing); (2, WError)]; w_resp_reload := []; w_http := []; w_lock := None; w_class := []; w_file := []; w_max_redirects := 10; w_wasm_ext := []; w_wasm_nodts := []; w_npm := None |}.
Definition c04_opts : bopts :=
  {| bo_kind := KAll; bo_is_dynamic := false; bo_skip_dynamic := false; bo_unstable_bytes := false;
     bo_unstable_text := false; bo_unstable_css := false |}.
Definition c04_st0 : bstate :=
  load_roots c04_world c04_opts (init_state c04_world c04_opts (empty_bgraph KAll)) [1; 2].
Example C04_nonvacuous :
  idle (ss_st (srun c04_world c04_opts (start c04_st0) [Complete 1; Poll; Complete 0; Poll; Complete 0; Poll; Poll])) = true /\
  idle (ss_st (srun c04_world c04_opts (start c04_st0) [Complete 0; Poll; Poll; Complete 0; Poll; Poll])) = true /\
  length (st_pending c04_st0) = 2%nat.
Proof. repeat split; vm_compute; reflexivity. Qed.
