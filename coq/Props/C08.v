(* C08 — module analysis finds every dependency once, with exact specifier ranges.
   Layer (a) of DESIGN.md C08 (range arithmetic, pragma recognisers, lookups) and the
   decision procedures that judge the REAL analyser's output (layer c').
   Property theorems only; models in Model/TextPos.v, Model/Pragma.v, Model/RunC08.v,
   proofs in Proofs/TextPosProofs.v, Proofs/PragmaProofs.v, Proofs/RunC08Proofs.v.

   text      : list of Unicode scalar values; offsets are UTF-8 byte offsets
   pos_of_offset = Position::from_source_pos (text_lines): LF is the only line break,
                   columns count scalar values, a leading U+FEFF occupies no column
   offset_of_pos : this development's inverse, used to map reported ranges back
   recognise p   : the regex find_* function of pragma p (capture, rest, quoteless flag)
   comment_range : comment_source_to_position_range *)
From Coq Require Import Permutation.
From DG Require Import Base.Util Model.TextPos Model.Pragma Model.RunC08
  Proofs.TextPosProofs Proofs.PragmaProofs Proofs.RunC08Proofs.

(* ---------- positions ---------- *)

(* every character boundary o = byte_len pre of every text, except offset 0 of a text
   that starts with a BOM, survives the round trip; in particular two different
   boundaries never share a position *)
Theorem C08_pos_roundtrip : forall pre post,
  (pre = [] -> starts_with_bom post = false) ->
  offset_of_pos (pre ++ post) (pos_of_offset (pre ++ post) (byte_len pre)) = byte_len pre.
Proof. exact roundtrip. Qed.
Print Assumptions C08_pos_roundtrip.

(* the exception is real: text_lines maps byte 0 and byte 3 of a BOM-led text to (0, 0) *)
Theorem C08_pos_roundtrip_bom_refuted :
  exists s, pos_of_offset s 0 = pos_of_offset s 3 /\ offset_of_pos s (pos_of_offset s 0) <> 0.
Proof. exists [BOM; 120]. split; [vm_compute; reflexivity | vm_compute; discriminate]. Qed.
Print Assumptions C08_pos_roundtrip_bom_refuted.

(* an offset inside a multi-byte character has the position of that character *)
Theorem C08_pos_inside_char_refuted :
  exists s o, o <= byte_len s /\ pos_of_offset s o = pos_of_offset s 0 /\
              offset_of_pos s (pos_of_offset s o) <> o.
Proof. exists [233], 1. repeat split; vm_compute; discriminate. Qed.
Print Assumptions C08_pos_inside_char_refuted.

Theorem C08_pos_monotone : forall s o1 o2,
  o1 <= o2 -> pos_le (pos_of_offset s o1) (pos_of_offset s o2).
Proof. exact pos_of_offset_mono. Qed.
Print Assumptions C08_pos_monotone.

Theorem C08_slice_exact : forall pre mid post,
  slice (pre ++ mid ++ post) (byte_len pre) (byte_len pre + byte_len mid) = mid.
Proof. exact slice_app. Qed.
Print Assumptions C08_slice_exact.

(* ---------- pragma ranges ---------- *)

(* what every recogniser guarantees about its capture: a contiguous piece of the comment
   text, directly between two quote characters unless the match is quote-less *)
Theorem C08_recognise_capture : forall p ctext cap rest ql,
  recognise p ctext = Some (cap, rest, ql) ->
  exists a, ctext = a ++ cap ++ rest /\
    (ql = false -> exists a' q1 q2 r',
        a = a' ++ [q1] /\ rest = q2 :: r' /\ is_quote q1 = true /\ is_quote q2 = true).
Proof. exact recognise_ok. Qed.
Print Assumptions C08_recognise_capture.

(* for ANY text before the comment (non-ASCII, astral, CR, CRLF, BOM), either comment kind,
   any comment text in which recogniser p finds a match, and any text after it: the range
   computed by comment_source_to_position_range, mapped back onto the whole source, is
   exactly the matched specifier - with its two quote characters when it has them *)
Theorem C08_range_exact : forall p pre block ctext tail cap rest ql,
  recognise p ctext = Some (cap, rest, ql) ->
  let src := pre ++ open_delim block ++ ctext ++ tail in
  let ms := match_start ctext cap rest in
  let me := match_end ctext rest in
  let r := comment_range src (byte_len pre) ms me ql in
  slice ctext ms me = cap /\
  exists q1 q2,
    slice src (offset_of_pos src (r_start r)) (offset_of_pos src (r_end r))
      = (if ql then cap else q1 :: cap ++ [q2]) /\
    (ql = false -> is_quote q1 = true /\ is_quote q2 = true).
Proof. exact range_exact. Qed.
Print Assumptions C08_range_exact.

(* the hypothesis "the comment text starts two bytes after the comment start" is needed:
   swc reports the HTML-like comment `<!-- ...` (scripts only) with a start offset that is
   three bytes before its text; the +2 of the code then yields a range that is off by one
   (known finding F-C08a; the data below is what the real parser reports for this source) *)
Definition html_src : text :=      (* <!-- @ts-self-types=Q./a.d.tsQ LF foo(); *)
  [60; 33; 45; 45; 32; 64; 116; 115; 45; 115; 101; 108; 102; 45; 116; 121; 112; 101; 115; 61;
   34; 46; 47; 97; 46; 100; 46; 116; 115; 34; 10; 102; 111; 111; 40; 41; 59].
Definition html_ctext : text := firstn 26 (skipn 4 html_src).
Theorem C08_range_html_comment_refuted :
  exists cap rest,
    drop_bytes html_src (1 + 3) = html_ctext ++ skipn 30 html_src /\
    recognise PTsSelfTypes html_ctext = Some (cap, rest, false) /\
    quoted_okb (slice_of html_src
                  (comment_range html_src 1 (match_start html_ctext cap rest) (match_end html_ctext rest) false))
               cap = false.
Proof.
  exists [46; 47; 97; 46; 100; 46; 116; 115], [34].
  repeat split; vm_compute; reflexivity.
Qed.
Print Assumptions C08_range_html_comment_refuted.

(* a quote-less capture takes any run of non-blank characters, so it can swallow a JSDoc
   import type written in the same comment: the captured JSX import source below contains
   the quoted specifier that the JSDoc scan of the same block comment reports as well
   (known finding F-C08b: two overlapping ranges / the same text reported twice) *)
Definition swallow_ctext : text :=
  [42; 32; 64; 106; 115; 120; 73; 109; 112; 111; 114; 116; 83; 111; 117; 114; 99; 101; 32; 123; 105; 109; 112; 111; 114; 116; 40; 34; 46; 47; 120; 46; 106; 115; 34; 41; 125; 32].
Theorem C08_quoteless_capture_swallows_refuted :
  exists cap rest a b,
    recognise PJsxImportSource swallow_ctext = Some (cap, rest, true) /\
    cap = a ++ [34] ++ [46; 47; 120; 46; 106; 115] ++ [34] ++ b.
Proof.
  exists [123; 105; 109; 112; 111; 114; 116; 40; 34; 46; 47; 120; 46; 106; 115; 34; 41; 125], [32], [123; 105; 109; 112; 111; 114; 116; 40], [41; 125].
  split; vm_compute; reflexivity.
Qed.
Print Assumptions C08_quoteless_capture_swallows_refuted.

(* ---------- lookups ---------- *)

(* PositionRange::includes is the closed interval of positions *)
Theorem C08_includes : forall r p,
  includes r p = true <-> pos_le (r_start r) p /\ pos_le p (r_end r).
Proof. exact includes_iff. Qed.
Print Assumptions C08_includes.

(* Dependency::includes returns one of the dependency's own ranges, and it contains the position *)
Theorem C08_lookup_own_range : forall d p r,
  dep_includes d p = Some r -> In r (ld_ranges d) /\ includes r p = true.
Proof. exact dep_includes_range. Qed.
Print Assumptions C08_lookup_own_range.

(* when ranges of different dependencies share no position, the position lookup over the
   dependency map returns exactly the dependency whose range contains the position *)
Theorem C08_lookup : forall deps p k,
  (forall k1 d1 k2 d2 r1 r2 q,
      In (k1, d1) deps -> In (k2, d2) deps -> In r1 (ld_ranges d1) -> In r2 (ld_ranges d2) ->
      includes r1 q = true -> includes r2 q = true -> k1 = k2) ->
  (dep_at deps p = Some k <->
   exists d r, In (k, d) deps /\ In r (ld_ranges d) /\ includes r p = true).
Proof. exact lookup_correct. Qed.
Print Assumptions C08_lookup.

(* because both ends are inclusive, ranges that are disjoint as half-open source ranges but
   touch are NOT separated: a lookup at the first position of the second returns the first *)
Definition touching : list (N * ldep) :=
  [(0, {| ld_imports := [{| r_start := (0, 0); r_end := (0, 3) |}]; ld_type := None |});
   (1, {| ld_imports := [{| r_start := (0, 3); r_end := (0, 6) |}]; ld_type := None |})].
Theorem C08_lookup_touching_refuted :
  exists deps p, pos_ltb p (0, 3) = false /\ dep_at deps p = Some 0 /\
                 exists d r, In (1, d) deps /\ In r (ld_ranges d) /\ r_start r = p.
Proof.
  exists touching, (0, 3). split; [vm_compute; reflexivity|]. split; [vm_compute; reflexivity|].
  eexists; eexists. split; [right; left; reflexivity|]. split; [left; reflexivity | reflexivity].
Qed.
Print Assumptions C08_lookup_touching_refuted.

(* ---------- the judges run on the real analyser's output ---------- *)

Theorem C08_ranges_apart_decided : forall r1 r2,
  range_wfb r1 = true -> range_wfb r2 = true ->
  (ranges_apartb r1 r2 = true <-> forall p, ~ (includes r1 p = true /\ includes r2 p = true)).
Proof. exact ranges_apartb_spec. Qed.
Print Assumptions C08_ranges_apart_decided.

Theorem C08_items_apart_decided : forall items,
  forallb range_wfb (map it_range (apart_items items)) = true ->
  (items_apartb items = true <->
   ForallOrdPairs (fun r1 r2 => forall p, ~ (includes r1 p = true /\ includes r2 p = true))
                  (map it_range (apart_items items))).
Proof. exact items_apartb_correct. Qed.
Print Assumptions C08_items_apart_decided.

(* the graph-level judge implies the hypothesis of C08_lookup *)
Theorem C08_deps_apart_lookup : forall deps p k,
  deps_apartb deps = true ->
  (dep_at deps p = Some k <->
   exists d r, In (k, d) deps /\ In r (ld_ranges d) /\ includes r p = true).
Proof. exact deps_apartb_lookup. Qed.
Print Assumptions C08_deps_apart_lookup.

Theorem C08_quoted_judge_correct : forall sl t,
  quoted_okb sl t = true <->
  exists q1 q2, is_quote q1 = true /\ is_quote q2 = true /\ sl = q1 :: t ++ [q2].
Proof. exact quoted_okb_correct. Qed.
Print Assumptions C08_quoted_judge_correct.

Theorem C08_literal_judge_correct : forall sl t raw,
  literal_okb sl t raw = true <->
  exists q mid, lit_quote q = true /\ sl = q :: mid ++ [q] /\ raw = Some (sl, Some t).
Proof. exact literal_okb_correct. Qed.
Print Assumptions C08_literal_judge_correct.

(* planted and reported dependencies agree as multisets: each once, nothing else *)
Theorem C08_once_judge_correct : forall l1 l2, perm_eqb l1 l2 = true <-> Permutation l1 l2.
Proof. exact perm_eqb_correct. Qed.
Print Assumptions C08_once_judge_correct.

(* ---------- non-vacuity ---------- *)
(* e-acute, an astral character, CRLF, then a block comment with a quote-less and a quoted
   @deno-types pragma; the computed ranges count scalar values on the second line *)
Definition nv_pre : text := [233; 128512; 13; 10; 32].
Definition nv_quoteless : text := [32; 64; 100; 101; 110; 111; 45; 116; 121; 112; 101; 115; 61; 46; 47; 960; 46; 100; 46; 116; 115; 32].
Definition nv_quoted : text := [64; 68; 69; 78; 79; 45; 84; 89; 80; 69; 383; 32; 61; 39; 46; 47; 960; 39].
Example C08_nonvacuous :
  recognise PDenoTypes nv_quoteless = Some ([46; 47; 960; 46; 100; 46; 116; 115], [32], true) /\
  recognise PDenoTypes nv_quoted = Some ([46; 47; 960], [39], false) /\
  (let src := nv_pre ++ open_delim true ++ nv_quoteless ++ [42; 47] in
   comment_range src (byte_len nv_pre) 13 22 true = {| r_start := (1, 16); r_end := (1, 24) |} /\
   slice_of src {| r_start := (1, 16); r_end := (1, 24) |} = [46; 47; 960; 46; 100; 46; 116; 115]) /\
  (let src := nv_pre ++ open_delim true ++ nv_quoted ++ [42; 47] in
   comment_range src (byte_len nv_pre) 15 19 false = {| r_start := (1, 16); r_end := (1, 21) |} /\
   slice_of src {| r_start := (1, 16); r_end := (1, 21) |} = [39; 46; 47; 960; 39]) /\
  pos_of_offset nv_pre 2 = (0, 1) /\ pos_of_offset nv_pre 6 = (0, 2) /\ pos_of_offset nv_pre 8 = (1, 0) /\
  recognise PTsTypes [64; 116; 115; 45; 116; 121; 112; 101; 115; 61; 34; 34] = None /\
  is_triple_slash_reference [47; 32; 60; 82; 69; 70; 69; 82; 69; 78; 67; 69; 10; 47; 62] = true /\
  is_triple_slash_reference [47; 32; 60; 114; 101; 102; 101; 114; 101; 110; 99; 101; 32; 10; 47; 62] = false.
Proof. repeat split; vm_compute; reflexivity. Qed.

(* the judges discriminate *)
Example C08_judges_discriminate :
  quoted_okb [34; 97; 34] [97] = true /\ quoted_okb [34; 97; 39] [97] = true /\
  quoted_okb [97; 34] [97] = false /\ quoted_okb [34; 97; 34; 32] [97] = false /\
  literal_okb [96; 97; 96] [97] (Some ([96; 97; 96], Some [97])) = true /\
  literal_okb [34; 97; 39] [97] (Some ([34; 97; 39], Some [97])) = false /\
  literal_okb [34; 92; 120; 54; 49; 34] [97] (Some ([34; 92; 120; 54; 49; 34], Some [97])) = true /\
  literal_okb [34; 92; 120; 54; 49; 34] [92; 120; 54; 49] (Some ([34; 92; 120; 54; 49; 34], Some [97])) = false /\
  ranges_apartb {| r_start := (0, 0); r_end := (0, 3) |} {| r_start := (0, 3); r_end := (0, 6) |} = false /\
  ranges_apartb {| r_start := (0, 0); r_end := (0, 3) |} {| r_start := (0, 4); r_end := (1, 0) |} = true /\
  perm_eqb [(0, 0, [97]); (1, 3, [98])] [(1, 3, [98]); (0, 0, [97])] = true /\
  perm_eqb [(0, 0, [97])] [(0, 0, [97]); (0, 0, [97])] = false.
Proof. repeat split; vm_compute; reflexivity. Qed.
