(* C11 - fast check preserves the public API and drops everything else.
   Property theorems only; definitions in Model/FcSummary.v, Model/RunC11.v;
   proofs in Proofs/FcApiProofs.v.

   [ApiPreserved x] is the property's statement on ONE (original module,
   emitted module) pair: x carries both summaries, the entrypoint flag, the
   resolved export name sets and the generator's intent (see the reading guide
   at the top of Model/RunC11.v). *)
From DG Require Import Base.Util Base.Sexp Model.FcSummary Model.RunC10 Model.RunC11 Proofs.FcApiProofs.

(* the decision procedure evaluated on every real (original, emitted) pair IS the statement *)
Theorem C11_api_preservedb_correct : forall x, api_preservedb x = true <-> ApiPreserved x.
Proof. exact api_preservedb_correct. Qed.
Print Assumptions C11_api_preservedb_correct.

(* the pieces *)
Theorem C11_items_decided : forall o e, itemspreservedb o e = true <-> ItemsPreserved o e.
Proof. exact itemspreservedb_iff. Qed.
Print Assumptions C11_items_decided.

Theorem C11_item_decided : forall o e, itemmatchb o e = true <-> ItemMatch o e.
Proof. exact itemmatchb_iff. Qed.
Print Assumptions C11_item_decided.

Theorem C11_class_decided : forall o e, classmatchb o e = true <-> ClassMatch o e.
Proof. exact classmatchb_iff. Qed.
Print Assumptions C11_class_decided.

Theorem C11_member_decided : forall o e, membermatchb o e = true <-> MemberMatch o e.
Proof. exact membermatchb_iff. Qed.
Print Assumptions C11_member_decided.

Theorem C11_fn_decided : forall o e, fnmatchb o e = true <-> FnMatch o e.
Proof. exact fnmatchb_iff. Qed.
Print Assumptions C11_fn_decided.

Theorem C11_param_decided : forall o e, parammatchb o e = true <-> ParamMatch o e.
Proof. exact parammatchb_iff. Qed.
Print Assumptions C11_param_decided.

(* greedy matching decides "ordered sub-list up to a relation" *)
Theorem C11_subrel_decided : forall (A B : Type) (r : A -> B -> bool) (R : A -> B -> Prop),
  (forall a b, r a b = true <-> R a b) -> forall l l', subrelb r l l' = true <-> SubRel R l l'.
Proof. exact (@subrelb_iff_all). Qed.
Print Assumptions C11_subrel_decided.

(* known class F-C11a (tag 1101): the pair violates the property and no longer does once the
   annotations of optional/defaulted parameters whose type needs parentheses in a union are ignored *)
Theorem C11_classes_sound : forall x, In 1101 (c11_classes x) -> ~ ApiPreserved x /\ ApiPreserved (relax_obs x).
Proof. exact c11_classes_sound. Qed.
Print Assumptions C11_classes_sound.

Theorem C11_classes_none : forall x, c11_classes x = [] -> api_preservedb x = false -> ~ ApiPreserved (relax_obs x).
Proof. exact c11_classes_none. Qed.
Print Assumptions C11_classes_none.
