(* C11 - fast check preserves the public API and drops everything else.
   Property theorems only; definitions in Model/FcSummary.v, Model/RunC11.v;
   proofs in Proofs/FcApiProofs.v.

   [ApiPreserved x] is the property's statement on ONE (original module,
   emitted module) pair: x carries both summaries, the entrypoint flag, the
   resolved export name sets and the generator's intent (see the reading guide
   at the top of Model/RunC11.v). *)
From DG Require Import Base.Util Base.Sexp Model.FcSummary Model.RunC10 Model.RunC11 Proofs.FcApiProofs.

(* the decision procedure evaluated on every real (original, emitted) pair IS the statement *)
Theorem C11_api_preservedb_correct : forall x, api_preservedb x = true <-> ApiPreserved x.
Proof. exact api_preservedb_correct. Qed.
Print Assumptions C11_api_preservedb_correct.

(* the pieces *)
Theorem C11_items_decided : forall o e, itemspreservedb o e = true <-> ItemsPreserved o e.
Proof. exact itemspreservedb_iff. Qed.
Print Assumptions C11_items_decided.

Theorem C11_item_decided : forall o e, itemmatchb o e = true <-> ItemMatch o e.
Proof. exact itemmatchb_iff. Qed.
Print Assumptions C11_item_decided.

Theorem C11_class_decided : forall o e, classmatchb o e = true <-> ClassMatch o e.
Proof. exact classmatchb_iff. Qed.
Print Assumptions C11_class_decided.

Theorem C11_member_decided : forall o e, membermatchb o e = true <-> MemberMatch o e.
Proof. exact membermatchb_iff. Qed.
Print Assumptions C11_member_decided.

Theorem C11_fn_decided : forall o e, fnmatchb o e = true <-> FnMatch o e.
Proof. exact fnmatchb_iff. Qed.
Print Assumptions C11_fn_decided.

Theorem C11_param_decided : forall o e, parammatchb o e = true <-> ParamMatch o e.
Proof. exact parammatchb_iff. Qed.
Print Assumptions C11_param_decided.

(* greedy matching decides "ordered sub-list up to a relation" *)
Theorem C11_subrel_decided : forall (A B : Type) (r : A -> B -> bool) (R : A -> B -> Prop),
  (forall a b, r a b = true <-> R a b) -> forall l l', subrelb r l l' = true <-> SubRel R l l'.
Proof. exact (@subrelb_iff_all). Qed.
Print Assumptions C11_subrel_decided.

(* known class F-C11a (tag 1101): the pair violates the property and no longer does once the
   annotations of optional/defaulted parameters whose type needs parentheses in a union are ignored *)
Theorem C11_classes_sound : forall x, In 1101 (c11_classes x) -> ~ ApiPreserved x /\ ApiPreserved (relax_obs x).
Proof. exact c11_classes_sound. Qed.
Print Assumptions C11_classes_sound.

Theorem C11_classes_none : forall x, c11_classes x = [] -> api_preservedb x = false -> ~ ApiPreserved (relax_obs x).
Proof. exact c11_classes_none. Qed.
Print Assumptions C11_classes_none.

(* F-C11a, on the summaries of a real pair (seed package "F-C11a", confirmed on the real code in
   every run):  original  `export function f1(a: () => string = <arrow>, b: number): void {}`
                emitted   `export function f1(a: () => string | undefined, b: number): void {}`
   ids: 2 f1, 3 `()=>string`, 4 a, 5 number, 6 b, 7 void, 8 `()=>string|undefined` *)
Definition c11_paren_witness : c11_obs :=
  let t (i : N) (p : bool) := {| ty_cls := TyOther; ty_id := i; ty_strip := None; ty_paren := p |} in
  let none := {| ty_cls := TyNone; ty_id := 0; ty_strip := None; ty_paren := false |} in
  let arrow := FnSum FArrow [] (t 9 false) false false (BExpr ELeaf) false 0 0 false in
  let orig := IFn ExNamed 2 false
                (FnSum FDecl [Param PIdent (t 3 true) false (EFun arrow) false false None 4;
                              Param PIdent (t 5 false) false ENone false false None 6]
                       (t 7 false) false false BEmpty false 0 0 false) in
  let emit := IFn ExNamed 2 false
                (FnSum FDecl [Param PIdent (t 8 true) false ENone false false None 4;
                              Param PIdent (t 5 false) false ENone false false None 6]
                       (t 7 false) false false BEmpty false 0 0 false) in
  {| o_entry := true; o_orig := {| m_ambient := false; m_items := [orig] |};
     o_emit := {| m_ambient := false; m_items := [emit] |};
     o_orig_exports := [2]; o_emit_exports := [2]; o_exports_known := true; o_must_drop := []; o_must_drop_paths := [] |}.

Theorem C11_paren_refuted : ~ ApiPreserved c11_paren_witness /\ c11_classes c11_paren_witness = [1101].
Proof.
  split; [|vm_compute; reflexivity].
  intro H. apply api_preservedb_correct in H. vm_compute in H. discriminate.
Qed.
Print Assumptions C11_paren_refuted.

(* non-vacuity: a pair that exercises dropping, the optional/default normalisation, a TS-private
   member, a parameter property and an expando namespace, and satisfies the statement *)
Example C11_nonvacuous :
  let t (i : N) (s : option N) := {| ty_cls := TyOther; ty_id := i; ty_strip := s; ty_paren := false |} in
  let any := {| ty_cls := TyAny; ty_id := 20; ty_strip := None; ty_paren := false |} in
  let none := {| ty_cls := TyNone; ty_id := 0; ty_strip := None; ty_paren := false |} in
  let key (i : N) := {| k_cls := KIdent; k_id := i |} in
  (* function f(a: T = e, b: U, c?: V): R { ... }   private helper   class C { constructor(public p: T) {}  private m(): void {} } *)
  let orig :=
    [ IFn ExNamed 2 false (FnSum FDecl [Param PIdent (t 3 None) false ELeaf false false None 4;
                                       Param PIdent (t 5 None) false ENone false false None 6;
                                       Param PIdent (t 7 None) true ENone false false None 8]
                                 (t 9 None) false false BOther false 0 0 false);
      IFn ExNone 10 false (FnSum FDecl [] none false false BOther false 0 0 false);
      IClass ExNamed 11 false
        {| c_decos := false; c_super := SNone; c_super_id := 0; c_implements := []; c_tpc := 0; c_tpi := 0;
           c_abstract := false;
           c_members := [ MCtor AccPublic (FnSum FCtor [Param PIdent (t 3 None) false ENone false false (Some (AccPublic, false)) 12]
                                                 none false false BOther false 0 0 false);
                          MMethod (key 13) AccPrivate false false false
                                  (FnSum FMethod [] (t 9 None) false false BOther false 0 0 false) ] |} ] in
  let emit :=
    [ IFn ExNamed 2 false (FnSum FDecl [Param PIdent (t 14 (Some 3)) false ENone false false None 4;
                                       Param PIdent (t 5 None) false ENone false false None 6;
                                       Param PIdent (t 7 None) true ENone false false None 8]
                                 (t 9 None) false false BRet false 0 0 false);
      IClass ExNamed 11 false
        {| c_decos := false; c_super := SNone; c_super_id := 0; c_implements := []; c_tpc := 0; c_tpi := 0;
           c_abstract := false;
           c_members := [ MProp (key 12) AccPublic false (t 3 None) true false false false false false ENone false;
                          MCtor AccPublic (FnSum FCtor [Param PIdent (t 3 None) false ENone false false None 12]
                                                 none false false BEmpty false 0 0 false);
                          MProp (key 13) AccPrivate false any true false false false false false ENone false ] |};
      INamespace ExNamed 2 false [IVar ExNamed false 0 [{| v_name := 15; v_pat := PIdent; v_ty := none; v_init := ELeaf; v_definite := false |}]] ] in
  api_preservedb {| o_entry := true; o_orig := {| m_ambient := false; m_items := orig |};
                    o_emit := {| m_ambient := false; m_items := emit |};
                    o_orig_exports := [2; 11]; o_emit_exports := [11; 2]; o_exports_known := true;
                    o_must_drop := [10]; o_must_drop_paths := [[2; 16]; [3; 15]] |} = true.
Proof. vm_compute. reflexivity. Qed.
