(* C18 — a graph segment is self-contained and equals a direct build of its roots.
   Property theorems only; proofs in Proofs/SegmentProofs.v.

   Graph level (this file): segment terminates, is the identity when the
   requested roots are roots of the graph, and otherwise holds exactly the
   entries and redirects the walk hands out (C15 characterises that set).
   Self-containedness ("every dependency of every contained module resolves
   exactly as in the original") is FALSE in general: C18_typesonly_refuted
   (known finding F-C18a) and C18_entry_at_redirect_refuted (F-C14a/d family).
   It is decided on every real segment by the extracted [self_contained], which
   C18_self_contained_correct proves equivalent to the declarative statement.
   The comparison with a direct build is decided on the real code on every run
   (relational check); its theorem needs Model/Builder.v (partial). *)
From DG Require Import Base.Util Base.Sexp Base.Reach Model.Graph Model.Walk Model.RunC15 Model.RunC02
  Model.RunC14 Model.Prune Model.RunC17 Model.RunC18 Proofs.WalkProofs Proofs.SegmentProofs.

Theorem C18_terminates : forall g roots, segment g roots <> None.
Proof. exact segment_terminates. Qed.
Print Assumptions C18_terminates.

Theorem C18_clone : forall g roots,
  subset_b (dedup_keep_first roots) (g_roots g) = true -> segment g roots = Some g.
Proof. exact segment_clone. Qed.
Print Assumptions C18_clone.

Theorem C18_entries : forall g roots g' ys,
  subset_b (dedup_keep_first roots) (g_roots g) = false ->
  walk g (segment_opts g) (fun _ => false) (dedup_keep_first roots) = Some ys ->
  segment g roots = Some g' ->
  (forall s sl, In (s, sl) (g_slots g') <->
     In (s, sl) (g_slots g) /\ exists e, In (s, e) ys /\ match e with ERedirect _ => false | _ => true end = true) /\
  (forall a b, In (a, b) (g_redirects g') <->
     In (a, b) (g_redirects g) /\ exists e, In (a, e) ys /\ match e with ERedirect _ => true | _ => false end = true) /\
  g_kind g' = g_kind g /\ g_imports g' = g_imports g /\ g_roots g' = dedup_keep_first roots.
Proof. exact segment_entries. Qed.
Print Assumptions C18_entries.

Theorem C18_self_contained_correct : forall g seg roots,
  self_contained g seg roots = true <->
  ((forall s m d, In (s, SMod m) (g_slots seg) -> In d (m_deps m) ->
      resolve_dependency seg (d_text d) s false = resolve_dependency g (d_text d) s false /\
      resolve_dependency seg (d_text d) s true = resolve_dependency g (d_text d) s true /\
      (forall t, In t (dep_all_targets d) -> tryres_eqb (try_get seg t) (try_get g t) = true)) /\
   validate_same g seg roots = true).
Proof. exact self_contained_correct. Qed.
Print Assumptions C18_self_contained_correct.

(* F-C18a: types-only graph; 1 imports 2 (a JS module whose types dependency is 3).
   The types-only walk replaces 2 by 3, so the segment rooted at 1 lacks 2 and
   type-preferring resolution of 1's import is lost. *)
Definition c18_dep (t : N) (target : spec) : dep :=
  {| d_text := t; d_filelike := false; d_code := ROk target 0; d_type := RNone; d_dyn := false;
     d_deno_types := false; d_attr := 0 |}.
Definition c18_graph : graph :=
  {| g_kind := KTypesOnly; g_roots := [9];
     g_slots := [(1, SMod {| m_kind := MkJs; m_spec := 1; m_media := MTypeScript; m_deps := [c18_dep 10 2];
                              m_types_dep := None; m_fc_deps := None; m_dts := false |});
                 (2, SMod {| m_kind := MkJs; m_spec := 2; m_media := MJavaScript; m_deps := [];
                              m_types_dep := Some {| td_text := 11; td_filelike := false; td_res := ROk 3 0 |};
                              m_fc_deps := None; m_dts := false |});
                 (3, SMod {| m_kind := MkJs; m_spec := 3; m_media := MDts; m_deps := [];
                              m_types_dep := None; m_fc_deps := None; m_dts := false |});
                 (9, SMod {| m_kind := MkJs; m_spec := 9; m_media := MTypeScript; m_deps := [c18_dep 12 1];
                              m_types_dep := None; m_fc_deps := None; m_dts := false |})];
     g_redirects := []; g_imports := []; g_schemes := []; g_has_node := false; g_errkinds := [] |}.
Theorem C18_typesonly_refuted :
  exists g roots seg, segment g roots = Some seg /\
    resolve_dependency g 10 1 true = Some 3 /\ resolve_dependency seg 10 1 true = None.
Proof.
  exists c18_graph, [1].
  destruct (segment c18_graph [1]) as [seg|] eqn:E; [|exfalso; exact (segment_terminates _ _ E)].
  exists seg. split; [reflexivity|]. vm_compute in E. inversion E; subst. split; vm_compute; reflexivity.
Qed.
Print Assumptions C18_typesonly_refuted.

(* Non-vacuity of C18_entries / a self-contained segment: all-kinds graph 9 -> 1 -> 2, segment at 1. *)
Definition c18_plain : graph :=
  {| g_kind := KAll; g_roots := [9];
     g_slots := [(1, SMod {| m_kind := MkJs; m_spec := 1; m_media := MTypeScript; m_deps := [c18_dep 10 2];
                              m_types_dep := None; m_fc_deps := None; m_dts := false |});
                 (2, SMod {| m_kind := MkJs; m_spec := 2; m_media := MTypeScript; m_deps := [];
                              m_types_dep := None; m_fc_deps := None; m_dts := false |});
                 (9, SMod {| m_kind := MkJs; m_spec := 9; m_media := MTypeScript; m_deps := [c18_dep 12 1];
                              m_types_dep := None; m_fc_deps := None; m_dts := false |})];
     g_redirects := []; g_imports := []; g_schemes := []; g_has_node := false; g_errkinds := [] |}.
Example C18_nonvacuous :
  match segment c18_plain [1] with
  | Some seg => map fst (g_slots seg) = [1; 2] /\ self_contained c18_plain seg [1] = true
  | None => False
  end.
Proof. vm_compute. split; reflexivity. Qed.
