(* C07 — JSR specifiers map to registry URLs through the manifest, with bookkeeping.
   Property theorems only; proofs in Proofs/PackagesProofs.v (URL conversion,
   version text, export lookup) and Proofs/PackagesTableProofs.v (PackageSpecifiers).

   Scope of this file: the registry URL <-> name@version conversion, the version
   text it relies on, JsrPackageVersionInfo::export/exports with
   normalized_export_name, and the PackageSpecifiers table as a state machine
   over operation histories.  The builder-level part of C07 (which redirect is
   inserted, which operations the builder issues) belongs to the builder model.

   Full statement for the URL conversion (DESIGN.md C07):
     (a) to_nv base (pkg_url base nv ++ path) = Some nv              (round trip)
     (b) to_nv base u = Some nv -> pkg_url base nv is a prefix of u  (no misattribution)
   (a) is proved for every registry URL that is a plain http(s) directory URL,
   every scope/name package name and every printable version, and implies that
   a URL under one package is never attributed to another (C07_url_unique_owner).
   (b) is FALSE of the faithful model and of the real code: four refutation
   witnesses below (known findings F-C07a..d).  What is proved is (b) outside
   those four input classes (C07_url_no_misattribution). *)
From DG Require Import Base.Util Base.Sexp Model.Packages Model.RunC07
  Proofs.PackagesProofs Proofs.PackagesTableProofs.

(* ---------------- version text ---------------- *)

(* Version::parse_standard reads back every version Version::to_string prints *)
Theorem C07_version_print_parse : forall v,
  wf_version v -> parse_standard (print_version v) = Some v.
Proof. exact parse_print. Qed.
Print Assumptions C07_version_print_parse.

(* whatever text it accepts, the version it returns is a printable one (so its print is canonical) *)
Theorem C07_version_parse_canonical : forall t v,
  parse_standard t = Some v -> wf_version v.
Proof. exact parse_standard_wf. Qed.
Print Assumptions C07_version_parse_canonical.

(* ---------------- registry URL <-> name@version ---------------- *)

(* on a directory registry URL the package URL is registry ++ name/version/ *)
Theorem C07_pkg_url_shape : forall base name vt p,
  dir_base base -> pkg_url base name vt = Some p -> p = base ++ name ++ SLASH :: vt ++ [SLASH].
Proof. exact pkg_url_dir. Qed.
Print Assumptions C07_pkg_url_shape.

Theorem C07_url_roundtrip : forall base name v p path,
  wf_base_b base = true -> wf_name_b name = true -> wf_version v ->
  pkg_url base name (print_version v) = Some p ->
  to_nv base (p ++ path) = Some (name, v).
Proof. exact url_roundtrip. Qed.
Print Assumptions C07_url_roundtrip.

(* a URL under one package's registry URL is attributed to that package and to no other *)
Theorem C07_url_unique_owner : forall base name v p path name' v',
  wf_base_b base = true -> wf_name_b name = true -> wf_version v ->
  pkg_url base name (print_version v) = Some p ->
  to_nv base (p ++ path) = Some (name', v') -> name' = name /\ v' = v.
Proof. exact url_unique_owner. Qed.
Print Assumptions C07_url_unique_owner.

(* the name@version the conversion returns converts back to itself *)
Theorem C07_to_nv_result_roundtrips : forall base u name v p path,
  to_nv base u = Some (name, v) ->
  wf_base_b base = true -> wf_name_b name = true ->
  pkg_url base name (print_version v) = Some p ->
  to_nv base (p ++ path) = Some (name, v).
Proof. exact to_nv_result_roundtrips. Qed.
Print Assumptions C07_to_nv_result_roundtrips.

(* outside the known classes the converted URL lies under the package it is attributed to *)
Theorem C07_url_no_misattribution : forall base u name v p,
  to_nv base u = Some (name, v) -> c07_url_class base u = 0 ->
  pkg_url base name (print_version v) = Some p ->
  is_prefix (strip_slash p) u.
Proof. exact url_no_misattribution_pkg_url. Qed.
Print Assumptions C07_url_no_misattribution.

(* string form, independent of the URL join *)
Theorem C07_url_no_misattribution_text : forall base u name v,
  to_nv base u = Some (name, v) -> c07_url_class base u = 0 ->
  is_prefix (base ++ name ++ SLASH :: print_version v) u /\ dir_base base.
Proof. exact url_no_misattribution. Qed.
Print Assumptions C07_url_no_misattribution_text.

(* the judgement run on the real results is the declarative statement *)
Theorem C07_no_misattr_judgement_correct : forall u nv purl,
  no_misattr_b u nv purl = true <->
  (nv = None \/ exists p, purl = Some p /\ is_prefix (strip_slash p) u).
Proof. exact no_misattr_b_iff. Qed.
Print Assumptions C07_no_misattr_judgement_correct.

(* ---- refutation witnesses of the unrestricted statement (b), and of (a) for a slash-less registry URL ---- *)

Definition b_jsr : str := [104;116;116;112;115;58;47;47;106;115;114;46;105;111;47].  (* https://jsr.io/ *)
Definition n_ab : str := [64;97;47;98].  (* @a/b *)
Definition p_good : str :=
  [104;116;116;112;115;58;47;47;106;115;114;46;105;111;47;64;97;47;98;47;49;46;48;46;48;47].  (* https://jsr.io/@a/b/1.0.0/ *)

(* F-C07a: the loose version parser (leading v / = / zeros, missing dash, trailing dot) makes
   https://jsr.io/@a/b/v1.0.0/mod.ts belong to @a/b@1.0.0, whose URL is https://jsr.io/@a/b/1.0.0/ *)
Definition u_v : str :=
  [104;116;116;112;115;58;47;47;106;115;114;46;105;111;47;64;97;47;98;47;118;49;46;48;46;48;47;109;111;100;46;116;115].
Theorem C07_loose_version_refuted :
  exists base u name v p,
    wf_base_b base = true /\ wf_name_b name = true /\ to_nv base u = Some (name, v) /\
    pkg_url base name (print_version v) = Some p /\ is_prefix_b (strip_slash p) u = false.
Proof. exists b_jsr, u_v, n_ab, v_100, p_good. vm_compute. repeat split; reflexivity. Qed.
Print Assumptions C07_loose_version_refuted.

(* F-C07b: one extra slash after the registry URL is skipped: https://jsr.io//@a/b/1.0.0/mod.ts *)
Definition u_dbl : str :=
  [104;116;116;112;115;58;47;47;106;115;114;46;105;111;47;47;64;97;47;98;47;49;46;48;46;48;47;109;111;100;46;116;115].
Theorem C07_double_slash_refuted :
  exists base u name v p,
    wf_base_b base = true /\ wf_name_b name = true /\ to_nv base u = Some (name, v) /\
    pkg_url base name (print_version v) = Some p /\ is_prefix_b (strip_slash p) u = false.
Proof. exists b_jsr, u_dbl, n_ab, v_100, p_good. vm_compute. repeat split; reflexivity. Qed.
Print Assumptions C07_double_slash_refuted.

(* F-C07c: for a registry URL without trailing slash (which to_nv explicitly caters for) the
   package URL is formed by REPLACING the last path segment, so the round trip fails, and a
   sibling path is attributed to a package: base http://localhost/jsr *)
Definition b_slashless : str := [104;116;116;112;58;47;47;108;111;99;97;108;104;111;115;116;47;106;115;114].
Definition u_lookalike : str :=
  [104;116;116;112;58;47;47;108;111;99;97;108;104;111;115;116;47;106;115;114;45;101;118;105;108;47;98;47;49;46;48;46;48;47;109;111;100;46;116;115].
  (* http://localhost/jsr-evil/b/1.0.0/mod.ts *)
Theorem C07_slashless_base_refuted :
  (exists base name v p,
     base_ok base = true /\ wf_name_b name = true /\ wf_version v /\
     pkg_url base name (print_version v) = Some p /\ to_nv base p = None) /\
  (exists base u name v p,
     base_ok base = true /\ to_nv base u = Some (name, v) /\
     pkg_url base name (print_version v) = Some p /\ is_prefix_b (strip_slash p) u = false).
Proof.
  split.
  - exists b_slashless, n_ab, v_100. eexists. split; [reflexivity|]. split; [reflexivity|].
    split; [exact wf_version_100|]. split; vm_compute; reflexivity.
  - exists b_slashless, u_lookalike. eexists. eexists. eexists. vm_compute. repeat split; reflexivity.
Qed.
Print Assumptions C07_slashless_base_refuted.

(* F-C07d: a scope segment that reads as a URL scheme (x:y) is accepted, although Url::join treats
   name/version/ as an absolute URL (outside the registry) or fails to parse it (the real
   recommended_registry_package_url panics on http:/b:x@1.0.0): the name is outside pkg_url's domain *)
Definition u_scheme : str :=
  [104;116;116;112;115;58;47;47;106;115;114;46;105;111;47;120;58;121;47;122;47;49;46;48;46;48;47;109;111;100;46;116;115].
  (* https://jsr.io/x:y/z/1.0.0/mod.ts *)
Theorem C07_scheme_like_scope_refuted :
  exists base u name v,
    wf_base_b base = true /\ wf_name_b name = true /\ to_nv base u = Some (name, v) /\
    scheme_like name = true /\ pkg_url base name (print_version v) = None.
Proof. exists b_jsr, u_scheme. eexists. eexists. vm_compute. repeat split; reflexivity. Qed.
Print Assumptions C07_scheme_like_scope_refuted.

(* ---------------- export lookup ---------------- *)

(* exports() lists exactly the pairs export() resolves: the "available exports" of the unknown-export error *)
Theorem C07_export_iff_listed : forall e k v, In (k, v) (exports e) <-> export e k = Some v.
Proof. exact export_iff_listed. Qed.
Print Assumptions C07_export_iff_listed.

Theorem C07_exports_keys_unique : forall e, NoDup (map fst (exports e)).
Proof. exact exports_keys_NoDup. Qed.
Print Assumptions C07_exports_keys_unique.

(* a string manifest exports exactly "." *)
Theorem C07_export_string : forall s k p, export (EStr s) k = Some p <-> k = DOT_STR /\ p = s.
Proof. exact export_string. Qed.
Print Assumptions C07_export_string.

(* an object manifest exports the string-valued members; the last of a repeated key counts *)
Theorem C07_export_object : forall f k p, export (EObj f) k = Some p <-> obj_get k f = Some (JStr p).
Proof. exact export_object. Qed.
Print Assumptions C07_export_object.

Theorem C07_export_object_last_wins : forall k v f1 f2,
  ~ In k (map fst f2) -> obj_get k (f1 ++ (k, v) :: f2) = Some v.
Proof. exact obj_get_last. Qed.
Print Assumptions C07_export_object_last_wins.

(* a normalised export name is "." or starts with "./" *)
Theorem C07_norm_export_shape : forall sub,
  norm_export sub = DOT_STR \/ is_prefix DOT_SLASH (norm_export sub).
Proof. exact norm_export_shape. Qed.
Print Assumptions C07_norm_export_shape.

(* ---------------- PackageSpecifiers ---------------- *)

(* For EVERY operation history: the run executes a prefix [done], the table reached satisfies the
   history specification of exactly that prefix (Inv), the run stops where the specification says
   the first unwrap of a missing package happens, and nowhere else. *)
Theorem C07_table_refines : forall kc ops,
  exists done rest,
    ops = done ++ rest /\
    Inv kc done (fst (run_ops kc ops)) /\
    snd (run_ops kc ops) = spec_panic kc ops /\
    match snd (run_ops kc ops) with
    | None => rest = []
    | Some j => j = N.of_nat (length done) /\ exists o r, rest = o :: r /\ op_panics kc done o = true
    end.
Proof. exact table_refines. Qed.
Print Assumptions C07_table_refines.

Theorem C07_table_no_panic : forall kc ops t,
  run_ops kc ops = (t, None) -> Inv kc ops t /\ spec_panic kc ops = None.
Proof. exact table_no_panic. Qed.
Print Assumptions C07_table_no_panic.

(* mappings(): every requirement maps to the name@version of its LAST add_nv (requirements compared by Ord) *)
Theorem C07_table_mappings : forall kc ops t,
  Inv kc ops t ->
  (forall req, mapping_of kc t req = spec_mapping kc ops req) /\
  (forall req nv, In (req, nv) (mappings t) -> spec_mapping kc ops req = Some nv) /\
  (forall req nv, spec_mapping kc ops req = Some nv ->
     exists req', kc_req kc req' = kc_req kc req /\ In (req', nv) (mappings t)).
Proof. exact obs_mappings. Qed.
Print Assumptions C07_table_mappings.

(* versions_by_name(): exactly the name@versions added under that name, once each *)
Theorem C07_table_versions_by_name : forall kc ops t name,
  Inv kc ops t ->
  (forall nv, In nv (match versions_by_name t name with Some l => l | None => [] end) <-> spec_version ops name nv = true) /\
  NoDup (match versions_by_name t name with Some l => l | None => [] end).
Proof. exact obs_versions_by_name. Qed.
Print Assumptions C07_table_versions_by_name.

(* package_exports(nv): present iff the package was ensured; maps each export key to its last value;
   the dependency set is exactly what add_dependency recorded *)
Theorem C07_table_packages : forall kc ops t nv,
  Inv kc ops t ->
  (package_exports kc t nv <> None <-> spec_has_package kc ops nv = true) /\
  (forall ex, package_exports kc t nv = Some ex -> forall k, lookup k ex = spec_export kc ops nv k) /\
  (forall ds, package_deps kc t nv = Some ds -> (forall d, In d ds <-> spec_dep kc ops nv d = true) /\ NoDup ds).
Proof. exact obs_packages. Qed.
Print Assumptions C07_table_packages.

Theorem C07_table_packages_with_deps : forall kc ops t nv ds,
  Inv kc ops t -> In (nv, ds) (packages_with_deps t) ->
  spec_has_package kc ops nv = true /\ (forall d, In d ds <-> spec_dep kc ops nv d = true).
Proof. exact obs_packages_with_deps. Qed.
Print Assumptions C07_table_packages_with_deps.

Theorem C07_table_sets : forall kc ops t nv,
  Inv kc ops t ->
  ((exists nv', kc_nv kc nv' = kc_nv kc nv /\ In nv' (top_level_packages t)) <-> spec_top kc ops nv = true) /\
  ((exists nv', kc_nv kc nv' = kc_nv kc nv /\ In nv' (used_yanked_packages t)) <-> spec_yanked kc ops nv = true).
Proof. exact obs_sets. Qed.
Print Assumptions C07_table_sets.

(* ---------------- non-vacuity ---------------- *)

Definition u_good : str :=
  [104;116;116;112;115;58;47;47;106;115;114;46;105;111;47;64;97;47;98;47;49;46;48;46;48;47;109;111;100;46;116;115].
  (* https://jsr.io/@a/b/1.0.0/mod.ts *)
Definition id_kc : keying := {| kc_req := fun k => k; kc_nv := fun k => k |}.
Definition demo_ops : list op :=
  [AddNv 1 7 10; Ensure 10; AddExport 10 20 30; AddExport 10 20 31; AddDep 10 40; AddDep 10 40;
   AddNv 1 7 11; AddTop 10; AddDep 12 41].
Example C07_nonvacuous :
  wf_base_b b_jsr = true /\ wf_name_b n_ab = true /\
  pkg_url b_jsr n_ab (print_version v_100) = Some p_good /\
  to_nv b_jsr u_good = Some (n_ab, v_100) /\ c07_url_class b_jsr u_good = 0 /\
  c07_url_class b_jsr u_v = 701 /\ c07_url_class b_jsr u_dbl = 702 /\
  c07_url_class b_slashless u_lookalike = 703 /\ c07_url_class b_jsr u_scheme = 704 /\
  snd (run_ops id_kc demo_ops) = Some 8 /\
  mappings (fst (run_ops id_kc demo_ops)) = [(1, 11)] /\
  versions_by_name (fst (run_ops id_kc demo_ops)) 7 = Some [10; 11] /\
  package_exports id_kc (fst (run_ops id_kc demo_ops)) 10 = Some [(20, 31)] /\
  packages_with_deps (fst (run_ops id_kc demo_ops)) = [(10, [40])] /\
  export (EObj [([46], JStr [120]); ([46], JOther 0); ([46;47;97], JStr [121])]) [46] = None /\
  exports (EObj [([46], JOther 0); ([46], JStr [120]); ([46;47;97], JStr [121])]) = [([46], [120]); ([46;47;97], [121])].
Proof. vm_compute. repeat split; reflexivity. Qed.

(* ---------- stage B2: the builder's use of the registry, Model/Jsr.v ----------
   After a completed build, every jsr: specifier that has a redirect is redirected
   to the URL that the exports map of the manifest of ONE version of the named
   package gives for the specifier's export, and that version satisfies the
   specifier's requirement. *)
From DG Require Model.Jsr Proofs.JsrProofs.

Theorem C07_registry_redirect : forall W o roots g s t pkg req exp,
  Jsr.wf_jworld W = true -> Jsr.jbuild W o roots = Some g ->
  lookup s (Jsr.jg_redirects g) = Some t -> Jsr.cls_of W s = Jsr.CJsr pkg req exp ->
  exists ver vi, Jsr.v_meta (Jsr.ver_of W (pkg, ver)) = Jsr.VOk vi /\
                 lookup exp (Jsr.vi_exports vi) = Some t /\ Jsr.matches W req ver = true.
Proof.
  intros W o roots g s t pkg req exp Hwf Hb Hl Hc.
  pose proof (proj1 (proj2 (proj2 (JsrProofs.jbuild_jinv W Hwf o roots g Hb))) s t Hl) as Hr.
  unfold JsrProofs.RedOK in Hr. rewrite Hc in Hr. destruct Hr as [ver [vi [Hm [He [_ Hmt]]]]].
  exists ver, vi. repeat split; assumption.
Qed.
Print Assumptions C07_registry_redirect.

(* The package table the builder leaves behind: every requirement is mapped to a version that
   satisfies it (C06 at graph level) or to the version the lockfile seeded for it
   (fill_from_lockfile: never checked against the requirement), and every export recorded as used is
   an export of that version's manifest. *)
From DG Require Proofs.JsrTable.

Theorem C07_registry_table : forall W o roots g,
  Jsr.jbuild W o roots = Some g ->
  (forall req v, lookup req (Jsr.pt_map (Jsr.jg_pkgs g)) = Some v ->
     Jsr.matches W req (snd v) = true \/ In (req, v) (Jsr.jw_seed W)) /\
  (forall v e, In (v, e) (Jsr.pt_exports (Jsr.jg_pkgs g)) ->
     exists vi target, Jsr.v_meta (Jsr.ver_of W v) = Jsr.VOk vi /\ lookup e (Jsr.vi_exports vi) = Some target /\ target <> 0).
Proof.
  intros W o roots g H. destruct (JsrTable.jbuild_table W o roots g H) as [A [B _]]. split; [exact A | exact B].
Qed.
Print Assumptions C07_registry_table.
