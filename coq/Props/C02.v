(* C02 — validation fails exactly when a followed edge reaches a failure.
   Property theorems only; proofs in Proofs/ValidateProofs.v. *)
From DG Require Import Base.Util Base.Sexp Base.Reach Model.Graph Model.Walk Model.RunC15 Model.RunC02
  Proofs.WalkProofs Proofs.ValidateProofs.

(* Full statement (all walk options):
     validate g o roots = Ok  <->  ~ Fails g o roots
   where Fails = some specifier selected by the walk (C15's Sel) is an error
   entry, or a handed-out module one of whose followed dependencies (type side
   only when the module is type-checked; the types dependency when types are
   included) has a failed resolution, an https->http target, or a file: target
   written as a literal file:// text from an http(s) module.
   Proved for follow_dynamic = false.  For follow_dynamic = true the statement
   is FALSE of the faithful model (C02_follow_dynamic_missing_root_refuted,
   known finding F-C02a) and what is proved is
   C02_reachable_failure_not_skipped_outside_known_class. *)

Theorem C02_validate_iff : forall g o roots,
  NoDup roots -> w_follow_dynamic o = false ->
  (validate g o roots = Some None <-> ~ Fails g o roots).
Proof. exact validate_iff_static. Qed.
Print Assumptions C02_validate_iff.

(* ModuleGraph::valid() is the instance: code-only, static edges, check_js. *)
Theorem C02_valid_iff : forall g,
  NoDup (g_roots g) -> (valid g = Some None <-> ~ Fails g valid_opts (g_roots g)).
Proof. intros g H. apply validate_iff_static; [exact H | reflexivity]. Qed.
Print Assumptions C02_valid_iff.

(* Code validation only ever follows redirects and static code edges: a
   failure confined to type-only or dynamic edges is not in Sel and so, by
   C02_valid_iff, never fails valid(). *)
Theorem C02_valid_edges : forall g skip s t,
  Edge g valid_opts skip s t ->
  (slot_of g s = None /\ redirect_of g s = Some t) \/
  (exists m d, slot_of g s = Some (SMod m) /\ In d (m_deps m) /\ d_dyn d = false /\
               In t (res_targets (d_code d))).
Proof.
  intros g skip s t H. destruct H as [s t H1 H2 H3 | s m t H1 H2 H3 H4 | s m d t H1 H2 H3 H4 H5 H6].
  - left. split; assumption.
  - discriminate.
  - right. exists m, d. split; [exact H1|].
    unfold selected_deps, check_types in H4. cbn in H4.
    split; [exact H4|]. unfold dep_followed in H5. cbn in H5. rewrite orb_false_r in H5.
    split; [destruct (d_dyn d); [discriminate|reflexivity]|].
    destruct H6 as [H6|[H6 _]]; [exact H6 | discriminate].
Qed.
Print Assumptions C02_valid_edges.

(* Any options: a visited failure that is not a Missing error slot is always
   reported (never silently skipped). *)
Theorem C02_reachable_failure_not_skipped_outside_known_class : forall g o roots,
  (exists ys y, walk g o (fun _ => false) roots = Some ys /\ In y ys /\
     entry_fails g o (snd y) = true /\ is_missing_entry (snd y) = false) ->
  validate g o roots <> Some None.
Proof. exact validate_fails_outside_known_class. Qed.
Print Assumptions C02_reachable_failure_not_skipped_outside_known_class.

(* The reported error is attached to a visited entry. *)
Theorem C02_error_names : forall g o roots ys e,
  walk g o (fun _ => false) roots = Some ys ->
  validate g o roots = Some (Some e) ->
  exists s en, In (s, en) ys /\ In e (entry_errors g o en).
Proof.
  intros g o roots ys e Hw Hv. unfold validate in Hv.
  destruct (walk_errors g o roots) as [es|] eqn:He; [|discriminate].
  destruct es as [|e0 es]; [discriminate|]. inversion Hv; subst.
  apply (walk_errors_exact g o roots ys (e :: es) Hw He). left; reflexivity.
Qed.
Print Assumptions C02_error_names.

(* the decision procedure run on the implementation's verdicts is the property *)
Theorem C02_failsb_correct : forall g o roots b,
  NoDup roots -> failsb g o roots = Some b -> (b = true <-> Fails g o roots).
Proof. exact failsb_iff. Qed.
Print Assumptions C02_failsb_correct.

(* Known finding F-C02a: with follow_dynamic a missing ROOT is silently skipped. *)
Definition c02_missing_root_graph : graph :=
  {| g_kind := KAll; g_roots := [1]; g_slots := [(1, SErr (Some 1) 5)];
     g_redirects := []; g_imports := []; g_schemes := []; g_has_node := false; g_errkinds := [] |}.
Definition c02_fd_opts : wopts :=
  {| w_kind := KAll; w_follow_dynamic := true; w_check_js := fun _ => true; w_prefer_fc := false |}.
Theorem C02_follow_dynamic_missing_root_refuted :
  exists g o roots, NoDup roots /\ Fails g o roots /\ validate g o roots = Some None.
Proof.
  exists c02_missing_root_graph, c02_fd_opts, [1]. split; [repeat constructor; intros []|]. split.
  - exists 1. split; [apply Sel_root; left; reflexivity|]. eapply FA_slot. vm_compute. reflexivity.
  - vm_compute. reflexivity.
Qed.
Print Assumptions C02_follow_dynamic_missing_root_refuted.

(* Non-vacuity of C02_validate_iff: a graph whose static import is missing fails, and one
   where the only missing module is behind a dynamic import validates. *)
Definition c02_dep (t : N) (target : spec) (dyn : bool) : dep :=
  {| d_text := t; d_filelike := false; d_code := ROk target 0; d_type := RNone; d_dyn := dyn; d_deno_types := false; d_attr := 0 |}.
Definition c02_graph (dyn : bool) : graph :=
  {| g_kind := KAll; g_roots := [1];
     g_slots := [(1, SMod {| m_kind := MkJs; m_spec := 1; m_media := MTypeScript;
                              m_deps := [c02_dep 10 2 dyn]; m_types_dep := None; m_fc_deps := None; m_dts := false |});
                 (2, SErr (Some 2) 7)];
     g_redirects := []; g_imports := []; g_schemes := []; g_has_node := false; g_errkinds := [] |}.
Example C02_nonvacuous :
  valid (c02_graph false) = Some (Some (GModule 7)) /\ valid (c02_graph true) = Some None.
Proof. split; vm_compute; reflexivity. Qed.
