From DG Require Import Base.Util Model.Symbols Proofs.SymbolsProofs.
