(* C16 — symbol tables are well-formed trees; export resolution follows ES rules.
   Property theorems only; proofs in Proofs/SymbolsProofs.v, model in Model/Symbols.v.

   (a) export resolution: theorems about the MODEL of exports_and_re_exports_inner /
       exports_and_re_exports / ModuleInfoRef::exports (shared visited set), tied to
       the real code by comparing the complete resolved map and the unresolved list
       of every module of every explored program.
   (b) tree shape: the SymbolFiller is not modelled; wf_symtabb is a checker that is
       PROVED SOUND here and run on the real table of every explored module.
   (c) go-to-definition: modelled for the fragment without qualified names
       (termination and leaf soundness proved, results compared with the real code on
       every program without an `import X = A.B` declaration); for all programs the real
       results are judged by goto_okb (sound, below) and termination is watched.   *)
From DG Require Import Base.Util Model.Symbols Proofs.SymbolsProofs.

(* ---------------- (a) export resolution ---------------- *)

(* The set of names resolved at a module = its own names plus the non-default own
   names of every module reachable through one or more resolved star re-exports
   (a least fixed point; which binding an ambiguous name lands on is first-found
   and deliberately not part of the statement). *)
Theorem C16_exports_set : forall w m r,
  exports_of w m = Some r -> forall n, In n (names r) <-> Names w m n.
Proof. exact exports_set. Qed.
Print Assumptions C16_exports_set.

(* an own name resolves to the module's own binding (IndexMap: last insertion wins) *)
Theorem C16_own_first : forall w m r n s,
  exports_of w m = Some r ->
  lookup n (rev (own w m)) = Some s ->
  lookup n (resolved r) = Some (Export m s).
Proof. exact own_first. Qed.
Print Assumptions C16_own_first.

(* fuel = number of analysed modules suffices, cyclic star re-exports included *)
Theorem C16_terminates : forall w m, has_key m (sw_mods w) = true -> exports_of w m <> None.
Proof. exact exports_terminate. Qed.
Print Assumptions C16_terminates.

(* the decision procedure that judges the REAL name set of every module *)
Theorem C16_names_okb_correct : forall w m impl,
  has_key m (sw_mods w) = true ->
  (names_okb w m impl = true <-> forall n, In n impl <-> Names w m n).
Proof. exact names_okb_correct. Qed.
Print Assumptions C16_names_okb_correct.

(* ---------------- (b) tree shape: the checker is sound ---------------- *)

Theorem C16_wf_checker_sound : forall t, wf_symtabb t = true -> wf_symtab t.
Proof. exact wf_symtabb_sound. Qed.
Print Assumptions C16_wf_checker_sound.

(* ---------------- (c) go-to-definition ---------------- *)

(* Model of find_definition_paths_internal / go_to_file_export (flattened to its leaves)
   for the fragment WITHOUT qualified names: a QualifiedTarget declaration
   (`import X = A.B`) is not followed by the model (marker NOT_MODELLED) and programs
   containing one are excluded from the model/implementation comparison of
   go-to-definition.  In the real code that declaration kind restarts the search with a
   fresh visited set; with it, termination is FALSE (known finding F-C16c), so these
   two theorems are the strongest true statements of this shape. *)
Theorem C16_goto_terminates_partial : forall w m s, goto_defs w m s <> None.
Proof. exact goto_fragment_terminates. Qed.
Print Assumptions C16_goto_terminates_partial.

(* every leaf is an existing Definition declaration of an existing symbol (or the
   FileRef Star declaration of an ExportStar definition), or an explicit marker *)
Theorem C16_goto_sound_partial : forall w m s ls,
  goto_defs w m s = Some ls -> Forall (leaf_ok w) ls.
Proof. exact goto_fragment_sound. Qed.
Print Assumptions C16_goto_sound_partial.

(* the checker that judges the REAL results of every query (all programs, including
   those with qualified names): every accepted result is a declaration that exists in
   the dump and is a Definition (or the FileRef Star declaration of an ExportStar
   definition), or an explicit unresolved marker located in an analysed module *)
Theorem C16_goto_results_checked : forall w gs, goto_okb w gs = true ->
  forall q g, In q gs -> In g (snd q) -> gres_ok w g.
Proof. exact goto_okb_sound. Qed.
Print Assumptions C16_goto_results_checked.

(* ---------------- refutation witnesses (known findings) ---------------- *)

Definition mkd (n : option N) (a b k : N) : sdecl :=
  {| d_name := n; d_start := a; d_end := b; d_kind := k; d_target := None; d_file := None; d_import := 0 |}.
Definition mks (id : N) (p n : option N) (ds : list sdecl) (ch me : list N) (ex : list (N * N)) : sym :=
  {| s_id := id; s_parent := p; s_name := n; s_decls := ds; s_children := ch; s_members := me; s_exports := ex |}.

(* F-C16a.  The REAL table of the valid TypeScript module
     export namespace D.E { export namespace E { export const z = 3; } }
   (names: D = 1, E = 2, z = 3).  The symbol of the dotted segment E is its own child,
   exports itself and carries declarations with two different names. *)
Definition dotted_table : symtab :=
  {| t_root := 0; t_len := 70;
     t_syms := [ mks 0 None None [mkd None 0 69 0] [1] [] [(1, 1)];
                 mks 1 (Some 0) (Some 1) [mkd (Some 1) 0 69 0] [2] [] [(2, 2)];
                 mks 2 (Some 1) (Some 1) [mkd (Some 1) 19 69 0; mkd (Some 2) 25 67 0] [3; 2] [] [(3, 3); (2, 2)];
                 mks 3 (Some 2) (Some 3) [mkd (Some 3) 59 64 0] [] [] [] ] |}.

Theorem C16_dotted_namespace_refuted :
  wf_symtabb dotted_table = false /\
  (exists s, find_sym dotted_table 2 = Some s /\ In 2 (s_children s)) /\
  wf_symtabb_ex (dotted_ex [2] dotted_table) dotted_table = true.
Proof.
  split; [vm_compute; reflexivity|]. split; [|vm_compute; reflexivity].
  eexists. split; [vm_compute; reflexivity|]. right. left. reflexivity.
Qed.
Print Assumptions C16_dotted_namespace_refuted.

(* F-C16b.  The REAL table of  import type { Foo } from "./b.ts"; export class Foo { p = 1; }
   (TypeScript rejects it: TS2440; one of the repository's own fast-check specs has this
   shape).  Symbol 1 mixes an alias and a definition declaration, is listed as a child
   of the module and its declarations disagree on the name (Foo = 1, p = 2). *)
Definition conflict_table : symtab :=
  {| t_root := 0; t_len := 63;
     t_syms := [ mks 0 None None [mkd None 0 62 0] [1] [] [(1, 1)];
                 mks 1 (Some 0) None [mkd None 14 17 3; mkd (Some 1) 35 62 0] [] [2] [];
                 mks 2 (Some 1) (Some 2) [mkd (Some 2) 54 60 0] [] [] [] ] |}.

Theorem C16_import_conflict_refuted :
  wf_symtabb conflict_table = false /\
  wf_symtabb_ex (conflict_ex [1] conflict_table) conflict_table = true.
Proof. split; vm_compute; reflexivity. Qed.
Print Assumptions C16_import_conflict_refuted.

(* ---------------- non-vacuity ---------------- *)

(* the REAL table of
     export class C { static s = 1; p = 1; }
     export function f(a: string): void; export function f(a?: any) {}
     export { f as g };
   is accepted (children, members, overloads, an unlisted alias symbol) *)
Definition good_table : symtab :=
  {| t_root := 0; t_len := 125;
     t_syms := [ mks 0 None None [mkd None 0 124 0] [1; 4] [] [(1, 1); (2, 4); (3, 5)];
                 mks 1 (Some 0) (Some 1) [mkd (Some 1) 0 39 0] [2] [3] [(4, 2)];
                 mks 2 (Some 1) (Some 4) [mkd (Some 4) 17 30 0] [] [] [];
                 mks 3 (Some 1) (Some 5) [mkd (Some 5) 31 37 0] [] [] [];
                 mks 4 (Some 0) (Some 2) [mkd (Some 2) 40 75 0; mkd (Some 2) 76 105 0] [] [] [];
                 mks 5 (Some 0) None [mkd None 115 121 1] [] [] [] ] |}.

Example C16_wf_nonvacuous : wf_symtabb good_table = true.
Proof. vm_compute. reflexivity. Qed.

(* a 3-cycle of star re-exports with a diamond and `default`s:
     10: export * from 20; own a(=5) , default
     20: export * from 30; export * from "missing"; own b(=6), default
     30: export * from 10; own c(=7), a(=5)
   resolved names at 10 = {a, default, b, c}; a is 10's own binding *)
Definition tab_of (ex : list (N * N)) : symtab :=
  {| t_root := 0; t_len := 0; t_syms := [mks 0 None None [] [] [] ex] |}.
Definition cyc_world : sworld :=
  {| sw_mods := [ (10, {| sm_key := 10; sm_stars := [(100, Some 20)]; sm_tab := tab_of [(5, 1); (0, 2)] |});
                  (20, {| sm_key := 20; sm_stars := [(101, Some 30); (102, None)]; sm_tab := tab_of [(6, 1); (0, 2)] |});
                  (30, {| sm_key := 30; sm_stars := [(103, Some 10)]; sm_tab := tab_of [(7, 1); (5, 2)] |}) ];
     sw_s2m := [(10, 10); (20, 20); (30, 30)] |}.

Example C16_exports_nonvacuous :
  exports_of cyc_world 10 =
  Some {| resolved := [ (5, Export 10 1); (0, Export 10 2);
                        (6, ReExportAll 10 100 (Export 20 1));
                        (7, ReExportAll 10 100 (ReExportAll 20 101 (Export 30 1))) ];
          unresolved := [(20, 102)] |}.
Proof. vm_compute. reflexivity. Qed.

(* go-to-definition through an import, a named re-export and a star re-export, with a
   cycle of re-exports that resolves nowhere:
     module 10: symbol 1 = `import { x } from 20`    (FileRef x -> 20)
                symbol 2 = `export { q } from 20`    (FileRef q -> 20)
     module 20: `export * from 30`; symbol 1 = `export { q } from 10` exported as q
     module 30: symbol 1 = `export const x` (Definition), exported as x = 5      *)
Definition fref (file imp : N) : sdecl :=
  {| d_name := None; d_start := 0; d_end := 0; d_kind := 3; d_target := None; d_file := Some file; d_import := imp |}.
Definition goto_world : sworld :=
  {| sw_mods :=
       [ (10, {| sm_key := 10; sm_stars := [];
                 sm_tab := {| t_root := 0; t_len := 0;
                              t_syms := [ mks 0 None None [] [] [] [(6, 2)];
                                          mks 1 (Some 0) None [fref 20 5] [] [] [];
                                          mks 2 (Some 0) None [fref 20 6] [] [] [] ] |} |});
         (20, {| sm_key := 20; sm_stars := [(100, Some 30)];
                 sm_tab := {| t_root := 0; t_len := 0;
                              t_syms := [ mks 0 None None [] [] [] [(6, 1)];
                                          mks 1 (Some 0) None [fref 10 6] [] [] [] ] |} |});
         (30, {| sm_key := 30; sm_stars := [];
                 sm_tab := {| t_root := 0; t_len := 9;
                              t_syms := [ mks 0 None None [] [1] [] [(5, 1)];
                                          mks 1 (Some 0) (Some 5) [mkd (Some 5) 0 9 0] [] [] [] ] |} |}) ];
     sw_s2m := [(10, 10); (20, 20); (30, 30)] |}.

Example C16_goto_nonvacuous :
  goto_defs goto_world 10 1 = Some [GDef 30 1 0 false] /\
  goto_defs goto_world 10 2 = Some [].
Proof. split; vm_compute; reflexivity. Qed.
