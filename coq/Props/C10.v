(* C10 - fast-check output has no executable logic and needs no type inference.
   Property theorems only; definitions in Model/FcSummary.v, Model/RunC10.v;
   proofs in Proofs/FcErasedProofs.v.

   [Erased m] is the property's statement on the summary m of ONE emitted
   module (see the reading guide at the top of Model/RunC10.v).  Every module
   the real fast check emits - for the 128 spec-corpus worlds and for every
   generated package - is summarised by the harness and judged by [erasedb];
   C10_erasedb_correct is what makes that judgement the property. *)
From DG Require Import Base.Util Base.Sexp Model.FcSummary Model.RunC10 Proofs.FcErasedProofs.

(* the decision procedure evaluated on every real output IS the declarative statement *)
Theorem C10_erasedb_correct : forall m, erasedb m = true <-> Erased m.
Proof. exact erasedb_correct. Qed.
Print Assumptions C10_erasedb_correct.

(* ... for every relaxation (the relaxations only define the known-finding classes) *)
Theorem C10_erasedxb_correct : forall r m, erasedxb r m = true <-> ErasedX r m.
Proof. exact erasedxb_iff. Qed.
Print Assumptions C10_erasedxb_correct.

(* the pieces, for all expressions / function-likes / parameters of the nested summary *)
Theorem C10_leavable_decided : forall r e, leavb r e = true <-> Leavable r e.
Proof. exact leavb_iff. Qed.
Print Assumptions C10_leavable_decided.

Theorem C10_fn_decided : forall r f, fnokb r f = true <-> FnOk r f.
Proof. exact fnokb_iff. Qed.
Print Assumptions C10_fn_decided.

Theorem C10_param_decided : forall r p, paramokb r p = true <-> ParamOk r p.
Proof. exact paramokb_iff. Qed.
Print Assumptions C10_param_decided.

Theorem C10_member_decided : forall r m, memberokb r m = true <-> MemberOk r m.
Proof. exact memberokb_iff. Qed.
Print Assumptions C10_member_decided.

Theorem C10_item_decided : forall r it, itemokb r it = true <-> ItemOk r it.
Proof. exact itemokb_iff. Qed.
Print Assumptions C10_item_decided.

(* a class tag is attached only to a module that violates the property and is accepted once
   exactly the tagged known relaxations are switched on; an untagged violating module is outside
   every known class (so it is reported as VIOLATION) *)
Theorem C10_classes_sound : forall m, c10_classes m <> [] ->
  ~ Erased m /\ exists r, In (r, c10_classes m) c10_relaxations /\ ErasedX r m.
Proof. exact c10_classes_sound. Qed.
Print Assumptions C10_classes_sound.

Theorem C10_classes_none : forall m, c10_classes m = [] -> erasedb m = false ->
  forall r t, In (r, t) c10_relaxations -> ~ ErasedX r m.
Proof. exact c10_classes_none. Qed.
Print Assumptions C10_classes_none.
