(* C10 - fast-check output has no executable logic and needs no type inference.
   Property theorems only; definitions in Model/FcSummary.v, Model/RunC10.v;
   proofs in Proofs/FcErasedProofs.v.

   [Erased m] is the property's statement on the summary m of ONE emitted
   module (see the reading guide at the top of Model/RunC10.v).  Every module
   the real fast check emits - for the 143 spec-corpus worlds and for every
   generated package - is summarised by the harness and judged by [erasedb];
   C10_erasedb_correct is what makes that judgement the property. *)
From DG Require Import Base.Util Base.Sexp Model.FcSummary Model.FcTransform Model.RunC10 Proofs.FcErasedProofs
  Proofs.FcTransformProofs.

(* the decision procedure evaluated on every real output IS the declarative statement *)
Theorem C10_erasedb_correct : forall m, erasedb m = true <-> Erased m.
Proof. exact erasedb_correct. Qed.
Print Assumptions C10_erasedb_correct.

(* ... for every relaxation (the relaxations only define the known-finding classes) *)
Theorem C10_erasedxb_correct : forall r m, erasedxb r m = true <-> ErasedX r m.
Proof. exact erasedxb_iff. Qed.
Print Assumptions C10_erasedxb_correct.

(* the pieces, for all expressions / function-likes / parameters of the nested summary *)
Theorem C10_leavable_decided : forall r e, leavb r e = true <-> Leavable r e.
Proof. exact leavb_iff. Qed.
Print Assumptions C10_leavable_decided.

Theorem C10_fn_decided : forall r f, fnokb r f = true <-> FnOk r f.
Proof. exact fnokb_iff. Qed.
Print Assumptions C10_fn_decided.

Theorem C10_param_decided : forall r p, paramokb r p = true <-> ParamOk r p.
Proof. exact paramokb_iff. Qed.
Print Assumptions C10_param_decided.

Theorem C10_member_decided : forall r m, memberokb r m = true <-> MemberOk r m.
Proof. exact memberokb_iff. Qed.
Print Assumptions C10_member_decided.

Theorem C10_item_decided : forall r it, itemokb r it = true <-> ItemOk r it.
Proof. exact itemokb_iff. Qed.
Print Assumptions C10_item_decided.

(* a class tag is attached only to a module that violates the property and is accepted once
   exactly the tagged known relaxations are switched on; an untagged violating module is outside
   every known class (so it is reported as VIOLATION) *)
Theorem C10_classes_sound : forall m, c10_classes m <> [] ->
  ~ Erased m /\ exists r, In (r, c10_classes m) c10_relaxations /\ ErasedX r m.
Proof. exact c10_classes_sound. Qed.
Print Assumptions C10_classes_sound.

Theorem C10_classes_none : forall m, c10_classes m = [] -> erasedb m = false ->
  forall r t, In (r, t) c10_relaxations -> ~ ErasedX r m.
Proof. exact c10_classes_none. Qed.
Print Assumptions C10_classes_none.

(* ================================================================ the model of the transform
   (Model/FcTransform.v: transform_fn, transform_arrow, handle_param_pat, ParamsOptionalStartIndex,
   maybe_transform_expr_if_leavable, maybe_infer_type_from_expr, infer_simple_type_from_type,
   analyze_return_stmts_in_function_body, the constructor part of transform_class_member), compared
   with the real transform on every public function-like of the model stream in every run.
   [tfn ov f] = (emitted function-like, diagnostics in raising order). *)

(* "whenever this cannot be achieved a diagnostic is produced instead of output": for EVERY source
   function-like the model raises a diagnostic or emits a function-like that is erased up to the two
   function-level known classes *)
Theorem C10_model_erased_or_diagnostic : forall ov f,
  snd (tfn ov f) <> [] \/ FnOk rx_fn (fst (tfn ov f)).
Proof. exact tfn_erased_or_diagnostic. Qed.
Print Assumptions C10_model_erased_or_diagnostic.

(* ... and erased in the strict sense of the property when the source contains neither an arrow
   without return type whose expression body is not simply inferable, nor a bodyless signature
   without return type (gf_f strict) *)
Theorem C10_model_strict_outside_known_classes : forall ov f,
  gf_f strict f = true -> snd (tfn ov f) = [] -> FnOk strict (fst (tfn ov f)).
Proof. exact tfn_strict_outside_known_classes. Qed.
Print Assumptions C10_model_strict_outside_known_classes.

(* the general statement, for every relaxation, over the nested source family: leavable
   initialisers, function-likes and parameters *)
Theorem C10_model_family : forall r,
  (forall e, gf_e r e = true -> forall ok e' ds, tleav e = (ok, e', ds) -> ds = [] -> ok = true -> Leavable r e') /\
  (forall f, gf_f r f = true -> forall ov, snd (tfn ov f) = [] -> FnOk r (fst (tfn ov f))) /\
  (forall p, gf_p r p = true -> forall io, snd (tparam p io) = [] -> ParamOk r (fst (tparam p io))) /\
  (forall b, forall e, b = SBExpr e ->
     gf_e r e = true -> forall ok e' ds, tleav e = (ok, e', ds) -> ds = [] -> ok = true -> Leavable r e').
Proof. exact transform_family_erased. Qed.
Print Assumptions C10_model_family.

(* constructors: the retained constructor and the property declarations synthesised for its
   parameter properties *)
Theorem C10_model_ctor : forall r a ov f props out ds,
  tctor a ov f = (props, out, ds) -> ds = [] ->
  gf_f r f = true -> (forall p, In p (match f with SFn _ ps _ _ _ _ _ _ => ps end) -> gf_prop r p = true) ->
  MemberOk r (MCtor a out) /\ Forall (MemberOk r) props.
Proof. exact tctor_erased. Qed.
Print Assumptions C10_model_ctor.

(* first-error mode (registry packages) = the head of the collected diagnostics *)
Theorem C10_first_error : forall ds,
  (first_error ds = [] <-> ds = []) /\ (length (first_error ds) <= 1)%nat /\
  (forall d, In d (first_error ds) -> In d ds).
Proof. exact first_error_spec. Qed.
Print Assumptions C10_first_error.

(* ---- the full statement is FALSE of the faithful model: three witnesses, each confirmed on the
   real code in every run (seed packages F-C10a/b/c) *)

(* F-C10a: `() => someIdent` *)
Theorem C10_arrow_kept_refuted :
  exists f, snd (tfn false f) = [] /\ ~ FnOk strict (fst (tfn false f)).
Proof.
  exists (SFn FArrow [] TyNone false false false (SBExpr SIdent) false). split; [reflexivity|].
  intro H. apply fnokb_iff in H. vm_compute in H. discriminate.
Qed.
Print Assumptions C10_arrow_kept_refuted.

(* F-C10b: `function ov(a: number);` *)
Theorem C10_signature_no_return_type_refuted :
  exists f, snd (tfn false f) = [] /\ ~ FnOk strict (fst (tfn false f)).
Proof.
  exists (SFn FDecl [SParam PIdent TyOther false SAbsent None] TyNone false false false SBNone false).
  split; [reflexivity|]. intro H. apply fnokb_iff in H. vm_compute in H. discriminate.
Qed.
Print Assumptions C10_signature_no_return_type_refuted.

(* F-C10c: `constructor(public x = someIdent) {}` *)
Theorem C10_param_property_refuted :
  exists a f props out, tctor a false f = (props, out, []) /\ ~ Forall (MemberOk strict) props.
Proof.
  exists AccPublic, (SFn FCtor [SParam PIdent TyNone false SIdent (Some (AccPublic, false))] TyNone false false false (SBBlock []) false).
  eexists. eexists. split; [vm_compute; reflexivity|].
  intro H. inversion H as [|m l Hm Hl]; subst. apply memberokb_iff in Hm. vm_compute in Hm. discriminate.
Qed.
Print Assumptions C10_param_property_refuted.

(* ---- non-vacuity *)
Example C10_model_nonvacuous :
  (* function f(a = 1, b: string, c?: number): void { if (x) { return; } }  ->  f(a: T | undefined, b: string, c?: number): void {} *)
  tfn false (SFn FDecl [SParam PIdent TyNone false SLit None; SParam PIdent TyOther false SAbsent None;
                        SParam PIdent TyOther true SAbsent None] TyOther true false false
                 (SBBlock [SIf (SBlockS [SReturn false]) None]) false)
  = (FnSum FDecl [Param PIdent (ty_of TyOther) false ENone false false None 0;
                  Param PIdent (ty_of TyOther) false ENone false false None 0;
                  Param PIdent (ty_of TyOther) true ENone false false None 0]
           (ty_of TyOther) false false BEmpty false 0 0 false, []) /\
  (* function g(a) { return 1; }  ->  missing-explicit-return-type, missing-explicit-type *)
  snd (tfn false (SFn FDecl [SParam PIdent TyNone false SAbsent None] TyNone false false false
                      (SBBlock [SReturn true]) false)) = [D_MISSING_RETURN; D_MISSING_TYPE] /\
  (* only the consequent of an `if` is analysed: function h() { if (x) {} else { return 1; } } is inferred `void` *)
  tfn false (SFn FDecl [] TyNone false false false
                 (SBBlock [SIf (SBlockS []) (Some (SBlockS [SReturn true]))]) false)
  = (FnSum FDecl [] (ty_of TyOther) false false BEmpty false 0 0 false, []).
Proof. repeat split; vm_compute; reflexivity. Qed.
