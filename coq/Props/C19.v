(* C19 — incremental builds and reloads converge to the from-scratch graph.
   Stage B1 of the builder model including Builder::build on a non-empty graph
   and Builder::reload.  Proved: building again with roots and configured
   imports the graph already has changes nothing and issues no load
   (C19_known_roots_identity); a further build never leaves a pending entry.
   The convergence statements (partition of a root set = all at once; reload of
   edited specifiers = from-scratch build on everything reachable, unreachable
   entries untouched) are FALSE in general on the real code - known findings
   F-C19a (root context decides acceptance of attribute-less JSON) and F-C19b
   (position of the TooManyRedirects error on a cycle) - and are decided per
   history on the real code by the extracted judge; their theorem over the
   model is not yet proved (partial). *)
From DG Require Import Base.Util Base.Sexp Model.Graph Model.Builder Proofs.BuilderProofs.

Theorem C19_known_roots_identity : forall W o g roots imports,
  (forall r, In r roots -> In r (bg_roots g)) ->
  (forall p, In p imports -> has_key (fst p) (bg_imports g) = true) ->
  build W o g roots imports =
    Some {| bg_kind := bg_kind g; bg_roots := bg_roots g; bg_slots := bg_slots g;
            bg_redirects := bg_redirects g; bg_imports := bg_imports g; bg_has_node := bg_has_node g;
            bg_calls := []; bg_lock_sets := [];
            (* entries, redirects, roots, imports: unchanged, and no loader or locker call. With an npm
               resolver the builder still asks it to resolve the empty set of requirements and takes
               its verdict on the dependency graph *)
            bg_npm_calls := match w_npm W with Some _ => [[]] | None => [] end;
            bg_npm_dep_ok := match w_npm W with Some _ => true | None => bg_npm_dep_ok g end |}.
Proof. exact build_known_roots_identity. Qed.
Print Assumptions C19_known_roots_identity.

Theorem C19_reload_no_pending : forall W o g specs g',
  no_pending (bg_slots g) -> reload W o g specs = Some g' -> no_pending (bg_slots g').
Proof. exact reload_no_pending. Qed.
Print Assumptions C19_reload_no_pending.

Theorem C19_incremental_no_pending : forall W o g roots imports g',
  no_pending (bg_slots g) -> build W o g roots imports = Some g' -> no_pending (bg_slots g').
Proof. exact build_no_pending. Qed.
Print Assumptions C19_incremental_no_pending.

(* F-C19a: a.ts imports ./data.json without attribute.  [a.ts] then [data.json]
   leaves the "unsupported media type" error; both roots at once load the JSON module. *)
Definition c19_world : world :=
  {| w_resp := [(1, WModule 1 {| wm_hash_raw := 0; wm_hash_text := 0; wm_media := MTypeScript; wm_parse_ok := true; wm_kind := MkJs;
                                 wm_deps := [({| d_text := 10; d_filelike := false; d_code := ROk 2 5; d_type := RNone;
                                                d_dyn := false; d_deno_types := false; d_attr := 0 |}, plain_dep)];
                                 wm_tdep := None |});
                (2, WModule 2 {| wm_hash_raw := 0; wm_hash_text := 0; wm_media := MJson; wm_parse_ok := true; wm_kind := MkJs; wm_deps := []; wm_tdep := None |})];
     w_resp_reload := []; w_http := []; w_lock := None; w_class := []; w_file := []; w_max_redirects := 10; w_wasm_ext := []; w_wasm_nodts := []; w_npm := None |}.
Definition c19_opts : bopts :=
  {| bo_kind := KAll; bo_is_dynamic := false; bo_skip_dynamic := false; bo_unstable_bytes := false;
     bo_unstable_text := false; bo_unstable_css := false |}.
Definition entry_after_builds (W : world) (o : bopts) (builds : list (list spec)) (s : spec) : option (option bslot) :=
  match fold_left (fun g roots => match g with Some g' => build W o g' roots [] | None => None end)
                  builds (Some (empty_bgraph (bo_kind o))) with
  | Some g => Some (lookup s (bg_slots g))
  | None => None
  end.
Theorem C19_root_context_refuted :
  exists W o r1 r2 s,
    entry_after_builds W o [r1; r2] s <> None /\
    entry_after_builds W o [r1; r2] s <> entry_after_builds W o [r1 ++ r2] s.
Proof.
  exists c19_world, c19_opts, [1], [2], 2. split; vm_compute; discriminate.
Qed.
Print Assumptions C19_root_context_refuted.

(* F-C19e: a.ts imports x.wasm at source phase (an asset load) and imports b.ts dynamically; b.ts imports
   x.wasm as a module, which upgrades the asset-only entry to a WebAssembly module.  b.ts is then edited to
   drop the import and reloaded: the entry of x.wasm stays a module, while a from-scratch build of the new
   sources holds the asset-only entry. *)
Definition c19e_mod (s : spec) (ds : list (dep * dflags)) : spec * wresp :=
  (s, WModule s {| wm_hash_raw := 0; wm_hash_text := 0; wm_media := MTypeScript; wm_parse_ok := true; wm_kind := MkJs;
                   wm_deps := ds; wm_tdep := None |}).
Definition c19e_wasm : spec * wresp :=
  (3, WModule 3 {| wm_hash_raw := 0; wm_hash_text := 0; wm_media := MWasm; wm_parse_ok := true; wm_kind := MkWasm;
                   wm_deps := []; wm_tdep := None |}).
Definition c19e_sp_dep : dep * dflags :=
  ({| d_text := 10; d_filelike := false; d_code := ROk 3 5; d_type := RNone; d_dyn := false; d_deno_types := false; d_attr := 9 |},
   {| dfl_asset := true; dfl_sp := Some 5 |}).
Definition c19e_dyn_dep : dep * dflags :=
  ({| d_text := 11; d_filelike := false; d_code := ROk 2 6; d_type := RNone; d_dyn := true; d_deno_types := false; d_attr := 0 |}, plain_dep).
Definition c19e_reg_dep : dep * dflags :=
  ({| d_text := 12; d_filelike := false; d_code := ROk 3 7; d_type := RNone; d_dyn := false; d_deno_types := false; d_attr := 0 |}, plain_dep).
Definition c19e_world (b_imports_wasm : bool) : world :=
  {| w_resp := [c19e_mod 1 [c19e_sp_dep; c19e_dyn_dep]; c19e_mod 2 (if b_imports_wasm then [c19e_reg_dep] else []); c19e_wasm];
     w_resp_reload := []; w_http := []; w_lock := None; w_class := []; w_file := [1; 2; 3]; w_max_redirects := 10;
     w_wasm_ext := [3]; w_wasm_nodts := [3]; w_npm := None |}.
Theorem C19_stale_upgrade_refuted :
  exists W W' o roots edited s,
    match build W o (empty_bgraph (bo_kind o)) roots [] with
    | Some g => match reload W' o g edited, build W' o (empty_bgraph (bo_kind o)) roots [] with
                | Some g1, Some g2 => lookup s (bg_slots g1) <> lookup s (bg_slots g2)
                | _, _ => False end
    | None => False end.
Proof.
  exists (c19e_world true), (c19e_world false), c19_opts, [1], [2], 3. vm_compute. discriminate.
Qed.
Print Assumptions C19_stale_upgrade_refuted.
