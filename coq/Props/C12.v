(* C12 - fast check is all-or-nothing per package, cache-transparent and deterministic.

   Model: Model/FcDriver.v, a transcription of PublicRangeFinder::find (package worklist, cache
   lookup and validation), build_fast_check_type_graph / transform_package (mod.rs) and the slot
   assignment of ModuleGraph::build_fast_check_type_graph, over ABSTRACT per-module outcomes
   (Ok out | NotEsm | Err diagnostics) and source hashes.  The tracer and the transform are data.

   Proved for all worlds and caches:
     C12_all_or_nothing            a package traced and transformed in this run
     C12_all_or_nothing_hit_*      a package replayed from a (homogeneous) cache entry
     C12_entries_homogeneous       entries written by the driver are all-Info or all-Diagnostic
     C12_deterministic             the order in which the HashMap of packages is iterated does not
                                   reach the slots
     C12_handled_is_closure        the packages handled = closure of the top-level ones under the
                                   dependencies queued (from the cache on a hit)
     C12_cache_transparent_partial under the READ-SET HYPOTHESIS CacheSound (every package's queued
                                   dependencies and emitted modules with this cache equal those
                                   obtained by tracing the current sources) the emitted module of
                                   every specifier is the same with and without the cache.
                                   CacheSound is decidable (C12_cache_soundb_correct) and is
                                   evaluated on every step of every history by the check.
   Refuted (each confirmed on the real code by the check, known findings):
     C12_all_or_nothing_warm_refuted  F-C12a: a failed entry lists only the modules up to the first
                                   error, so after a cache hit an entrypoint outside that list has
                                   neither output nor diagnostics
     C12_cache_transparent_refuted    F-C12b: the read-set hypothesis is FALSE of the real tracer: a
                                   failed entry validates although the failure was caused by a module
                                   that is not recorded in it; the package now passes without cache
                                   and still fails with it *)
From DG Require Import Base.Util Base.Reach Model.FcDriver Proofs.FcDriverProofs.

Theorem C12_all_or_nothing : forall uc w p,
  outcomes_wf (p_modules p) ->
  AllOrNothing w p (slot_of w (fst (build_traced uc w p (p_modules p) (p_deps p)))).
Proof. exact aon_traced. Qed.
Print Assumptions C12_all_or_nothing.

Theorem C12_entries_homogeneous : forall uc w p mods deps k e,
  snd (build_traced uc w p mods deps) = Some (k, e) ->
  k = p_key p /\ (all_info e = true \/ all_diag e = true).
Proof. exact produced_homogeneous. Qed.
Print Assumptions C12_entries_homogeneous.

Theorem C12_all_or_nothing_hit_success : forall w e,
  all_info e = true ->
  let slot := slot_of w (map replay (ce_modules e)) in
  (forall s, In s (map fst (ce_modules e)) -> In s (w_js w) -> exists x, slot s = Some (FOk x))
  /\ (forall s, has_diag (slot s) = false).
Proof. exact hit_success. Qed.
Print Assumptions C12_all_or_nothing_hit_success.

(* a failed entry: nothing is emitted, the LISTED entrypoints carry the `cached` diagnostic, and
   an entrypoint that is not listed gets nothing at all (third clause: the defect F-C12a) *)
Theorem C12_all_or_nothing_hit_failure : forall w e,
  all_diag e = true ->
  let slot := slot_of w (map replay (ce_modules e)) in
  (forall s, out_of (slot s) = None)
  /\ (forall en, In en (map fst (ce_modules e)) -> In en (w_js w) -> has_diag (slot en) = true)
  /\ (forall en, ~ In en (map fst (ce_modules e)) -> slot en = None).
Proof. exact hit_failure. Qed.
Print Assumptions C12_all_or_nothing_hit_failure.

Theorem C12_aonb_correct : forall w p slot, aonb w p slot = true <-> AllOrNothing w p slot.
Proof. exact aonb_correct. Qed.
Print Assumptions C12_aonb_correct.

(* F-C12a.  Package 1 with entrypoints 10 and 11; 11 is transformed first and fails, so the entry
   written by the first run lists 11 only.  The second run on the SAME sources hits that entry:
   entrypoint 10 has no slot. *)
Definition w_gap : world :=
  {| w_pkgs := [ {| p_nv := 1; p_key := 1; p_entry := [10; 11];
                    p_modules := [(11, OErr [(5, 11)]); (10, OOk 3)]; p_deps := [] |} ];
     w_top := [1]; w_hashes := [(10, 1); (11, 1)]; w_js := [10; 11]; w_first := true |}.
Definition p_gap : pkg := hd {| p_nv := 0; p_key := 0; p_entry := []; p_modules := []; p_deps := [] |} (w_pkgs w_gap).

Theorem C12_all_or_nothing_warm_refuted :
  exists w p c,
    c = cache_after (Some []) w            (* the cache a first run on these sources leaves *)
    /\ AllOrNothing w p (slot_of w (final_result None w))
    /\ AllOrNothing w p (slot_of w (final_result (Some []) w))
    /\ warm_gap_classb c w p = true
    /\ ~ AllOrNothing w p (slot_of w (final_result (Some c) w)).
Proof.
  exists w_gap, p_gap, (cache_after (Some []) w_gap).
  split; [reflexivity|].
  split; [apply aonb_correct; vm_compute; reflexivity|].
  split; [apply aonb_correct; vm_compute; reflexivity|].
  split; [vm_compute; reflexivity|].
  intro H. apply aonb_correct in H. vm_compute in H. discriminate.
Qed.
Print Assumptions C12_all_or_nothing_warm_refuted.

Theorem C12_deterministic : forall w (f : pkg -> list (spec * fres)) l1 l2,
  (forall p, In p l1 <-> In p l2) ->
  Functional (flat_map f l1) ->
  forall s, slot_of w (flat_map f l1) s = slot_of w (flat_map f l2) s.
Proof. exact slots_order_independent. Qed.
Print Assumptions C12_deterministic.

Theorem C12_handled_is_closure : forall c w nv,
  In nv (handled c w) <-> Reachable (deps_of c w) (w_top w) nv.
Proof. exact handled_spec. Qed.
Print Assumptions C12_handled_is_closure.

Theorem C12_cache_soundb_correct : forall c w, cache_soundb c w = true <-> CacheSound c w.
Proof. exact cache_soundb_correct. Qed.
Print Assumptions C12_cache_soundb_correct.

Theorem C12_cache_transparent_partial : forall c w,
  CacheSound c w ->
  Functional (final_result (Some c) w) -> Functional (final_result None w) ->
  forall s, out_of (slot_of w (final_result (Some c) w) s) = out_of (slot_of w (final_result None w) s).
Proof. exact cache_transparent_partial. Qed.
Print Assumptions C12_cache_transparent_partial.

Theorem C12_no_cache_no_write : forall w p, snd (build_pkg None w p) = None.
Proof. exact no_cache_no_traffic. Qed.
Print Assumptions C12_no_cache_no_write.

(* F-C12b.  Sources v1: module 12 fails because of something module 13 asks of it; 13 comes later
   in tracing order and is not recorded in the failed entry (11, 12).  Sources v2 change 13 only
   (hash 1 -> 2) and everything passes.  The entry still validates. *)
Definition pk (mods : list (spec * outcome)) : pkg :=
  {| p_nv := 1; p_key := 1; p_entry := [11]; p_modules := mods; p_deps := [] |}.
Definition w_v1 : world :=
  {| w_pkgs := [pk [(11, OOk 1); (12, OErr [(7, 12)]); (13, OOk 9)]];
     w_top := [1]; w_hashes := [(11, 1); (12, 1); (13, 1)]; w_js := [11; 12; 13]; w_first := true |}.
Definition w_v2 : world :=
  {| w_pkgs := [pk [(11, OOk 1); (12, OOk 2); (13, OOk 3)]];
     w_top := [1]; w_hashes := [(11, 1); (12, 1); (13, 2)]; w_js := [11; 12; 13]; w_first := true |}.

Theorem C12_cache_transparent_refuted :
  exists w1 w2 c s,
    c = cache_after (Some []) w1
    /\ Functional (final_result (Some c) w2) /\ Functional (final_result None w2)
    /\ cache_soundb c w2 = false
    /\ out_of (slot_of w2 (final_result (Some c) w2) s) <> out_of (slot_of w2 (final_result None w2) s).
Proof.
  exists w_v1, w_v2, (cache_after (Some []) w_v1), 12.
  split; [reflexivity|].
  split.
  { intros s r r' H1 H2. vm_compute in H1, H2.
    repeat (destruct H1 as [H1|H1]; [inversion H1; subst; clear H1|]); try destruct H1;
    repeat (destruct H2 as [H2|H2]; [inversion H2; subst; clear H2|]); try destruct H2; reflexivity. }
  split.
  { intros s r r' H1 H2. vm_compute in H1, H2.
    repeat (destruct H1 as [H1|H1]; [inversion H1; subst; clear H1|]); try destruct H1;
    repeat (destruct H2 as [H2|H2]; [inversion H2; subst; clear H2|]); try destruct H2;
    try reflexivity; try discriminate. }
  split; [vm_compute; reflexivity|].
  vm_compute. discriminate.
Qed.
Print Assumptions C12_cache_transparent_refuted.

(* the class of F-C12b is exactly: wherever the cache disagrees with the current sources, the
   package is served from a valid FAILED entry *)
Theorem C12_stale_failed_class : forall c w,
  stale_failed_onlyb c w = true <->
  forall p, In p (w_pkgs w) -> pkg_agrees c w p = false ->
    exists q e, find_pkg (w_pkgs w) (p_nv p) = Some q /\ cache_hit (Some c) w q = Some e /\ failed_entry e = true.
Proof. exact stale_failed_only_spec. Qed.
Print Assumptions C12_stale_failed_class.

(* a SUCCESSFUL entry that lacks a dependency (diamond: the dependency was first met through
   another package) is outside every known class: package 2's entry does not list package 3, the
   root no longer reaches 3 through package 1, so 3 is not handled and module 31 gets no output *)
Definition w_diamond : world :=
  {| w_pkgs := [ {| p_nv := 2; p_key := 2; p_entry := [21]; p_modules := [(21, OOk 1)]; p_deps := [3] |};
                 {| p_nv := 3; p_key := 3; p_entry := [31]; p_modules := [(31, OOk 2)]; p_deps := [] |} ];
     w_top := [2]; w_hashes := [(21, 1); (31, 1)]; w_js := [21; 31]; w_first := true |}.
Definition c_lacking : cache := [(2, {| ce_deps := []; ce_modules := [(21, CInfo 1 1)] |})].

Example C12_missing_dependency_edge_is_not_a_known_class :
  cache_soundb c_lacking w_diamond = false
  /\ stale_failed_onlyb c_lacking w_diamond = false
  /\ handled (Some c_lacking) w_diamond = [2]
  /\ handled None w_diamond = [2; 3]
  /\ out_of (slot_of w_diamond (final_result (Some c_lacking) w_diamond) 31) = None
  /\ out_of (slot_of w_diamond (final_result None w_diamond) 31) = Some 2.
Proof. repeat split; vm_compute; reflexivity. Qed.

(* ---- non-vacuity: a warm cache on unchanged sources is sound and transparent; a cache made
   stale by an edit of a recorded module is sound too (the entry no longer validates) ---- *)
Definition w_ok : world :=
  {| w_pkgs := [ {| p_nv := 1; p_key := 1; p_entry := [11]; p_modules := [(11, OOk 1); (12, OOk 2)]; p_deps := [2] |};
                 {| p_nv := 2; p_key := 2; p_entry := [21]; p_modules := [(21, OOk 5); (22, ONotEsm)]; p_deps := [] |} ];
     w_top := [1]; w_hashes := [(11, 1); (12, 1); (21, 1)]; w_js := [11; 12; 21]; w_first := true |}.
Definition w_ok_edited : world :=
  {| w_pkgs := [ {| p_nv := 1; p_key := 1; p_entry := [11]; p_modules := [(11, OOk 1); (12, OOk 7)]; p_deps := [2] |};
                 {| p_nv := 2; p_key := 2; p_entry := [21]; p_modules := [(21, OOk 5); (22, ONotEsm)]; p_deps := [] |} ];
     w_top := [1]; w_hashes := [(11, 1); (12, 2); (21, 1)]; w_js := [11; 12; 21]; w_first := true |}.

Example C12_nonvacuous :
  let c := cache_after (Some []) w_ok in
  handled None w_ok = [1; 2]
  /\ cache_soundb c w_ok = true
  /\ map (fun s => out_of (slot_of w_ok (final_result (Some c) w_ok) s)) [11; 12; 21; 22] = [Some 1; Some 2; Some 5; None]
  /\ cache_soundb c w_ok_edited = true
  /\ map (fun s => out_of (slot_of w_ok_edited (final_result (Some c) w_ok_edited) s)) [11; 12; 21] = [Some 1; Some 7; Some 5]
  /\ map fst (cache_after (Some c) w_ok_edited) = [1; 2].
Proof. repeat split; vm_compute; reflexivity. Qed.
