(* C01 — a built graph is exactly the dependency closure of its roots.
   Stage B1 of the builder model; the model is compared with the real builder
   on every run (full structural equality of entries incl. structured errors
   with referrers, redirects, per-module dependency lists with code/type
   targets, attributes and dynamic flags, configured imports, loader calls).

   Proved: NOTHING REACHABLE IS ABSENT (C01_complete): after a completed build
   from an empty graph, every root, every configured type-import target and
   every followed dependency target (code and type side as recorded, dynamic
   ones unless skip_dynamic_deps; the types dependency) of every module entry
   is settled: following the recorded redirects from it reaches an entry - for
   EVERY world (any loader answers, redirect chains and loops, faults), graph
   kind and option set, by an invariant over every step of the build loop
   (Proofs/ClosureProofs.v).  Also: at most one entry per specifier, no pending
   entry (C03), recorded dependencies are the real parser's declaration
   adjusted only by the graph kind.
   NOT yet proved (PARTIAL): the converse "nothing unreachable is present"
   (C01_sound); it is checked per case by the correspondence with the real
   builder (the model's graph equals the real one) and by the C15 walk. *)
From DG Require Import Base.Util Base.Sexp Model.Graph Model.Builder Proofs.BuilderProofs Proofs.ChecksumProofs
  Proofs.ClosureProofs.

(* [forall s r, class_of W s <> SNpm r]: the build has no npm resolver (no specifier is handed to one).
   With a resolver an npm: specifier has no entry until the resolver stage at the very end of the
   build; that stage is in the model (Builder.npm_resolve / npm_fill), is compared with the real
   builder per case, and is covered by the no-pending theorems, but not by this one. *)
Theorem C01_complete : forall W o, (forall s r, class_of W s <> SNpm r) -> forall k roots imports g',
  w_lock W = None ->
  build W o (empty_bgraph k) roots imports = Some g' ->
  (forall r, In r roots -> Settled g' r) /\
  (forall t, In t (import_targets imports) -> Settled g' t) /\
  (forall s m, lookup s (bg_slots g') = Some (BMod m) ->
     (forall d t rg, In d (m_deps m) -> (d_dyn d && bo_skip_dynamic o) = false ->
        d_code d = ROk t rg \/ d_type d = ROk t rg -> Settled g' t) /\
     (forall td t rg, m_types_dep m = Some td -> td_res td = ROk t rg -> Settled g' t)).
Proof. exact build_complete. Qed.
Print Assumptions C01_complete.

(* Settled g t unfolds to: t has an entry, or t is redirected to a settled specifier *)
Theorem C01_settled_unfold : forall g t,
  Settled g t <-> (has_key t (bg_slots g) = true \/
                   exists r, lookup t (bg_redirects g) = Some r /\ Settled g r).
Proof.
  intros g t. unfold Settled. split.
  - intro H. destruct H as [t Hk | t [] | t r Hl Hr]; [left; exact Hk | right; exists r; split; assumption].
  - intros [Hk|[r [Hl Hr]]]; [apply SX_slot; exact Hk | eapply SX_red; eassumption].
Qed.
Print Assumptions C01_settled_unfold.


Theorem C01_single_entry_step : forall (l : list (spec * bslot)) k v,
  NoDup (map fst l) -> NoDup (map fst (set_assoc k v l)).
Proof.
  intros l k v. induction l as [|[k' v'] l IH]; intro H; cbn [set_assoc map fst].
  - constructor; [intros [] | constructor].
  - destruct (N.eqb k k') eqn:E.
    + apply N.eqb_eq in E. subst. exact H.
    + cbn [map fst]. inversion H as [|? ? Hn Hd]; subst. constructor; [|apply IH; exact Hd].
      intro Hin. apply Hn. clear -Hin E. induction l as [|[k2 v2] l IHl]; cbn [set_assoc map fst] in *.
      * destruct Hin as [Hin|[]]. apply N.eqb_neq in E. congruence.
      * destruct (N.eqb k k2) eqn:E2; cbn [map fst In] in *.
        -- apply N.eqb_eq in E2. subst. exact Hin.
        -- destruct Hin as [Hin|Hin]; [left; exact Hin | right; apply IHl; exact Hin].
Qed.
Print Assumptions C01_single_entry_step.

(* the dependencies recorded for a module are its declared ones; only the
   graph kind clears a side of a dependency *)
Theorem C01_recorded_dep : forall W o st da st' d',
  visit_dep W o st da = (st', d') ->
  d_text d' = d_text (fst da) /\ d_dyn d' = d_dyn (fst da) /\ d_attr d' = d_attr (fst da) /\
  (d_code d' = d_code (fst da) \/ d_code d' = RNone) /\
  (d_type d' = d_type (fst da) \/ d_type d' = RNone) /\
  (include_code (bo_kind o) = true -> d_code d' = d_code (fst da)) /\
  (include_types (bo_kind o) = true -> d_type d' = d_type (fst da)).
Proof.
  intros W o st [d a] st' d' H. unfold visit_dep in H. cbn [fst snd] in *.
  destruct (d_dyn d && bo_skip_dynamic o).
  - inversion H; subst. repeat split; auto.
  - inversion H; subst; clear H. cbn.
    destruct (include_code (bo_kind o)); destruct (include_types (bo_kind o)); cbn;
      destruct (is_rnone (d_type d)); cbn; repeat split; auto; intro; discriminate.
Qed.
Print Assumptions C01_recorded_dep.

Theorem C01_nothing_pending : forall W o g roots imports g',
  no_pending (bg_slots g) -> build W o g roots imports = Some g' -> no_pending (bg_slots g').
Proof. exact build_no_pending. Qed.
Print Assumptions C01_nothing_pending.

(* Non-vacuity: diamond 1 -> {2, 3} -> 4 with a dynamic edge 1 -> 5 and a type-only edge 2 -> 6. *)
Definition c01_dep (t : N) (c ty : res) (dyn : bool) : dep * dflags :=
  ({| d_text := t; d_filelike := false; d_code := c; d_type := ty; d_dyn := dyn;
      d_deno_types := false; d_attr := 0 |}, plain_dep).
Definition c01_mod (s : spec) (ds : list (dep * dflags)) : spec * wresp :=
  (s, WModule s {| wm_hash_raw := 0; wm_hash_text := 0; wm_media := MTypeScript; wm_parse_ok := true; wm_kind := MkJs; wm_deps := ds; wm_tdep := None |}).
Definition c01_world : world :=
  {| w_resp := [c01_mod 1 [c01_dep 10 (ROk 2 0) RNone false; c01_dep 11 (ROk 3 0) RNone false;
                           c01_dep 12 (ROk 5 0) RNone true];
                c01_mod 2 [c01_dep 13 (ROk 4 0) RNone false; c01_dep 14 RNone (ROk 6 0) false];
                c01_mod 3 [c01_dep 15 (ROk 4 0) RNone false];
                c01_mod 4 []; c01_mod 5 []; c01_mod 6 []; c01_mod 7 []];
     w_resp_reload := []; w_http := []; w_lock := None; w_class := []; w_file := []; w_max_redirects := 10; w_wasm_ext := []; w_wasm_nodts := []; w_npm := None |}.
Definition c01_opts (k : gkind) : bopts :=
  {| bo_kind := k; bo_is_dynamic := false; bo_skip_dynamic := false; bo_unstable_bytes := false;
     bo_unstable_text := false; bo_unstable_css := false |}.
Example C01_nonvacuous :
  option_map (fun g => sort_n (map fst (bg_slots g))) (build c01_world (c01_opts KAll) (empty_bgraph KAll) [1] [])
    = Some [1; 2; 3; 4; 5; 6] /\
  option_map (fun g => sort_n (map fst (bg_slots g))) (build c01_world (c01_opts KCodeOnly) (empty_bgraph KCodeOnly) [1] [])
    = Some [1; 2; 3; 4; 5].
Proof. split; vm_compute; reflexivity. Qed.

(* ---------- stage B2: the registry (JSR) paths, Model/Jsr.v ----------
   NOTHING REACHABLE IS ABSENT, for every registry world (any answers of the
   loader and the registry, with or without a restart): after a completed build
   every root and every dependency target of every module entry is settled -
   following the recorded redirects from it reaches an entry (a module, an
   external module or an error entry).  For a jsr: specifier that means: it has
   an error entry, or a redirect to the export URL, which is settled in turn.
   Invariant over every step of the build loop (Proofs/JsrClosure.v): module
   entries and requested specifiers are settled up to the specifiers whose
   settling is still queued (pending jsr: resolutions, dynamic branches); queued
   loads are for distinct specifiers that have an entry and no redirect. *)
From DG Require Model.Jsr Proofs.JsrClosure.

Theorem C01_registry_complete : forall W o roots g,
  Jsr.jbuild W o roots = Some g ->
  (forall r, In r roots -> JsrClosure.SettledJ g r) /\
  (forall s src deps d, lookup s (Jsr.jg_slots g) = Some (Jsr.JsMod src deps) -> In d deps ->
     JsrClosure.SettledJ g (Jsr.jd_target d)).
Proof. exact JsrClosure.jbuild_complete. Qed.
Print Assumptions C01_registry_complete.

(* SettledJ g t unfolds to: t has an entry, or t is redirected to a settled specifier *)
Theorem C01_registry_settled_unfold : forall g t,
  JsrClosure.SettledJ g t <-> (has_key t (Jsr.jg_slots g) = true \/
                               exists r, lookup t (Jsr.jg_redirects g) = Some r /\ JsrClosure.SettledJ g r).
Proof.
  intros g t. unfold JsrClosure.SettledJ. split.
  - intro H. destruct H as [t Hk | t [] | t r Hl Hr]; [left; exact Hk | right; exists r; split; assumption].
  - intros [Hk|[r [Hl Hr]]]; [apply JsrClosure.SJ_slot; exact Hk | eapply JsrClosure.SJ_red; eassumption].
Qed.
Print Assumptions C01_registry_settled_unfold.

(* ---------- second layer: recorded dependencies as a function of the analysis (Model/Decl.v) ----------
   One entry per specifier text; for modules that are not declaration files the code target is
   the resolution of the FIRST code import of the text, and STATIC WINS: the entry is dynamic
   exactly when every code import of the text is dynamic - whatever the order of the imports. *)
From DG Require Model.Decl Proofs.DeclProofs.

Theorem C01_one_entry_per_text : forall T o ds, NoDup (map Decl.da_text (Decl.declared T o ds)).
Proof. exact DeclProofs.declared_nodup. Qed.
Print Assumptions C01_one_entry_per_text.

Theorem C01_static_wins : forall T o ds a,
  Decl.do_decl o = false -> In a (Decl.declared T o ds) ->
  match DeclProofs.code_imports (Decl.da_text a) ds with
  | [] => Decl.da_code a = Decl.DNone
  | i :: _ => Decl.da_code a = Decl.resolve_in (Decl.rt_exec T) (Decl.ds_text i) (Decl.ds_range i) /\
              Decl.da_dyn a = forallb Decl.ds_dyn (DeclProofs.code_imports (Decl.da_text a) ds)
  end.
Proof. exact DeclProofs.declared_static_wins. Qed.
Print Assumptions C01_static_wins.

(* Non-vacuity: text 1 imported dynamically first, then statically: the entry is static. *)
Example C01_static_wins_example :
  let d dyn rg := {| Decl.ds_text := 1; Decl.ds_kind := Decl.IkEs; Decl.ds_dyn := dyn; Decl.ds_attr := 0; Decl.ds_side := false;
                     Decl.ds_range := rg; Decl.ds_types := None |} in
  map (fun a => (Decl.da_text a, Decl.da_dyn a, Decl.da_code a))
      (Decl.declared {| Decl.rt_exec := [(1, Decl.OTarget 9)]; Decl.rt_types := [(1, Decl.OTarget 9)] |}
                     {| Decl.do_types := true; Decl.do_decl := false; Decl.do_typed := true |} [d true 5; d false 6])
  = [(1, false, Decl.DOk 9 5)].
Proof. vm_compute. reflexivity. Qed.

(* the whole declaration (triple-slash references, self types, JSX import source, JSDoc imports and the
   types header are entered before the descriptors) reduces to the descriptor fold when there are none *)
Theorem C01_declaration_without_extras : forall T fo ds,
  Decl.declared_full T fo Decl.no_extras ds = (None, Decl.declared T (Decl.fo_base fo) ds).
Proof. exact DeclProofs.declared_full_no_extras. Qed.
Print Assumptions C01_declaration_without_extras.

(* ---------- "nothing unreachable is present" is FALSE for the registry stage (finding F-C01a) ----------
   With embedded module info the dependencies of a package file are followed before its content
   arrives; when the content load then fails the file's entry becomes an error entry (no
   dependencies) and what was reached only through it stays in the graph.  Witness: jsr:@s/a@1 (1)
   -> mod.ts (2) whose embedded info imports dep.ts (3); the cache-only probe of mod.ts misses and
   its content load finds nothing.  Under the relaxation "an error entry of a package file still
   counts the dependencies its embedded info declared" nothing is unreachable - that relaxation is
   the known class the per-case judgement uses. *)
From DG Require Model.RunJsr.

Definition c01j_world : Jsr.jworld :=
  {| Jsr.jw_cls := [(1, Jsr.CJsr 1 1 1); (2, Jsr.CFile 1 1 1); (3, Jsr.CFile 1 1 2)];
     Jsr.jw_use := [(3, Jsr.JModule 3 {| Jsr.jm_hash := 11; Jsr.jm_ok := true; Jsr.jm_decl := false; Jsr.jm_deps := [] |})];
     Jsr.jw_only := [];
     Jsr.jw_pkgs := [(1, {| Jsr.p_url := 4; Jsr.p_use := Jsr.POk [(1, false)]; Jsr.p_reload := Jsr.POk [(1, false)] |})];
     Jsr.jw_vers := [((1, 1), {| Jsr.v_url := 5; Jsr.v_base := 6;
                                  Jsr.v_meta := Jsr.VOk {| Jsr.vi_hash := 9; Jsr.vi_lockfile_checksum := None;
                                                           Jsr.vi_exports := [(1, 2)];
                                                           Jsr.vi_manifest := [(1, Jsr.MSha 7); (2, Jsr.MSha 11)];
                                                           Jsr.vi_modinfo := [(1, [{| Jsr.jd_target := 3; Jsr.jd_range := 20; Jsr.jd_dyn := false |}])] |};
                                  Jsr.v_cached := false |})];
     Jsr.jw_match := [(1, [1])]; Jsr.jw_lock_pkg := None; Jsr.jw_lock_remote := []; Jsr.jw_http := [2; 3];
     Jsr.jw_missing_chk := 8; Jsr.jw_max_redirects := 10; Jsr.jw_seed := []; Jsr.jw_late := [] |}.

Theorem C01_registry_sound_refuted :
  exists W o roots g,
    Jsr.wf_jworld W = true /\ RunJsr.noalias_jworld W = true /\ Jsr.jbuild W o roots = Some g /\
    lookup 2 (Jsr.jg_slots g) = Some (Jsr.JsErr {| Jsr.je_kind := Jsr.EMissing; Jsr.je_spec := 2; Jsr.je_ref := None |}) /\
    lookup 3 (Jsr.jg_slots g) = Some (Jsr.JsMod 11 []) /\
    RunJsr.orphan_free W g roots false = false /\ RunJsr.orphan_free W g roots true = true.
Proof.
  exists c01j_world, {| Jsr.jo_prefer_cached := false |}, [1].
  destruct (Jsr.jbuild c01j_world {| Jsr.jo_prefer_cached := false |} [1]) as [g|] eqn:E; [|vm_compute in E; discriminate].
  exists g. vm_compute in E. inversion E; subst. vm_compute. repeat split; reflexivity.
Qed.
Print Assumptions C01_registry_sound_refuted.

(* F-C01c: "nothing unreachable is present" is FALSE for stage B1 even when every answer reports the requested
   specifier as the final one.  1 imports 2 and 4; 2 imports 3; 4 imports 2 at source phase.  2 is not
   WebAssembly, so the asset request of 4 files an error at 2 - replacing the module entry of 2, whose
   dependency 3 was already loaded: 3 stays in the graph and nothing leads to it.  (Model and real builder
   agree on this graph; the judgement below is what the C01 check evaluates on every alias-free world.) *)
From DG Require Model.RunJsrAll.
Definition c01c_dep (t : N) (target : spec) (rg : N) (fl : dflags) (attr : N) : dep * dflags :=
  ({| d_text := t; d_filelike := false; d_code := ROk target rg; d_type := RNone; d_dyn := false;
      d_deno_types := false; d_attr := attr |}, fl).
Definition c01c_mod (s : spec) (ds : list (dep * dflags)) : spec * wresp :=
  (s, WModule s {| wm_hash_raw := 0; wm_hash_text := 0; wm_media := MTypeScript; wm_parse_ok := true; wm_kind := MkJs; wm_deps := ds; wm_tdep := None |}).
Definition c01c_world : world :=
  {| w_resp := [c01c_mod 1 [c01c_dep 10 2 20 plain_dep 0; c01c_dep 11 4 21 plain_dep 0];
                c01c_mod 2 [c01c_dep 12 3 22 plain_dep 0];
                c01c_mod 3 [];
                c01c_mod 4 [c01c_dep 13 2 23 {| dfl_asset := true; dfl_sp := Some 23 |} 9]];
     w_resp_reload := []; w_http := []; w_lock := None; w_class := []; w_file := [1; 2; 3; 4]; w_max_redirects := 10;
     w_wasm_ext := []; w_wasm_nodts := []; w_npm := None |}.
Definition c01c_opts : bopts :=
  {| bo_kind := KAll; bo_is_dynamic := false; bo_skip_dynamic := false; bo_unstable_bytes := false;
     bo_unstable_text := false; bo_unstable_css := false |}.
Theorem C01_b1_sound_refuted :
  exists W o roots,
    RunJsrAll.noalias_world W = true /\
    match build W o (empty_bgraph (bo_kind o)) roots [] with
    | Some g => has_key 3 (bg_slots g) = true /\
                lookup 2 (bg_slots g) = Some (BErr (BSourcePhase 2 23)) /\
                RunJsrAll.b1_orphan_free W g roots false = false /\
                RunJsrAll.b1_orphan_free W g roots true = true
    | None => False
    end.
Proof. exists c01c_world, c01c_opts, [1]. vm_compute. repeat split; reflexivity. Qed.
Print Assumptions C01_b1_sound_refuted.

(* the per-case judgements of "nothing unreachable is present" mean what they say: when the extracted
   procedure answers true, every entry of the graph is reachable from the roots (and configured import
   targets) along recorded redirects and the recorded dependencies of module entries *)
From DG Require Proofs.ReachJudge.
Theorem C01_b1_judge_sound : forall W g starts,
  RunJsrAll.b1_orphan_free W g starts false = true ->
  forall s sl, In (s, sl) (bg_slots g) -> ReachJudge.Reaches (RunJsrAll.b1_edges W g false) starts s.
Proof. intros W g starts. exact (ReachJudge.b1_judge_sound W g starts false). Qed.
Print Assumptions C01_b1_judge_sound.

Theorem C01_registry_judge_sound : forall W g roots,
  RunJsr.orphan_free_gen W g roots false false = true ->
  forall s sl, In (s, sl) (Jsr.jg_slots g) -> ReachJudge.Reaches (RunJsr.graph_edges W g false false) roots s.
Proof. intros W g roots. exact (ReachJudge.registry_judge_sound W g roots false false). Qed.
Print Assumptions C01_registry_judge_sound.

(* The converse for stage B1: NOTHING UNREACHABLE IS PRESENT, for every world whose answers report the
   requested specifier as the final one (noalias_world) and whose modules declare no asset imports
   (noasset_world: no text / bytes / css imports and no source-phase-only imports - with them the statement
   is false, F-C01c above), with or without an npm resolver, for every graph kind, option set, root list and
   configured imports: after a completed build from the empty graph every entry is reachable from the roots
   and the configured import targets along the recorded redirects and the recorded dependencies and types
   dependency of module entries.  Proved by an invariant over every step of the build loop
   (Proofs/SoundProofs.v); the edges are those of the per-case judgement (b1_edges), so a world on which the
   judgement is evaluated and this theorem applies must be judged true. *)
From DG Require Proofs.SoundProofs.
Theorem C01_b1_sound : forall W o k roots imports g,
  RunJsrAll.noalias_world W = true -> SoundProofs.noasset_world W = true ->
  build W o (empty_bgraph k) roots imports = Some g ->
  forall s sl, In (s, sl) (bg_slots g) ->
    ReachJudge.Reaches (RunJsrAll.b1_edges W g false) (RunJsrAll.b1_starts roots imports) s.
Proof. exact SoundProofs.build_sound_b. Qed.
Print Assumptions C01_b1_sound.

(* non-vacuity: the diamond world of C01_nonvacuous meets the hypotheses *)
Example C01_b1_sound_nonvacuous :
  RunJsrAll.noalias_world c01_world = true /\ SoundProofs.noasset_world c01_world = true.
Proof. vm_compute. repeat split. Qed.
