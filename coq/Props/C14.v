(* C14 — redirect following terminates and all lookups agree with the walk.
   Property theorems only; proofs in Proofs/ResolveProofs.v.

   Full statement: for EVERY graph and specifier s, resolve is idempotent and
   get / contains / try_get agree with what a walk reaches from s, and
   specifiers() lists every redirect source with what it reaches.  That
   statement is FALSE of the faithful model (and of the real code): see the
   four *_refuted theorems (known findings F-C14a..d).  What is proved is the
   statement for chains that reach a non-redirect key within 9 hops
   (ChainTo n s e, n <= 9) none of whose intermediate specifiers owns an entry
   (NoShadow), and the one-hop form for specifiers(). *)
From Coq Require Import Arith.
From DG Require Import Base.Util Base.Sexp Base.Reach Model.Graph Model.Walk Model.RunC15 Model.RunC02
  Model.RunC14 Proofs.ResolveProofs.

Theorem C14_resolve_terminates : forall f g s,
  (MAX_REDIRECTS <= f)%nat -> resolve_f f g s = resolve g s.
Proof. exact resolve_total. Qed.
Print Assumptions C14_resolve_terminates.

Theorem C14_resolve_reaches_end : forall g n s e,
  ChainTo g n s e -> (n <= 9)%nat -> resolve g s = e.
Proof. exact resolve_chain. Qed.
Print Assumptions C14_resolve_reaches_end.

Theorem C14_idempotent : forall g n s e,
  ChainTo g n s e -> (n <= 9)%nat -> resolve g (resolve g s) = resolve g s.
Proof. exact resolve_idempotent. Qed.
Print Assumptions C14_idempotent.

Theorem C14_walk_end : forall g n s e,
  ChainTo g n s e -> NoShadow g n s -> walk_end g s = end_entry g e.
Proof. exact walk_end_chain. Qed.
Print Assumptions C14_walk_end.

Theorem C14_agree : forall g n s e,
  ChainTo g n s e -> (n <= 9)%nat -> NoShadow g n s ->
  get g s = match walk_end g s with
            | Some x => match slot_of g x with Some (SMod m) => Some m | _ => None end
            | None => None end /\
  (contains g s = true <-> exists x m, walk_end g s = Some x /\ slot_of g x = Some (SMod m)) /\
  try_get g s = match walk_end g s with
                | Some x => match slot_of g x with
                            | Some (SMod m) => TOkMod m
                            | Some (SErr _ er) => TErr er
                            | _ => TOkNone end
                | None => TOkNone end.
Proof. exact lookups_agree. Qed.
Print Assumptions C14_agree.

Theorem C14_specifiers_one_hop : forall g a b sl,
  redirect_of g a = Some b -> slot_of g b = Some sl -> slot_visible sl = true ->
  NoDup (map fst (g_redirects g)) -> In (a, b) (specifiers g).
Proof. exact specifiers_one_hop. Qed.
Print Assumptions C14_specifiers_one_hop.

Theorem C14_prefer_types : forall g d r,
  resolve_dependency_from_dep g d true = Some r ->
  exists u m, dep_first_target d true = Some u /\ slot_of g (resolve g u) = Some (SMod m) /\
    ((exists t, types_dep_target m = Some t /\ is_mod_slot g (resolve g t) = true /\ r = resolve g t) \/
     (r = resolve g u /\
      (types_dep_target m = None \/
       exists t, types_dep_target m = Some t /\ is_mod_slot g (resolve g t) = false))).
Proof. exact resolve_dependency_prefer_types. Qed.
Print Assumptions C14_prefer_types.

Theorem C14_prefer_code : forall g d r,
  resolve_dependency_from_dep g d false = Some r ->
  exists u, dep_first_target d false = Some u /\ r = resolve g u /\ is_mod_slot g r = true.
Proof. exact resolve_dependency_code. Qed.
Print Assumptions C14_prefer_code.

(* ---------- refutations of the unrestricted statement (known findings) ---------- *)

Definition mk_graph (slots : list (spec * slot)) (reds : list (spec * spec)) : graph :=
  {| g_kind := KAll; g_roots := []; g_slots := slots; g_redirects := reds; g_imports := []; g_schemes := []; g_has_node := false; g_errkinds := [] |}.
Definition plain_mod (s : spec) : slot :=
  SMod {| m_kind := MkJs; m_spec := s; m_media := MTypeScript; m_deps := []; m_types_dep := None; m_fc_deps := None; m_dts := false |}.

(* F-C14a: on a redirect cycle resolve is not idempotent *)
Theorem C14_cycle_refuted : exists g s, resolve g (resolve g s) <> resolve g s.
Proof. exists (mk_graph [] [(1, 2); (2, 1)]), 1. vm_compute. discriminate. Qed.
Print Assumptions C14_cycle_refuted.

(* F-C14b: a chain of 10 hops (which a loader may produce: 10 redirects) ends at a
   module the walk reaches, but get misses it and resolve is not idempotent *)
Definition ten_hops : graph :=
  mk_graph [(11, plain_mod 11)]
           [(1,2);(2,3);(3,4);(4,5);(5,6);(6,7);(7,8);(8,9);(9,10);(10,11)].
Theorem C14_ten_hops_refuted :
  walk_end ten_hops 1 = Some 11 /\ get ten_hops 1 = None /\
  resolve ten_hops (resolve ten_hops 1) <> resolve ten_hops 1.
Proof. repeat split; vm_compute; try reflexivity; discriminate. Qed.
Print Assumptions C14_ten_hops_refuted.

(* F-C14c: specifiers() omits the source of a two-hop chain that reaches a module *)
Definition two_hops : graph := mk_graph [(3, plain_mod 3)] [(1, 2); (2, 3)].
Theorem C14_specifiers_two_hops_refuted :
  walk_end two_hops 1 = Some 3 /\ get two_hops 1 <> None /\
  ~ In 1 (map fst (specifiers two_hops)).
Proof.
  repeat split; try (vm_compute; reflexivity); try (vm_compute; discriminate).
  vm_compute. intros [H|[H|[]]]; discriminate.
Qed.
Print Assumptions C14_specifiers_two_hops_refuted.

(* F-C14d: an entry at a specifier that is also a redirect source (the builder
   produces this from a multi-hop lockfile chain): the walk stops at the entry,
   the lookups follow the redirect *)
Definition shadow : graph := mk_graph [(2, SErr (Some 2) 9); (3, plain_mod 3)] [(1, 2); (2, 3)].
Theorem C14_shadow_refuted :
  walk_end shadow 1 = Some 2 /\ try_get shadow 1 = TOkMod {| m_kind := MkJs; m_spec := 3; m_media := MTypeScript;
                                                            m_deps := []; m_types_dep := None; m_fc_deps := None; m_dts := false |}.
Proof. split; vm_compute; reflexivity. Qed.
Print Assumptions C14_shadow_refuted.

(* Non-vacuity: 1-, 2- and 9-hop chains and a failed chain satisfy the hypotheses of C14_agree *)
Definition nine_hops : graph :=
  mk_graph [(10, plain_mod 10); (21, SErr None 5)]
           [(1,2);(2,3);(3,4);(4,5);(5,6);(6,7);(7,8);(8,9);(9,10);(20,21)].
Example C14_nonvacuous :
  ChainTo nine_hops 9 1 10 /\ NoShadow nine_hops 9 1 /\ resolve nine_hops 1 = 10 /\
  ChainTo nine_hops 1 20 21 /\ NoShadow nine_hops 1 20 /\ try_get nine_hops 20 = TErr 5.
Proof.
  repeat split; try (vm_compute; reflexivity);
    repeat (first [ apply CT_end; vm_compute; reflexivity
                  | eapply CT_hop; [vm_compute; reflexivity|]
                  | apply NS_end
                  | eapply NS_hop; [vm_compute; reflexivity | vm_compute; reflexivity |] ]).
Qed.
