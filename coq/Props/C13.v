(* C13 (a) property theorems *)
From DG Require Import Base.Util Base.Sexp Model.Codec Proofs.CodecProofs.
