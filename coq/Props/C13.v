(* C13 (a) — module information survives serialisation; moduleGraph1 manifests are
   upgraded without losing @deno-types information.
   Property theorems only; proofs in Proofs/CodecProofs.v.  Part (b) of C13 (the
   manifest shortcut equals parsing) needs the builder model and is not claimed here.

   Model: Model/Codec.v — the serde codec of analysis::ModuleInfo at serde_json::Value
   level (enc_module_info / dec_module_info, every attribute of analysis.rs:18-290
   transcribed), module_graph_1_to_2 (upgrade_v1) and
   JsrPackageVersionInfo::module_info (pkg_module_info).  find_deno_types (a regex)
   is a parameter [fdt]: the theorems hold for every such function; the check
   supplies the real function's answers as a table. *)
From DG Require Import Base.Util Base.Sexp Model.Codec Proofs.CodecProofs Proofs.CodecUnordered.

(* Round trip.  WfInfo: attribute maps have distinct keys (they are HashMaps in Rust);
   under it the encoding is a JSON value with distinct object keys, i.e. one that a
   serde_json::Value can be, and decoding it gives back an info equal to the original
   up to the order of attribute-map keys (info_eq).  In the model the order is even
   preserved: C13_roundtrip_exact. *)
Theorem C13_roundtrip : forall mi, WfInfo mi ->
  json_wfb (enc_module_info mi) = true /\
  exists mi', dec_module_info (enc_module_info mi) = Some mi' /\ info_eq mi mi' /\ WfInfo mi'.
Proof. exact roundtrip. Qed.
Print Assumptions C13_roundtrip.

Theorem C13_roundtrip_exact : forall mi, dec_module_info (enc_module_info mi) = Some mi.
Proof. exact dec_module_info_enc. Qed.
Print Assumptions C13_roundtrip_exact.

(* The real serializer emits struct fields in its own order and attribute maps in HashMap
   iteration order, and serde_json::Value compares objects as maps.  So the statement that
   matters for the real encoding is the one up to key order: EVERY JSON value with distinct
   keys that equals the model's encoding as an unordered value (jeqv) decodes to the info,
   up to attribute-map order. *)
Theorem C13_roundtrip_unordered : forall mi j,
  WfInfo mi -> json_wfb j = true -> jeqv (enc_module_info mi) j ->
  exists mi', dec_module_info j = Some mi' /\ info_eq mi mi' /\ WfInfo mi'.
Proof. exact roundtrip_unordered. Qed.
Print Assumptions C13_roundtrip_unordered.

(* Corollary: no two analysis results share an encoding (nothing is lost, in particular
   none of the skip_serializing_if / default pairs conflates two values). *)
Theorem C13_enc_injective : forall a b, enc_module_info a = enc_module_info b -> a = b.
Proof. exact enc_module_info_injective. Qed.
Print Assumptions C13_enc_injective.

Theorem C13_enc_injective_unordered : forall a b,
  WfInfo a -> WfInfo b -> jeqv (enc_module_info a) (enc_module_info b) -> info_eq a b.
Proof. exact enc_injective_unordered. Qed.
Print Assumptions C13_enc_injective_unordered.

(* moduleGraph1 upgrade of one dependency object [JObj dm] whose leadingComments all
   deserialise and whose last comment matches find_deno_types with text t and byte
   range a..b: "leadingComments" is gone, "typesSpecifier" is the pragma's text with the
   range computed from the comment's start, every other key is untouched ... *)
Theorem C13_v1_upgrade_keys : forall fdt dm cs s,
  leading_comments dm = Some cs -> analyze_deno_types fdt cs = Some s ->
  exists dm', upgrade_dep fdt (JObj dm) = JObj dm' /\
    jget k_typesSpecifier dm' = Some (enc_swr s) /\
    jget k_leadingComments dm' = None /\
    (forall k, k <> k_typesSpecifier -> k <> k_leadingComments -> jget k dm' = jget k dm).
Proof. exact upgrade_dep_keys. Qed.
Print Assumptions C13_v1_upgrade_keys.

(* ... and it decodes to the v1 dependency with types_specifier = Some {text := t; range := ..}
   and all other fields unchanged. *)
Theorem C13_v1_upgrade : forall fdt dm cs c t a b d,
  leading_comments dm = Some cs -> last_opt cs = Some c -> fdt (c_text c) = Some (t, a, b) ->
  dec_desc (JObj dm) = Some d ->
  dec_desc (upgrade_dep fdt (JObj dm)) = Some (with_types (Some (deno_types_swr c t a b)) d).
Proof. exact v1_upgrade_pragma. Qed.
Print Assumptions C13_v1_upgrade.

(* the same without assuming that the v1 object decodes on its own (a typesSpecifier
   it may already carry is replaced) *)
Theorem C13_v1_upgrade_general : forall fdt dm cs s,
  leading_comments dm = Some cs -> analyze_deno_types fdt cs = Some s ->
  dec_desc (upgrade_dep fdt (JObj dm)) =
  option_map (with_types (Some s)) (dec_desc (JObj (sremove k_typesSpecifier dm))).
Proof. exact v1_upgrade_general. Qed.
Print Assumptions C13_v1_upgrade_general.

(* comments without a pragma on the last one are dropped and nothing else changes *)
Theorem C13_v1_no_pragma : forall fdt dm cs,
  leading_comments dm = Some cs -> analyze_deno_types fdt cs = None ->
  dec_desc (upgrade_dep fdt (JObj dm)) = dec_desc (JObj dm).
Proof. exact v1_no_pragma. Qed.
Print Assumptions C13_v1_no_pragma.

(* module level: only the dependencies change, one by one; an entry that is already in
   moduleGraph2 shape (no leadingComments) is returned as it is *)
Theorem C13_v1_module : forall fdt m deps,
  jget k_dependencies m = Some (JArr deps) ->
  dec_module_info (upgrade_v1 fdt (JObj m)) =
  match dec_module_info (JObj (sremove k_dependencies m)), map_opt dec_desc (map (upgrade_dep fdt) deps) with
  | Some mi0, Some ds => Some (set_deps ds mi0)
  | _, _ => None
  end.
Proof. exact v1_module. Qed.
Print Assumptions C13_v1_module.

Theorem C13_v1_untouched : forall fdt d,
  (forall dm, d = JObj dm -> leading_comments dm = None) -> upgrade_dep fdt d = d.
Proof. exact v1_untouched. Qed.
Print Assumptions C13_v1_untouched.

(* The judgements the check evaluates on the REAL outputs are the declarative statements:
   - on the real to_value(mi): the model decoder gives back mi up to map order; *)
Theorem C13_roundtrip_holdsb_correct : forall mi j, WfInfo mi ->
  (roundtrip_holdsb mi j = true <-> RoundtripHolds mi j).
Proof. exact roundtrip_holdsb_iff. Qed.
Print Assumptions C13_roundtrip_holdsb_correct.

(* - on what the real module_info() returned for a moduleGraph1 entry: every dependency
     whose last leading comment carries the pragma has exactly that types specifier; *)
Theorem C13_v1_holdsb_correct : forall fdt j r, v1_holdsb fdt j r = true <-> V1Holds fdt j r.
Proof. exact v1_holdsb_iff. Qed.
Print Assumptions C13_v1_holdsb_correct.

(*   and the model itself satisfies it for every entry and every find_deno_types. *)
Theorem C13_v1_model_holds : forall fdt j r,
  dec_module_info (upgrade_v1 fdt j) = Some r -> V1Holds fdt j r.
Proof. exact model_v1_holds. Qed.
Print Assumptions C13_v1_model_holds.

(* Non-vacuity: a module with a static dependency carrying attributes and a types
   specifier, a dynamic template import, a types reference with resolution mode and a
   jsdoc import round-trips; and the v1 entry of the crate's own test
   (tests/specs/graph/jsr/module_graph_info_1_leading_comments.txt) upgrades to
   types_specifier "./a.d.ts" at 0:15-0:25. *)
Definition c13_r (a b c d : N) : prange :=
  {| r_start := {| p_line := a; p_char := b |}; r_end := {| p_line := c; p_char := d |} |}.
Definition c13_info : minfo :=
  {| mi_script := true;
     mi_deps := [DStatic {| sd_kind := SkImportType; sd_types := Some {| s_text := [46; 47; 116]; s_range := c13_r 0 1 0 9 |};
                            sd_spec := [46; 47; 97]; sd_range := c13_r 1 2 3 4; sd_side := true;
                            sd_attrs := IAKnownMap [(k_type, IAKnown [106; 115; 111; 110]); ([120], IAUnknown)] |};
                 DDynamic {| dd_kind := DkRequire; dd_types := None;
                             dd_arg := DaTemplate [TpString [46; 47]; TpExpr]; dd_range := c13_r 5 0 5 7;
                             dd_attrs := IAUnknownKeys |}];
     mi_tsrefs := [TrTypes {| s_text := [110]; s_range := c13_r 0 0 0 1 |} (Some RmRequire)];
     mi_self := None; mi_jsx := Some {| s_text := [112]; s_range := range0 |}; mi_jsxt := None;
     mi_jsdoc := [{| jd_spec := {| s_text := [106]; s_range := range0 |}; jd_mode := Some RmImport |}];
     mi_smap := None |}.
(* " @deno-types=\"./a.d.ts\"" *)
Definition c13_comment_text : str :=
  [32; 64; 100; 101; 110; 111; 45; 116; 121; 112; 101; 115; 61; 34; 46; 47; 97; 46; 100; 46; 116; 115; 34].
Definition c13_fdt : fdt_fun :=
  fun s => if str_eqb s c13_comment_text then Some ([46; 47; 97; 46; 100; 46; 116; 115], 14, 22) else None.
Definition c13_v1_entry : json :=
  JObj [(k_dependencies, JArr [JObj [
    (k_type, JStr k_static); (k_kind, JStr k_import);
    (k_leadingComments, JArr [JObj [(k_text, JStr c13_comment_text); (k_range, enc_range (c13_r 0 0 0 25))]]);
    (k_specifier, JStr [46; 47; 97; 46; 106; 115]); (k_specifierRange, enc_range (c13_r 5 6 7 8));
    (k_range, enc_range (c13_r 5 0 7 8))]])].
Example C13_nonvacuous :
  wf_infob c13_info = true /\
  dec_module_info (enc_module_info c13_info) = Some c13_info /\
  option_map (fun mi => map desc_types (mi_deps mi)) (dec_module_info (upgrade_v1 c13_fdt c13_v1_entry)) =
    Some [Some {| s_text := [46; 47; 97; 46; 100; 46; 116; 115]; s_range := c13_r 0 15 0 25 |}] /\
  dec_module_info c13_v1_entry <> dec_module_info (upgrade_v1 c13_fdt c13_v1_entry).
Proof. repeat split; try (vm_compute; reflexivity). vm_compute. discriminate. Qed.
