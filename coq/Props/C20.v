(* C20 — module text and original bytes are faithful to what the loader supplied.
   Property theorems only; proofs in Proofs/TextProofs.v; model in Model/Text.v.

   Reading guide.  load_text hdr is_file other bytes  models
   new_source_with_text (src/graph.rs) for a module whose Content-Type header
   value is hdr (None: no header), whose URL scheme is file: iff is_file, and
   whose loader supplied bytes.  [other] is the answer of
   encoding_rs::Encoding::for_label + decode for a label that is not one of the
   UTF-8 / UTF-16LE / UTF-16BE labels (those are modelled): None = unsupported,
   Some (rule, cps) = supported, with the rule under which encoding_rs borrows
   the input and the decoded scalar values.  All theorems hold for EVERY value
   of [other], every header, every byte string (no bounds).

   Deviation from the sketch in DESIGN.md, forced by the code: DESIGN states
   "kind = Unchanged <-> utf8 label /\ valid /\ no BOM".  encoding_rs also
   borrows (hence deno_media_type reports Unchanged) for any ASCII-compatible
   legacy encoding when the input is pure ASCII, e.g. charset=windows-1252 on
   ASCII bytes (C20_other_label_ascii_unchanged below; seen on the real code in
   every run).  That is no violation of the property (the text IS the bytes);
   C20_unchanged_iff is therefore stated with [Borrows], which for a UTF-8
   label is exactly "the bytes are well-formed UTF-8". *)
From DG Require Import Base.Util Base.Sexp Model.Text Model.RunC20 Proofs.TextProofs.

(* "A request for a module's original bytes returns either nothing or exactly
   the byte sequence the loader supplied, never anything else."  This is the
   safety statement behind the unsafe Arc<str> -> Arc<[u8]> reinterpretation. *)
Theorem C20_original_bytes : forall hdr is_file other bytes s,
  load_text hdr is_file other bytes = Some s ->
  original_bytes s = None \/ original_bytes s = Some bytes.
Proof. exact original_bytes_faithful. Qed.
Print Assumptions C20_original_bytes.

(* "the stored source text is the decoding of the loaded bytes under the charset
   given by the content-type header, a byte-order mark, or UTF-8 by default,
   with a leading byte-order mark removed": the stored bytes are the UTF-8
   encoding of (WHATWG decoding to scalar values, one leading U+FEFF dropped),
   although the code never builds the scalar sequence when it borrows. *)
Theorem C20_text_is_decoding : forall hdr is_file other bytes s,
  load_text hdr is_file other bytes = Some s ->
  exists e, for_label (charset_label hdr is_file bytes) other = Some e /\
            s_text s = utf8_encode (strip_one_bom (whatwg_decode e bytes)).
Proof. exact text_is_decoding. Qed.
Print Assumptions C20_text_is_decoding.

(* which charset: the header parameter wins; otherwise remote modules are UTF-8
   and file: modules are sniffed for a UTF-16 BOM *)
Theorem C20_charset_header_wins : forall hdr is_file bytes l,
  header_charset hdr = Some l -> charset_label hdr is_file bytes = l.
Proof. exact charset_header_wins. Qed.
Print Assumptions C20_charset_header_wins.

Theorem C20_charset_remote_default : forall hdr bytes other,
  header_charset hdr = None -> for_label (charset_label hdr false bytes) other = Some EUtf8.
Proof. exact charset_remote_default. Qed.
Print Assumptions C20_charset_remote_default.

Theorem C20_charset_file_sniff : forall hdr bytes other,
  header_charset hdr = None ->
  for_label (charset_label hdr true bytes) other =
  Some (match bytes with
        | b0 :: b1 :: _ =>
            if (b0 =? 0xFF) && (b1 =? 0xFE) then EUtf16 false
            else if (b0 =? 0xFE) && (b1 =? 0xFF) then EUtf16 true else EUtf8
        | _ => EUtf8
        end).
Proof. exact charset_file_sniff. Qed.
Print Assumptions C20_charset_file_sniff.

(* the three decoded kinds, pinned to the inputs that take each branch *)
Theorem C20_unchanged_iff : forall hdr is_file other bytes s e,
  load_text hdr is_file other bytes = Some s ->
  for_label (charset_label hdr is_file bytes) other = Some e ->
  (s_kind s = Unchanged <-> Borrows e bytes /\ ~ StartsWithBom bytes).
Proof. exact unchanged_iff. Qed.
Print Assumptions C20_unchanged_iff.

Theorem C20_bom_only_iff : forall hdr is_file other bytes s e,
  load_text hdr is_file other bytes = Some s ->
  for_label (charset_label hdr is_file bytes) other = Some e ->
  (s_kind s = OnlyUtf8Bom <-> e = EUtf8 /\ ValidUtf8 bytes /\ StartsWithBom bytes).
Proof. exact bom_only_iff. Qed.
Print Assumptions C20_bom_only_iff.

Theorem C20_changed_iff : forall hdr is_file other bytes s e,
  load_text hdr is_file other bytes = Some s ->
  for_label (charset_label hdr is_file bytes) other = Some e ->
  (s_kind s = Changed <-> ~ Borrows e bytes).
Proof. exact changed_iff. Qed.
Print Assumptions C20_changed_iff.

(* "the reported size is the byte length of the stored text" (size()); the
   serialised `size` is that number as u32, i.e. equal below 4 GiB *)
Theorem C20_size : forall s,
  size s = N.of_nat (length (s_text s)) /\
  (size s < 4294967296 -> serialized_size s = N.of_nat (length (s_text s))).
Proof. exact size_is_text_length. Qed.
Print Assumptions C20_size.

(* "undecodable input becomes a decode error rather than a module": a decode
   error arises exactly when the label is unsupported (malformed bytes never
   fail, they decode to U+FFFD) *)
Theorem C20_undecodable : forall hdr is_file other bytes,
  load_text hdr is_file other bytes = None <->
  for_label (charset_label hdr is_file bytes) other = None.
Proof. exact undecodable_iff. Qed.
Print Assumptions C20_undecodable.

(* the stored text is well-formed UTF-8 (what makes Arc<str> sound), for byte
   input and an oracle that returns scalar values (Rust chars) *)
Theorem C20_text_valid : forall hdr is_file other bytes s,
  Forall IsByte bytes ->
  (forall r cps, other = Some (r, cps) -> Forall Scalar cps) ->
  load_text hdr is_file other bytes = Some s -> ValidUtf8 (s_text s).
Proof. exact text_valid. Qed.
Print Assumptions C20_text_valid.

(* the executable validator of the model decides the declarative notion used
   in the iffs: l is the UTF-8 encoding of some sequence of scalar values *)
Theorem C20_valid_utf8_iff : forall l, valid_utf8b l = true <-> ValidUtf8 l.
Proof. exact valid_utf8b_iff. Qed.
Print Assumptions C20_valid_utf8_iff.

(* the modelled decoders invert the encoders on scalar sequences *)
Theorem C20_utf8_roundtrip : forall cps, Forall Scalar cps -> utf8_decode (utf8_encode cps) = cps.
Proof. exact utf8_decode_encode. Qed.
Print Assumptions C20_utf8_roundtrip.

Theorem C20_utf16_roundtrip : forall be cps,
  Forall Scalar cps -> utf16_decode be (utf16_encode be cps) = cps.
Proof. exact utf16_decode_encode. Qed.
Print Assumptions C20_utf16_roundtrip.

(* the decision procedure evaluated on every observation of the REAL code is
   the property, and the model satisfies it *)
Theorem C20_holdsb_correct : forall m hdr is_file other bytes ob,
  c20_holdsb m hdr is_file other bytes ob = true <-> C20_Holds m hdr is_file other bytes ob.
Proof. exact holdsb_correct. Qed.
Print Assumptions C20_holdsb_correct.

Theorem C20_model_holds : forall m hdr is_file other bytes,
  C20_Holds m hdr is_file other bytes (obs_of (parse_module_model m hdr is_file other bytes)).
Proof. exact model_holds. Qed.
Print Assumptions C20_model_holds.

(* a text source made from an already decoded text (ModuleTextSource::new_unknown, used by
   parse_module_from_ast) never offers original bytes *)
Theorem C20_new_unknown : forall t,
  original_bytes (new_unknown t) = None /\ s_text (new_unknown t) = t.
Proof. exact new_unknown_no_original. Qed.
Print Assumptions C20_new_unknown.

(* ---- JSR packages whose version manifest carries the module info (deferred content fill) ----
   Full statement for that route: C20_Holds m hdr false other bytes (obs_of (jsr_fill_model m bytes))
   for every header the loader supplied with the content.  It is FALSE of the faithful model
   (C20_jsr_fill_ignores_header_refuted, known finding F-C20a, confirmed on the real code in every
   run): the route drops the response headers and always decodes as UTF-8.  Proved instead: the
   property holds whenever the header names no charset or a UTF-8 label, and the original-bytes
   guarantee holds unconditionally. *)
Theorem C20_jsr_fill_holds_outside_known_class : forall m hdr other bytes,
  c20_jsr_class hdr other bytes = false ->
  C20_Holds m hdr false other bytes (obs_of (jsr_fill_model m bytes)).
Proof. exact jsr_fill_holds_outside_class. Qed.
Print Assumptions C20_jsr_fill_holds_outside_known_class.

Theorem C20_jsr_fill_original_bytes : forall m bytes json s,
  jsr_fill_model m bytes = OModule json s ->
  original_bytes s = None \/ original_bytes s = Some bytes.
Proof. exact jsr_fill_original_bytes. Qed.
Print Assumptions C20_jsr_fill_original_bytes.

(* "text/javascript; charset=utf-16be" *)
Definition hdr_js_utf16be : list N :=
  [116; 101; 120; 116; 47; 106; 97; 118; 97; 115; 99; 114; 105; 112; 116; 59; 32; 99; 104; 97; 114; 115; 101; 116;
   61; 117; 116; 102; 45; 49; 54; 98; 101].

(* Known finding F-C20a: bytes 00 41 served with charset=utf-16be are "A"; the deferred fill stores
   the two bytes as UTF-8 text instead. *)
Theorem C20_jsr_fill_ignores_header_refuted :
  exists m hdr other bytes,
    c20_jsr_class hdr other bytes = true /\
    ~ C20_Holds m hdr false other bytes (obs_of (jsr_fill_model m bytes)).
Proof.
  exists MJs, (Some hdr_js_utf16be), None, [0x00; 0x41]. split; [vm_compute; reflexivity|].
  intro H. apply holdsb_correct in H. vm_compute in H. discriminate.
Qed.
Print Assumptions C20_jsr_fill_ignores_header_refuted.

(* ---- non-vacuity / worked examples (all three kinds, an error, a header) ---- *)

(* "application/json; a=b;  charset=bogus " *)
Definition hdr_json_bogus : list N :=
  [97; 112; 112; 108; 105; 99; 97; 116; 105; 111; 110; 47; 106; 115; 111; 110; 59; 32; 97; 61; 98; 59; 32; 32; 99;
   104; 97; 114; 115; 101; 116; 61; 98; 111; 103; 117; 115; 32].
(* "x; charset=windows-1252" *)
Definition hdr_w1252 : list N :=
  [120; 59; 32; 99; 104; 97; 114; 115; 101; 116; 61; 119; 105; 110; 100; 111; 119; 115; 45; 49; 50; 53; 50].

Example C20_nonvacuous :
  (* UTF-8 BOM + "A", local: BOM stripped, original bytes recoverable *)
  load_text None true None [0xEF; 0xBB; 0xBF; 0x41] = Some {| s_text := [0x41]; s_kind := OnlyUtf8Bom |} /\
  original_bytes {| s_text := [0x41]; s_kind := OnlyUtf8Bom |} = Some [0xEF; 0xBB; 0xBF; 0x41] /\
  (* plain valid UTF-8 (U+00E9), remote *)
  load_text None false None [0xC3; 0xA9] = Some {| s_text := [0xC3; 0xA9]; s_kind := Unchanged |} /\
  (* UTF-16LE BOM sniffed for a local file; the same bytes remote are (invalid) UTF-8 *)
  load_text None true None [0xFF; 0xFE; 0x41; 0x00] = Some {| s_text := [0x41]; s_kind := Changed |} /\
  load_text None false None [0xFF; 0xFE; 0x41; 0x00] =
    Some {| s_text := [0xEF; 0xBF; 0xBD; 0xEF; 0xBF; 0xBD; 0x41; 0x00]; s_kind := Changed |} /\
  (* header charset: a surrogate pair in UTF-16BE becomes U+1F600 *)
  load_text (Some hdr_js_utf16be) false None [0xD8; 0x3D; 0xDE; 0x00] =
    Some {| s_text := [0xF0; 0x9F; 0x98; 0x80]; s_kind := Changed |} /\
  (* truncated sequence: one U+FFFD; original bytes not offered *)
  load_text None false None [0x41; 0xE0; 0xA0] = Some {| s_text := [0x41; 0xEF; 0xBF; 0xBD]; s_kind := Changed |} /\
  original_bytes {| s_text := [0x41; 0xEF; 0xBF; 0xBD]; s_kind := Changed |} = None /\
  (* unsupported label (third parameter, spaces): decode error *)
  load_text (Some hdr_json_bogus) true None [0x41] = None.
Proof. repeat split; vm_compute; reflexivity. Qed.

(* the case DESIGN's sketch of C20_unchanged_iff overlooked: a legacy label on ASCII input *)
Example C20_other_label_ascii_unchanged :
  load_text (Some hdr_w1252) false (Some (BAscii, [0x41])) [0x41] = Some {| s_text := [0x41]; s_kind := Unchanged |} /\
  load_text (Some hdr_w1252) false (Some (BAscii, [0x41; 0xE9])) [0x41; 0xE9] =
    Some {| s_text := [0x41; 0xC3; 0xA9]; s_kind := Changed |}.
Proof. split; vm_compute; reflexivity. Qed.
