(* C03 — builds terminate with every reachable specifier settled under any faults.
   Stage B1 of the builder model (Model/Builder.v): URL / node / redirect /
   external / asset / deferred / dynamic / types / configured imports.
   JSR and npm registry faults are not in the model yet (partial).

   Proved here: whatever the world answers (any assignment of missing / error /
   redirect / external / unparsable / unsupported responses to every specifier),
   a completed build leaves no entry pending (C03_no_pending), by the invariant
   "every pending entry has a queued load" over every step of the build loop.
   Termination IS proved (C03_terminates, C03_loop_step_decreases): every
   iteration of the loop strictly decreases a natural-number measure (6 per
   specifier nothing is known about, 2 per asset-only entry or unawaited asset
   load in flight, 3 / 1 per queued asset / module load, 1 per deferred module
   load, plus the dynamic branches not collected yet), whatever the loader
   answers - redirect chains and cycles, modules answered under other final
   specifiers, checksum failures with their retry - and from whatever graph the
   build starts.  The model's loop runs on fuel computed from that measure, so
   [build] and [reload] never return None.  (Before the repair 50c93c4 the loop
   did NOT terminate: F-C03e.)  Panic-freedom, absence of INTERNAL ERROR in the
   serialised graph, error entries stored under their own specifier with a
   referrer, and fault locality are decided on the real code per case. *)
From DG Require Import Base.Util Base.Sexp Model.Graph Model.Builder Proofs.BuilderProofs Proofs.Termination.

Theorem C03_no_pending : forall W o g roots imports g',
  no_pending (bg_slots g) -> build W o g roots imports = Some g' -> no_pending (bg_slots g').
Proof. exact build_no_pending. Qed.
Print Assumptions C03_no_pending.


(* termination: a build (and a reload) returns, whatever the loader answers and whatever graph it starts from *)
Theorem C03_terminates : forall W o g roots imports,
  no_pending (bg_slots g) -> build W o g roots imports <> None.
Proof. exact build_terminates. Qed.
Print Assumptions C03_terminates.

Theorem C03_reload_terminates : forall W o g specs,
  no_pending (bg_slots g) -> reload W o g specs <> None.
Proof. exact reload_terminates. Qed.
Print Assumptions C03_reload_terminates.

(* the reason: one iteration of the loop strictly decreases the measure (U: duplicate-free, contains every
   specifier the world mentions; Ok: everything queued in the state is in U, and dynamic branches are only
   collected before they are followed) *)
Theorem C03_loop_step_decreases : forall W o U,
  NoDup U -> (forall x, In x (world_specs W) -> In x U) ->
  forall st, Ok U st -> PendInv None st -> idle st = false ->
  Ok U (loop_step W o st) /\ (tmeasure U (loop_step W o st) < tmeasure U st)%nat.
Proof. exact loop_step_decreases. Qed.
Print Assumptions C03_loop_step_decreases.

(* together: a build from the empty graph yields a graph, and it has no pending entry *)
Theorem C03_build_total : forall W o k roots imports,
  exists g, build W o (empty_bgraph k) roots imports = Some g /\ no_pending (bg_slots g).
Proof. exact build_from_empty_terminates. Qed.
Print Assumptions C03_build_total.

(* the invariant behind it, for one delivered load *)
Theorem C03_step_invariant : forall W o st, PendInv None st -> PendInv None (loop_step W o st).
Proof. exact loop_step_inv. Qed.
Print Assumptions C03_step_invariant.

(* every failure kind the loader can produce becomes an error entry stored under the error's own specifier *)
Theorem C03_error_entry : forall W o st it e calls,
  try_load W it = (PErr e, calls) ->
  lookup (berr_spec e) (st_slots (process W o st it)) = Some (BErr e).
Proof.
  intros W o st it e calls H. unfold process. rewrite H.
  unfold set_slot. cbn. apply lookup_set_assoc_same.
Qed.
Print Assumptions C03_error_entry.

(* Non-vacuity: root 1 imports 2 (a load error) and 3 (redirect loop 3 -> 4 -> 3). *)
Definition c03_dep (t : N) (target : spec) : dep * dflags :=
  ({| d_text := t; d_filelike := false; d_code := ROk target 7; d_type := RNone; d_dyn := false;
      d_deno_types := false; d_attr := 0 |}, plain_dep).
Definition c03_world : world :=
  {| w_resp := [(1, WModule 1 {| wm_hash_raw := 0; wm_hash_text := 0; wm_media := MTypeScript; wm_parse_ok := true; wm_kind := MkJs;
                                 wm_deps := [c03_dep 10 2; c03_dep 11 3]; wm_tdep := None |});
                (2, WError); (3, WRedirect 4); (4, WRedirect 3)];
     w_resp_reload := []; w_http := []; w_lock := None; w_class := []; w_file := []; w_max_redirects := 3; w_wasm_ext := []; w_wasm_nodts := []; w_npm := None |}.
Definition c03_opts : bopts :=
  {| bo_kind := KAll; bo_is_dynamic := false; bo_skip_dynamic := false; bo_unstable_bytes := false;
     bo_unstable_text := false; bo_unstable_css := false |}.
Example C03_nonvacuous :
  match build c03_world c03_opts (empty_bgraph KAll) [1] [] with
  | Some g => map fst (bg_slots g) = [1; 2; 4] /\ bg_redirects g = [(3, 4); (4, 3)] /\
              lookup 2 (bg_slots g) = Some (BErr (BLoad 2 (Some 7) 0)) /\
              lookup 4 (bg_slots g) = Some (BErr (BLoad 4 (Some 7) 1))
  | None => False
  end.
Proof. vm_compute. repeat split. Qed.

(* ---------- stage B2: the registry (JSR) paths, Model/Jsr.v ----------
   Whatever the registry and the loader answer - for package documents, version
   manifests (incl. undecodable ones and lockfile checksum mismatches), cache-only
   probes, content loads and package files (missing, error, redirect, external,
   a module under another final specifier, checksum mismatch), with or without a
   restart for a stale package document - a completed build leaves no entry
   pending and files every error entry under the specifier the error names. *)
From DG Require Model.Jsr Proofs.JsrProofs.

Theorem C03_registry_no_pending : forall W o roots g,
  Jsr.jbuild W o roots = Some g -> forall s, lookup s (Jsr.jg_slots g) <> Some Jsr.JsPending.
Proof. exact JsrProofs.jbuild_no_pending. Qed.
Print Assumptions C03_registry_no_pending.

Theorem C03_registry_errors_under_own_specifier : forall W o roots g,
  Jsr.wf_jworld W = true -> Jsr.jbuild W o roots = Some g ->
  forall s e, lookup s (Jsr.jg_slots g) = Some (Jsr.JsErr e) -> Jsr.je_spec e = s.
Proof. intros W o roots g Hwf Hb. exact (proj1 (JsrProofs.jbuild_jinv W Hwf o roots g Hb)). Qed.
Print Assumptions C03_registry_errors_under_own_specifier.

(* Non-vacuity: root 1 is jsr:@s/a@1 (class CJsr 1 1 1); package 1 lists version 1; the manifest of
   (1,1) exports "." to file 2 = https://jsr.io/@s/a/1.0.0/mod.ts with embedded module info; the
   cache-only probe misses and the content load is answered with a redirect to 3. *)
Definition c03j_world : Jsr.jworld :=
  {| Jsr.jw_cls := [(1, Jsr.CJsr 1 1 1); (2, Jsr.CFile 1 1 1); (3, Jsr.CFile 1 1 2)];
     Jsr.jw_use := [(2, Jsr.JRedirect 3)];
     Jsr.jw_only := [];
     Jsr.jw_pkgs := [(1, {| Jsr.p_url := 4; Jsr.p_use := Jsr.POk [(1, false)]; Jsr.p_reload := Jsr.POk [(1, false)] |})];
     Jsr.jw_vers := [((1, 1), {| Jsr.v_url := 5; Jsr.v_base := 6;
                                  Jsr.v_meta := Jsr.VOk {| Jsr.vi_hash := 9; Jsr.vi_lockfile_checksum := None;
                                                           Jsr.vi_exports := [(1, 2)]; Jsr.vi_manifest := [(1, Jsr.MSha 7)];
                                                           Jsr.vi_modinfo := [(1, [])] |};
                                  Jsr.v_cached := false |})];
     Jsr.jw_match := [(1, [1])]; Jsr.jw_lock_pkg := None; Jsr.jw_lock_remote := []; Jsr.jw_http := [2; 3];
     Jsr.jw_missing_chk := 8; Jsr.jw_max_redirects := 10; Jsr.jw_seed := []; Jsr.jw_late := [] |}.
Example C03_registry_nonvacuous :
  Jsr.wf_jworld c03j_world = true /\
  match Jsr.jbuild c03j_world {| Jsr.jo_prefer_cached := false |} [1] with
  | Some g => lookup 2 (Jsr.jg_slots g) = Some (Jsr.JsErr {| Jsr.je_kind := Jsr.ERedirectInPackage; Jsr.je_spec := 2; Jsr.je_ref := None |}) /\
              Jsr.jg_redirects g = [(1, 2)]
  | None => False
  end.
Proof. vm_compute. repeat split. Qed.
