(* C15 — a walk visits exactly the selected reachable set, each entry once.
   Property theorems only; proofs live in Proofs/WalkProofs.v. *)
From DG Require Import Base.Util Base.Sexp Base.Reach Model.Graph Model.Walk Proofs.WalkProofs.

(* The iterator always finishes (the model's fuel never runs out). *)
Theorem C15_terminates : forall g o skip roots, walk g o skip roots <> None.
Proof. exact walk_terminates. Qed.
Print Assumptions C15_terminates.

(* Each specifier is yielded at most once (roots given as a set). *)
Theorem C15_once : forall g o skip roots ys,
  NoDup roots -> walk g o skip roots = Some ys -> NoDup (map fst ys).
Proof. exact walk_once. Qed.
Print Assumptions C15_once.

(* Exactly the selected reachable set: [Sel] is the least set containing the
   roots and the configured imports' targets and closed under [Edge]
   (redirects; the types dependency of a JS module when types are included;
   code targets always and type targets when types are included, of the
   followed (static, or dynamic when requested) dependencies of every module
   that is handed out and whose dependencies the caller did not skip, taken
   from the fast-check dependencies when preferred and type-checked);
   [Yields] says which reached specifiers are handed out (error entries,
   redirect sources, modules not replaced by their types dependency or
   skipped as un-checkable in a types-only walk). *)
Theorem C15_exact : forall g o skip roots ys,
  NoDup roots -> walk g o skip roots = Some ys ->
  forall s, In s (map fst ys) <-> (Sel g o skip roots s /\ Yields g o s).
Proof. exact walk_exact. Qed.
Print Assumptions C15_exact.

(* What is handed out for s is the graph's own entry for s. *)
Theorem C15_entries : forall g o skip roots ys s e,
  walk g o skip roots = Some ys -> In (s, e) ys ->
  match e with
  | EModule m => slot_of g s = Some (SMod m)
  | EErr ms er => slot_of g s = Some (SErr ms er)
  | ERedirect t => slot_of g s = None /\ redirect_of g s = Some t
  end.
Proof. exact walk_entries. Qed.
Print Assumptions C15_entries.

(* The error listing contains precisely the errors attached to what was visited. *)
Theorem C15_errors : forall g o roots ys es,
  walk g o (fun _ => false) roots = Some ys ->
  walk_errors g o roots = Some es ->
  forall e, In e es <-> exists s en, In (s, en) ys /\ In e (entry_errors g o en).
Proof. exact walk_errors_exact. Qed.
Print Assumptions C15_errors.

(* Non-vacuity: a concrete graph (root 1 imports 2 statically and 3
   dynamically; 2 is redirected to 4 which is missing) meets the hypotheses
   and the walk yields 1, 2 (as redirect), 4 (as error) but not 3. *)
Definition ex_dep (t : N) (target : spec) (dyn : bool) : dep :=
  {| d_text := t; d_filelike := false; d_code := ROk target 0; d_type := RNone; d_dyn := dyn; d_deno_types := false; d_attr := 0 |}.
Definition ex_graph : graph :=
  {| g_kind := KAll; g_roots := [1];
     g_slots := [(1, SMod {| m_kind := MkJs; m_spec := 1; m_media := MTypeScript;
                              m_deps := [ex_dep 10 2 false; ex_dep 11 3 true];
                              m_types_dep := None; m_fc_deps := None; m_dts := false |});
                 (3, SMod {| m_kind := MkJs; m_spec := 3; m_media := MTypeScript; m_deps := [];
                              m_types_dep := None; m_fc_deps := None; m_dts := false |});
                 (4, SErr (Some 4) 7)];
     g_redirects := [(2, 4)]; g_imports := []; g_schemes := []; g_has_node := false; g_errkinds := [] |}.
Example C15_nonvacuous :
  NoDup (g_roots ex_graph) /\
  option_map (map fst) (walk ex_graph valid_opts (fun _ => false) [1]) = Some [1; 2; 4].
Proof. split; [repeat constructor; intros [] | vm_compute; reflexivity]. Qed.
