(* C05 — known checksums are always enforced; new ones are recorded faithfully.
   Builder model stage B1.5 (remote modules and the lockfile; registry package
   manifests and files belong to stage B2 and are NOT covered: partial).

   Proved over the builder model, for every world, option set and lockfile:
   every loader call for a specifier the lockfile knows presents that checksum
   (C05_presented); content the loader rejects under both cache settings becomes
   an integrity error, after at most one cache-bypassing retry (C05_rejected,
   C05_one_retry); a checksummed URL that redirects is rejected
   (C05_redirect_rejected); existing lockfile entries are never overwritten and
   every new entry is recorded once (C05_recorded_once).
   "Recorded faithfully" is FALSE on the real code and in the faithful model:
   what is handed to the locker is the hash of the DECODED text
   (C05_recorded_value), so for a module with a BOM or a non-UTF-8 charset the
   recorded checksum is rejected when presented back with the unchanged bytes
   (C05_text_hash_refuted; known finding F-C05a, confirmed on the real code by
   building twice). *)
From DG Require Import Base.Util Base.Sexp Model.Graph Model.Builder Proofs.BuilderProofs Proofs.ChecksumProofs.

Theorem C05_presented : forall W o g roots imports g',
  build W o g roots imports = Some g' ->
  forall call c, In call (bg_calls g') -> init_lock W (lc_spec call) = Some c -> lc_checksum call = Some c.
Proof. exact build_presents_checksums. Qed.
Print Assumptions C05_presented.

Theorem C05_rejected : forall W it,
  loader_call W (pi_spec it) false (pi_checksum it) = LChecksumError ->
  (forall f wm, loader_call W (pi_spec it) true (pi_checksum it) <> LResp (WModule f wm)) ->
  (forall f, loader_call W (pi_spec it) true (pi_checksum it) <> LResp (WExternal f)) ->
  fst (try_load W it) = PErr (BLoad (pi_spec it) (pi_range it) 3).
Proof. exact rejected_is_error. Qed.
Print Assumptions C05_rejected.

Theorem C05_one_retry : forall W it,
  (length (snd (try_load W it)) <= 2)%nat /\
  (forall call, In call (snd (try_load W it)) -> lc_reload call = true ->
     loader_call W (pi_spec it) false (pi_checksum it) = LChecksumError).
Proof. exact at_most_one_retry. Qed.
Print Assumptions C05_one_retry.

Theorem C05_redirect_rejected : forall W it to c,
  pi_checksum it = Some c -> resp_of W (pi_spec it) = WRedirect to ->
  fst (try_load W it) = PErr (BLoad (pi_spec it) (pi_range it) 2).
Proof. exact checksummed_redirect_rejected. Qed.
Print Assumptions C05_redirect_rejected.

Theorem C05_recorded_once : forall W o g roots imports g',
  build W o g roots imports = Some g' ->
  NoDup (map fst (bg_lock_sets g')) /\
  (forall s h, In (s, h) (bg_lock_sets g') -> init_lock W s = None) /\
  (w_lock W = None -> bg_lock_sets g' = []).
Proof. exact build_records_once. Qed.
Print Assumptions C05_recorded_once.

Theorem C05_recorded_value : forall W st final media wm s h,
  In (s, h) (st_lock_sets (record_checksum W st final media wm)) ->
  In (s, h) (st_lock_sets st) \/ (s = final /\ h = wm_hash_text wm).
Proof. exact recorded_value. Qed.
Print Assumptions C05_recorded_value.

(* F-C05a: remote module 1 whose served bytes hash to 7 and whose decoded text
   (BOM stripped) hashes to 8.  The first build (empty lockfile) records 8; the
   second build of the SAME world with the lockfile that build produced is an
   integrity error. *)
Definition c05_mod : wmod :=
  {| wm_hash_raw := 7; wm_hash_text := 8; wm_media := MTypeScript; wm_parse_ok := true; wm_kind := MkJs;
     wm_deps := []; wm_tdep := None |}.
Definition c05_world (lock : list (spec * N)) : world :=
  {| w_resp := [(1, WModule 1 c05_mod)]; w_resp_reload := []; w_http := [1]; w_lock := Some lock;
     w_class := []; w_file := []; w_max_redirects := 10; w_wasm_ext := []; w_wasm_nodts := []; w_npm := None |}.
Definition c05_opts : bopts :=
  {| bo_kind := KAll; bo_is_dynamic := false; bo_skip_dynamic := false; bo_unstable_bytes := false;
     bo_unstable_text := false; bo_unstable_css := false |}.
Theorem C05_text_hash_refuted :
  exists lock1,
    option_map bg_lock_sets (build (c05_world []) c05_opts (empty_bgraph KAll) [1] []) = Some lock1 /\
    lock1 = [(1, 8)] /\
    option_map (fun g => lookup 1 (bg_slots g)) (build (c05_world lock1) c05_opts (empty_bgraph KAll) [1] [])
      = Some (Some (BErr (BLoad 1 None 3))).
Proof. exists [(1, 8)]. repeat split; vm_compute; reflexivity. Qed.
Print Assumptions C05_text_hash_refuted.

(* Non-vacuity: a matching lockfile entry is presented and the module is admitted; a
   mismatching one is retried once with Reload and becomes an integrity error. *)
Example C05_nonvacuous :
  option_map (fun g => (lookup 1 (bg_slots g), map lc_checksum (bg_calls g), map lc_reload (bg_calls g)))
             (build (c05_world [(1, 9)]) c05_opts (empty_bgraph KAll) [1] [])
    = Some (Some (BErr (BLoad 1 None 3)), [Some 9; Some 9], [false; true]) /\
  option_map (fun g => map lc_checksum (bg_calls g)) (build (c05_world [(1, 7)]) c05_opts (empty_bgraph KAll) [1] [])
    = Some [Some 7].
Proof. split; vm_compute; reflexivity. Qed.

(* ---------- stage B2: files of registry packages, Model/Jsr.v ----------
   Every loader call for a file of a registry package - the cache-only probe, the
   deferred content load, the plain load of a file without embedded module info,
   the load of an https URL that points into the registry (after its version
   manifest was fetched), statically or dynamically imported, before or after a
   restart - presents the checksum the version manifest gives for that file (the
   lockfile's remote checksum for the URL never replaces it), and no such call
   is made unless the manifest was loaded and has a usable checksum. *)
From DG Require Model.Jsr Model.RunJsr Proofs.JsrProofs.

Theorem C05_registry_presents_manifest_checksum : forall W o roots g,
  Jsr.wf_jworld W = true -> Jsr.jbuild W o roots = Some g ->
  forall c p v path, In c (Jsr.jg_calls g) -> Jsr.cls_of W (Jsr.jc_spec c) = Jsr.CFile p v path ->
  exists vi k, Jsr.v_meta (Jsr.ver_of W (p, v)) = Jsr.VOk vi /\ Jsr.get_checksum W vi path = Some k /\
               Jsr.jc_checksum c = Some k.
Proof.
  intros W o roots g Hwf Hb c p v path Hin Hc.
  pose proof (proj1 (proj2 (JsrProofs.jbuild_jinv W Hwf o roots g Hb))) as Hall.
  rewrite Forall_forall in Hall. specialize (Hall c Hin). unfold JsrProofs.CallOK in Hall. rewrite Hc in Hall.
  destruct Hall as [k [[p' [v' [path' [vi [Hc' [Hm Hg]]]]]] Hk]]. rewrite Hc in Hc'. inversion Hc'; subst.
  exists vi, k. repeat split; assumption.
Qed.
Print Assumptions C05_registry_presents_manifest_checksum.

(* the same statement as a decision procedure on a loader-call log (RunJsr.call_presents_manifest): it is
   evaluated on the REAL call log of registries whose package files are also imported as assets (text /
   bytes imports, outside the registry model), and it is true of every call log of the model *)
Theorem C05_registry_call_judge_correct : forall W cs,
  forallb (RunJsr.call_presents_manifest W) cs = true <->
  (forall c p v path, In c cs -> Jsr.cls_of W (Jsr.jc_spec c) = Jsr.CFile p v path ->
     exists vi k, Jsr.v_meta (Jsr.ver_of W (p, v)) = Jsr.VOk vi /\ Jsr.get_checksum W vi path = Some k /\
                  Jsr.jc_checksum c = Some k).
Proof.
  intros W cs. rewrite forallb_forall. split.
  - intros H c p v path Hin Hc. specialize (H c Hin). unfold RunJsr.call_presents_manifest in H. rewrite Hc in H.
    destruct (Jsr.v_meta (Jsr.ver_of W (p, v))) as [f|h|vi] eqn:Em; try discriminate.
    destruct (Jsr.get_checksum W vi path) as [k|] eqn:Eg; [|discriminate].
    destruct (Jsr.jc_checksum c) as [x|] eqn:Ek; [|discriminate].
    apply N.eqb_eq in H. subst x. exists vi, k. split; [reflexivity|]. split; [exact Eg | reflexivity].
  - intros H c Hin. unfold RunJsr.call_presents_manifest.
    destruct (Jsr.cls_of W (Jsr.jc_spec c)) as [pkg req ex| |p v path|] eqn:Hc; try reflexivity.
    destruct (H c p v path Hin Hc) as [vi [k [Hm [Hg Hk]]]]. rewrite Hm, Hg, Hk. apply N.eqb_refl.
Qed.
Print Assumptions C05_registry_call_judge_correct.

Theorem C05_registry_model_calls_judged_true : forall W o roots g,
  Jsr.wf_jworld W = true -> Jsr.jbuild W o roots = Some g ->
  forallb (RunJsr.call_presents_manifest W) (Jsr.jg_calls g) = true.
Proof.
  intros W o roots g Hwf Hb. apply C05_registry_call_judge_correct.
  intros c p v path Hin Hc. exact (C05_registry_presents_manifest_checksum W o roots g Hwf Hb c p v path Hin Hc).
Qed.
Print Assumptions C05_registry_model_calls_judged_true.

(* The locker is told a package-manifest checksum only for a package version the original lockfile
   had no entry for (existing entries are never overwritten), and the value is the manifest's own
   lockfileChecksum field or else the SHA-256 of exactly the manifest bytes that were used. *)
Theorem C05_registry_locker_told_only_new : forall W o roots g,
  Jsr.wf_jworld W = true -> Jsr.jbuild W o roots = Some g ->
  forall v c, In (v, c) (Jsr.jg_lock_sets g) ->
  JsrProofs.init_lock_get W v = None /\
  exists vi, Jsr.v_meta (Jsr.ver_of W v) = Jsr.VOk vi /\
             c = match Jsr.vi_lockfile_checksum vi with Some x => x | None => Jsr.vi_hash vi end.
Proof.
  intros W o roots g Hwf Hb v c Hin.
  exact (proj2 (proj2 (proj2 (JsrProofs.jbuild_jinv W Hwf o roots g Hb))) v c Hin).
Qed.
Print Assumptions C05_registry_locker_told_only_new.

(* Content the loader would reject for a checksum mismatch is never admitted: every module entry of
   a file of a registry package that has source text has exactly the source hash the version
   manifest gives for that file (whether it was parsed from the load, taken from the cache-only
   probe, or built from embedded module info and filled in by the content load), for loaders that
   report the requested specifier as the final one. *)
From DG Require Proofs.JsrAdmit.

Theorem C05_registry_rejected_never_admitted : forall W o roots g,
  Jsr.wf_jworld W = true -> JsrAdmit.NoAlias W -> Jsr.jbuild W o roots = Some g ->
  forall s src deps p v path,
    lookup s (Jsr.jg_slots g) = Some (Jsr.JsMod src deps) -> src <> 0 -> Jsr.cls_of W s = Jsr.CFile p v path ->
    exists vi, Jsr.v_meta (Jsr.ver_of W (p, v)) = Jsr.VOk vi /\ Jsr.get_checksum W vi path = Some src.
Proof.
  intros W o roots g Hwf Hna Hb s src deps p v path Hl Hs Hc.
  pose proof (JsrAdmit.jbuild_admits_only_vouched W Hwf Hna o roots g Hb s src deps Hl Hs) as H.
  unfold JsrAdmit.SrcOK in H. rewrite Hc in H.
  destruct H as [p' [v' [path' [vi [Hc' [Hm Hg]]]]]]. rewrite Hc in Hc'. inversion Hc'; subst.
  exists vi. split; assumption.
Qed.
Print Assumptions C05_registry_rejected_never_admitted.

(* Non-vacuity: jsr:@s/a@1 (1) -> https://jsr.io/@s/a/1.0.0/mod.ts (2), embedded module info, probe miss,
   content load served with the manifest's checksum 7: hypotheses hold and the entry has source hash 7. *)
Definition c05j_world : Jsr.jworld :=
  {| Jsr.jw_cls := [(1, Jsr.CJsr 1 1 1); (2, Jsr.CFile 1 1 1)];
     Jsr.jw_use := [(2, Jsr.JModule 2 {| Jsr.jm_hash := 7; Jsr.jm_ok := true; Jsr.jm_decl := false; Jsr.jm_deps := [] |})];
     Jsr.jw_only := [];
     Jsr.jw_pkgs := [(1, {| Jsr.p_url := 4; Jsr.p_use := Jsr.POk [(1, false)]; Jsr.p_reload := Jsr.POk [(1, false)] |})];
     Jsr.jw_vers := [((1, 1), {| Jsr.v_url := 5; Jsr.v_base := 6;
                                  Jsr.v_meta := Jsr.VOk {| Jsr.vi_hash := 9; Jsr.vi_lockfile_checksum := None;
                                                           Jsr.vi_exports := [(1, 2)]; Jsr.vi_manifest := [(1, Jsr.MSha 7)];
                                                           Jsr.vi_modinfo := [(1, [])] |};
                                  Jsr.v_cached := false |})];
     Jsr.jw_match := [(1, [1])]; Jsr.jw_lock_pkg := None; Jsr.jw_lock_remote := []; Jsr.jw_http := [2];
     Jsr.jw_missing_chk := 8; Jsr.jw_max_redirects := 10; Jsr.jw_seed := []; Jsr.jw_late := [] |}.
Example C05_registry_nonvacuous :
  Jsr.wf_jworld c05j_world = true /\ JsrAdmit.NoAlias c05j_world /\
  match Jsr.jbuild c05j_world {| Jsr.jo_prefer_cached := false |} [1] with
  | Some g => lookup 2 (Jsr.jg_slots g) = Some (Jsr.JsMod 7 []) /\
              Jsr.jg_calls g = [ {| Jsr.jc_spec := 4; Jsr.jc_setting := 0; Jsr.jc_checksum := None |};
                                 {| Jsr.jc_spec := 5; Jsr.jc_setting := 0; Jsr.jc_checksum := None |};
                                 {| Jsr.jc_spec := 2; Jsr.jc_setting := 2; Jsr.jc_checksum := Some 7 |};
                                 {| Jsr.jc_spec := 2; Jsr.jc_setting := 0; Jsr.jc_checksum := Some 7 |} ]
  | None => False
  end.
Proof.
  split; [vm_compute; reflexivity|]. split.
  - intro s. unfold Jsr.use_of, Jsr.only_of. cbn. destruct (N.eqb s 2) eqn:E; cbn; [apply N.eqb_eq in E; auto | auto].
  - vm_compute. split; reflexivity.
Qed.
