//! Case plumbing shared by all property drivers.
use crate::sexp::Sx;
use std::collections::BTreeMap;
use std::collections::HashSet;
use std::hash::{Hash, Hasher};
use std::io::Write;
use std::path::PathBuf;

#[derive(Clone, Copy, PartialEq, Eq, Debug)]
pub enum Tier {
  Quick,
  Thorough,
}

#[derive(Clone, Debug)]
pub struct RunCfg {
  pub seed: u64,
  pub tier: Tier,
  pub out_dir: PathBuf,
  pub threads: usize,
  pub only_case: Option<u64>,
}

pub struct Case {
  /// model input
  pub input: Sx,
  /// what the implementation did, in the shape of the model's output
  pub obs: Sx,
  /// human readable description (for samples / replays)
  pub meta: serde_json::Value,
  pub nontrivial: bool,
  /// histogram contributions
  pub dist: Vec<(String, u64)>,
  /// violations found by the harness itself on the real outputs (relational
  /// properties / internal consistency); each is a description
  pub direct_violations: Vec<String>,
}

thread_local! {
  pub static LAST_PANIC_LOCATION: std::cell::RefCell<String> = std::cell::RefCell::new(String::new());
}

pub fn hash_sx(s: &Sx) -> u64 {
  let mut h = std::collections::hash_map::DefaultHasher::new();
  s.hash(&mut h);
  h.finish()
}

/// Runs `n` cases over `threads` threads and writes inputs.sx / impl.sx /
/// meta.jsonl / stats.json into out_dir.
pub fn run_cases<F>(cfg: &RunCfg, n: u64, gen_case: F)
where
  F: Fn(u64, u64) -> Case + Sync,
{
  std::fs::create_dir_all(&cfg.out_dir).unwrap();
  let ks: Vec<u64> = match cfg.only_case {
    Some(k) => vec![k],
    None => (0..n).collect(),
  };
  let threads = cfg.threads.max(1);
  let chunk = (ks.len() + threads - 1) / threads.max(1);
  let mut results: Vec<Vec<(u64, Case)>> = vec![];
  // watchdog: a case that does not finish is a finding of its own (a build that never terminates);
  // the process reports it and exits with status 3
  let nparts = ks.chunks(chunk.max(1)).count();
  let current: std::sync::Arc<Vec<std::sync::atomic::AtomicU64>> =
    std::sync::Arc::new((0..nparts).map(|_| std::sync::atomic::AtomicU64::new(u64::MAX)).collect());
  let limit: u64 = std::env::var("DGVERIF_CASE_TIMEOUT").ok().and_then(|s| s.parse().ok()).unwrap_or(180);
  {
    let current = current.clone();
    let out_dir = cfg.out_dir.clone();
    std::thread::spawn(move || {
      let mut last: Vec<(u64, std::time::Instant)> = (0..current.len()).map(|_| (u64::MAX, std::time::Instant::now())).collect();
      loop {
        std::thread::sleep(std::time::Duration::from_millis(500));
        for (i, c) in current.iter().enumerate() {
          let k = c.load(std::sync::atomic::Ordering::Relaxed);
          if k != last[i].0 {
            last[i] = (k, std::time::Instant::now());
          } else if k != u64::MAX && k != u64::MAX - 1 && last[i].1.elapsed().as_secs() >= limit {
            let _ = std::fs::write(out_dir.join("hang.json"), serde_json::json!({"k": k, "seconds": limit}).to_string());
            eprintln!("HANG k={} (no result after {} s)", k, limit);
            std::process::exit(3);
          }
        }
      }
    });
  }
  std::thread::scope(|sc| {
    let mut hs = vec![];
    for (pi, part) in ks.chunks(chunk.max(1)).enumerate() {
      let gen_case = &gen_case;
      let seed = cfg.seed;
      let current = current.clone();
      hs.push(sc.spawn(move || {
        let out: Vec<(u64, Case)> = part
          .iter()
          .map(|k| {
            let k = *k;
            current[pi].store(k, std::sync::atomic::Ordering::Relaxed);
            let r = std::panic::catch_unwind(std::panic::AssertUnwindSafe(|| gen_case(seed, k)));
            match r {
              Ok(c) => (k, c),
              Err(p) => {
                let msg = if let Some(s) = p.downcast_ref::<String>() {
                  s.clone()
                } else if let Some(s) = p.downcast_ref::<&str>() {
                  s.to_string()
                } else {
                  "panic".to_string()
                };
                let loc = LAST_PANIC_LOCATION.with(|c| c.borrow().clone());
                let msg = if loc.is_empty() { msg } else { format!("{} (at {})", msg, loc) };
                (
                  k,
                  Case {
                    input: Sx::L(vec![]),
                    obs: Sx::L(vec![Sx::A(888888)]),
                    meta: serde_json::json!({"harness_panic": msg}),
                    nontrivial: false,
                    dist: vec![("harness_panic".into(), 1)],
                    direct_violations: vec![format!("panic while running case: {}", msg)],
                  },
                )
              }
            }
          })
          .collect::<Vec<_>>();
        current[pi].store(u64::MAX - 1, std::sync::atomic::Ordering::Relaxed);
        out
      }));
    }
    for h in hs {
      results.push(h.join().unwrap());
    }
  });
  let mut inputs = std::io::BufWriter::new(std::fs::File::create(cfg.out_dir.join("inputs.sx")).unwrap());
  let mut obs = std::io::BufWriter::new(std::fs::File::create(cfg.out_dir.join("impl.sx")).unwrap());
  let mut meta = std::io::BufWriter::new(std::fs::File::create(cfg.out_dir.join("meta.jsonl")).unwrap());
  let mut dist: BTreeMap<String, u64> = BTreeMap::new();
  let mut distinct: HashSet<u64> = HashSet::new();
  let mut direct = vec![];
  let mut total = 0u64;
  for part in results {
    for (k, c) in part {
      total += 1;
      writeln!(inputs, "{}", c.input.to_string()).unwrap();
      writeln!(obs, "{}", c.obs.to_string()).unwrap();
      writeln!(meta, "{}", serde_json::json!({"k": k, "meta": c.meta})).unwrap();
      for (name, v) in c.dist {
        *dist.entry(name).or_insert(0) += v;
      }
      if c.nontrivial {
        distinct.insert(hash_sx(&c.input));
      }
      for v in c.direct_violations {
        // "[class=N] text": a direct violation of a known class
        let mut class: Option<u64> = None;
        if let Some(rest) = v.strip_prefix("[class=") {
          if let Some(end) = rest.find(']') {
            class = rest[..end].parse().ok();
          }
        }
        direct.push(serde_json::json!({"k": k, "what": v, "class": class}));
      }
    }
  }
  let stats = serde_json::json!({
    "cases": total,
    "distinct_nontrivial": distinct.len(),
    "distribution": dist,
    "direct_violations": direct,
    "seed": cfg.seed,
  });
  std::fs::write(cfg.out_dir.join("stats.json"), serde_json::to_string_pretty(&stats).unwrap()).unwrap();
}

pub const CLASSTAG: u64 = 555_555;

/// Removes `(555555 n)` class tags from a model output, returning them.
fn strip_tags(s: &Sx, tags: &mut Vec<u64>) -> Sx {
  match s {
    Sx::A(n) => Sx::A(*n),
    Sx::L(l) => {
      let mut v = vec![];
      for x in l {
        if let Sx::L(t) = x {
          if t.len() == 2 && t[0] == Sx::A(CLASSTAG) {
            if let Sx::A(c) = t[1] {
              tags.push(c);
              continue;
            }
          }
        }
        v.push(strip_tags(x, tags));
      }
      Sx::L(v)
    }
  }
}

/// Compare impl.sx with model.sx line by line after normalisation. When both
/// lines are lists of equal length they are compared element-wise (one element
/// per query) so that a known-class tag the model attaches to one query does
/// not cover another. Prints a JSON report on stdout.
pub fn compare(impl_path: &str, model_path: &str) {
  let a = std::fs::read_to_string(impl_path).unwrap();
  let b = std::fs::read_to_string(model_path).unwrap();
  let al: Vec<&str> = a.lines().collect();
  let bl: Vec<&str> = b.lines().collect();
  let mut mismatches = vec![];
  let mut total = 0usize;
  // cap the report per class signature, so unknown-class mismatches are never
  // crowded out by known-class ones
  let mut per_sig: std::collections::HashMap<Vec<u64>, usize> = std::collections::HashMap::new();
  let mut admit = |tags: &Vec<u64>| -> bool {
    let c = per_sig.entry(tags.clone()).or_insert(0);
    *c += 1;
    *c <= 100
  };
  if al.len() != bl.len() {
    mismatches.push(serde_json::json!({"line": -1, "what": format!("line count {} vs {}", al.len(), bl.len())}));
  }
  for (i, (x, y)) in al.iter().zip(bl.iter()).enumerate() {
    if x == y {
      continue;
    }
    let sx = Sx::parse(x).map(|s| s.normalize());
    let sy = Sx::parse(y);
    match (sx, sy) {
      (Ok(p), Ok(q)) => {
        let elementwise = match (&p, &q) {
          (Sx::L(pl), Sx::L(ql)) => pl.len() == ql.len() && !pl.is_empty() && pl.iter().all(|e| matches!(e, Sx::L(_))),
          _ => false,
        };
        if elementwise {
          if let (Sx::L(pl), Sx::L(ql)) = (&p, &q) {
            for (j, (pe, qe)) in pl.iter().zip(ql.iter()).enumerate() {
              let mut tags = vec![];
              let qn = strip_tags(qe, &mut tags).normalize();
              if *pe != qn {
                total += 1;
                // class tags excuse only a difference confined to judgement flags
                let value_diff = pe.mask_judgements() != qn.mask_judgements();
                if value_diff {
                  tags.clear();
                }
                if admit(&tags) {
                  mismatches.push(serde_json::json!({"line": i, "elem": j, "impl": pe.to_string(), "model": qn.to_string(),
                    "where": first_diff(pe, &qn), "classes": tags,
                    "kind": if value_diff { "model-vs-implementation" } else { "property-judgement" }}));
                }
              }
            }
          }
        } else {
          let mut tags = vec![];
          let qn = strip_tags(&q, &mut tags).normalize();
          if p != qn {
            total += 1;
            let value_diff = p.mask_judgements() != qn.mask_judgements();
            if value_diff {
              tags.clear();
            }
            if admit(&tags) {
              mismatches.push(serde_json::json!({"line": i, "impl": p.to_string(), "model": qn.to_string(),
                "where": first_diff(&p, &qn), "classes": tags,
                "kind": if value_diff { "model-vs-implementation" } else { "property-judgement" }}));
            }
          }
        }
      }
      (p, q) => {
        total += 1;
        mismatches.push(serde_json::json!({"line": i, "what": format!("parse error {:?} {:?}", p.err(), q.err())}));
      }
    }
  }
  println!("{}", serde_json::json!({"lines": al.len(), "mismatches": mismatches, "total_mismatches": total}));
}

fn first_diff(a: &Sx, b: &Sx) -> String {
  fn go(a: &Sx, b: &Sx, path: &mut Vec<usize>) -> Option<String> {
    match (a, b) {
      (Sx::A(x), Sx::A(y)) if x == y => None,
      (Sx::L(x), Sx::L(y)) => {
        for (i, (p, q)) in x.iter().zip(y.iter()).enumerate() {
          path.push(i);
          if let Some(r) = go(p, q, path) {
            return Some(r);
          }
          path.pop();
        }
        if x.len() != y.len() {
          Some(format!("at {:?}: list lengths {} vs {}", path, x.len(), y.len()))
        } else {
          None
        }
      }
      _ => Some(format!("at {:?}: {} vs {}", path, a.to_string(), b.to_string())),
    }
  }
  go(a, b, &mut vec![]).unwrap_or_default()
}
