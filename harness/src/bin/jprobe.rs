// throwaway probe of candidate panics on registry paths
use deno_graph::source::*;
use deno_graph::*;
struct InlineExecutor;
impl deno_graph::Executor for InlineExecutor {
  fn execute(&self, fut: std::pin::Pin<Box<dyn std::future::Future<Output = ()> + 'static>>) -> std::pin::Pin<Box<dyn std::future::Future<Output = ()> + 'static>> { fut }
}
fn run(name: &str, files: Vec<(&str, Source<&str, &str>)>, root: &str) {
  let loader = MemoryLoader::new(files, vec![]);
  let r = std::panic::catch_unwind(std::panic::AssertUnwindSafe(|| {
    let mut g = ModuleGraph::new(GraphKind::All);
    futures::executor::block_on(g.build(vec![ModuleSpecifier::parse(root).unwrap()], vec![], &loader, BuildOptions { executor: &InlineExecutor, ..Default::default() }));
    serde_json::to_string(&g).unwrap()
  }));
  match r {
    Ok(s) => println!("{}: OK {}", name, &s[..s.len().min(600)]),
    Err(_) => println!("{}: PANIC", name),
  }
}
fn m(spec: &'static str, c: &'static str) -> Source<&'static str, &'static str> {
  Source::Module { specifier: spec, maybe_headers: None, content: c }
}
fn main() {
  if std::env::args().nth(1).as_deref() == Some("lockseed") {
    // 7. a graph filled from the lockfile (jsr:@s/a@1 -> 1.0.0) and then built; with and without an
    //    import whose requirement no listed version satisfies (which makes the builder restart)
    for extra in ["", "import 'jsr:@s/b@2';"] {
      let main: &'static str = Box::leak(format!("import 'jsr:@s/a@1';{}", extra).into_boxed_str());
      let files = vec![
        ("file:///main.ts", m("file:///main.ts", main)),
        ("https://jsr.io/@s/a/meta.json", m("https://jsr.io/@s/a/meta.json", r#"{"versions":{"1.0.0":{},"1.1.0":{}}}"#)),
        ("https://jsr.io/@s/a/1.0.0_meta.json", m("https://jsr.io/@s/a/1.0.0_meta.json", r#"{"exports":{".":"./mod.ts"},"manifest":{}}"#)),
        ("https://jsr.io/@s/a/1.1.0_meta.json", m("https://jsr.io/@s/a/1.1.0_meta.json", r#"{"exports":{".":"./mod.ts"},"manifest":{}}"#)),
        ("https://jsr.io/@s/a/1.0.0/mod.ts", m("https://jsr.io/@s/a/1.0.0/mod.ts", "export const v = '1.0.0';")),
        ("https://jsr.io/@s/a/1.1.0/mod.ts", m("https://jsr.io/@s/a/1.1.0/mod.ts", "export const v = '1.1.0';")),
        ("https://jsr.io/@s/b/meta.json", m("https://jsr.io/@s/b/meta.json", r#"{"versions":{"1.0.0":{}}}"#)),
      ];
      let loader = MemoryLoader::new(files, vec![]);
      let mut g = ModuleGraph::new(GraphKind::All);
      let req = deno_semver::jsr::JsrDepPackageReq::jsr(deno_semver::package::PackageReq::from_str("@s/a@1").unwrap());
      g.fill_from_lockfile(FillFromLockfileOptions { redirects: std::iter::empty(), package_specifiers: vec![(&req, "1.0.0")].into_iter() });
      futures::executor::block_on(g.build(vec![ModuleSpecifier::parse("file:///main.ts").unwrap()], vec![], &loader, BuildOptions { executor: &InlineExecutor, ..Default::default() }));
      println!("main.ts = {:?}: lockfile @s/a@1 -> 1.0.0; graph mappings {:?}", main, g.packages.mappings());
    }
    return;
  }
  if std::env::args().nth(1).as_deref() == Some("orphan") {
    // 6. embedded module info: dependencies are followed, then the content load of the importer fails
    let dep = "export const d = 1;\n";
    let dep_sum = deno_graph::source::LoaderChecksum::r#gen(dep.as_bytes());
    let meta = format!(
      r#"{{"exports":{{".":"./mod.ts"}},"manifest":{{"/mod.ts":{{"size":1,"checksum":"sha256-{}"}},"/dep.ts":{{"size":1,"checksum":"sha256-{}"}}}},"moduleGraph2":{{"/mod.ts":{{"dependencies":[{{"type":"static","kind":"import","specifier":"./dep.ts","specifierRange":[[0,7],[0,17]]}}]}},"/dep.ts":{{}}}}}}"#,
      "0000000000000000000000000000000000000000000000000000000000000000", dep_sum
    );
    let meta: &'static str = Box::leak(meta.into_boxed_str());
    run("orphan-after-content-load-failure", vec![
      ("file:///main.ts", m("file:///main.ts", "import 'jsr:@s/a@1';")),
      ("https://jsr.io/@s/a/meta.json", m("https://jsr.io/@s/a/meta.json", r#"{"versions":{"1.0.0":{}}}"#)),
      ("https://jsr.io/@s/a/1.0.0_meta.json", m("https://jsr.io/@s/a/1.0.0_meta.json", meta)),
      ("https://jsr.io/@s/a/1.0.0/mod.ts", m("https://jsr.io/@s/a/1.0.0/mod.ts", "import './dep.ts';\n")),
      ("https://jsr.io/@s/a/1.0.0/dep.ts", m("https://jsr.io/@s/a/1.0.0/dep.ts", dep)),
    ], "file:///main.ts");
    return;
  }
  if std::env::args().nth(1).as_deref() == Some("loop") {
    // 5. two-hop redirect whose end imports the first hop
    run("two-hop-loop", vec![
      ("file:///main.ts", m("file:///main.ts", "import 'https://example.com/a.ts';")),
      ("https://example.com/a.ts", Source::Redirect("https://example.com/b.ts")),
      ("https://example.com/b.ts", m("https://example.com/c.ts", "import './a.ts';")),
    ], "file:///main.ts");
    return;
  }
  // 1. exports value that cannot be joined
  run("export-join", vec![
    ("file:///main.ts", m("file:///main.ts", "import 'jsr:@s/a@1';")),
    ("https://jsr.io/@s/a/meta.json", m("https://jsr.io/@s/a/meta.json", r#"{"versions":{"1.0.0":{}}}"#)),
    ("https://jsr.io/@s/a/1.0.0_meta.json", m("https://jsr.io/@s/a/1.0.0_meta.json", r#"{"exports":{".":"http://[::1"},"manifest":{}}"#)),
  ], "file:///main.ts");
  // 2. module answered with a final specifier inside the registry, importing jsr:
  run("final-in-registry", vec![
    ("file:///main.ts", m("file:///main.ts", "import 'https://example.com/a.ts';")),
    ("https://example.com/a.ts", m("https://jsr.io/@s/p/1.0.0/mod.ts", "import 'jsr:@x/y@1';")),
  ], "file:///main.ts");
  // 3. redirect to a registry URL importing jsr:
  run("redirect-into-registry", vec![
    ("file:///main.ts", m("file:///main.ts", "import 'https://example.com/a.ts';")),
    ("https://example.com/a.ts", Source::Redirect("https://jsr.io/@s/p/1.0.0/mod.ts")),
    ("https://jsr.io/@s/p/1.0.0/mod.ts", m("https://jsr.io/@s/p/1.0.0/mod.ts", "import 'jsr:@x/y@1';")),
  ], "file:///main.ts");
  // 4. registry file answered with a final specifier of another package version, importing jsr:
  run("final-in-other-package", vec![
    ("file:///main.ts", m("file:///main.ts", "import 'jsr:@s/a@1';")),
    ("https://jsr.io/@s/a/meta.json", m("https://jsr.io/@s/a/meta.json", r#"{"versions":{"1.0.0":{}}}"#)),
    ("https://jsr.io/@s/a/1.0.0_meta.json", m("https://jsr.io/@s/a/1.0.0_meta.json", r#"{"exports":{".":"./mod.ts"},"manifest":{}}"#)),
    ("https://jsr.io/@s/a/1.0.0/mod.ts", m("https://jsr.io/@s/b/2.0.0/mod.ts", "import 'jsr:@x/y@1';")),
  ], "file:///main.ts");
}
