//! Shared machinery of the fast-check properties (C10, C11): JSR-style /
//! workspace worlds, running the REAL build + fast check exactly as the spec
//! runner does, the spec corpus reader, and re-parsing of emitted modules.
//!
//! The mini-TS generator lives in `fcgen.rs`, the summariser in `fcsum.rs`.
#![allow(dead_code)]
use deno_graph::source::*;
use deno_graph::*;
use futures::FutureExt;
use std::cell::RefCell;
use std::collections::BTreeMap;
use std::collections::BTreeSet;

pub mod pkggen;
pub mod srcsum;
pub mod sum;

// ---------------------------------------------------------------- worlds

#[derive(Clone, Debug)]
pub struct FcFile {
  /// URL; `cache:` prefix = served by the cache loader (CacheSetting::Only)
  pub specifier: String,
  pub content: Vec<u8>,
  pub headers: Vec<(String, String)>,
}

impl FcFile {
  pub fn text(spec: &str, content: &str) -> FcFile {
    FcFile { specifier: spec.to_string(), content: content.as_bytes().to_vec(), headers: vec![] }
  }
  pub fn is_cache(&self) -> bool {
    self.specifier.starts_with("cache:")
  }
  pub fn url(&self) -> url::Url {
    let s = self.specifier.strip_prefix("cache:").unwrap_or(&self.specifier);
    if !s.starts_with("http:") && !s.starts_with("https:") && !s.starts_with("file:") {
      url::Url::parse(&format!("file:///{}", s)).unwrap()
    } else {
      url::Url::parse(s).unwrap()
    }
  }
}

#[derive(Clone, Debug, Default, serde::Deserialize)]
#[serde(rename_all = "camelCase")]
pub struct FcOptions {
  #[serde(default)]
  pub entrypoint: Option<String>,
  #[serde(default)]
  pub newest_dependency_date: Option<deno_graph::packages::NewestDependencyDateOptions>,
  #[serde(default)]
  pub remote_checksums: Option<std::collections::HashMap<String, String>>,
  #[serde(default)]
  pub pkg_checksums: Option<std::collections::HashMap<String, String>>,
  #[serde(default)]
  pub workspace_fast_check: bool,
  #[serde(default)]
  pub fast_check_cache: bool,
  #[serde(default)]
  pub prefer_cached_jsr_versions: bool,
  #[serde(default)]
  pub skip_dynamic_deps: bool,
  #[serde(default)]
  pub unstable_bytes_imports: bool,
  #[serde(default)]
  pub unstable_text_imports: bool,
  #[serde(default)]
  pub unstable_css_imports: bool,
}

#[derive(Clone, Debug, Default)]
pub struct FcWorld {
  pub files: Vec<FcFile>,
  pub options: FcOptions,
  pub workspace_members: Vec<WorkspaceMember>,
  pub lockfile_jsr_packages: BTreeMap<deno_semver::package::PackageReq, deno_semver::package::PackageNv>,
  /// `fast_check_dts` as the spec runner sets it (= !fast_check_cache) unless overridden
  pub dts: Option<bool>,
}

impl FcWorld {
  /// Fills the `manifest` of every `<version>_meta.json` with the checksums of
  /// the package's files (port of Spec::fill_jsr_meta_files_with_checksums).
  pub fn fill_jsr_meta_files_with_checksums(&mut self) {
    let mut by_pkg: BTreeMap<deno_semver::package::PackageNv, BTreeMap<String, serde_json::Value>> = BTreeMap::new();
    for file in &self.files {
      if let Some(nv) = recommended_registry_package_url_to_nv(&DEFAULT_JSR_URL, &file.url()) {
        let base = recommended_registry_package_url(&DEFAULT_JSR_URL, &nv);
        let rel = file
          .url()
          .to_string()
          .strip_prefix(base.to_string().strip_suffix('/').unwrap())
          .unwrap()
          .to_string();
        by_pkg.entry(nv.clone()).or_default().insert(
          rel,
          serde_json::json!({
            "size": file.content.len(),
            "checksum": format!("sha256-{}", LoaderChecksum::r#gen(&file.content)),
          }),
        );
      }
    }
    for (nv, sums) in by_pkg {
      let base = recommended_registry_package_url(&DEFAULT_JSR_URL, &nv);
      let meta_url = base.join(&format!("../{}_meta.json", nv.version)).unwrap();
      let Some(meta_file) = self.files.iter_mut().find(|f| f.url() == meta_url) else {
        panic!("Could not find in specs: {}", meta_url);
      };
      let mut meta: BTreeMap<String, serde_json::Value> = serde_json::from_slice(&meta_file.content).unwrap();
      let manifest = meta
        .entry("manifest".to_string())
        .or_insert_with(|| serde_json::Value::Object(Default::default()))
        .as_object_mut()
        .unwrap();
      for (file, sum) in sums {
        if !manifest.contains_key(&file) {
          manifest.insert(file, sum);
        }
      }
      meta_file.content = serde_json::to_string_pretty(&meta).unwrap().into_bytes();
    }
  }
}

/// Port of tests/helpers TestLoader: remote for Use/Reload, cache for Only,
/// checksum verification of module content.
#[derive(Default)]
pub struct FcLoader {
  pub cache: MemoryLoader,
  pub remote: MemoryLoader,
}

impl Loader for FcLoader {
  fn get_cache_info(&self, specifier: &ModuleSpecifier) -> Option<CacheInfo> {
    self.cache.get_cache_info(specifier)
  }
  fn load(&self, specifier: &ModuleSpecifier, options: LoadOptions) -> LoadFuture {
    let checksum = options.maybe_checksum.clone();
    let future = match options.cache_setting {
      CacheSetting::Use => self.remote.load(specifier, options),
      CacheSetting::Reload => self.remote.load(specifier, options),
      CacheSetting::Only => self.cache.load(specifier, options),
    };
    async move {
      let response = future.await?;
      if let Some(LoadResponse::Module { content, .. }) = &response {
        if let Some(checksum) = checksum {
          checksum.check_source(content)?;
        }
      }
      Ok(response)
    }
    .boxed_local()
  }
}

fn loader_for(files: &[FcFile]) -> FcLoader {
  let mut loader = FcLoader::default();
  for file in files {
    let location = file.headers.iter().find(|(k, _)| k == "location").map(|(_, v)| v.clone());
    let source: Source<String, Vec<u8>> = match location {
      Some(location) => {
        let location =
          if location.starts_with("./") { file.url().join(&location).unwrap().to_string() } else { location };
        Source::Redirect(location)
      }
      None => Source::Module {
        specifier: file.url().to_string(),
        maybe_headers: Some(file.headers.clone()),
        content: file.content.clone(),
      },
    };
    if file.is_cache() {
      loader.cache.add_source(file.url(), source);
    } else {
      loader.remote.add_source(file.url(), source);
    }
  }
  loader
}

#[derive(Debug)]
struct NpmOk;
#[async_trait::async_trait(?Send)]
impl NpmResolver for NpmOk {
  fn load_and_cache_npm_package_info(&self, _package_name: &str) {}
  async fn resolve_pkg_reqs(&self, package_reqs: &[deno_semver::package::PackageReq]) -> NpmResolvePkgReqsResult {
    NpmResolvePkgReqsResult {
      results: package_reqs
        .iter()
        .map(|r| match deno_semver::Version::parse_from_npm(&r.version_req.to_string()) {
          Ok(_) => Ok(()),
          Err(err) => Err(NpmLoadError::PackageReqResolution(std::sync::Arc::new(err))),
        })
        .collect(),
      dep_graph_result: Ok(()),
    }
  }
}

#[derive(Debug)]
struct WorkspaceMemberResolver {
  members: Vec<WorkspaceMember>,
}

impl Resolver for WorkspaceMemberResolver {
  fn resolve(
    &self,
    specifier_text: &str,
    referrer_range: &deno_graph::Range,
    _mode: ResolutionKind,
  ) -> Result<ModuleSpecifier, ResolveError> {
    if let Ok(package_ref) = deno_semver::jsr::JsrPackageReqReference::from_str(specifier_text) {
      for m in &self.members {
        if m.name == package_ref.req().name
          && m.version.as_ref().map(|v| package_ref.req().version_req.matches(v)).unwrap_or(true)
        {
          // (the spec runner's helper looks the bare sub-path up and unwraps; generated packages
          // have sub-path exports, so the normalised "./sub" key is tried as well)
          let export_name = package_ref.sub_path().unwrap_or(".");
          let export = m.exports.get(export_name).or_else(|| m.exports.get(&format!("./{}", export_name)));
          if let Some(export) = export {
            return Ok(m.base.join(export).unwrap());
          }
        }
      }
    }
    Ok(resolve_import(specifier_text, &referrer_range.specifier)?)
  }
}

#[derive(Default)]
pub struct MemFastCheckCache {
  pub inner: RefCell<BTreeMap<fast_check::FastCheckCacheKey, fast_check::FastCheckCacheItem>>,
}

impl fast_check::FastCheckCache for MemFastCheckCache {
  fn hash_seed(&self) -> &'static str {
    "stable-for-tests"
  }
  fn get(&self, key: fast_check::FastCheckCacheKey) -> Option<fast_check::FastCheckCacheItem> {
    self.inner.borrow().get(&key).cloned()
  }
  fn set(&self, key: fast_check::FastCheckCacheKey, value: fast_check::FastCheckCacheItem) {
    self.inner.borrow_mut().insert(key, value);
  }
}

// ---------------------------------------------------------------- results

#[derive(Clone, Debug)]
pub struct FcDiag {
  pub code: String,
  pub specifier: String,
  pub range: Option<(usize, usize)>,
  pub message: String,
}

#[derive(Clone, Debug)]
pub enum FcOut {
  /// fast check did not touch the module (not part of an analysed package, not ESM, not traced)
  Untouched,
  Emitted { text: String, dep_keys: Vec<String> },
  Diagnostics(Vec<FcDiag>),
}

#[derive(Clone, Debug)]
pub struct FcModule {
  pub specifier: String,
  pub media_type: deno_ast::MediaType,
  pub source: String,
  pub out: FcOut,
  /// the module is an export target of an analysed package
  pub is_entrypoint: bool,
  /// `name@version` of the package the module belongs to (JSR url or workspace base)
  pub package: Option<String>,
  /// export names of the ORIGINAL module as the real symbol API resolves them
  /// (`ModuleInfoRef::exports`: named, default, through star re-exports); None when it
  /// cannot be computed (not ESM)
  pub orig_exports: Option<BTreeSet<String>>,
  /// unresolved star re-exports of the original (specifier texts), for information
  pub orig_unresolved_stars: usize,
}

pub struct FcRun {
  pub modules: Vec<FcModule>,
  pub graph_errors: Vec<String>,
  pub ran_fast_check: bool,
  pub packages: Vec<String>,
}

/// Builds the graph of a world exactly as the spec runner does (no fast check yet).
pub fn build_graph(world: &FcWorld) -> (ModuleGraph, deno_graph::ast::CapturingModuleAnalyzer) {
  let loader = loader_for(&world.files);
  let o = &world.options;
  let mut graph = ModuleGraph::new(GraphKind::All);
  for (req, nv) in &world.lockfile_jsr_packages {
    graph.packages.add_nv(req.clone(), nv.clone());
  }
  let entry = o.entrypoint.clone().unwrap_or_else(|| "file:///mod.ts".to_string());
  let roots = vec![ModuleSpecifier::parse(&entry).unwrap()];
  let analyzer = deno_graph::ast::CapturingModuleAnalyzer::default();
  let ws_resolver = WorkspaceMemberResolver { members: world.workspace_members.clone() };
  let mut locker: Option<HashMapLocker> = None;
  if let Some(sums) = &o.remote_checksums {
    let l = locker.get_or_insert_with(Default::default);
    for (s, c) in sums {
      l.set_remote_checksum(&ModuleSpecifier::parse(s).unwrap(), LoaderChecksum::new(c.clone()));
    }
  }
  if let Some(sums) = &o.pkg_checksums {
    let l = locker.get_or_insert_with(Default::default);
    for (nv, c) in sums {
      l.set_pkg_manifest_checksum(
        &deno_semver::package::PackageNv::from_str(nv).unwrap(),
        LoaderChecksum::new(c.clone()),
      );
    }
  }
  let exec = crate::world::InlineExecutor;
  futures::executor::block_on(graph.build(
    roots,
    Vec::new(),
    &loader,
    BuildOptions {
      module_analyzer: &analyzer,
      npm_resolver: Some(&NpmOk),
      locker: locker.as_mut().map(|l| l as _),
      resolver: Some(&ws_resolver),
      prefer_cached_jsr_versions: o.prefer_cached_jsr_versions,
      skip_dynamic_deps: o.skip_dynamic_deps,
      unstable_bytes_imports: o.unstable_bytes_imports,
      unstable_text_imports: o.unstable_text_imports,
      unstable_css_imports: o.unstable_css_imports,
      jsr_version_resolver: std::borrow::Cow::Owned(deno_graph::packages::JsrVersionResolver {
        newest_dependency_date_options: o.newest_dependency_date.clone().unwrap_or_default(),
      }),
      executor: &exec,
      ..Default::default()
    },
  ));
  (graph, analyzer)
}

/// Export names of every emitted module as the REAL symbol API resolves them on a second graph in
/// which each module that has fast-check output is served with that output as its source (other
/// modules keep their original source).  None when that graph does not build.
pub fn emitted_exports(world: &FcWorld, run: &FcRun) -> Option<BTreeMap<String, BTreeSet<String>>> {
  let mut w2 = world.clone();
  let emitted: BTreeMap<String, &str> = run
    .modules
    .iter()
    .filter_map(|m| match &m.out {
      FcOut::Emitted { text, .. } => Some((m.specifier.clone(), text.as_str())),
      _ => None,
    })
    .collect();
  for f in w2.files.iter_mut() {
    let u = f.url().to_string();
    if let Some(t) = emitted.get(&u) {
      f.content = t.as_bytes().to_vec();
    } else if u.ends_with("_meta.json") {
      // checksums are recomputed for the replaced sources
      if let Ok(mut v) = serde_json::from_slice::<BTreeMap<String, serde_json::Value>>(&f.content) {
        v.remove("manifest");
        v.remove("moduleGraph1");
        v.remove("moduleGraph2");
        f.content = serde_json::to_string(&v).unwrap().into_bytes();
      }
    }
  }
  w2.options.remote_checksums = None;
  w2.options.pkg_checksums = None;
  let filled = std::panic::catch_unwind(std::panic::AssertUnwindSafe(|| {
    let mut w3 = w2.clone();
    w3.fill_jsr_meta_files_with_checksums();
    w3
  }))
  .ok()?;
  let (graph, analyzer) = build_graph(&filled);
  if graph.module_errors().next().is_some() {
    return None;
  }
  let rs = deno_graph::symbols::RootSymbol::new(&graph, &analyzer);
  let mut out = BTreeMap::new();
  for spec in emitted.keys() {
    let url = ModuleSpecifier::parse(spec).ok()?;
    let r = std::panic::catch_unwind(std::panic::AssertUnwindSafe(|| {
      rs.module_from_specifier(&url).map(|mi| mi.exports(&rs).resolved.keys().cloned().collect::<BTreeSet<String>>())
    }));
    match r {
      Ok(Some(names)) => {
        out.insert(spec.clone(), names);
      }
      _ => return None,
    }
  }
  Some(out)
}

pub fn run_world(world: &FcWorld) -> FcRun {
  let o = &world.options;
  let (mut graph, analyzer) = build_graph(world);
  let graph_errors: Vec<String> = graph.module_errors().map(|e| e.to_string()).collect();
  let cache = if o.fast_check_cache { Some(MemFastCheckCache::default()) } else { None };
  let ran = graph_errors.is_empty();
  if ran {
    graph.build_fast_check_type_graph(BuildFastCheckTypeGraphOptions {
      fast_check_cache: cache.as_ref().map(|c| c as _),
      fast_check_dts: world.dts.unwrap_or(!o.fast_check_cache),
      jsr_url_provider: Default::default(),
      es_parser: Some(&analyzer),
      resolver: None,
      workspace_fast_check: if o.workspace_fast_check {
        WorkspaceFastCheckOption::Enabled(&world.workspace_members)
      } else {
        WorkspaceFastCheckOption::Disabled
      },
    });
  }
  // entrypoints of every package known to the graph (+ workspace members when enabled)
  let mut entrypoints: BTreeSet<String> = BTreeSet::new();
  let mut packages = vec![];
  let mut pkg_bases: Vec<(String, String)> = vec![];
  let mut nvs: BTreeSet<deno_semver::package::PackageNv> = graph.packages.mappings().values().cloned().collect();
  for (nv, _) in graph.packages.packages_with_deps() {
    nvs.insert(nv.clone());
  }
  for nv in nvs {
    let base = recommended_registry_package_url(&DEFAULT_JSR_URL, &nv);
    pkg_bases.push((base.to_string(), nv.to_string()));
    if let Some(exports) = graph.packages.package_exports(&nv) {
      packages.push(nv.to_string());
      for v in exports.values() {
        if let Ok(u) = base.join(v) {
          entrypoints.insert(u.to_string());
        }
      }
    }
  }
  if o.workspace_fast_check {
    for m in &world.workspace_members {
      packages.push(m.as_nv().to_string());
      pkg_bases.push((m.base.to_string(), m.as_nv().to_string()));
      for v in m.exports.values() {
        if let Ok(u) = m.base.join(v) {
          entrypoints.insert(u.to_string());
        }
      }
    }
  }
  let root_symbol = if ran { Some(deno_graph::symbols::RootSymbol::new(&graph, &analyzer)) } else { None };
  let mut modules = vec![];
  for module in graph.modules() {
    let Some(js) = module.js() else { continue };
    let out = match &js.fast_check {
      None => FcOut::Untouched,
      Some(FastCheckTypeModuleSlot::Module(m)) => {
        FcOut::Emitted { text: m.source.to_string(), dep_keys: m.dependencies.keys().cloned().collect() }
      }
      Some(FastCheckTypeModuleSlot::Error(ds)) => FcOut::Diagnostics(
        ds.iter()
          .map(|d| {
            use deno_ast::diagnostics::Diagnostic;
            FcDiag {
              code: d.code().to_string(),
              specifier: d.specifier().to_string(),
              range: d.range().map(|r| {
                let start = r.text_info.range().start;
                (r.range.start - start, r.range.end - start)
              }),
              message: d.to_string(),
            }
          })
          .collect(),
      ),
    };
    let spec = js.specifier.to_string();
    let mut orig_exports = None;
    let mut unresolved = 0;
    if let Some(rs) = &root_symbol {
      if !matches!(out, FcOut::Untouched) {
        let r = std::panic::catch_unwind(std::panic::AssertUnwindSafe(|| {
          rs.module_from_specifier(&js.specifier).map(|mi| {
            let ex = mi.exports(rs);
            let names: BTreeSet<String> = ex.resolved.keys().cloned().collect();
            (names, ex.unresolved_specifiers.len())
          })
        }));
        if let Ok(Some((names, u))) = r {
          orig_exports = Some(names);
          unresolved = u;
        }
      }
    }
    let package = pkg_bases
      .iter()
      .filter(|(b, _)| spec.starts_with(b.as_str()))
      .max_by_key(|(b, _)| b.len())
      .map(|(_, n)| n.clone());
    modules.push(FcModule {
      is_entrypoint: entrypoints.contains(&spec),
      package,
      specifier: spec,
      media_type: js.media_type,
      source: js.source.text.to_string(),
      out,
      orig_exports,
      orig_unresolved_stars: unresolved,
    });
  }
  modules.sort_by(|a, b| a.specifier.cmp(&b.specifier));
  FcRun { modules, graph_errors, ran_fast_check: ran, packages }
}

// ---------------------------------------------------------------- spec corpus

pub struct SpecCase {
  pub name: String,
  pub world: FcWorld,
}

/// Port of tests/specs_test.rs parse_spec (the `output` section is dropped).
pub fn parse_spec(path: &std::path::Path, text: &str) -> Option<FcWorld> {
  let mut files: Vec<(String, Option<String>, String, Vec<(String, String)>)> = vec![]; // (spec, external path, content, headers)
  let mut options: Option<FcOptions> = None;
  let mut text = text;
  if text.starts_with("~~ ") {
    let end = text.find(" ~~\n")?;
    options = Some(serde_json::from_str(&text[3..end]).ok()?);
    text = &text[end + 4..];
  }
  let mut cur: Option<(String, Option<String>, String, Vec<(String, String)>)> = None;
  for line in text.split('\n') {
    if let Some(spec_line) = line.strip_prefix("# ") {
      if let Some(f) = cur.take() {
        files.push(f);
      }
      if let Some((s, p)) = spec_line.split_once("<=") {
        cur = Some((s.trim().to_string(), Some(p.trim().to_string()), String::new(), vec![]));
      } else {
        cur = Some((spec_line.to_string(), None, String::new(), vec![]));
      }
    } else if let Some(h) = line.strip_prefix("HEADERS: ") {
      let m: indexmap::IndexMap<String, String> = serde_json::from_str(h).ok()?;
      cur.as_mut()?.3 = m.into_iter().collect();
    } else {
      let c = cur.as_mut()?;
      if c.1.is_none() {
        if !c.2.is_empty() {
          c.2.push('\n');
        }
        c.2.push_str(line);
      }
    }
  }
  files.push(cur?);
  let mut world = FcWorld { options: options.unwrap_or_default(), ..Default::default() };
  for (spec, ext, content, headers) in files {
    if spec == "output" {
      continue;
    }
    let bytes = match ext {
      Some(p) => std::fs::read(path.parent()?.join(p)).ok()?,
      None => content.into_bytes(),
    };
    if spec == "workspace_members" {
      world.workspace_members = serde_json::from_slice(&bytes).ok()?;
      continue;
    }
    if spec == "lockfile_jsr_packages" {
      world.lockfile_jsr_packages = serde_json::from_slice(&bytes).ok()?;
      continue;
    }
    world.files.push(FcFile { specifier: spec, content: bytes, headers });
  }
  world.fill_jsr_meta_files_with_checksums();
  Some(world)
}

/// All fast-check specs and JSR specs of the repository's spec corpus.
pub fn corpus() -> Vec<SpecCase> {
  let mut out = vec![];
  for dir in ["/repo/tests/specs/graph/fast_check", "/repo/tests/specs/graph/jsr"] {
    let mut stack = vec![std::path::PathBuf::from(dir)];
    let mut paths = vec![];
    while let Some(d) = stack.pop() {
      let Ok(rd) = std::fs::read_dir(&d) else { continue };
      for e in rd.flatten() {
        let p = e.path();
        if p.is_dir() {
          stack.push(p);
        } else if p.extension().map(|x| x == "txt").unwrap_or(false) {
          paths.push(p);
        }
      }
    }
    paths.sort();
    for p in paths {
      let Ok(text) = std::fs::read_to_string(&p) else { continue };
      let r = std::panic::catch_unwind(|| parse_spec(&p, &text));
      if let Ok(Some(world)) = r {
        let name = p.strip_prefix("/repo/tests/specs/graph").unwrap().to_string_lossy().to_string();
        out.push(SpecCase { name, world });
      }
    }
  }
  out
}

// ---------------------------------------------------------------- JSR-style package worlds

/// A package `@scope/name@version` with module files (relative path, text) and exports.
#[derive(Clone, Debug)]
pub struct PkgSrc {
  pub name: String, // "@scope/a"
  pub version: String,
  pub exports: Vec<(String, String)>, // (".", "./mod.ts")
  pub files: Vec<(String, String)>,   // ("mod.ts", text)
}

/// World serving the packages from https://jsr.io with a file:///mod.ts root importing all of them.
pub fn jsr_world(pkgs: &[PkgSrc]) -> FcWorld {
  let mut world = FcWorld::default();
  let mut root = String::new();
  for p in pkgs {
    world.files.push(FcFile::text(
      &format!("https://jsr.io/{}/meta.json", p.name),
      &format!("{{\"versions\": {{ \"{}\": {{}} }} }}", p.version),
    ));
    let exports: serde_json::Map<String, serde_json::Value> =
      p.exports.iter().map(|(k, v)| (k.clone(), serde_json::Value::String(v.clone()))).collect();
    world.files.push(FcFile::text(
      &format!("https://jsr.io/{}/{}_meta.json", p.name, p.version),
      &serde_json::json!({ "exports": exports }).to_string(),
    ));
    for (path, text) in &p.files {
      world.files.push(FcFile::text(&format!("https://jsr.io/{}/{}/{}", p.name, p.version, path), text));
    }
    for (k, _) in &p.exports {
      let sub = k.strip_prefix('.').unwrap_or(k);
      root.push_str(&format!("import 'jsr:{}@{}{}';\n", p.name, p.version, sub));
    }
  }
  world.files.push(FcFile::text("file:///mod.ts", &root));
  world.fill_jsr_meta_files_with_checksums();
  world
}

/// World with the packages as local workspace members (file:///<name>/...), all diagnostics collected.
pub fn workspace_world(pkgs: &[PkgSrc]) -> FcWorld {
  let mut world = FcWorld::default();
  world.options.workspace_fast_check = true;
  let mut root = String::new();
  for p in pkgs {
    let dir = p.name.trim_start_matches('@').replace('/', "_");
    let base = format!("file:///{}/", dir);
    for (path, text) in &p.files {
      world.files.push(FcFile::text(&format!("{}{}", base, path), text));
    }
    let mut exports = indexmap::IndexMap::new();
    for (k, v) in &p.exports {
      exports.insert(k.clone(), v.clone());
      let sub = k.strip_prefix('.').unwrap_or(k);
      root.push_str(&format!("import 'jsr:{}@{}{}';\n", p.name, p.version, sub));
    }
    world.workspace_members.push(WorkspaceMember {
      base: url::Url::parse(&base).unwrap(),
      name: p.name.as_str().into(),
      version: Some(deno_semver::Version::parse_standard(&p.version).unwrap()),
      exports,
    });
  }
  world.files.push(FcFile::text("file:///mod.ts", &root));
  world
}

/// Hand-written packages that run before the generated ones in every tier: the witnesses of the
/// known findings (so that each is confirmed on the real code in every run) and a few
/// non-vacuity packages.
pub fn seed_packages() -> Vec<(&'static str, PkgSrc)> {
  fn one(text: &str) -> PkgSrc {
    PkgSrc {
      name: "@scope/a".into(),
      version: "1.0.0".into(),
      exports: vec![(".".into(), "./mod.ts".into())],
      files: vec![("mod.ts".into(), text.to_string())],
    }
  }
  vec![
    (
      "F-C10a arrow with a leavable expression body and no return type",
      one("const someIdent: number = 1;\nexport const f1 = () => someIdent;\nexport const f2 = async (a: number) => [a, someIdent];\n"),
    ),
    (
      "F-C10b bodyless signatures without return type",
      one("export function ov(a: number);\nexport function ov(a: string);\nexport function ov(a: any) {}\nexport abstract class A {\n  abstract m(x: number);\n  abstract get g();\n}\n"),
    ),
    (
      "F-C10c parameter property with a leavable default and no annotation",
      one("const someIdent: number = 1;\nexport class K {\n  constructor(public x = someIdent, readonly y = [1, someIdent], protected z = 1) {}\n}\n"),
    ),
    (
      "F-C11a optional parameter of function / constructor / conditional type before a required one",
      one("export function f1(a: () => string = () => \"x\", b: number): void {}\nexport function f2(a: new () => Date = Date, b: number): void {}\nexport function f3<T>(a: T extends string ? 1 : 2 = 1 as any, b: number): void {}\nexport class C { m(a: () => string = () => \"x\", b: number): void {} }\n"),
    ),
    (
      "non-vacuity: every member kind",
      one(concat!(
        "function dec(): any {}\ninterface I { a: number }\nclass Base { constructor(a: number) {} }\n",
        "@dec() export class C<T> extends Base implements I {\n  a: number = 1;\n  static s = \"x\";\n  readonly r = 5;\n",
        "  private p: I = { a: 1 };\n  private pm(x: I): void {}\n  #h = 1;\n  #hm(): number { return 1; }\n",
        "  protected q?: string;\n  declare d: number;\n  [key: string]: unknown;\n  static { Base; }\n",
        "  @dec() accessor acc: number = 1;\n  obj = { k: [1, 2], f: (x: number): number => x };\n",
        "  constructor(public x: number, private y = 2, @dec() z?: string, ...rest: number[]) { super(x); this.a = 2; }\n",
        "  m(a: number, b = 2, c?: T, { d, e }: { d: number; e: string } = { d: 1, e: \"\" }): void { if (a) { return; } }\n",
        "  async am(): Promise<number> { return 1; }\n  *gen(): Generator<number> { yield 1; }\n",
        "  get g(): number { return 1; }\n  set g(v: number) {}\n  private get pg(): number { return 1; }\n",
        "  over(a: number): void;\n  over(a: string): void;\n  over(a: any): void {}\n}\n",
        "export function f(a = 1, b: string = \"x\", c = [1, 2], ...d: number[]): void { for (;;) { return; } }\n",
        "export const arrow = (a: number): number => a * 2;\nexport const fe = function (a: number): void {};\n",
        "export const lit = 1, tpl = `a${1}`, sym = Symbol(), asT = make() as I, cond = true ? 1 : 2;\n",
        "export let later: number;\nexport enum E { A = 1, B = A << 1 }\nexport namespace N { export const v = 1; const hidden = make(); export function g(): void {} }\n",
        "export default { a: 1, b: [true, null] };\nfunction make(): any { return 1; }\nmake();\n",
      )),
    ),
    (
      "non-vacuity: ambient declarations pass through",
      one("export declare function af(a: number): void;\nexport declare class AC { m(): void; constructor(x: number); private p; }\nexport declare const av: number;\nexport declare namespace AN { function inner(): void; }\n"),
    ),
  ]
}

pub fn pkg_src(pkg: &pkggen::Package) -> PkgSrc {
  PkgSrc {
    name: "@scope/a".into(),
    version: "1.0.0".into(),
    exports: pkg.exports.clone(),
    files: pkg.modules.iter().map(|m| (m.path.clone(), pkggen::p_module(m))).collect(),
  }
}

/// In the thorough tier the human-readable description keeps only the head of long texts (every
/// case is reproducible from (seed, k): `--case k` regenerates it with the full description).
pub fn lean_meta(v: &mut serde_json::Value) {
  match v {
    serde_json::Value::String(s) if s.len() > 300 => {
      let mut cut = 300;
      while !s.is_char_boundary(cut) {
        cut -= 1;
      }
      *s = format!("{}... [{} bytes; re-run with --case for the full text]", &s[..cut], s.len());
    }
    serde_json::Value::Array(a) => a.iter_mut().for_each(lean_meta),
    serde_json::Value::Object(o) => o.values_mut().for_each(lean_meta),
    _ => {}
  }
}

// ---------------------------------------------------------------- debugging aid

/// `dgverif fcprobe <file.ts>...`: runs the files as one JSR package (first file = entrypoint mod.ts)
/// and as a workspace member, printing what fast check produced. `dgverif fcprobe --corpus` lists the corpus.
pub fn probe(args: &[String]) {
  if args.first().map(|s| s.as_str()) == Some("--corpus") {
    for c in corpus() {
      let r = std::panic::catch_unwind(std::panic::AssertUnwindSafe(|| run_world(&c.world)));
      match r {
        Ok(run) => {
          let em = run.modules.iter().filter(|m| matches!(m.out, FcOut::Emitted { .. })).count();
          let dg = run.modules.iter().filter(|m| matches!(m.out, FcOut::Diagnostics(_))).count();
          println!("{}: modules={} emitted={} diag={} graph_errors={} pkgs={:?}", c.name, run.modules.len(), em, dg, run.graph_errors.len(), run.packages);
        }
        Err(_) => println!("{}: PANIC", c.name),
      }
    }
    return;
  }
  if args.first().map(|s| s.as_str()) == Some("--gen") {
    let seed: u64 = args[1].parse().unwrap();
    let k0: u64 = args[2].parse().unwrap();
    let n: u64 = args.get(3).and_then(|x| x.parse().ok()).unwrap_or(1);
    let mut bad = 0;
    let mut diag = 0;
    let mut ok = 0;
    for k in k0..k0 + n {
      let mut rng = crate::rng::Rng::for_case(seed, k);
      let adv = k % 5 == 4;
      let pkg = pkggen::gen_package(&mut rng, adv);
      let src = pkg_src(&pkg);
      let run = run_world(&jsr_world(&[src.clone()]));
      if n == 1 {
        for (p, t) in &src.files {
          println!("=== {}\n{}", p, t);
        }
        println!("exports {:?}\nintent {:?}\nfeatures {:?}", pkg.exports, pkg.intent, pkg.features);
        println!("graph errors: {:?}", run.graph_errors);
        for m in &run.modules {
          match &m.out {
            FcOut::Untouched => {}
            FcOut::Emitted { text, .. } => println!("--- {} (entry={})\n{}", m.specifier, m.is_entrypoint, text),
            FcOut::Diagnostics(ds) => println!("--- {} DIAG {:?}", m.specifier, ds.iter().map(|d| (d.code.clone(), d.range)).collect::<Vec<_>>()),
          }
        }
      }
      if !run.graph_errors.is_empty() {
        bad += 1;
        println!("case {} graph errors: {:?}", k, run.graph_errors);
      } else if run.modules.iter().any(|m| matches!(m.out, FcOut::Diagnostics(_))) {
        diag += 1;
      } else {
        ok += 1;
      }
    }
    println!("graph-error packages {} diagnostic packages {} emitted packages {}", bad, diag, ok);
    return;
  }
  let mut files = vec![];
  for (i, a) in args.iter().enumerate() {
    let text = std::fs::read_to_string(a).unwrap();
    let name = if i == 0 { "mod.ts".to_string() } else { std::path::Path::new(a).file_name().unwrap().to_string_lossy().to_string() };
    files.push((name, text));
  }
  let pkg = PkgSrc { name: "@scope/a".into(), version: "1.0.0".into(), exports: vec![(".".into(), "./mod.ts".into())], files };
  for (label, world) in [("jsr", jsr_world(&[pkg.clone()])), ("workspace", workspace_world(&[pkg.clone()]))] {
    println!("==== {}", label);
    let run = run_world(&world);
    println!("graph errors: {:?}", run.graph_errors);
    for m in &run.modules {
      match &m.out {
        FcOut::Untouched => {}
        FcOut::Emitted { text, .. } => {
          println!("--- {} (entry={}) exports={:?}\n{}", m.specifier, m.is_entrypoint, m.orig_exports, text);
          let mut int = sum::Interner::new();
          match sum::summarise(&mut int, &m.specifier, m.media_type, &m.source) {
            Ok((sx, _)) => println!("orig summary: {}", sx.to_string()),
            Err(e) => println!("orig summary error: {}", e),
          }
          match sum::summarise(&mut int, &m.specifier, m.media_type, text) {
            Ok((sx, st)) => println!("emitted summary: {}\n{:?}", sx.to_string(), st),
            Err(e) => println!("emitted summary error: {}", e),
          }
        }
        FcOut::Diagnostics(ds) => {
          println!("--- {} DIAGNOSTICS", m.specifier);
          for d in ds {
            println!("  {} {:?} {}", d.code, d.range, d.message);
          }
        }
      }
    }
  }
}
