//! Generator of TypeScript packages from an abstract mini-TS syntax.
//!
//! A package is 1-4 modules of 3-15 declarations each; the generator records
//! the INTENDED public API: which declarations are exported from an entrypoint
//! (directly, through export lists, re-exports and `export *`) and which are
//! referenced (transitively) from the public signature of such a declaration.
//! Only references the property counts as "from the public API" are recorded:
//! annotations of public signatures, heritage clauses, retained (leavable)
//! initialisers, enum initialisers - not bodies, not TS-private / #private
//! members, not initialisers that an annotation makes redundant, not the
//! implementation signature of an overloaded function.
use crate::rng::Rng;
use std::collections::{BTreeMap, BTreeSet};

// ---------------------------------------------------------------- abstract syntax

#[derive(Clone, Debug)]
pub enum Ty {
  Kw(&'static str),
  Lit(String),
  Ref(String, Vec<Ty>),
  Arr(Box<Ty>),
  Tuple(Vec<Ty>),
  Union(Vec<Ty>),
  Inter(Vec<Ty>),
  Obj(Vec<(String, bool, Ty)>),
  Fn(Vec<(String, Ty)>, Box<Ty>),
  Typeof(String),
  Paren(Box<Ty>),
  Cond(Box<Ty>, Box<Ty>, Box<Ty>, Box<Ty>),
  Indexed(Box<Ty>, Box<Ty>),
  Keyof(Box<Ty>),
}

#[derive(Clone, Debug)]
pub enum Expr {
  Num(u32),
  Str(String),
  Bool(bool),
  Null,
  BigInt(u32),
  Regex,
  This,
  Ident(String),
  Member(Box<Expr>, String),
  Index(Box<Expr>, Box<Expr>),
  Array(Vec<Expr>),
  /// (key, computed key, value); value None = shorthand
  Object(Vec<(String, Option<Expr>, Option<Expr>)>),
  ObjectMethod(String),
  Spread(Box<Expr>),
  Unary(&'static str, Box<Expr>),
  Bin(&'static str, Box<Expr>, Box<Expr>),
  Cond(Box<Expr>, Box<Expr>, Box<Expr>),
  Tpl(Vec<Expr>),
  Tagged(Box<Expr>),
  AsConst(Box<Expr>),
  As(Box<Expr>, Ty),
  Assert(Ty, Box<Expr>),
  NonNull(Box<Expr>),
  Satisfies(Box<Expr>, Ty),
  Paren(Box<Expr>),
  Await(Box<Expr>),
  Arrow(Box<FnLike>),
  FnExpr(Box<FnLike>),
  Call(Box<Expr>, Vec<Expr>),
  New(String, Vec<Expr>),
  ClassExpr,
  SymbolCall(Option<String>),
  OptChain(Box<Expr>, String),
  Assign(String, Box<Expr>),
  Seq(Box<Expr>, Box<Expr>),
}

#[derive(Clone, Debug)]
pub enum Pat {
  Ident(String),
  Array(Vec<String>),
  Object(Vec<String>),
  Rest(String),
  RestArray(Vec<String>),
}

#[derive(Clone, Debug)]
pub struct Param {
  pub pat: Pat,
  pub optional: bool,
  pub ty: Option<Ty>,
  pub default: Option<Expr>,
  pub decorator: bool,
  /// constructor parameter property: (accessibility keyword or "", readonly)
  pub prop: Option<(&'static str, bool)>,
}

#[derive(Clone, Debug)]
pub enum Stmt {
  Return(Option<Expr>),
  If(Vec<Stmt>, Option<Vec<Stmt>>),
  While(Vec<Stmt>),
  DoWhile(Vec<Stmt>),
  For(Vec<Stmt>),
  ForOf(Vec<Stmt>),
  Switch(Vec<Vec<Stmt>>),
  Try(Vec<Stmt>, Option<Vec<Stmt>>, Option<Vec<Stmt>>),
  Block(Vec<Stmt>),
  Labeled(usize, Box<Stmt>),
  Expr(Expr),
  Let(String, Expr),
  Throw,
  NestedFn(usize, Vec<Stmt>),
  NestedArrow(usize, Vec<Stmt>),
  Super(Vec<Expr>),
}

#[derive(Clone, Debug, Default)]
pub struct FnLike {
  pub tparams: Vec<String>,
  pub params: Vec<Param>,
  pub ret: Option<Ty>,
  pub is_async: bool,
  pub is_gen: bool,
  pub body: Option<Vec<Stmt>>,
  /// arrow with expression body
  pub expr_body: Option<Expr>,
}

#[derive(Clone, Debug)]
pub enum Key {
  Ident(String),
  Str(String),
  Num(u32),
  Computed(Expr),
  Hash(String),
}

#[derive(Clone, Debug)]
pub enum Member {
  Ctor { acc: &'static str, sigs: Vec<FnLike>, f: FnLike },
  Method {
    key: Key,
    acc: &'static str,
    is_static: bool,
    kind: &'static str, // "" | "get" | "set"
    is_abstract: bool,
    optional: bool,
    decorator: bool,
    is_override: bool,
    sigs: Vec<FnLike>,
    f: FnLike,
  },
  Prop {
    key: Key,
    acc: &'static str,
    is_static: bool,
    readonly: bool,
    declare: bool,
    optional: bool,
    definite: bool,
    is_abstract: bool,
    is_override: bool,
    accessor: bool,
    decorator: bool,
    ty: Option<Ty>,
    init: Option<Expr>,
  },
  Index(Ty),
  StaticBlock,
}

#[derive(Clone, Debug)]
pub enum Decl {
  Fn { name: String, sigs: Vec<FnLike>, f: FnLike, declare: bool },
  Class {
    name: String,
    tparams: Vec<String>,
    extends: Option<(Expr, Vec<Ty>)>,
    implements: Vec<Ty>,
    members: Vec<Member>,
    decorator: bool,
    is_abstract: bool,
    declare: bool,
  },
  Var { kind: &'static str, decls: Vec<(Pat, Option<Ty>, Option<Expr>)>, declare: bool },
  Interface { name: String, tparams: Vec<String>, extends: Vec<Ty>, members: Vec<(String, bool, Ty)> },
  Alias { name: String, tparams: Vec<String>, ty: Ty },
  Enum { name: String, is_const: bool, members: Vec<(String, Option<Expr>)>, declare: bool },
  Namespace { name: String, items: Vec<(bool, Decl)>, declare: bool },
}

#[derive(Clone, Debug)]
pub enum Item {
  /// 0 none, 1 `export`, 2 `export default`
  Decl(u8, Decl),
  Import { type_only: bool, names: Vec<(String, Option<String>)>, default: Option<String>, ns: Option<String>, from: String },
  ExportList { type_only: bool, names: Vec<(String, Option<String>)>, from: Option<String> },
  ExportStar { from: String, as_ns: Option<String> },
  ExportDefaultExpr(Expr),
  Stmt(Stmt),
  Expando(String, String, Expr),
  Raw(String),
}

#[derive(Clone, Debug, Default)]
pub struct Module {
  pub path: String,
  pub items: Vec<Item>,
}

// ---------------------------------------------------------------- printer

fn join<T>(v: &[T], sep: &str, f: impl Fn(&T) -> String) -> String {
  v.iter().map(f).collect::<Vec<_>>().join(sep)
}

pub fn p_ty(t: &Ty) -> String {
  match t {
    Ty::Kw(k) => k.to_string(),
    Ty::Lit(s) => s.clone(),
    Ty::Ref(n, args) => {
      if args.is_empty() {
        n.clone()
      } else {
        format!("{}<{}>", n, join(args, ", ", p_ty))
      }
    }
    Ty::Arr(t) => format!("({})[]", p_ty(t)),
    Ty::Tuple(ts) => format!("[{}]", join(ts, ", ", p_ty)),
    Ty::Union(ts) => join(ts, " | ", |t| format!("({})", p_ty(t))),
    Ty::Inter(ts) => join(ts, " & ", |t| format!("({})", p_ty(t))),
    Ty::Obj(ms) => format!(
      "{{ {} }}",
      join(ms, " ", |(n, o, t)| format!("{}{}: {};", n, if *o { "?" } else { "" }, p_ty(t)))
    ),
    Ty::Fn(ps, r) => format!("({}) => {}", join(ps, ", ", |(n, t)| format!("{}: {}", n, p_ty(t))), p_ty(r)),
    Ty::Typeof(n) => format!("typeof {}", n),
    Ty::Paren(t) => format!("({})", p_ty(t)),
    Ty::Cond(a, b, c, d) => format!("({}) extends ({}) ? ({}) : ({})", p_ty(a), p_ty(b), p_ty(c), p_ty(d)),
    Ty::Indexed(a, b) => format!("({})[{}]", p_ty(a), p_ty(b)),
    Ty::Keyof(a) => format!("keyof ({})", p_ty(a)),
  }
}

pub fn p_expr(e: &Expr) -> String {
  match e {
    Expr::Num(n) => n.to_string(),
    Expr::Str(s) => format!("\"{}\"", s),
    Expr::Bool(b) => b.to_string(),
    Expr::Null => "null".into(),
    Expr::BigInt(n) => format!("{}n", n),
    Expr::Regex => "/a+b/g".into(),
    Expr::This => "this".into(),
    Expr::Ident(n) => n.clone(),
    Expr::Member(o, p) => format!("{}.{}", p_expr(o), p),
    Expr::Index(o, p) => format!("{}[{}]", p_expr(o), p_expr(p)),
    Expr::Array(es) => format!("[{}]", join(es, ", ", p_expr)),
    Expr::Object(ps) => format!(
      "{{ {} }}",
      join(ps, ", ", |(k, ck, v)| match (ck, v) {
        (Some(c), Some(v)) => format!("[{}]: {}", p_expr(c), p_expr(v)),
        (None, Some(v)) => format!("{}: {}", k, p_expr(v)),
        (_, None) => k.clone(),
      })
    ),
    Expr::ObjectMethod(n) => format!("{{ {}() {{ return 1; }} }}", n),
    Expr::Spread(e) => format!("...{}", p_expr(e)),
    Expr::Unary(op, e) => format!("{}({})", op, p_expr(e)),
    Expr::Bin(op, a, b) => format!("({}) {} ({})", p_expr(a), op, p_expr(b)),
    Expr::Cond(a, b, c) => format!("({}) ? ({}) : ({})", p_expr(a), p_expr(b), p_expr(c)),
    Expr::Tpl(es) => format!("`a{}b`", join(es, "-", |e| format!("${{{}}}", p_expr(e)))),
    Expr::Tagged(e) => format!("{}`x`", p_expr(e)),
    Expr::AsConst(e) => format!("({}) as const", p_expr(e)),
    Expr::As(e, t) => format!("({}) as {}", p_expr(e), p_ty(t)),
    Expr::Assert(t, e) => format!("<{}>({})", p_ty(t), p_expr(e)),
    Expr::NonNull(e) => format!("({})!", p_expr(e)),
    Expr::Satisfies(e, t) => format!("({}) satisfies {}", p_expr(e), p_ty(t)),
    Expr::Paren(e) => format!("({})", p_expr(e)),
    Expr::Await(e) => format!("await ({})", p_expr(e)),
    Expr::Arrow(f) => {
      let head = format!(
        "{}{}({}){}",
        if f.is_async { "async " } else { "" },
        p_tparams(&f.tparams),
        p_params(&f.params),
        // (a conditional or function type as an arrow's return type needs parentheses)
        f.ret.as_ref().map(|t| if matches!(t, Ty::Cond(..) | Ty::Fn(..)) { format!(": ({})", p_ty(t)) } else { format!(": {}", p_ty(t)) }).unwrap_or_default()
      );
      match (&f.expr_body, &f.body) {
        (Some(e), _) => format!("{} => ({})", head, p_expr(e)),
        (None, Some(b)) => format!("{} => {}", head, p_block(b)),
        (None, None) => format!("{} => {{}}", head),
      }
    }
    Expr::FnExpr(f) => format!(
      "{}function{} {}({}){} {}",
      if f.is_async { "async " } else { "" },
      if f.is_gen { "*" } else { "" },
      p_tparams(&f.tparams),
      p_params(&f.params),
      f.ret.as_ref().map(|t| format!(": {}", p_ty(t))).unwrap_or_default(),
      p_block(f.body.as_deref().unwrap_or(&[]))
    ),
    Expr::Call(f, args) => format!("{}({})", p_expr(f), join(args, ", ", p_expr)),
    Expr::New(c, args) => format!("new {}({})", c, join(args, ", ", p_expr)),
    Expr::ClassExpr => "class { x = 1; }".into(),
    Expr::SymbolCall(None) => "Symbol()".into(),
    Expr::SymbolCall(Some(d)) => format!("Symbol(\"{}\")", d),
    Expr::OptChain(o, p) => format!("{}?.{}", p_expr(o), p),
    Expr::Assign(n, e) => format!("({} = {})", n, p_expr(e)),
    Expr::Seq(a, b) => format!("({}, {})", p_expr(a), p_expr(b)),
  }
}

fn p_tparams(t: &[String]) -> String {
  if t.is_empty() { String::new() } else { format!("<{}>", t.join(", ")) }
}

fn p_pat(p: &Pat) -> String {
  match p {
    Pat::Ident(n) => n.clone(),
    Pat::Array(ns) => format!("[{}]", ns.join(", ")),
    Pat::Object(ns) => format!("{{ {} }}", ns.join(", ")),
    Pat::Rest(n) => format!("...{}", n),
    Pat::RestArray(ns) => format!("...[{}]", ns.join(", ")),
  }
}

fn p_param(p: &Param) -> String {
  let mut s = String::new();
  if p.decorator {
    s.push_str("@dec() ");
  }
  if let Some((acc, ro)) = &p.prop {
    s.push_str(acc);
    if !acc.is_empty() {
      s.push(' ');
    }
    if *ro {
      s.push_str("readonly ");
    }
  }
  s.push_str(&p_pat(&p.pat));
  if p.optional {
    s.push('?');
  }
  if let Some(t) = &p.ty {
    s.push_str(&format!(": {}", p_ty(t)));
  }
  if let Some(d) = &p.default {
    s.push_str(&format!(" = {}", p_expr(d)));
  }
  s
}

fn p_params(ps: &[Param]) -> String {
  join(ps, ", ", p_param)
}

fn p_stmt(s: &Stmt) -> String {
  match s {
    Stmt::Return(None) => "return;".into(),
    Stmt::Return(Some(e)) => format!("return {};", p_expr(e)),
    Stmt::If(c, None) => format!("if (cond()) {}", p_block(c)),
    Stmt::If(c, Some(a)) => format!("if (cond()) {} else {}", p_block(c), p_block(a)),
    Stmt::While(b) => format!("while (cond()) {}", p_block(b)),
    Stmt::DoWhile(b) => format!("do {} while (cond());", p_block(b)),
    Stmt::For(b) => format!("for (let i = 0; i < 3; i++) {}", p_block(b)),
    Stmt::ForOf(b) => format!("for (const x of xs) {}", p_block(b)),
    Stmt::Switch(cs) => format!(
      "switch (sel()) {{ {} }}",
      cs.iter().enumerate().map(|(i, c)| format!("case {}: {}", i, join(c, " ", p_stmt))).collect::<Vec<_>>().join(" ")
    ),
    Stmt::Try(b, c, f) => format!(
      "try {}{}{}",
      p_block(b),
      c.as_ref().map(|c| format!(" catch (e) {}", p_block(c))).unwrap_or_default(),
      f.as_ref().map(|f| format!(" finally {}", p_block(f))).unwrap_or_default()
    ),
    Stmt::Block(b) => p_block(b),
    Stmt::Labeled(n, s) => format!("lbl{}: {}", n, p_stmt(s)),
    Stmt::Expr(e) => format!("{};", p_expr(e)),
    Stmt::Let(n, e) => format!("let {} = {};", n, p_expr(e)),
    Stmt::Throw => "throw new Error(\"x\");".into(),
    Stmt::NestedFn(n, b) => format!("function inner{}() {}", n, p_block(b)),
    Stmt::NestedArrow(n, b) => format!("const arrow{} = () => {};", n, p_block(b)),
    Stmt::Super(args) => format!("super({});", join(args, ", ", p_expr)),
  }
}

fn p_block(b: &[Stmt]) -> String {
  if b.is_empty() { "{}".into() } else { format!("{{ {} }}", join(b, " ", p_stmt)) }
}

fn p_key(k: &Key) -> String {
  match k {
    Key::Ident(n) => n.clone(),
    Key::Str(s) => format!("\"{}\"", s),
    Key::Num(n) => n.to_string(),
    Key::Computed(e) => format!("[{}]", p_expr(e)),
    Key::Hash(n) => format!("#{}", n),
  }
}

fn p_sig(f: &FnLike) -> String {
  format!(
    "{}({}){}",
    p_tparams(&f.tparams),
    p_params(&f.params),
    f.ret.as_ref().map(|t| format!(": {}", p_ty(t))).unwrap_or_default()
  )
}

fn p_member(m: &Member) -> String {
  match m {
    Member::Ctor { acc, sigs, f } => {
      let pre = if acc.is_empty() { String::new() } else { format!("{} ", acc) };
      let mut s = String::new();
      for sg in sigs {
        s.push_str(&format!("  {}constructor({});\n", pre, p_params(&sg.params)));
      }
      match &f.body {
        Some(b) => s.push_str(&format!("  {}constructor({}) {}\n", pre, p_params(&f.params), p_block(b))),
        None => s.push_str(&format!("  {}constructor({});\n", pre, p_params(&f.params))),
      }
      s
    }
    Member::Method { key, acc, is_static, kind, is_abstract, optional, decorator, is_override, sigs, f } => {
      let mut pre = String::new();
      if *decorator {
        pre.push_str("@dec() ");
      }
      if !acc.is_empty() {
        pre.push_str(acc);
        pre.push(' ');
      }
      if *is_static {
        pre.push_str("static ");
      }
      if *is_abstract {
        pre.push_str("abstract ");
      }
      if *is_override {
        pre.push_str("override ");
      }
      let mut pre2 = String::new();
      if f.is_async {
        pre2.push_str("async ");
      }
      if f.is_gen {
        pre2.push('*');
      }
      if !kind.is_empty() {
        pre2.push_str(kind);
        pre2.push(' ');
      }
      let name = format!("{}{}", p_key(key), if *optional { "?" } else { "" });
      let mut s = String::new();
      for sg in sigs {
        s.push_str(&format!("  {}{}{};\n", pre, name, p_sig(sg)));
      }
      match &f.body {
        Some(b) => s.push_str(&format!("  {}{}{}{} {}\n", pre, pre2, name, p_sig(f), p_block(b))),
        None => s.push_str(&format!("  {}{}{}{};\n", pre, pre2, name, p_sig(f))),
      }
      s
    }
    Member::Prop { key, acc, is_static, readonly, declare, optional, definite, is_abstract, is_override, accessor, decorator, ty, init } => {
      let mut s = String::from("  ");
      if *decorator {
        s.push_str("@dec() ");
      }
      if *declare {
        s.push_str("declare ");
      }
      if !acc.is_empty() {
        s.push_str(acc);
        s.push(' ');
      }
      if *is_static {
        s.push_str("static ");
      }
      if *is_abstract {
        s.push_str("abstract ");
      }
      if *is_override {
        s.push_str("override ");
      }
      if *readonly {
        s.push_str("readonly ");
      }
      if *accessor {
        s.push_str("accessor ");
      }
      s.push_str(&p_key(key));
      if *optional {
        s.push('?');
      }
      if *definite {
        s.push('!');
      }
      if let Some(t) = ty {
        s.push_str(&format!(": {}", p_ty(t)));
      }
      if let Some(e) = init {
        s.push_str(&format!(" = {}", p_expr(e)));
      }
      s.push_str(";\n");
      s
    }
    Member::Index(t) => format!("  [key: string]: {};\n", p_ty(t)),
    Member::StaticBlock => "  static { init(); }\n".into(),
  }
}

pub fn p_decl(d: &Decl, prefix: &str) -> String {
  match d {
    Decl::Fn { name, sigs, f, declare } => {
      let mut s = String::new();
      let pre = format!("{}{}", prefix, if *declare { "declare " } else { "" });
      for sg in sigs {
        s.push_str(&format!("{}function {}{};\n", pre, name, p_sig(sg)));
      }
      let head = format!(
        "{}{}function{} {}{}",
        pre,
        if f.is_async { "async " } else { "" },
        if f.is_gen { "*" } else { "" },
        name,
        p_sig(f)
      );
      match &f.body {
        Some(b) => s.push_str(&format!("{} {}\n", head, p_block(b))),
        None => s.push_str(&format!("{};\n", head)),
      }
      s
    }
    Decl::Class { name, tparams, extends, implements, members, decorator, is_abstract, declare } => {
      let mut s = String::new();
      if *decorator {
        s.push_str("@dec()\n");
      }
      s.push_str(prefix);
      if *declare {
        s.push_str("declare ");
      }
      if *is_abstract {
        s.push_str("abstract ");
      }
      s.push_str(&format!("class {}{}", name, p_tparams(tparams)));
      if let Some((e, args)) = extends {
        s.push_str(&format!(" extends {}", p_expr(e)));
        if !args.is_empty() {
          s.push_str(&format!("<{}>", join(args, ", ", p_ty)));
        }
      }
      if !implements.is_empty() {
        s.push_str(&format!(" implements {}", join(implements, ", ", p_ty)));
      }
      s.push_str(" {\n");
      for m in members {
        s.push_str(&p_member(m));
      }
      s.push_str("}\n");
      s
    }
    Decl::Var { kind, decls, declare } => format!(
      "{}{}{} {};\n",
      prefix,
      if *declare { "declare " } else { "" },
      kind,
      join(decls, ", ", |(p, t, e)| format!(
        "{}{}{}",
        p_pat(p),
        t.as_ref().map(|t| format!(": {}", p_ty(t))).unwrap_or_default(),
        e.as_ref().map(|e| format!(" = {}", p_expr(e))).unwrap_or_default()
      ))
    ),
    Decl::Interface { name, tparams, extends, members } => format!(
      "{}interface {}{}{} {{ {} }}\n",
      prefix,
      name,
      p_tparams(tparams),
      if extends.is_empty() { String::new() } else { format!(" extends {}", join(extends, ", ", p_ty)) },
      join(members, " ", |(n, o, t)| format!("{}{}: {};", n, if *o { "?" } else { "" }, p_ty(t)))
    ),
    Decl::Alias { name, tparams, ty } => format!("{}type {}{} = {};\n", prefix, name, p_tparams(tparams), p_ty(ty)),
    Decl::Enum { name, is_const, members, declare } => format!(
      "{}{}{}enum {} {{ {} }}\n",
      prefix,
      if *declare { "declare " } else { "" },
      if *is_const { "const " } else { "" },
      name,
      join(members, ", ", |(n, e)| match e {
        Some(e) => format!("{} = {}", n, p_expr(e)),
        None => n.clone(),
      })
    ),
    Decl::Namespace { name, items, declare } => {
      let mut s = format!("{}{}namespace {} {{\n", prefix, if *declare { "declare " } else { "" }, name);
      for (ex, d) in items {
        s.push_str(&p_decl(d, if *ex { "export " } else { "" }));
      }
      s.push_str("}\n");
      s
    }
  }
}

fn p_names(names: &[(String, Option<String>)]) -> String {
  join(names, ", ", |(n, a)| match a {
    Some(a) => format!("{} as {}", n, a),
    None => n.clone(),
  })
}

pub fn p_item(i: &Item) -> String {
  match i {
    Item::Decl(0, d) => p_decl(d, ""),
    Item::Decl(1, d) => p_decl(d, "export "),
    Item::Decl(_, d) => p_decl(d, "export default "),
    Item::Import { type_only, names, default, ns, from } => {
      let mut parts = vec![];
      if let Some(d) = default {
        parts.push(d.clone());
      }
      if let Some(n) = ns {
        parts.push(format!("* as {}", n));
      }
      if !names.is_empty() {
        parts.push(format!("{{ {} }}", p_names(names)));
      }
      format!("import {}{} from \"{}\";\n", if *type_only { "type " } else { "" }, parts.join(", "), from)
    }
    Item::ExportList { type_only, names, from } => format!(
      "export {}{{ {} }}{};\n",
      if *type_only { "type " } else { "" },
      p_names(names),
      from.as_ref().map(|f| format!(" from \"{}\"", f)).unwrap_or_default()
    ),
    Item::ExportStar { from, as_ns: None } => format!("export * from \"{}\";\n", from),
    Item::ExportStar { from, as_ns: Some(n) } => format!("export * as {} from \"{}\";\n", n, from),
    Item::ExportDefaultExpr(e) => format!("export default {};\n", p_expr(e)),
    Item::Stmt(s) => format!("{}\n", p_stmt(s)),
    Item::Expando(o, p, e) => format!("{}.{} = {};\n", o, p, p_expr(e)),
    Item::Raw(s) => format!("{}\n", s),
  }
}

pub fn p_module(m: &Module) -> String {
  m.items.iter().map(p_item).collect::<Vec<_>>().join("")
}

// ---------------------------------------------------------------- generation

#[derive(Clone, Copy, Debug, PartialEq, Eq, PartialOrd, Ord)]
pub enum DKind {
  Fn,
  Class,
  Var,
  Interface,
  Alias,
  Enum,
  Namespace,
}

#[derive(Clone, Debug)]
pub struct Node {
  pub module: usize,
  pub name: String,
  pub kind: DKind,
  /// has the `export` keyword (or `export default`)
  pub export_kw: bool,
  pub export_default: bool,
  /// names under which an export list of its own module exports it
  pub list_exports: Vec<String>,
  /// references from its public signature
  pub api_refs: BTreeSet<usize>,
  /// references from positions the transform drops but the dependency analysis visits
  /// (operands of inferable initialisers / defaults / arrow bodies of unannotated bindings)
  pub maybe_refs: BTreeSet<usize>,
}

#[derive(Clone, Debug, Default)]
pub struct Intent {
  /// per module path: top-level names that must NOT appear in the output
  pub must_drop: BTreeMap<String, Vec<String>>,
  /// per module path: top-level names that are part of the public API (exported or referenced)
  pub public: BTreeMap<String, Vec<String>>,
  /// per module path: nested declarations (namespace path ending in the declared name) that must
  /// NOT appear in the output
  pub must_drop_paths: BTreeMap<String, Vec<Vec<String>>>,
  /// the generator knows of a construct fast check must reject
  pub expect_diagnostic: bool,
  /// constructs whose treatment the intent oracle does not predict (no must_drop claims are made)
  pub unpredictable: bool,
}

pub struct Package {
  pub modules: Vec<Module>,
  /// (export key, "./path")
  pub exports: Vec<(String, String)>,
  pub nodes: Vec<Node>,
  pub intent: Intent,
  pub features: Vec<(String, u64)>,
}

pub struct Gen<'a> {
  pub rng: &'a mut Rng,
  nodes: Vec<Node>,
  n_modules: usize,
  /// current declaration's module / collected API refs
  cur_module: usize,
  cur_refs: BTreeSet<usize>,
  cur_maybe: BTreeSet<usize>,
  maybe_mode: bool,
  /// when false, generated types/expressions record no references (non-API positions)
  recording: bool,
  imports: Vec<BTreeMap<usize, bool>>, // module -> node -> used as value
  feats: BTreeMap<String, u64>,
  expect_diag: bool,
  unpredictable: bool,
  /// probability (percent) of slow-type constructs per opportunity
  pub slow_pct: usize,
  adversarial: bool,
  ctr: usize,
  await_ok: bool,
  /// restricted member / constructor generation for the transform-model stream
  units_mode: bool,
  /// references of `export default <expr>` per module
  extra_roots: Vec<(usize, BTreeSet<usize>)>,
}

const KW: &[&str] = &["number", "string", "boolean", "unknown", "any", "void", "never", "bigint", "symbol", "null", "undefined", "object"];
const MOD_PATHS: &[&str] = &["mod.ts", "a.ts", "b.ts", "c.ts"];

impl<'a> Gen<'a> {
  fn feat(&mut self, f: &str) {
    *self.feats.entry(f.to_string()).or_insert(0) += 1;
  }

  fn type_nodes(&self) -> Vec<usize> {
    (0..self.nodes.len())
      .filter(|i| {
        let n = &self.nodes[*i];
        matches!(n.kind, DKind::Interface | DKind::Alias | DKind::Class | DKind::Enum)
          && (n.module == self.cur_module || (n.export_kw && !n.export_default))
      })
      .collect()
  }

  fn value_nodes(&self, kinds: &[DKind]) -> Vec<usize> {
    (0..self.nodes.len())
      .filter(|i| {
        let n = &self.nodes[*i];
        kinds.contains(&n.kind) && (n.module == self.cur_module || (n.export_kw && !n.export_default))
      })
      .collect()
  }

  fn use_node(&mut self, i: usize, as_value: bool) -> String {
    if self.recording {
      self.cur_refs.insert(i);
    } else if self.maybe_mode {
      self.cur_maybe.insert(i);
    }
    let n = &self.nodes[i];
    if n.module != self.cur_module {
      let e = self.imports[self.cur_module].entry(i).or_insert(false);
      *e = *e || as_value;
    }
    n.name.clone()
  }

  pub fn ty(&mut self, depth: usize) -> Ty {
    let r = self.rng.below(100);
    if depth >= 3 || r < 35 {
      return Ty::Kw(*self.rng.pick(KW));
    }
    if r < 60 {
      let cands = self.type_nodes();
      if !cands.is_empty() {
        let i = *self.rng.pick(&cands);
        let name = self.use_node(i, false);
        return Ty::Ref(name, vec![]);
      }
      return Ty::Kw("string");
    }
    match r {
      60..=64 => Ty::Lit(if self.rng.chance(50) { format!("\"l{}\"", self.rng.below(5)) } else { self.rng.below(9).to_string() }),
      65..=70 => Ty::Arr(Box::new(self.ty(depth + 1))),
      71..=74 => {
        let n = self.rng.range(1, 3);
        Ty::Tuple((0..n).map(|_| self.ty(depth + 1)).collect())
      }
      75..=81 => {
        let n = self.rng.range(2, 3);
        Ty::Union((0..n).map(|_| self.ty(depth + 1)).collect())
      }
      82..=83 => Ty::Inter(vec![self.ty(depth + 1), self.ty(depth + 1)]),
      84..=89 => {
        let n = self.rng.range(1, 3);
        Ty::Obj((0..n).map(|k| (format!("k{}", k), self.rng.chance(30), self.ty(depth + 1))).collect())
      }
      90..=93 => {
        let n = self.rng.below(3);
        Ty::Fn((0..n).map(|k| (format!("a{}", k), self.ty(depth + 1))).collect(), Box::new(self.ty(depth + 1)))
      }
      94..=95 => {
        let cands = self.value_nodes(&[DKind::Var, DKind::Fn, DKind::Class]);
        if !cands.is_empty() {
          let i = *self.rng.pick(&cands);
          let name = self.use_node(i, true);
          Ty::Typeof(name)
        } else {
          Ty::Kw("number")
        }
      }
      96 => Ty::Ref("Promise".into(), vec![self.ty(depth + 1)]),
      97 => Ty::Ref("Array".into(), vec![self.ty(depth + 1)]),
      98 => Ty::Keyof(Box::new(self.ty(depth + 1))),
      _ => Ty::Cond(Box::new(self.ty(depth + 1)), Box::new(self.ty(depth + 1)), Box::new(self.ty(depth + 1)), Box::new(self.ty(depth + 1))),
    }
  }

  fn lit(&mut self) -> Expr {
    match self.rng.below(7) {
      0 | 1 => Expr::Num(self.rng.below(100) as u32),
      2 | 3 => Expr::Str(format!("s{}", self.rng.below(10))),
      4 => Expr::Bool(self.rng.chance(50)),
      5 => Expr::Null,
      _ => {
        if self.rng.chance(50) { Expr::BigInt(self.rng.below(9) as u32) } else { Expr::Regex }
      }
    }
  }

  fn value_ident(&mut self) -> Expr {
    let cands = self.value_nodes(&[DKind::Var, DKind::Fn, DKind::Class, DKind::Enum]);
    if !cands.is_empty() && self.rng.chance(80) {
      let i = *self.rng.pick(&cands);
      let name = self.use_node(i, true);
      if self.nodes[i].kind == DKind::Enum && self.rng.chance(60) {
        return Expr::Member(Box::new(Expr::Ident(name)), "A".into());
      }
      Expr::Ident(name)
    } else {
      // a global
      Expr::Ident((*self.rng.pick(&["undefined", "NaN", "Infinity", "globalThis"])).to_string())
    }
  }

  /// an expression of the leavable grammar whose type the simple inference cannot give
  pub fn leavable(&mut self, depth: usize) -> Expr {
    let r = self.rng.below(100);
    if depth >= 3 {
      return if r < 50 { self.value_ident() } else { self.lit() };
    }
    match r {
      0..=17 => self.value_ident(),
      18..=25 => {
        let o = self.value_ident();
        Expr::Member(Box::new(o), format!("p{}", self.rng.below(3)))
      }
      26..=37 => {
        let n = self.rng.below(4);
        Expr::Array((0..n).map(|_| if self.rng.chance(15) { Expr::Spread(Box::new(self.leavable(depth + 1))) } else { self.leavable(depth + 1) }).collect())
      }
      38..=51 => {
        let n = self.rng.below(4);
        let mut props = vec![];
        for k in 0..n {
          let key = format!("k{}", k);
          match self.rng.below(10) {
            0 => {
              let cands = self.value_nodes(&[DKind::Var, DKind::Fn, DKind::Class]);
              if !cands.is_empty() {
                let i = *self.rng.pick(&cands);
                let name = self.use_node(i, true);
                props.push((name, None, None));
              } else {
                props.push((key, None, Some(self.lit())));
              }
            }
            1 => {
              let ck = self.leavable(depth + 2);
              props.push((key, Some(ck), Some(self.leavable(depth + 1))));
            }
            2 => props.push((format!("\"q{}\"", k), None, Some(self.leavable(depth + 1)))),
            3 => props.push((format!("{}", k), None, Some(self.leavable(depth + 1)))),
            _ => props.push((key, None, Some(self.leavable(depth + 1)))),
          }
        }
        Expr::Object(props)
      }
      52..=56 => Expr::Unary(*self.rng.pick(&["-", "!", "typeof ", "void ", "+", "~"]), Box::new(self.leavable(depth + 1))),
      57..=63 => Expr::Bin(*self.rng.pick(&["+", "-", "*", "|", "&&", "||", "??", "<", "==="]), Box::new(self.leavable(depth + 1)), Box::new(self.leavable(depth + 1))),
      64..=67 => Expr::Cond(Box::new(self.leavable(depth + 1)), Box::new(self.leavable(depth + 1)), Box::new(self.leavable(depth + 1))),
      68..=71 => Expr::AsConst(Box::new(self.leavable(depth + 1))),
      72..=74 => Expr::NonNull(Box::new(self.leavable(depth + 1))),
      75..=77 => Expr::Paren(Box::new(self.leavable(depth + 1))),
      78..=79 if self.await_ok => Expr::Await(Box::new(self.leavable(depth + 1))),
      80..=81 => {
        let i = self.value_ident();
        let k = self.leavable(depth + 2);
        Expr::Index(Box::new(i), Box::new(k))
      }
      82..=90 => {
        let f = self.fn_like(depth + 1, true, true, false);
        Expr::Arrow(Box::new(f))
      }
      91..=95 => {
        let mut f = self.fn_like(depth + 1, true, false, false);
        if f.body.is_none() {
          f.body = Some(vec![]);
        }
        Expr::FnExpr(Box::new(f))
      }
      96..=97 => Expr::This,
      _ => self.lit(),
    }
  }

  /// an expression whose type the simple inference rules give (literals, `as T`, templates, Symbol())
  pub fn inferable(&mut self) -> Expr {
    let saved_maybe = self.maybe_mode;
    self.maybe_mode = self.maybe_mode || self.recording;
    let e = self.inferable_inner();
    self.maybe_mode = saved_maybe;
    e
  }

  fn inferable_inner(&mut self) -> Expr {
    match self.rng.below(12) {
      0..=4 => self.lit(),
      5 => {
        let t = self.simple_ty(0);
        let e = self.any_expr_unrecorded();
        Expr::As(Box::new(e), t)
      }
      6 => {
        let t = self.simple_ty(0);
        let e = self.any_expr_unrecorded();
        Expr::Assert(t, Box::new(e))
      }
      7 => {
        let n = self.rng.below(3);
        Expr::Tpl((0..n).map(|_| self.any_expr_unrecorded()).collect())
      }
      8 => Expr::SymbolCall(if self.rng.chance(50) { None } else { Some("d".into()) }),
      9 => Expr::Paren(Box::new(self.lit())),
      10 => {
        let t = self.simple_ty(0);
        Expr::Satisfies(Box::new(self.lit()), t)
      }
      _ => self.lit(),
    }
  }

  /// a type that infer_simple_type_from_type accepts
  fn simple_ty(&mut self, depth: usize) -> Ty {
    let r = self.rng.below(100);
    if depth >= 2 || r < 40 {
      return Ty::Kw(*self.rng.pick(KW));
    }
    match r {
      40..=59 => {
        let cands = self.type_nodes();
        if !cands.is_empty() {
          let i = *self.rng.pick(&cands);
          let name = self.use_node(i, false);
          Ty::Ref(name, vec![])
        } else {
          Ty::Kw("number")
        }
      }
      60..=69 => Ty::Arr(Box::new(self.simple_ty(depth + 1))),
      70..=79 => Ty::Union(vec![self.simple_ty(depth + 1), self.simple_ty(depth + 1)]),
      80..=86 => Ty::Tuple(vec![self.simple_ty(depth + 1)]),
      87..=93 => Ty::Obj(vec![("k".into(), false, self.ty(depth + 1))]),
      _ => Ty::Lit(self.rng.below(9).to_string()),
    }
  }

  /// any expression, references not recorded (it is dropped or replaced by the transform)
  fn any_expr_unrecorded(&mut self) -> Expr {
    let saved = self.recording;
    self.recording = false;
    let e = if self.rng.chance(50) { self.leavable(2) } else { self.non_leavable() };
    self.recording = saved;
    e
  }

  /// an expression outside the leavable grammar
  pub fn non_leavable(&mut self) -> Expr {
    let saved = self.recording;
    self.recording = false;
    let e = match self.rng.below(12) {
      0..=2 => {
        let cands = self.value_nodes(&[DKind::Fn]);
        let callee = if !cands.is_empty() {
          let i = *self.rng.pick(&cands);
          Expr::Ident(self.use_node(i, true))
        } else {
          Expr::Ident("make".into())
        };
        let n = self.rng.below(3);
        Expr::Call(Box::new(callee), (0..n).map(|_| self.lit()).collect())
      }
      3 | 4 => {
        let cands = self.value_nodes(&[DKind::Class]);
        let c = if !cands.is_empty() {
          let i = *self.rng.pick(&cands);
          self.use_node(i, true)
        } else {
          "Map".into()
        };
        Expr::New(c, vec![])
      }
      5 => Expr::Await(Box::new(Expr::Call(Box::new(Expr::Ident("fetchIt".into())), vec![]))),
      6 => Expr::ClassExpr,
      7 => Expr::Tagged(Box::new(Expr::Ident("tag".into()))),
      8 => Expr::OptChain(Box::new(Expr::Ident("globalThis".into())), "x".into()),
      9 => Expr::ObjectMethod("m".into()),
      10 => Expr::Array(vec![self.lit(), Expr::Call(Box::new(Expr::Ident("make".into())), vec![])]),
      _ => Expr::Seq(Box::new(self.lit()), Box::new(self.lit())),
    };
    self.recording = saved;
    e
  }

  fn ret_stmts(&mut self, depth: usize, want_value: bool, budget: &mut usize) -> Vec<Stmt> {
    let n = self.rng.range(0, 3);
    let mut out = vec![];
    for _ in 0..n {
      let r = self.rng.below(100);
      let s = if depth >= 3 || r < 30 {
        if *budget > 0 && self.rng.chance(55) {
          *budget -= 1;
          if want_value || self.rng.chance(25) { Stmt::Return(Some(self.any_expr_unrecorded())) } else { Stmt::Return(None) }
        } else {
          match self.rng.below(3) {
            0 => Stmt::Expr(Expr::Call(Box::new(Expr::Ident("log".into())), vec![])),
            1 => {
              self.ctr += 1;
              Stmt::Let(format!("t{}", self.ctr), self.any_expr_unrecorded())
            }
            _ => Stmt::Throw,
          }
        }
      } else {
        match r {
          30..=41 => {
            let c = self.ret_stmts(depth + 1, want_value, budget);
            let a = if self.rng.chance(40) { Some(self.ret_stmts(depth + 1, want_value, budget)) } else { None };
            Stmt::If(c, a)
          }
          42..=47 => Stmt::While(self.ret_stmts(depth + 1, want_value, budget)),
          48..=51 => Stmt::DoWhile(self.ret_stmts(depth + 1, want_value, budget)),
          52..=56 => Stmt::For(self.ret_stmts(depth + 1, want_value, budget)),
          57..=60 => Stmt::ForOf(self.ret_stmts(depth + 1, want_value, budget)),
          61..=67 => {
            let n = self.rng.range(1, 3);
            Stmt::Switch((0..n).map(|_| self.ret_stmts(depth + 1, want_value, budget)).collect())
          }
          68..=76 => {
            let b = self.ret_stmts(depth + 1, want_value, budget);
            let c = if self.rng.chance(60) { Some(self.ret_stmts(depth + 1, want_value, budget)) } else { None };
            let f = if c.is_none() || self.rng.chance(40) { Some(self.ret_stmts(depth + 1, want_value, budget)) } else { None };
            Stmt::Try(b, c, f)
          }
          77..=82 => Stmt::Block(self.ret_stmts(depth + 1, want_value, budget)),
          83..=86 => {
            self.ctr += 1;
            let n = self.ctr;
            Stmt::Labeled(n, Box::new(Stmt::Block(self.ret_stmts(depth + 1, want_value, budget))))
          }
          87..=93 => {
            let mut b2 = 2;
            self.ctr += 1;
            let n = self.ctr;
            Stmt::NestedFn(n, self.ret_stmts(depth + 1, true, &mut b2))
          }
          _ => {
            let mut b2 = 2;
            self.ctr += 1;
            let n = self.ctr;
            Stmt::NestedArrow(n, self.ret_stmts(depth + 1, true, &mut b2))
          }
        }
      };
      out.push(s);
    }
    out
  }

  /// parameters: ident / optional / default / rest / destructured, annotated or not
  fn params(&mut self, depth: usize, slow_ok: bool) -> Vec<Param> {
    let n = self.rng.below(4);
    let mut out = vec![];
    for k in 0..n {
      let name = format!("p{}", k);
      let last = k + 1 == n;
      let r = self.rng.below(100);
      let slow = slow_ok && self.rng.chance(self.slow_pct);
      let mut p = Param { pat: Pat::Ident(name.clone()), optional: false, ty: None, default: None, decorator: false, prop: None };
      match r {
        0..=44 => {
          // plain identifier
          if slow {
            self.expect_diag = true;
            self.feat("slow:param-no-type");
          } else {
            p.ty = Some(self.ty(depth + 1));
          }
        }
        45..=56 => {
          p.optional = true;
          p.ty = Some(self.ty(depth + 1));
        }
        57..=79 => {
          // default value
          match self.rng.below(4) {
            0 => {
              // annotated: the default is dropped
              p.ty = Some(self.ty(depth + 1));
              p.default = Some(self.any_expr_unrecorded());
            }
            1 => p.default = Some(self.inferable()),
            2 => {
              p.default = Some(self.leavable(depth + 1));
              self.feat("param-leavable-default");
            }
            _ => {
              if slow {
                p.default = Some(self.non_leavable());
                self.expect_diag = true;
                self.feat("slow:param-nonleavable-default");
              } else {
                p.default = Some(self.inferable());
              }
            }
          }
        }
        80..=87 if last => {
          p.pat = Pat::Rest(name.clone());
          if slow {
            self.expect_diag = true;
            self.feat("slow:rest-no-type");
          } else {
            let t = self.ty(depth + 1);
            p.ty = Some(Ty::Arr(Box::new(t)));
          }
        }
        88..=93 => {
          p.pat = if self.rng.chance(50) { Pat::Array(vec![format!("x{}", k), format!("y{}", k)]) } else { Pat::Object(vec![format!("x{}", k), format!("y{}", k)]) };
          if slow {
            self.expect_diag = true;
            self.feat("slow:pattern-no-type");
          } else if self.rng.chance(25) {
            // no annotation, a literal default that fast check keeps, and an initialiser INSIDE the pattern:
            // the kept default is judged, the pattern must not carry executable logic either
            let init = if self.rng.chance(50) { "Math.random()" } else { "String(Date.now())" };
            p.pat = if matches!(p.pat, Pat::Array(_)) {
              Pat::Array(vec![format!("x{} = {}", k, init), format!("y{}", k)])
            } else {
              Pat::Object(vec![format!("x{} = {}", k, init), format!("y{}", k)])
            };
            p.default = Some(if matches!(p.pat, Pat::Array(_)) {
              Expr::Array(vec![Expr::Num(1), Expr::Num(2)])
            } else {
              Expr::Object(vec![(format!("x{}", k), None, Some(Expr::Num(1))), (format!("y{}", k), None, Some(Expr::Num(2)))])
            });
            self.feat("param-pattern-inner-initialiser");
          } else {
            p.ty = Some(Ty::Kw("any"));
            if self.rng.chance(40) {
              p.default = Some(self.any_expr_unrecorded());
            }
          }
          self.feat("param-pattern");
        }
        94..=96 if last => {
          p.pat = Pat::RestArray(vec![format!("x{}", k)]);
          p.ty = Some(Ty::Arr(Box::new(Ty::Kw("number"))));
        }
        _ => p.ty = Some(self.ty(depth + 1)),
      }
      out.push(p);
    }
    out
  }

  /// a function-like; `public`: its signature is part of the API (references are recorded)
  pub fn fn_like(&mut self, depth: usize, public: bool, arrow: bool, allow_no_body: bool) -> FnLike {
    let saved = self.recording;
    let saved_await = self.await_ok;
    self.await_ok = false;
    self.recording = saved && public;
    let mut f = FnLike::default();
    if self.rng.chance(12) {
      f.tparams = vec!["T".into()];
    }
    f.is_async = self.rng.chance(12);
    f.is_gen = !arrow && self.rng.chance(4);
    f.params = self.params(depth, public);
    let slow = public && self.rng.chance(self.slow_pct);
    let body_kind = self.rng.below(100);
    if arrow && body_kind < 45 {
      // expression body
      if slow {
        // no return type: inferable / leavable / non-leavable body
        match self.rng.below(3) {
          0 => f.expr_body = Some(self.inferable()),
          1 => {
            f.expr_body = Some(self.leavable(depth + 1));
            self.feat("arrow-leavable-body-no-ret");
          }
          _ => {
            f.expr_body = Some(self.non_leavable());
            self.expect_diag = true;
            self.feat("slow:arrow-nonleavable-body");
          }
        }
      } else {
        f.ret = Some(self.ret_ty(depth, f.is_async));
        f.expr_body = Some(self.any_expr_unrecorded());
      }
      self.recording = saved;
      self.await_ok = saved_await;
      return f;
    }
    if allow_no_body && body_kind >= 95 {
      f.ret = Some(self.ret_ty(depth, false));
      f.is_async = false;
      f.is_gen = false;
      self.recording = saved;
      self.await_ok = saved_await;
      return f;
    }
    if slow {
      // missing return type
      let mut budget = self.rng.below(3);
      let want_value = self.rng.chance(50);
      let had = budget;
      let body = self.ret_stmts(0, want_value, &mut budget);
      let _ = had;
      f.body = Some(body);
      // whether this is accepted depends on the return analysis: the oracle does not predict it
      self.feat("fn-no-return-type");
    } else {
      f.ret = Some(self.ret_ty(depth, f.is_async));
      let mut budget = 3;
      f.body = Some(self.ret_stmts(0, true, &mut budget));
    }
    self.recording = saved;
    self.await_ok = saved_await;
    f
  }

  fn ret_ty(&mut self, depth: usize, is_async: bool) -> Ty {
    if self.rng.chance(30) {
      return if is_async { Ty::Ref("Promise".into(), vec![Ty::Kw("void")]) } else { Ty::Kw("void") };
    }
    let t = self.ty(depth + 1);
    if is_async { Ty::Ref("Promise".into(), vec![t]) } else { t }
  }

  /// annotation + initialiser of a variable / property; returns (type, init)
  fn binding(&mut self, depth: usize, public: bool, allow_uninit: bool) -> (Option<Ty>, Option<Expr>) {
    let saved = self.recording;
    self.recording = saved && public;
    let slow = public && self.rng.chance(self.slow_pct);
    let r = self.rng.below(100);
    let out = match r {
      0..=39 => {
        let t = self.ty(depth + 1);
        let init = if allow_uninit && self.rng.chance(30) { None } else { Some(self.any_expr_unrecorded()) };
        (Some(t), init)
      }
      40..=59 => (None, Some(self.inferable())),
      60..=84 => {
        self.feat("leavable-init");
        (None, Some(self.leavable(depth + 1)))
      }
      _ => {
        if slow {
          self.expect_diag = true;
          self.feat("slow:nonleavable-init");
          (None, Some(self.non_leavable()))
        } else {
          (Some(self.ty(depth + 1)), Some(self.non_leavable()))
        }
      }
    };
    self.recording = saved;
    out
  }

  fn overload_sigs(&mut self, depth: usize, public: bool) -> Vec<FnLike> {
    let n = self.rng.range(1, 2);
    (0..n)
      .map(|_| {
        let saved = self.recording;
        self.recording = saved && public;
        let mut f = FnLike::default();
        let np = self.rng.below(3);
        for k in 0..np {
          f.params.push(Param { pat: Pat::Ident(format!("p{}", k)), optional: self.rng.chance(20), ty: Some(self.ty(depth + 1)), default: None, decorator: false, prop: None });
        }
        if self.adversarial && self.rng.chance(30) {
          self.feat("sig-no-return-type");
        } else {
          f.ret = Some(self.ty(depth + 1));
        }
        self.recording = saved;
        f
      })
      .collect()
  }

  fn member(&mut self, k: usize, in_abstract: bool) -> Member {
    let r = if self.units_mode { self.rng.below(45) } else { self.rng.below(100) };
    let acc: &'static str = match self.rng.below(10) {
      0 | 1 if !self.units_mode => "private",
      2 => "protected",
      3 => "public",
      _ => "",
    };
    let public = acc != "private";
    let is_static = self.rng.chance(15);
    let key = match if self.units_mode { 19 } else { self.rng.below(20) } {
      0 => Key::Str(format!("s{}", k)),
      1 => Key::Num(k as u32),
      2 => {
        let saved = self.recording;
        self.recording = saved && public;
        let cands = self.value_nodes(&[DKind::Var]);
        let kx = if !cands.is_empty() {
          let i = *self.rng.pick(&cands);
          Key::Computed(Expr::Ident(self.use_node(i, true)))
        } else {
          Key::Computed(Expr::Member(Box::new(Expr::Ident("Symbol".into())), "iterator".into()))
        };
        self.recording = saved;
        kx
      }
      _ => Key::Ident(format!("m{}", k)),
    };
    let decorator = self.rng.chance(8);
    match r {
      0..=34 => {
        // method (+ overloads)
        // (overloads only for plain keys: for a computed key the real tracer does not treat the
        // implementation as one, so its signature stays and the intent oracle would be wrong)
        let overloaded = !self.units_mode && !matches!(key, Key::Computed(_)) && self.rng.chance(15);
        let sigs = if overloaded { self.overload_sigs(1, public) } else { vec![] };
        let is_abstract = in_abstract && !overloaded && self.rng.chance(20);
        let mut f = self.fn_like(1, public && !overloaded, false, false);
        if is_abstract {
          f.body = None;
          f.is_async = false;
          f.is_gen = false;
          if f.ret.is_none() {
            f.ret = Some(Ty::Kw("void"));
          }
        }
        if overloaded {
          self.feat("method-overloads");
        }
        Member::Method { key, acc, is_static, kind: "", is_abstract, optional: !is_abstract && !overloaded && !f.is_gen && !f.is_async && self.rng.chance(5), decorator: decorator && !is_abstract, is_override: false, sigs, f }
      }
      35..=44 => {
        // accessor
        let getter = self.rng.chance(55);
        let saved = self.recording;
        self.recording = saved && public;
        let mut f = FnLike::default();
        if getter {
          if public && self.rng.chance(self.slow_pct) {
            self.expect_diag = true;
            self.feat("slow:getter-no-type");
          } else {
            f.ret = Some(self.ty(1));
          }
          f.body = Some(vec![Stmt::Return(Some(self.any_expr_unrecorded()))]);
        } else {
          let mut p = Param { pat: Pat::Ident("v".into()), optional: false, ty: None, default: None, decorator: false, prop: None };
          if public && self.rng.chance(self.slow_pct) {
            self.expect_diag = true;
            self.feat("slow:setter-no-type");
          } else {
            p.ty = Some(self.ty(1));
          }
          f.params.push(p);
          f.body = Some(vec![Stmt::Expr(Expr::Call(Box::new(Expr::Ident("log".into())), vec![]))]);
        }
        self.recording = saved;
        Member::Method { key, acc, is_static, kind: if getter { "get" } else { "set" }, is_abstract: false, optional: false, decorator, is_override: false, sigs: vec![], f }
      }
      45..=79 => {
        let (ty, init) = self.binding(1, public, true);
        let readonly = self.rng.chance(25);
        let accessor = self.rng.chance(6);
        let declare = ty.is_some() && init.is_none() && !accessor && self.rng.chance(15);
        Member::Prop {
          key: if accessor { Key::Ident(format!("m{}", k)) } else { key },
          acc,
          is_static,
          readonly: readonly && !accessor,
          declare,
          optional: ty.is_some() && init.is_none() && !declare && !accessor && self.rng.chance(20),
          definite: false,
          is_abstract: false,
          is_override: false,
          accessor,
          decorator: decorator && !declare,
          ty,
          init,
        }
      }
      80..=87 => {
        // #private property / method
        let saved = self.recording;
        self.recording = false;
        let m = if self.rng.chance(60) {
          let (ty, init) = self.binding(1, false, true);
          Member::Prop { key: Key::Hash(format!("h{}", k)), acc: "", is_static, readonly: false, declare: false, optional: false, definite: false, is_abstract: false, is_override: false, accessor: false, decorator: false, ty, init }
        } else {
          let f = self.fn_like(1, false, false, false);
          Member::Method { key: Key::Hash(format!("h{}", k)), acc: "", is_static, kind: "", is_abstract: false, optional: false, decorator: false, is_override: false, sigs: vec![], f }
        };
        self.recording = saved;
        self.feat("hash-private-member");
        m
      }
      88..=91 => Member::Index(self.ty(1)),
      92..=93 => {
        self.feat("static-block");
        Member::StaticBlock
      }
      _ => {
        let (ty, init) = self.binding(1, public, true);
        Member::Prop { key, acc, is_static, readonly: true, declare: false, optional: false, definite: false, is_abstract: false, is_override: false, accessor: false, decorator: false, ty, init }
      }
    }
  }

  fn ctor(&mut self, has_super: bool) -> Member {
    let acc: &'static str = match self.rng.below(10) {
      0 => "private",
      1 => "protected",
      _ => "",
    };
    let public = acc != "private";
    let overloaded = !self.units_mode && self.rng.chance(12);
    let mut sigs = vec![];
    if overloaded {
      for sg in self.overload_sigs(1, public) {
        sigs.push(FnLike { ret: None, ..sg });
      }
      self.feat("ctor-overloads");
    }
    let saved = self.recording;
    self.recording = saved && public && !overloaded;
    let mut params = self.params(1, public && !overloaded);
    // parameter properties
    for p in params.iter_mut() {
      if !overloaded && matches!(p.pat, Pat::Ident(_)) && self.rng.chance(25) {
        // (a private constructor loses its parameters but keeps the properties: only `private`
        // ones, whose type is erased, are generated there)
        let a: &'static str = if public { *self.rng.pick(&["public", "private", "protected", "", "readonly"]) } else { "private" };
        if a == "readonly" {
          p.prop = Some(("", true));
        } else if a.is_empty() {
          p.prop = Some(("public", self.rng.chance(30)));
        } else {
          p.prop = Some((a, self.rng.chance(30)));
        }
        if p.prop.map(|x| x.0) == Some("private") && p.ty.is_none() && p.default.is_none() {
          // `private x` without type: the constructor signature still needs the type
        }
        self.feat("param-property");
      }
      p.decorator = self.rng.chance(5);
    }
    self.recording = saved;
    let mut body = vec![];
    if has_super {
      let n = self.rng.below(3);
      body.push(Stmt::Super((0..n).map(|_| self.any_expr_unrecorded()).collect()));
    }
    if self.rng.chance(60) {
      body.push(Stmt::Expr(Expr::Call(Box::new(Expr::Ident("log".into())), vec![])));
    }
    Member::Ctor { acc, sigs, f: FnLike { params, body: Some(body), ..Default::default() } }
  }

  fn decl(&mut self, idx: usize, depth: usize) -> Decl {
    let name = self.nodes[idx].name.clone();
    let kind = self.nodes[idx].kind;
    match kind {
      DKind::Fn => {
        let overloaded = self.rng.chance(15);
        let sigs = if overloaded { self.overload_sigs(0, true) } else { vec![] };
        if overloaded {
          self.feat("fn-overloads");
        }
        let mut f = self.fn_like(0, !overloaded, false, false);
        if f.body.is_none() {
          f.body = Some(vec![]);
        }
        Decl::Fn { name, sigs, f, declare: false }
      }
      DKind::Class => {
        let is_abstract = self.rng.chance(15);
        let mut extends = None;
        if self.rng.chance(30) {
          let cands: Vec<usize> = self.value_nodes(&[DKind::Class]).into_iter().filter(|i| *i < idx).collect();
          if !cands.is_empty() {
            let i = *self.rng.pick(&cands);
            let n = self.use_node(i, true);
            extends = Some((Expr::Ident(n), vec![]));
          } else if self.rng.chance(self.slow_pct) {
            extends = Some((Expr::Call(Box::new(Expr::Ident("mixin".into())), vec![]), vec![]));
            self.expect_diag = true;
            self.feat("slow:complex-super");
          } else {
            extends = Some((Expr::Member(Box::new(Expr::Ident("globalThis".into())), "Object".into()), vec![]));
          }
        }
        let mut implements = vec![];
        if self.rng.chance(15) {
          let cands: Vec<usize> = self.type_nodes().into_iter().filter(|i| self.nodes[*i].kind == DKind::Interface).collect();
          if !cands.is_empty() {
            let i = *self.rng.pick(&cands);
            implements.push(Ty::Ref(self.use_node(i, false), vec![]));
          }
        }
        let n = self.rng.below(6);
        let mut members = vec![];
        if self.rng.chance(50) {
          members.push(self.ctor(extends.is_some()));
        }
        for k in 0..n {
          members.push(self.member(k, is_abstract));
        }
        // member keys are distinct (a duplicate member is a TS error, and the tracer would take the
        // second of two same-named members with bodies for an overload implementation)
        let mut used: BTreeSet<String> = BTreeSet::new();
        for (k, m) in members.iter_mut().enumerate() {
          let key = match m {
            Member::Method { key, .. } => key,
            Member::Prop { key, .. } => key,
            _ => continue,
          };
          if !used.insert(p_key(key)) {
            *key = Key::Ident(format!("u{}", k));
            used.insert(p_key(key));
          }
        }
        let tparams = if self.rng.chance(15) { vec!["T".to_string()] } else { vec![] };
        let decorator = self.rng.chance(8);
        Decl::Class { name, tparams, extends, implements, members, decorator, is_abstract, declare: false }
      }
      DKind::Var => {
        let kind = *self.rng.pick(&["const", "const", "let", "var"]);
        self.await_ok = depth == 0;
        let (ty, init) = self.binding(depth, true, kind != "const");
        self.await_ok = false;
        Decl::Var { kind, decls: vec![(Pat::Ident(name), ty, init)], declare: false }
      }
      DKind::Interface => {
        let mut extends = vec![];
        if self.rng.chance(20) {
          let cands: Vec<usize> = self.type_nodes().into_iter().filter(|i| *i != idx && self.nodes[*i].kind == DKind::Interface).collect();
          if !cands.is_empty() {
            let i = *self.rng.pick(&cands);
            extends.push(Ty::Ref(self.use_node(i, false), vec![]));
          }
        }
        let n = self.rng.below(4);
        let members = (0..n).map(|k| (format!("f{}", k), self.rng.chance(25), self.ty(1))).collect();
        let tparams = if self.rng.chance(15) { vec!["T".to_string()] } else { vec![] };
        Decl::Interface { name, tparams, extends, members }
      }
      DKind::Alias => {
        let tparams = if self.rng.chance(15) { vec!["T".to_string()] } else { vec![] };
        Decl::Alias { name, tparams, ty: self.ty(0) }
      }
      DKind::Enum => {
        let n = self.rng.range(1, 3);
        let mut members = vec![("A".to_string(), if self.rng.chance(50) { Some(Expr::Num(1)) } else { None })];
        for k in 1..n {
          let init = match self.rng.below(5) {
            0 => Some(Expr::Num(k as u32 + 1)),
            1 => Some(Expr::Bin("<<", Box::new(Expr::Num(1)), Box::new(Expr::Num(k as u32)))),
            // (enum initialisers are carried over verbatim, so every reference in them is API:
            // only forms whose references are all recorded)
            2 => {
              let l = self.lit();
              let v = self.value_ident();
              Some(Expr::Bin("+", Box::new(l), Box::new(v)))
            }
            _ => None,
          };
          members.push((format!("M{}", k), init));
        }
        if members.iter().skip(1).any(|m| m.1.is_none()) {
          // an uninitialised member after a computed one is a TS error but parses; keep numeric
          for m in members.iter_mut().skip(1) {
            if m.1.is_none() {
              m.1 = Some(Expr::Num(7));
            }
          }
        }
        Decl::Enum { name, is_const: self.rng.chance(20), members, declare: false }
      }
      DKind::Namespace => {
        // inner declarations are simple and self-contained; exported ones are API when the namespace is
        let n = self.rng.range(1, 3);
        let mut items = vec![];
        for k in 0..n {
          let ex = self.rng.chance(70);
          let saved = self.recording;
          self.recording = saved && ex;
          let d = match self.rng.below(4) {
            0 => Decl::Interface { name: format!("I{}", k), tparams: vec![], extends: vec![], members: vec![("a".into(), false, self.ty(1))] },
            1 => Decl::Alias { name: format!("A{}", k), tparams: vec![], ty: self.ty(1) },
            2 => {
              let (ty, init) = self.binding(1, ex, false);
              Decl::Var { kind: "const", decls: vec![(Pat::Ident(format!("c{}", k)), ty, init)], declare: false }
            }
            _ => {
              let mut f = self.fn_like(1, ex, false, false);
              if f.body.is_none() {
                f.body = Some(vec![]);
              }
              Decl::Fn { name: format!("g{}", k), sigs: vec![], f, declare: false }
            }
          };
          self.recording = saved;
          items.push((ex, d));
        }
        Decl::Namespace { name, items, declare: false }
      }
    }
  }
}

fn kind_prefix(k: DKind) -> &'static str {
  match k {
    DKind::Fn => "fn",
    DKind::Class => "Cls",
    DKind::Var => "val",
    DKind::Interface => "Ifc",
    DKind::Alias => "Ali",
    DKind::Enum => "Enm",
    DKind::Namespace => "Nsp",
  }
}

/// Generates one package. `adversarial` adds the constructs fast check rejects or passes through
/// (ambient forms, `using`, `export =`, require, global augmentation, destructuring exports, ...).
pub fn gen_package(rng: &mut Rng, adversarial: bool) -> Package {
  let n_modules = rng.range(1, 4);
  let slow_pct = if adversarial { 12 } else { *rng.pick(&[0, 0, 0, 2, 5]) };
  let mut g = Gen {
    rng,
    nodes: vec![],
    n_modules,
    cur_module: 0,
    cur_refs: BTreeSet::new(),
    cur_maybe: BTreeSet::new(),
    maybe_mode: false,
    recording: true,
    imports: vec![BTreeMap::new(); n_modules],
    feats: BTreeMap::new(),
    expect_diag: false,
    unpredictable: false,
    slow_pct,
    adversarial,
    ctr: 0,
    await_ok: false,
    units_mode: false,
    extra_roots: vec![],
  };
  // 1. declaration headers
  let mut per_module: Vec<Vec<usize>> = vec![vec![]; n_modules];
  let mut counter = 0;
  for m in 0..n_modules {
    let n = g.rng.range(3, 15);
    let mut has_default = false;
    for _ in 0..n {
      let kind = match g.rng.below(100) {
        0..=21 => DKind::Fn,
        22..=41 => DKind::Class,
        42..=61 => DKind::Var,
        62..=76 => DKind::Interface,
        77..=88 => DKind::Alias,
        89..=94 => DKind::Enum,
        _ => DKind::Namespace,
      };
      let name = format!("{}{}", kind_prefix(kind), counter);
      counter += 1;
      let exp = g.rng.below(100);
      let export_kw = exp < 45;
      let export_default = !export_kw && !has_default && exp < 50 && matches!(kind, DKind::Fn | DKind::Class);
      if export_default {
        has_default = true;
      }
      g.nodes.push(Node { module: m, name, kind, export_kw: export_kw || export_default, export_default, list_exports: vec![], api_refs: BTreeSet::new(), maybe_refs: BTreeSet::new() });
      per_module[m].push(g.nodes.len() - 1);
    }
  }
  // 2. declarations
  let mut modules: Vec<Module> = (0..n_modules).map(|m| Module { path: MOD_PATHS[m].to_string(), items: vec![] }).collect();
  for m in 0..n_modules {
    for &idx in &per_module[m] {
      g.cur_module = m;
      g.cur_refs = BTreeSet::new();
      g.cur_maybe = BTreeSet::new();
      g.recording = true;
      let d = g.decl(idx, 0);
      g.nodes[idx].api_refs = std::mem::take(&mut g.cur_refs);
      g.nodes[idx].maybe_refs = std::mem::take(&mut g.cur_maybe);
      let ex = if g.nodes[idx].export_default { 2 } else if g.nodes[idx].export_kw { 1 } else { 0 };
      modules[m].items.push(Item::Decl(ex, d));
      // statements that are not declarations
      if g.rng.chance(10) {
        modules[m].items.push(Item::Stmt(Stmt::Expr(Expr::Call(Box::new(Expr::Ident("log".into())), vec![Expr::Num(1)]))));
        g.feat("toplevel-statement");
      }
    }
  }
  // 3. export lists, re-exports, star exports (module m may re-export from modules > m: acyclic)
  let mut star_edges: Vec<Vec<usize>> = vec![vec![]; n_modules];
  let mut reexports: Vec<Vec<(usize, String)>> = vec![vec![]; n_modules]; // (node, exported name)
  let mut ns_exports: Vec<Vec<(usize, String)>> = vec![vec![]; n_modules]; // (module, ns name)
  for m in 0..n_modules {
    // export list of local non-exported declarations
    let locals: Vec<usize> = per_module[m].iter().copied().filter(|i| !g.nodes[*i].export_kw).collect();
    if !locals.is_empty() && g.rng.chance(40) {
      let n = g.rng.range(1, locals.len().min(3));
      let mut names = vec![];
      let mut picked = BTreeSet::new();
      for _ in 0..n {
        let i = *g.rng.pick(&locals);
        if !picked.insert(i) {
          continue;
        }
        let alias = if g.rng.chance(30) { Some(format!("{}Alias", g.nodes[i].name)) } else { None };
        let exported = alias.clone().unwrap_or_else(|| g.nodes[i].name.clone());
        g.nodes[i].list_exports.push(exported);
        names.push((g.nodes[i].name.clone(), alias));
      }
      modules[m].items.push(Item::ExportList { type_only: false, names, from: None });
      g.feat("export-list");
    }
    for t in (m + 1)..n_modules {
      let r = g.rng.below(100);
      if r < 30 {
        modules[m].items.push(Item::ExportStar { from: format!("./{}", MOD_PATHS[t]), as_ns: None });
        star_edges[m].push(t);
        g.feat("export-star");
      } else if r < 45 {
        let cands: Vec<usize> = per_module[t].iter().copied().filter(|i| g.nodes[*i].export_kw && !g.nodes[*i].export_default).collect();
        if !cands.is_empty() {
          let i = *g.rng.pick(&cands);
          let alias = if g.rng.chance(30) { Some(format!("{}Re", g.nodes[i].name)) } else { None };
          let exported = alias.clone().unwrap_or_else(|| g.nodes[i].name.clone());
          reexports[m].push((i, exported));
          modules[m].items.push(Item::ExportList { type_only: false, names: vec![(g.nodes[i].name.clone(), alias)], from: Some(format!("./{}", MOD_PATHS[t])) });
          g.feat("re-export");
        }
      } else if r < 50 {
        let ns = format!("ns{}", t);
        modules[m].items.push(Item::ExportStar { from: format!("./{}", MOD_PATHS[t]), as_ns: Some(ns.clone()) });
        ns_exports[m].push((t, ns));
        g.feat("export-star-as");
      }
    }
    if g.rng.chance(8) && !per_module[m].iter().any(|i| g.nodes[*i].export_default) {
      g.cur_module = m;
      g.cur_refs = BTreeSet::new();
      g.recording = true;
      let e = match g.rng.below(3) {
        0 => g.inferable(),
        1 => g.leavable(1),
        _ => {
          if g.rng.chance(g.slow_pct) {
            g.expect_diag = true;
            g.feat("slow:default-export-expr");
            g.non_leavable()
          } else {
            g.lit()
          }
        }
      };
      let mut refs = std::mem::take(&mut g.cur_refs);
      refs.extend(std::mem::take(&mut g.cur_maybe));
      g.extra_roots.push((m, refs));
      modules[m].items.push(Item::ExportDefaultExpr(e));
      g.feat("export-default-expr");
    }
  }
  // 4. adversarial extras
  if adversarial {
    for m in 0..n_modules {
      if g.rng.chance(25) {
        let raw = match g.rng.below(15) {
          0 => {
            g.expect_diag = true;
            "export const { dx, dy } = pair();"
          }
          1 => {
            g.expect_diag = true;
            "export const [ax, ay] = pair();"
          }
          2 => "using res = open();",
          3 => {
            g.expect_diag = true;
            "using res2 = open();\nexport type Res2 = typeof res2;"
          }
          4 => {
            g.expect_diag = true;
            "import req = require(\"./mod.ts\");"
          }
          5 => {
            g.expect_diag = true;
            "declare global { interface Window { zz: number } }"
          }
          6 => {
            g.expect_diag = true;
            "declare module \"ambient\" { export const q: number; }"
          }
          7 => "export declare function ambientFn(a: number): void;\nexport declare class AmbientCls { m(): void; private p; constructor(x: number); }\nexport declare const ambientVal: number;",
          8 => "export declare namespace AmbientNs { function inner(): void; const v: number; }",
          9 => {
            g.expect_diag = true;
            "export as namespace Glob;"
          }
          10 => "export function expando(): void {}\nexpando.prop = 1;\nexpando.fn2 = (a: number): number => a;",
          // declaration merging: a function that shares its name with a type-side declaration written before it
          // (the symbol then has an earlier declaration that is not an overload signature) or after it
          12 => "export interface Merged { x: number; y: number }\nexport function Merged(x: number, y: number): Merged { return { x, y }; }",
          13 => "export type MergedT = { v: string };\nexport function MergedT(v: string, n?: number): MergedT { return { v }; }",
          14 => "export function MergedF(x: number): MergedF { return { x }; }\nexport interface MergedF { x: number }",
          _ => "export abstract class Abs { abstract get v(): number; abstract m(a: number): void; }",
        };
        g.feat(&format!("adv:{}", raw.split_whitespace().take(3).collect::<Vec<_>>().join("_")));
        modules[m].items.push(Item::Raw(raw.to_string()));
      }
    }
  }
  // 5. imports
  for m in 0..n_modules {
    let mut by_module: BTreeMap<usize, Vec<(usize, bool)>> = BTreeMap::new();
    for (i, v) in &g.imports[m] {
      by_module.entry(g.nodes[*i].module).or_default().push((*i, *v));
    }
    let mut items = vec![];
    for (t, uses) in by_module {
      let all_types = uses.iter().all(|(_, v)| !v);
      let mut names: Vec<(String, Option<String>)> = uses.iter().map(|(i, _)| (g.nodes[*i].name.clone(), None)).collect();
      // an unused import (must disappear)
      if g.rng.chance(20) {
        let cands: Vec<usize> = per_module[t].iter().copied().filter(|i| g.nodes[*i].export_kw && !g.nodes[*i].export_default && !uses.iter().any(|(u, _)| u == i)).collect();
        if !cands.is_empty() {
          let i = *g.rng.pick(&cands);
          names.push((g.nodes[i].name.clone(), None));
          g.feat("unused-import");
        }
      }
      items.push(Item::Import { type_only: all_types && g.rng.chance(50), names, default: None, ns: None, from: format!("./{}", MOD_PATHS[t]) });
    }
    let mut all = items;
    all.append(&mut modules[m].items);
    modules[m].items = all;
  }
  // 6. package exports: mod.ts always; sometimes a second entrypoint
  let mut exports = vec![(".".to_string(), "./mod.ts".to_string())];
  let mut entry_modules = vec![0usize];
  if n_modules >= 2 && g.rng.chance(25) {
    let t = g.rng.range(1, n_modules - 1);
    exports.push((format!("./sub{}", t), format!("./{}", MOD_PATHS[t])));
    entry_modules.push(t);
    g.feat("second-entrypoint");
  }
  // 6b. a private nested namespace reached from the public API only through a qualified path of two to
  //     four segments: the declaration at the end of the path (and the namespaces on the way) stay,
  //     every sibling on the way - exported inside its namespace or not - is outside the public API
  let mut nested_drop: Vec<Vec<String>> = vec![];
  if g.rng.chance(18) {
    let root = format!("Nns{}", g.nodes.len());
    let depth = g.rng.range(1, 3); // namespaces below the root on the way to the target
    fn leaf(g: &mut Gen, name: &str) -> Decl {
      if g.rng.chance(50) {
        Decl::Interface { name: name.to_string(), tparams: vec![], extends: vec![], members: vec![("a".into(), false, Ty::Kw("number"))] }
      } else {
        Decl::Alias { name: name.to_string(), tparams: vec![], ty: Ty::Kw("string") }
      }
    }
    // build from the innermost level outwards
    let mut path: Vec<String> = vec![root.clone()];
    for d in 0..depth {
      path.push(format!("Lv{}", d));
    }
    let target = "Target".to_string();
    let mut inner_items: Vec<(bool, Decl)> = vec![];
    let mut level_path = path.clone();
    // innermost namespace: the target and its siblings
    inner_items.push((true, leaf(&mut g, &target)));
    for k in 0..g.rng.range(1, 2) {
      let ex = g.rng.chance(70);
      let name = format!("Sib{}", k);
      inner_items.push((ex, leaf(&mut g, &name)));
      let mut pth = level_path.clone();
      pth.push(name);
      nested_drop.push(pth);
    }
    if g.rng.chance(50) {
      inner_items.rotate_left(1);
    }
    let mut cur = Decl::Namespace { name: level_path.last().unwrap().clone(), items: inner_items, declare: false };
    while level_path.len() > 1 {
      level_path.pop();
      let mut items: Vec<(bool, Decl)> = vec![(true, cur)];
      if g.rng.chance(70) {
        let ex = g.rng.chance(70);
        let name = format!("Side{}", level_path.len());
        items.push((ex, leaf(&mut g, &name)));
        let mut pth = level_path.clone();
        pth.push(name);
        nested_drop.push(pth);
      }
      if g.rng.chance(30) {
        // a sibling namespace nobody mentions
        let name = format!("Dead{}", level_path.len());
        let d = leaf(&mut g, "X");
        items.push((true, Decl::Namespace { name: name.clone(), items: vec![(true, d)], declare: false }));
        let mut pth = level_path.clone();
        pth.push(name);
        nested_drop.push(pth);
      }
      if g.rng.chance(50) {
        items.rotate_left(1);
      }
      cur = Decl::Namespace { name: level_path.last().unwrap().clone(), items, declare: false };
    }
    let mut qualified = path.clone();
    qualified.push(target);
    let ty = Ty::Ref(qualified.join("."), vec![]);
    let user = match g.rng.below(3) {
      0 => Decl::Alias { name: format!("{}Use", root), tparams: vec![], ty },
      1 => Decl::Interface { name: format!("{}Use", root), tparams: vec![], extends: vec![], members: vec![("m".into(), g.rng.chance(30), Ty::Arr(Box::new(ty)))] },
      _ => Decl::Alias { name: format!("{}Use", root), tparams: vec![], ty: Ty::Union(vec![ty, Ty::Kw("undefined")]) },
    };
    let at = g.rng.below(modules[0].items.len() + 1);
    let at = at.max(modules[0].items.iter().take_while(|i| matches!(i, Item::Import { .. })).count());
    modules[0].items.insert(at, Item::Decl(0, cur));
    modules[0].items.push(Item::Decl(1, user));
    g.feats.insert(format!("nested-namespace-path-{}", depth + 2), 1);
  }
  // 7. intent: roots = everything an entrypoint exports; closure over api_refs
  let mut public: BTreeSet<usize> = BTreeSet::new();
  let mut work: Vec<usize> = vec![];
  fn module_exports(m: usize, per_module: &[Vec<usize>], nodes: &[Node], star: &[Vec<usize>], reexports: &[Vec<(usize, String)>], ns: &[Vec<(usize, String)>], out: &mut Vec<usize>, seen: &mut BTreeSet<usize>) {
    if !seen.insert(m) {
      return;
    }
    for &i in &per_module[m] {
      if nodes[i].export_kw || !nodes[i].list_exports.is_empty() {
        out.push(i);
      }
    }
    for (i, _) in &reexports[m] {
      out.push(*i);
    }
    for &t in &star[m] {
      // `export *` does not re-export the default
      let mut sub = vec![];
      module_exports(t, per_module, nodes, star, reexports, ns, &mut sub, seen);
      for i in sub {
        if !(nodes[i].export_default && nodes[i].module == t) {
          out.push(i);
        }
      }
    }
    for (t, _) in &ns[m] {
      let mut seen2 = BTreeSet::new();
      module_exports(*t, per_module, nodes, star, reexports, ns, out, &mut seen2);
    }
  }
  for &e in &entry_modules {
    let mut seen = BTreeSet::new();
    module_exports(e, &per_module, &g.nodes, &star_edges, &reexports, &ns_exports, &mut work, &mut seen);
  }
  for (m, refs) in &g.extra_roots {
    if entry_modules.contains(m) {
      work.extend(refs.iter().copied());
    }
  }
  let roots = work.clone();
  while let Some(i) = work.pop() {
    if public.insert(i) {
      for r in g.nodes[i].api_refs.clone() {
        work.push(r);
      }
    }
  }
  // what the real tracer may legitimately retain: also reached through initialiser operands that
  // the transform drops (the dependency analysis of an unannotated binding visits its whole initialiser)
  let mut justified: BTreeSet<usize> = BTreeSet::new();
  let mut work = roots;
  while let Some(i) = work.pop() {
    if justified.insert(i) {
      for r in g.nodes[i].api_refs.iter().chain(g.nodes[i].maybe_refs.iter()) {
        work.push(*r);
      }
    }
  }
  let mut intent = Intent { expect_diagnostic: g.expect_diag, unpredictable: g.unpredictable, ..Default::default() };
  for m in 0..n_modules {
    let path = MOD_PATHS[m].to_string();
    intent.must_drop.insert(path.clone(), per_module[m].iter().filter(|i| !justified.contains(i)).map(|i| g.nodes[*i].name.clone()).collect());
    intent.public.insert(path, per_module[m].iter().filter(|i| public.contains(i)).map(|i| g.nodes[*i].name.clone()).collect());
  }
  if !nested_drop.is_empty() {
    intent.must_drop_paths.insert(MOD_PATHS[0].to_string(), nested_drop);
  }
  let dropped: usize = intent.must_drop.values().map(|v| v.len()).sum();
  let pulled = public.iter().filter(|i| !g.nodes[**i].export_kw && g.nodes[**i].list_exports.is_empty()).count();
  g.feats.insert("decls".into(), g.nodes.len() as u64);
  g.feats.insert("modules".into(), n_modules as u64);
  g.feats.insert("intent-dropped".into(), dropped as u64);
  g.feats.insert("intent-pulled-by-reference".into(), pulled as u64);
  let features = g.feats.clone().into_iter().collect();
  let nodes = g.nodes.clone();
  Package { modules, exports, nodes, intent, features }
}

/// A one-module package for the transform-model stream: every declaration is exported, so every
/// function-like is public: functions, `const` arrows / function expressions, and classes with a
/// constructor (parameter properties, any accessibility), methods and accessors (not TS-private,
/// identifier keys, no overloads), plus a few exported interfaces / aliases for the annotations to
/// mention.  A quarter of the opportunities produce slow types.
pub fn gen_fn_package(rng: &mut Rng) -> (String, Vec<(String, u64)>) {
  let mut g = Gen {
    rng,
    nodes: vec![],
    n_modules: 1,
    cur_module: 0,
    cur_refs: BTreeSet::new(),
    cur_maybe: BTreeSet::new(),
    maybe_mode: false,
    recording: true,
    imports: vec![BTreeMap::new(); 1],
    feats: BTreeMap::new(),
    expect_diag: false,
    unpredictable: false,
    slow_pct: 0,
    adversarial: false,
    ctr: 0,
    await_ok: false,
    units_mode: true,
    extra_roots: vec![],
  };
  g.slow_pct = *g.rng.pick(&[0, 10, 25, 25, 40]);
  let mut items = vec![];
  let n_types = g.rng.range(1, 3);
  for k in 0..n_types {
    let kind = if g.rng.chance(50) { DKind::Interface } else { DKind::Alias };
    g.nodes.push(Node { module: 0, name: format!("{}{}", kind_prefix(kind), k), kind, export_kw: true, export_default: false, list_exports: vec![], api_refs: BTreeSet::new(), maybe_refs: BTreeSet::new() });
  }
  for idx in 0..n_types {
    let d = g.decl(idx, 0);
    items.push(Item::Decl(1, d));
  }
  let n = g.rng.range(3, 9);
  for k in 0..n {
    let name = format!("u{}", k);
    let d = match g.rng.below(10) {
      0..=3 => {
        let mut f = g.fn_like(0, true, false, false);
        if f.body.is_none() {
          f.body = Some(vec![]);
        }
        Decl::Fn { name, sigs: vec![], f, declare: false }
      }
      4..=6 => {
        let e = if g.rng.chance(65) {
          Expr::Arrow(Box::new(g.fn_like(0, true, true, false)))
        } else {
          let mut f = g.fn_like(0, true, false, false);
          if f.body.is_none() {
            f.body = Some(vec![]);
          }
          Expr::FnExpr(Box::new(f))
        };
        Decl::Var { kind: "const", decls: vec![(Pat::Ident(name), None, Some(e))], declare: false }
      }
      _ => {
        let mut members = vec![];
        if g.rng.chance(70) {
          members.push(g.ctor(false));
        }
        let nm = g.rng.range(1, 4);
        for j in 0..nm {
          members.push(g.member(j, false));
        }
        Decl::Class { name, tparams: vec![], extends: None, implements: vec![], members, decorator: false, is_abstract: false, declare: false }
      }
    };
    items.push(Item::Decl(1, d));
  }
  g.feats.insert("model-stream-decls".into(), n as u64);
  let text = p_module(&Module { path: "mod.ts".into(), items });
  (text, g.feats.into_iter().collect())
}

// ---------------------------------------------------------------- exhaustive small domain (model stream)

const EX_KINDS: &[&str] = &["decl", "fnexpr", "arrow", "method", "getter", "setter", "ctor"];
const EX_RETS: &[&str] = &["", ": void", ": number", ": any", ": Promise<void>"];
const EX_BODIES: &[&str] = &[
  "{}",
  "{ return; }",
  "{ return 1; }",
  "{ if (c()) { return 1; } }",
  "{ if (c()) {} else { return 1; } }",
  "{ if (c()) { return; } return 1; }",
  "{ for (;;) { return 1; } return 2; }",
  "{ try { return; } catch (e) { return; } finally {} }",
  "{ function inner() { return 1; } }",
  "{ switch (c()) { case 0: return 1; } }",
];
/// arrow expression bodies
const EX_EXPR_BODIES: &[&str] = &["1", "someIdent", "make()", "({ a: 1 } as T0)", "`t${1}`", "[someIdent, 1]", "(x: number) => x", "({} as void)"];
const EX_PARAMS: &[&str] = &[
  "",
  "a: number",
  "a",
  "a?: number",
  "a = 1",
  "a = someIdent",
  "a = make()",
  "a: number = make()",
  "a = 1 as any",
  "a = Symbol()",
  "a = [someIdent]",
  "a = (x: number): number => x",
  "a = (x) => x",
  "...a: number[]",
  "...a",
  "[x, y]: number[]",
  "{ x, y }",
  "{ x, y }: T0 = make()",
  "[x, y] = [1, 2]",
  "[x, y] = make()",
];
/// two-parameter lists for ParamsOptionalStartIndex
const EX_PAIRS: &[&str] = &[
  "a: number = 1, b: string",
  "a = 1, b: string",
  "a?: number, b: string",
  "a = 1, b?: string",
  "a = 1, ...b: number[]",
  "a: number = 1, b = 2",
  "a = someIdent, b: string",
  "a: number, b = 1",
  "a = 1, b: string, c = 2",
  "a?: number, b = 1, c: string, d?: number",
];

pub fn exhaustive_count() -> usize {
  let async_gen = 3; // plain, async, generator
  let n_block = EX_KINDS.len() * EX_RETS.len() * async_gen * EX_BODIES.len() * 3; // x3 parameter samples per combination
  let n_params = EX_KINDS.len() * (EX_PARAMS.len() + EX_PAIRS.len()) * 2; // with / without return type
  let n_arrow_expr = EX_RETS.len() * 2 * EX_EXPR_BODIES.len();
  n_block + n_params + n_arrow_expr
}

fn ex_unit(name: &str, kind: &str, ag: usize, params: &str, ret: &str, body: &str) -> Option<String> {
  let is_async = ag == 1;
  let is_gen = ag == 2;
  let a = if is_async { "async " } else { "" };
  let st = if is_gen { "*" } else { "" };
  Some(match kind {
    "decl" => format!("export {}function{} {}({}){} {}\n", a, st, name, params, ret, body),
    "fnexpr" => format!("export const {} = {}function{} ({}){} {};\n", name, a, st, params, ret, body),
    "arrow" => {
      if is_gen {
        return None;
      }
      format!("export const {} = {}({}){} => {};\n", name, a, params, ret, body)
    }
    "method" => format!("export class {} {{ {}{}m({}){} {} }}\n", name, a, st, params, ret, body),
    "getter" => {
      if ag != 0 || !params.is_empty() {
        return None;
      }
      format!("export class {} {{ get g(){} {} }}\n", name, ret, body)
    }
    "setter" => {
      if ag != 0 || !ret.is_empty() || params.is_empty() || params.contains(", ") || params.starts_with("...") {
        return None;
      }
      format!("export class {} {{ set s({}) {} }}\n", name, params, body)
    }
    _ => {
      if ag != 0 || !ret.is_empty() {
        return None;
      }
      format!("export class {} {{ constructor({}) {} }}\n", name, params, body)
    }
  })
}

/// The idx-th combination of the exhaustively enumerated small domain, as one exported declaration
/// named `name` (None: the combination is not syntactically possible).
pub fn exhaustive_unit(idx: usize, name: &str) -> Option<String> {
  let n_block = EX_KINDS.len() * EX_RETS.len() * 3 * EX_BODIES.len() * 3;
  let n_params = EX_KINDS.len() * (EX_PARAMS.len() + EX_PAIRS.len()) * 2;
  if idx < n_block {
    let mut i = idx;
    let k = i % EX_KINDS.len();
    i /= EX_KINDS.len();
    let r = i % EX_RETS.len();
    i /= EX_RETS.len();
    let ag = i % 3;
    i /= 3;
    let b = i % EX_BODIES.len();
    i /= EX_BODIES.len();
    let params = ["", "a: number", "a = 1, b: string"][i % 3];
    return ex_unit(name, EX_KINDS[k], ag, params, EX_RETS[r], EX_BODIES[b]);
  }
  let idx = idx - n_block;
  if idx < n_params {
    let mut i = idx;
    let k = i % EX_KINDS.len();
    i /= EX_KINDS.len();
    let with_ret = i % 2 == 0;
    i /= 2;
    let params = if i < EX_PARAMS.len() { EX_PARAMS[i] } else { EX_PAIRS[i - EX_PARAMS.len()] };
    return ex_unit(name, EX_KINDS[k], 0, params, if with_ret { ": number" } else { "" }, "{ return 1; }");
  }
  let mut i = idx - n_params;
  let r = i % EX_RETS.len();
  i /= EX_RETS.len();
  let a = i % 2;
  i /= 2;
  let e = EX_EXPR_BODIES[i % EX_EXPR_BODIES.len()];
  Some(format!("export const {} = {}(a: number){} => {};\n", name, if a == 1 { "async " } else { "" }, EX_RETS[r], e))
}

pub const EX_PRELUDE: &str = "export type T0 = { a: number };\nconst someIdent: number = 1;\n";
pub const EX_PER_CASE: usize = 8;

/// module text of the j-th case of the exhaustive stream
pub fn exhaustive_module(j: usize) -> String {
  let mut s = String::from(EX_PRELUDE);
  for t in 0..EX_PER_CASE {
    let idx = j * EX_PER_CASE + t;
    if idx >= exhaustive_count() {
      break;
    }
    if let Some(u) = exhaustive_unit(idx, &format!("U{}", t)) {
      s.push_str(&u);
    }
  }
  s
}
