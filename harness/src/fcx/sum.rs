//! Summary of a parsed module in mini-TS vocabulary, printed as s-expressions
//! for the Coq side (Model/FcSummary.v documents the wire format field by field).
//! The same function summarises original and emitted modules.
use crate::sexp::Sx;
use deno_ast::swc::ast::*;
use std::collections::HashMap;

/// Strings (names, canonical type texts) are interned per case; 0 = none, 1 = "default".
pub struct Interner {
  map: HashMap<String, u64>,
  pub names: Vec<String>,
}

impl Interner {
  pub fn new() -> Interner {
    let mut i = Interner { map: HashMap::new(), names: vec![] };
    i.names.push(String::new());
    i.map.insert(String::new(), 0);
    i.id("default");
    i
  }
  pub fn id(&mut self, s: &str) -> u64 {
    if let Some(v) = self.map.get(s) {
      return *v;
    }
    let v = self.names.len() as u64;
    self.names.push(s.to_string());
    self.map.insert(s.to_string(), v);
    v
  }
}

#[derive(Default, Clone, Debug)]
pub struct SumStats {
  pub fns: u64,
  pub classes: u64,
  pub members: u64,
  pub vars: u64,
  pub params: u64,
  pub placeholders: u64,
  pub leavable_inits: u64,
  pub arrows: u64,
  pub ambient_items: u64,
  pub stmts: u64,
  pub enum_inits_nonliteral: u64,
}

pub struct Summariser<'a> {
  pub int: &'a mut Interner,
  pub stats: SumStats,
}

fn a(n: u64) -> Sx {
  Sx::A(n)
}
fn l(v: Vec<Sx>) -> Sx {
  Sx::L(v)
}
fn b(v: bool) -> Sx {
  Sx::b(v)
}

/// canonical text of a node: SWC's printer output with all whitespace removed
fn canon<N: deno_ast::swc::codegen::Node>(n: &N) -> String {
  let s = deno_ast::swc::codegen::to_code(n);
  s.chars().filter(|c| !c.is_whitespace()).collect()
}

fn strip_paren(e: &Expr) -> &Expr {
  match e {
    Expr::Paren(p) => strip_paren(&p.expr),
    _ => e,
  }
}

fn is_never(t: &TsType) -> bool {
  matches!(t, TsType::TsKeywordType(k) if k.kind == TsKeywordTypeKind::TsNeverKeyword)
}

/// `{} as never`, `[] as never`, `[] as never[]` (possibly parenthesised)
pub fn is_placeholder(e: &Expr) -> bool {
  match strip_paren(e) {
    Expr::TsAs(x) => {
      let ty_ok = is_never(&x.type_ann)
        || matches!(&*x.type_ann, TsType::TsArrayType(arr) if is_never(&arr.elem_type));
      let ex_ok = match strip_paren(&x.expr) {
        Expr::Object(o) => o.props.is_empty(),
        Expr::Array(arr) => arr.elems.is_empty(),
        _ => false,
      };
      ty_ok && ex_ok
    }
    _ => false,
  }
}

fn acc_code(x: Option<Accessibility>) -> u64 {
  match x {
    None | Some(Accessibility::Public) => 0,
    Some(Accessibility::Protected) => 1,
    Some(Accessibility::Private) => 2,
  }
}

impl<'a> Summariser<'a> {
  pub fn new(int: &'a mut Interner) -> Self {
    Summariser { int, stats: Default::default() }
  }

  fn name(&mut self, s: &str) -> Sx {
    a(self.int.id(s))
  }

  fn export_name(&mut self, n: &ModuleExportName) -> Sx {
    match n {
      ModuleExportName::Ident(i) => self.name(&i.sym),
      ModuleExportName::Str(s) => {
        let v = s.value.to_string_lossy().to_string();
        self.name(&v)
      }
    }
  }

  /// (cls id strip_undef? needs_paren_in_union) ; cls: 0 none 1 any 2 other
  fn tyinfo(&mut self, t: Option<&TsType>) -> Sx {
    match t {
      None => l(vec![a(0), a(0), l(vec![]), b(false)]),
      Some(t) => {
        let cls = match t {
          TsType::TsKeywordType(k) if k.kind == TsKeywordTypeKind::TsAnyKeyword => 1,
          _ => 2,
        };
        let id = self.int.id(&canon(t));
        // `T | undefined` -> id of T (the union without its last member when that is `undefined`)
        let strip = match t {
          TsType::TsUnionOrIntersectionType(TsUnionOrIntersectionType::TsUnionType(u)) if u.types.len() >= 2 => {
            let last = u.types.last().unwrap();
            if matches!(&**last, TsType::TsKeywordType(k) if k.kind == TsKeywordTypeKind::TsUndefinedKeyword) {
              if u.types.len() == 2 {
                Some(self.int.id(&canon(&*u.types[0])))
              } else {
                let mut rest = u.clone();
                rest.types.pop();
                Some(self.int.id(&canon(&TsType::TsUnionOrIntersectionType(
                  TsUnionOrIntersectionType::TsUnionType(rest),
                ))))
              }
            } else {
              None
            }
          }
          _ => None,
        };
        let paren = matches!(t, TsType::TsFnOrConstructorType(_) | TsType::TsConditionalType(_) | TsType::TsInferType(_));
        l(vec![a(cls), a(id), Sx::opt(strip.map(a)), b(paren)])
      }
    }
  }

  fn tyann(&mut self, t: &Option<Box<TsTypeAnn>>) -> Sx {
    self.tyinfo(t.as_ref().map(|x| &*x.type_ann))
  }

  fn tparams(&mut self, t: &Option<Box<TsTypeParamDecl>>) -> (Sx, Sx) {
    match t {
      None => (a(0), a(0)),
      Some(d) => (a(d.params.len() as u64), a(self.int.id(&canon(&**d)))),
    }
  }

  // ---------------------------------------------------------------- expressions

  pub fn ecls(&mut self, e: &Expr) -> Sx {
    if is_placeholder(e) {
      self.stats.placeholders += 1;
      return l(vec![a(1)]);
    }
    let leaf = || l(vec![a(2)]);
    let other = || l(vec![a(6)]);
    let node = |v: Vec<Sx>| {
      let mut r = vec![a(3)];
      r.extend(v);
      l(r)
    };
    match e {
      Expr::Paren(p) => self.ecls(&p.expr),
      Expr::TsAs(x) => l(vec![a(4), self.ecls(&x.expr)]),
      Expr::TsTypeAssertion(x) => l(vec![a(4), self.ecls(&x.expr)]),
      Expr::TsConstAssertion(x) => node(vec![self.ecls(&x.expr)]),
      Expr::TsNonNull(x) => node(vec![self.ecls(&x.expr)]),
      Expr::TsSatisfies(x) => node(vec![self.ecls(&x.expr)]),
      Expr::This(_) | Expr::Ident(_) => leaf(),
      Expr::Lit(lit) => match lit {
        Lit::JSXText(_) => other(),
        _ => leaf(),
      },
      Expr::Array(arr) => {
        let v = arr.elems.iter().flatten().map(|el| self.ecls(&el.expr)).collect();
        node(v)
      }
      Expr::Object(o) => {
        let mut v = vec![];
        for p in &o.props {
          match p {
            PropOrSpread::Spread(s) => v.push(self.ecls(&s.expr)),
            PropOrSpread::Prop(p) => match &**p {
              Prop::Shorthand(_) => v.push(leaf()),
              Prop::KeyValue(kv) => {
                if let PropName::Computed(c) = &kv.key {
                  v.push(self.ecls(&c.expr));
                }
                v.push(self.ecls(&kv.value));
              }
              Prop::Assign(x) => v.push(self.ecls(&x.value)),
              Prop::Getter(_) | Prop::Setter(_) | Prop::Method(_) => v.push(other()),
            },
          }
        }
        node(v)
      }
      Expr::Unary(x) => node(vec![self.ecls(&x.arg)]),
      Expr::Update(x) => node(vec![self.ecls(&x.arg)]),
      Expr::Bin(x) => node(vec![self.ecls(&x.left), self.ecls(&x.right)]),
      Expr::Cond(x) => node(vec![self.ecls(&x.test), self.ecls(&x.cons), self.ecls(&x.alt)]),
      Expr::Member(m) => {
        let mut v = vec![self.ecls(&m.obj)];
        match &m.prop {
          MemberProp::Ident(_) => {}
          MemberProp::PrivateName(_) => v.push(other()),
          MemberProp::Computed(c) => v.push(self.ecls(&c.expr)),
        }
        node(v)
      }
      Expr::Await(x) => node(vec![self.ecls(&x.arg)]),
      Expr::Tpl(t) => {
        let v = t.exprs.iter().map(|e| self.ecls(e)).collect();
        node(v)
      }
      Expr::Fn(f) => l(vec![a(5), self.function(&f.function, 1, false)]),
      Expr::Arrow(f) => l(vec![a(5), self.arrow(f)]),
      _ => other(),
    }
  }

  fn opt_ecls(&mut self, e: Option<&Expr>) -> Sx {
    match e {
      None => l(vec![a(0)]),
      Some(e) => self.ecls(e),
    }
  }

  // ---------------------------------------------------------------- function-likes

  fn pat_has_inits(p: &Pat) -> bool {
    match p {
      Pat::Ident(_) | Pat::Invalid(_) => false,
      Pat::Expr(_) => true,
      Pat::Assign(_) => true,
      Pat::Rest(r) => Self::pat_has_inits(&r.arg),
      Pat::Array(arr) => arr.elems.iter().flatten().any(Self::pat_has_inits),
      Pat::Object(o) => o.props.iter().any(|p| match p {
        ObjectPatProp::KeyValue(kv) => matches!(kv.key, PropName::Computed(_)) || Self::pat_has_inits(&kv.value),
        ObjectPatProp::Assign(x) => x.value.is_some(),
        ObjectPatProp::Rest(r) => Self::pat_has_inits(&r.arg),
      }),
    }
  }

  /// (pat ty optional default decos pat_inits prop name)
  fn param(&mut self, pat: &Pat, decos: bool, prop: Option<(Option<Accessibility>, bool)>) -> Sx {
    self.stats.params += 1;
    let (inner, default): (&Pat, Option<&Expr>) = match pat {
      Pat::Assign(x) => (&x.left, Some(&x.right)),
      p => (p, None),
    };
    let (cls, ty, optional, inits, name) = match inner {
      Pat::Ident(i) => (0, self.tyann(&i.type_ann), i.id.optional, false, self.int.id(&i.id.sym)),
      Pat::Array(x) => (1, self.tyann(&x.type_ann), x.optional, Self::pat_has_inits(inner), 0),
      Pat::Object(x) => (2, self.tyann(&x.type_ann), x.optional, Self::pat_has_inits(inner), 0),
      Pat::Rest(r) => {
        let n = match &*r.arg {
          Pat::Ident(i) => self.int.id(&i.id.sym),
          _ => 0,
        };
        (3, self.tyann(&r.type_ann), false, Self::pat_has_inits(&r.arg), n)
      }
      _ => (4, self.tyinfo(None), false, true, 0),
    };
    let prop_sx = match prop {
      None => l(vec![]),
      Some((acc, readonly)) => l(vec![l(vec![a(acc_code(acc)), b(readonly)])]),
    };
    l(vec![a(cls), ty, b(optional), self.opt_ecls(default), b(decos), b(inits), prop_sx, a(name)])
  }

  fn body_of_block(&mut self, body: Option<&BlockStmt>) -> Sx {
    let Some(body) = body else { return l(vec![a(0)]) };
    if body.stmts.is_empty() {
      return l(vec![a(1)]);
    }
    if body.stmts.len() == 1 {
      if let Stmt::Return(r) = &body.stmts[0] {
        if let Some(arg) = &r.arg {
          if is_placeholder(arg) {
            self.stats.placeholders += 1;
            return l(vec![a(2)]);
          }
        }
      }
    }
    let all_super = body.stmts.iter().all(|s| match s {
      Stmt::Expr(es) => match &*es.expr {
        Expr::Call(c) => matches!(c.callee, Callee::Super(_)) && c.args.iter().all(|x| is_placeholder(&x.expr)),
        _ => false,
      },
      _ => false,
    });
    if all_super {
      return l(vec![a(3), a(body.stmts.len() as u64)]);
    }
    l(vec![a(5)])
  }

  /// (kind params ret async gen body decos tparams_count tparams_id overload_impl)
  /// kind: 0 decl 1 fn-expr 2 arrow 3 method 4 getter 5 setter 6 ctor
  pub fn function(&mut self, f: &Function, kind: u64, overload_impl: bool) -> Sx {
    self.stats.fns += 1;
    let params: Vec<Sx> = f.params.iter().map(|p| self.param(&p.pat, !p.decorators.is_empty(), None)).collect();
    let (tc, ti) = self.tparams(&f.type_params);
    l(vec![
      a(kind),
      l(params),
      self.tyann(&f.return_type),
      b(f.is_async),
      b(f.is_generator),
      self.body_of_block(f.body.as_ref()),
      b(!f.decorators.is_empty()),
      tc,
      ti,
      b(overload_impl),
    ])
  }

  fn arrow(&mut self, f: &ArrowExpr) -> Sx {
    self.stats.fns += 1;
    self.stats.arrows += 1;
    let params: Vec<Sx> = f.params.iter().map(|p| self.param(p, false, None)).collect();
    let (tc, ti) = self.tparams(&f.type_params);
    let body = match &*f.body {
      BlockStmtOrExpr::BlockStmt(bl) => self.body_of_block(Some(bl)),
      BlockStmtOrExpr::Expr(e) => l(vec![a(4), self.ecls(e)]),
    };
    l(vec![a(2), l(params), self.tyann(&f.return_type), b(f.is_async), b(f.is_generator), body, b(false), tc, ti, b(false)])
  }

  fn ctor(&mut self, c: &Constructor, overload_impl: bool) -> Sx {
    self.stats.fns += 1;
    let params: Vec<Sx> = c
      .params
      .iter()
      .map(|p| match p {
        ParamOrTsParamProp::Param(p) => self.param(&p.pat, !p.decorators.is_empty(), None),
        ParamOrTsParamProp::TsParamProp(pp) => {
          let pat = match &pp.param {
            TsParamPropParam::Ident(i) => Pat::Ident(i.clone()),
            TsParamPropParam::Assign(x) => Pat::Assign(x.clone()),
          };
          self.param(&pat, !pp.decorators.is_empty(), Some((pp.accessibility, pp.readonly)))
        }
      })
      .collect();
    l(vec![
      a(6),
      l(params),
      self.tyinfo(None),
      b(false),
      b(false),
      self.body_of_block(c.body.as_ref()),
      b(false),
      a(0),
      a(0),
      b(overload_impl),
    ])
  }

  // ---------------------------------------------------------------- classes

  /// (cls id); cls: 0 ident 1 str 2 num/bigint 3 computed 4 #name 5 the `#private` marker name
  fn prop_name(&mut self, k: &PropName) -> Sx {
    let (cls, text) = match k {
      PropName::Ident(i) => (0, i.sym.to_string()),
      PropName::Str(s) => (1, s.value.to_string_lossy().to_string()),
      PropName::Num(n) => (2, n.value.to_string()),
      PropName::BigInt(n) => (2, n.value.to_string()),
      PropName::Computed(c) => (3, format!("[{}]", canon(&*c.expr))),
    };
    l(vec![a(cls), a(self.int.id(&text))])
  }

  fn private_name(&mut self, n: &PrivateName) -> Sx {
    let text = format!("#{}", n.name);
    l(vec![a(if &*n.name == "private" { 5 } else { 4 }), a(self.int.id(&text))])
  }

  fn key(&mut self, k: &Key) -> Sx {
    match k {
      Key::Private(p) => self.private_name(p),
      Key::Public(p) => self.prop_name(p),
    }
  }

  fn member_key_text(m: &ClassMember) -> Option<(String, bool)> {
    match m {
      ClassMember::Method(x) => Some((canon(&x.key), x.is_static)),
      ClassMember::PrivateMethod(x) => Some((format!("#{}", x.key.name), x.is_static)),
      _ => None,
    }
  }

  /// (decos super_cls super_id (implements) tparams_count tparams_id abstract (members))
  pub fn class(&mut self, c: &Class) -> Sx {
    self.stats.classes += 1;
    fn simple(e: &Expr) -> bool {
      match e {
        Expr::Ident(_) => true,
        Expr::Member(m) => {
          simple(&m.obj)
            && match &m.prop {
              MemberProp::Ident(_) => true,
              MemberProp::PrivateName(_) => false,
              MemberProp::Computed(c) => simple(&c.expr),
            }
        }
        _ => false,
      }
    }
    let (scls, sid) = match &c.super_class {
      None => (0, 0),
      Some(e) => {
        let mut text = canon(&**e);
        if let Some(tp) = &c.super_type_params {
          text.push_str(&canon(&**tp));
        }
        (if simple(e) { 1 } else { 2 }, self.int.id(&text))
      }
    };
    let implements: Vec<Sx> = c.implements.iter().map(|i| a(self.int.id(&canon(i)))).collect();
    let (tc, ti) = self.tparams(&c.type_params);
    let mut members = vec![];
    for (idx, m) in c.body.iter().enumerate() {
      self.stats.members += 1;
      // an implementation (has a body) preceded by a bodyless signature of the same member
      let overload_impl = |has_body: bool, is_ctor: bool| -> bool {
        if !has_body || idx == 0 {
          return false;
        }
        match (&c.body[idx - 1], is_ctor) {
          (ClassMember::Constructor(p), true) => p.body.is_none(),
          (prev, false) => match (prev, Self::member_key_text(prev), Self::member_key_text(m)) {
            (ClassMember::Method(p), Some(k1), Some(k2)) => p.function.body.is_none() && !p.is_abstract && k1 == k2,
            (ClassMember::PrivateMethod(p), Some(k1), Some(k2)) => p.function.body.is_none() && k1 == k2,
            _ => false,
          },
          _ => false,
        }
      };
      let sx = match m {
        ClassMember::Constructor(x) => {
          let oi = overload_impl(x.body.is_some(), true);
          l(vec![a(0), a(acc_code(x.accessibility)), self.ctor(x, oi)])
        }
        ClassMember::Method(x) => {
          let kind = match x.kind {
            MethodKind::Method => 3,
            MethodKind::Getter => 4,
            MethodKind::Setter => 5,
          };
          let oi = overload_impl(x.function.body.is_some(), false);
          l(vec![
            a(1),
            self.prop_name(&x.key),
            a(acc_code(x.accessibility)),
            b(x.is_static),
            b(x.is_abstract),
            b(x.is_optional),
            self.function(&x.function, kind, oi),
          ])
        }
        ClassMember::PrivateMethod(x) => {
          let kind = match x.kind {
            MethodKind::Method => 3,
            MethodKind::Getter => 4,
            MethodKind::Setter => 5,
          };
          l(vec![
            a(1),
            self.private_name(&x.key),
            a(acc_code(x.accessibility)),
            b(x.is_static),
            b(x.is_abstract),
            b(x.is_optional),
            self.function(&x.function, kind, false),
          ])
        }
        ClassMember::ClassProp(x) => l(vec![
          a(2),
          self.prop_name(&x.key),
          a(acc_code(x.accessibility)),
          b(x.is_static),
          self.tyann(&x.type_ann),
          b(x.declare),
          b(x.definite),
          b(x.is_optional),
          b(x.readonly),
          b(x.is_abstract),
          b(x.is_override),
          self.opt_ecls(x.value.as_deref()),
          b(!x.decorators.is_empty()),
        ]),
        ClassMember::PrivateProp(x) => l(vec![
          a(2),
          self.private_name(&x.key),
          a(acc_code(x.accessibility)),
          b(x.is_static),
          self.tyann(&x.type_ann),
          b(false),
          b(x.definite),
          b(x.is_optional),
          b(x.readonly),
          b(false),
          b(x.is_override),
          self.opt_ecls(x.value.as_deref()),
          b(!x.decorators.is_empty()),
        ]),
        ClassMember::AutoAccessor(x) => l(vec![
          a(3),
          self.key(&x.key),
          a(acc_code(x.accessibility)),
          b(x.is_static),
          self.tyann(&x.type_ann),
          self.opt_ecls(x.value.as_deref()),
          b(!x.decorators.is_empty()),
        ]),
        ClassMember::TsIndexSignature(x) => l(vec![a(4), a(self.int.id(&canon(x)))]),
        ClassMember::StaticBlock(_) => l(vec![a(5)]),
        ClassMember::Empty(_) => l(vec![a(6)]),
      };
      members.push(sx);
    }
    l(vec![b(!c.decorators.is_empty()), a(scls), a(sid), l(implements), tc, ti, b(c.is_abstract), l(members)])
  }

  // ---------------------------------------------------------------- items

  fn var(&mut self, ex: u64, ambient: bool, v: &VarDecl) -> Sx {
    let kind = match v.kind {
      VarDeclKind::Var => 0,
      VarDeclKind::Let => 1,
      VarDeclKind::Const => 2,
    };
    let decls: Vec<Sx> = v
      .decls
      .iter()
      .map(|d| {
        self.stats.vars += 1;
        let (name, pat, ty) = match &d.name {
          Pat::Ident(i) => (self.int.id(&i.id.sym), 0, self.tyann(&i.type_ann)),
          Pat::Array(x) => (0, 1, self.tyann(&x.type_ann)),
          Pat::Object(x) => (0, 2, self.tyann(&x.type_ann)),
          _ => (0, 4, self.tyinfo(None)),
        };
        let init = self.opt_ecls(d.init.as_deref());
        l(vec![a(name), a(pat), ty, init, b(d.definite)])
      })
      .collect();
    l(vec![a(5), a(ex), b(ambient), a(kind), l(decls)])
  }

  fn decl(&mut self, ex: u64, ambient: bool, d: &Decl, prev_sig: Option<&str>) -> Sx {
    match d {
      Decl::Fn(f) => {
        let amb = ambient || f.declare;
        if amb {
          self.stats.ambient_items += 1;
        }
        let oi = f.function.body.is_some() && prev_sig == Some(&*f.ident.sym);
        l(vec![a(3), a(ex), self.name(&f.ident.sym), b(amb), self.function(&f.function, 0, oi)])
      }
      Decl::Class(c) => {
        let amb = ambient || c.declare;
        if amb {
          self.stats.ambient_items += 1;
        }
        l(vec![a(4), a(ex), self.name(&c.ident.sym), b(amb), self.class(&c.class)])
      }
      Decl::Var(v) => {
        let amb = ambient || v.declare;
        if amb {
          self.stats.ambient_items += 1;
        }
        self.var(ex, amb, v)
      }
      Decl::TsInterface(i) => {
        let (tc, ti) = self.tparams(&i.type_params);
        let ext: Vec<Sx> = i.extends.iter().map(|e| a(self.int.id(&canon(e)))).collect();
        l(vec![a(6), a(ex), self.name(&i.id.sym), tc, ti, l(ext), a(self.int.id(&canon(&i.body)))])
      }
      Decl::TsTypeAlias(t) => {
        let (tc, ti) = self.tparams(&t.type_params);
        l(vec![a(7), a(ex), self.name(&t.id.sym), tc, ti, a(self.int.id(&canon(&*t.type_ann)))])
      }
      Decl::TsEnum(e) => {
        for m in &e.members {
          if let Some(init) = &m.init {
            if !matches!(strip_paren(init), Expr::Lit(_)) {
              self.stats.enum_inits_nonliteral += 1;
            }
          }
        }
        l(vec![a(8), a(ex), self.name(&e.id.sym), b(e.is_const), a(self.int.id(&canon(&**e)))])
      }
      Decl::TsModule(m) => {
        let amb = ambient || m.declare || m.global;
        if amb {
          self.stats.ambient_items += 1;
        }
        match &m.id {
          TsModuleName::Str(_) => return l(vec![a(12), a(5)]),
          TsModuleName::Ident(_) if m.global => return l(vec![a(12), a(5)]),
          _ => {}
        }
        let mut name = match &m.id {
          TsModuleName::Ident(i) => i.sym.to_string(),
          TsModuleName::Str(s) => s.value.to_string_lossy().to_string(),
        };
        let mut body = m.body.as_ref();
        let mut items = vec![];
        loop {
          match body {
            None => break,
            Some(TsNamespaceBody::TsModuleBlock(bl)) => {
              items = self.items(&bl.body, amb);
              break;
            }
            Some(TsNamespaceBody::TsNamespaceDecl(d)) => {
              name.push('.');
              name.push_str(&d.id.sym);
              body = Some(&*d.body);
            }
          }
        }
        l(vec![a(9), a(ex), self.name(&name), b(amb), l(items)])
      }
      Decl::Using(_) => l(vec![a(12), a(4)]),
    }
  }

  pub fn items(&mut self, body: &[ModuleItem], ambient: bool) -> Vec<Sx> {
    let mut out = vec![];
    // name of the directly preceding bodyless function signature (overload detection)
    let mut prev_sig: Option<String> = None;
    for item in body {
      let mut this_sig: Option<String> = None;
      let sx = match item {
        ModuleItem::ModuleDecl(d) => match d {
          ModuleDecl::Import(i) => {
            let specs: Vec<Sx> = i
              .specifiers
              .iter()
              .map(|s| match s {
                ImportSpecifier::Named(n) => {
                  let imported = match &n.imported {
                    Some(x) => self.export_name(x),
                    None => self.name(&n.local.sym),
                  };
                  l(vec![self.name(&n.local.sym), imported, a(0)])
                }
                ImportSpecifier::Default(n) => l(vec![self.name(&n.local.sym), a(1), a(1)]),
                ImportSpecifier::Namespace(n) => l(vec![self.name(&n.local.sym), a(0), a(2)]),
              })
              .collect();
            let src = i.src.value.to_string_lossy().to_string();
            l(vec![a(0), b(i.type_only), self.name(&src), l(specs)])
          }
          ModuleDecl::ExportNamed(n) => {
            let specs: Vec<Sx> = n
              .specifiers
              .iter()
              .map(|s| match s {
                ExportSpecifier::Named(x) => {
                  let orig = self.export_name(&x.orig);
                  let exported = match &x.exported {
                    Some(e) => self.export_name(e),
                    None => orig.clone(),
                  };
                  l(vec![orig, exported, a(0)])
                }
                ExportSpecifier::Namespace(x) => l(vec![a(0), self.export_name(&x.name), a(1)]),
                ExportSpecifier::Default(x) => l(vec![a(1), self.name(&x.exported.sym), a(2)]),
              })
              .collect();
            let src = n.src.as_ref().map(|s| {
              let v = s.value.to_string_lossy().to_string();
              self.name(&v)
            });
            l(vec![a(1), b(n.type_only), Sx::opt(src), l(specs)])
          }
          ModuleDecl::ExportAll(x) => {
            let src = x.src.value.to_string_lossy().to_string();
            l(vec![a(2), b(x.type_only), self.name(&src)])
          }
          ModuleDecl::ExportDecl(x) => {
            if let Decl::Fn(f) = &x.decl {
              if f.function.body.is_none() {
                this_sig = Some(f.ident.sym.to_string());
              }
            }
            self.decl(1, ambient, &x.decl, prev_sig.as_deref())
          }
          ModuleDecl::ExportDefaultDecl(x) => match &x.decl {
            DefaultDecl::Class(c) => {
              let name = c.ident.as_ref().map(|i| i.sym.to_string()).unwrap_or_default();
              l(vec![a(4), a(2), self.name(&name), b(ambient), self.class(&c.class)])
            }
            DefaultDecl::Fn(f) => {
              let name = f.ident.as_ref().map(|i| i.sym.to_string()).unwrap_or_default();
              let key = format!("default:{}", name);
              if f.function.body.is_none() {
                this_sig = Some(key.clone());
              }
              let oi = f.function.body.is_some() && prev_sig.as_deref() == Some(&key);
              l(vec![a(3), a(2), self.name(&name), b(ambient), self.function(&f.function, 0, oi)])
            }
            DefaultDecl::TsInterfaceDecl(i) => {
              let (tc, ti) = self.tparams(&i.type_params);
              let ext: Vec<Sx> = i.extends.iter().map(|e| a(self.int.id(&canon(e)))).collect();
              l(vec![a(6), a(2), self.name(&i.id.sym), tc, ti, l(ext), a(self.int.id(&canon(&i.body)))])
            }
          },
          ModuleDecl::ExportDefaultExpr(x) => l(vec![a(10), self.ecls(&x.expr)]),
          ModuleDecl::TsImportEquals(x) => match &x.module_ref {
            TsModuleRef::TsEntityName(_) => l(vec![a(12), a(0)]),
            TsModuleRef::TsExternalModuleRef(_) => l(vec![a(12), a(1)]),
          },
          ModuleDecl::TsExportAssignment(_) => l(vec![a(12), a(2)]),
          ModuleDecl::TsNamespaceExport(_) => l(vec![a(12), a(3)]),
        },
        ModuleItem::Stmt(s) => match s {
          Stmt::Decl(d) => {
            if let Decl::Fn(f) = d {
              if f.function.body.is_none() {
                this_sig = Some(f.ident.sym.to_string());
              }
            }
            self.decl(0, ambient, d, prev_sig.as_deref())
          }
          Stmt::Empty(_) => {
            prev_sig = None;
            continue;
          }
          _ => {
            self.stats.stmts += 1;
            l(vec![a(11)])
          }
        },
      };
      prev_sig = this_sig;
      out.push(sx);
    }
    out
  }
}

/// Parses a module text and summarises it: (ambient_module (items)).
pub fn summarise(
  int: &mut Interner,
  specifier: &str,
  media_type: deno_ast::MediaType,
  text: &str,
) -> Result<(Sx, SumStats), String> {
  let parsed = deno_ast::parse_program(deno_ast::ParseParams {
    specifier: deno_ast::ModuleSpecifier::parse(specifier).map_err(|e| e.to_string())?,
    text: text.into(),
    media_type,
    capture_tokens: false,
    scope_analysis: false,
    maybe_syntax: None,
  })
  .map_err(|e| e.to_string())?;
  let ambient = media_type.is_declaration();
  let mut s = Summariser::new(int);
  let items = match parsed.program_ref() {
    deno_ast::ProgramRef::Module(m) => s.items(&m.body, ambient),
    deno_ast::ProgramRef::Script(sc) => {
      let body: Vec<ModuleItem> = sc.body.iter().map(|st| ModuleItem::Stmt(st.clone())).collect();
      s.items(&body, ambient)
    }
  };
  let stats = s.stats.clone();
  Ok((Sx::L(vec![Sx::b(ambient), Sx::L(items)]), stats))
}
