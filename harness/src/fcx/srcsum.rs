//! SOURCE-side summaries of function-likes for the transform model
//! (coq/Model/FcTransform.v documents the vocabulary), the units of a module
//! (public function-likes addressed by declaration / member name) and the
//! normalisation of emitted function summaries to the model's output shape.
use super::sum::Summariser;
use crate::sexp::Sx;
use deno_ast::swc::ast::*;
use deno_ast::swc::common::Spanned;

fn a(n: u64) -> Sx {
  Sx::A(n)
}
fn l(v: Vec<Sx>) -> Sx {
  Sx::L(v)
}
fn b(v: bool) -> Sx {
  Sx::b(v)
}
fn tagged(t: u64, mut v: Vec<Sx>) -> Sx {
  v.insert(0, a(t));
  l(v)
}

pub fn src_ty(t: &TsType) -> Sx {
  match t {
    TsType::TsKeywordType(k) => l(vec![
      a(0),
      a(match k.kind {
        TsKeywordTypeKind::TsAnyKeyword => 1,
        TsKeywordTypeKind::TsVoidKeyword => 2,
        _ => 0,
      }),
    ]),
    TsType::TsThisType(_) => l(vec![a(1)]),
    TsType::TsFnOrConstructorType(_) => l(vec![a(2)]),
    TsType::TsTypeRef(r) => tagged(
      3,
      r.type_params.as_ref().map(|p| p.params.iter().map(|x| src_ty(x)).collect()).unwrap_or_default(),
    ),
    TsType::TsTypeQuery(_) => l(vec![a(4)]),
    TsType::TsLitType(t) => l(vec![a(5), b(!matches!(t.lit, TsLit::Tpl(_)))]),
    TsType::TsTypeLit(_) => l(vec![a(6)]),
    TsType::TsTupleType(t) => tagged(7, t.elem_types.iter().map(|e| src_ty(&e.ty)).collect()),
    TsType::TsArrayType(t) => l(vec![a(8), src_ty(&t.elem_type)]),
    TsType::TsOptionalType(t) => l(vec![a(9), src_ty(&t.type_ann)]),
    TsType::TsRestType(t) => l(vec![a(10), src_ty(&t.type_ann)]),
    TsType::TsUnionOrIntersectionType(TsUnionOrIntersectionType::TsUnionType(u)) => {
      tagged(11, u.types.iter().map(|x| src_ty(x)).collect())
    }
    TsType::TsUnionOrIntersectionType(TsUnionOrIntersectionType::TsIntersectionType(u)) => {
      tagged(12, u.types.iter().map(|x| src_ty(x)).collect())
    }
    TsType::TsConditionalType(_) => l(vec![a(13)]),
    TsType::TsInferType(_) => l(vec![a(14)]),
    TsType::TsParenthesizedType(t) => l(vec![a(15), src_ty(&t.type_ann)]),
    TsType::TsTypeOperator(t) => l(vec![a(16), src_ty(&t.type_ann)]),
    TsType::TsIndexedAccessType(_) => l(vec![a(17)]),
    TsType::TsMappedType(_) => l(vec![a(18)]),
    TsType::TsTypePredicate(_) => l(vec![a(19)]),
    TsType::TsImportType(_) => l(vec![a(20)]),
  }
}

fn tycls(t: &Option<Box<TsTypeAnn>>) -> u64 {
  match t {
    None => 0,
    Some(t) => match &*t.type_ann {
      TsType::TsKeywordType(k) if k.kind == TsKeywordTypeKind::TsAnyKeyword => 1,
      _ => 2,
    },
  }
}

fn is_void_ann(t: &Option<Box<TsTypeAnn>>) -> bool {
  matches!(t, Some(t) if matches!(&*t.type_ann, TsType::TsKeywordType(k) if k.kind == TsKeywordTypeKind::TsVoidKeyword))
}

/// `Symbol()`, `Symbol("d")`, `Symbol.for("d")` (the generator never shadows Symbol)
fn is_symbol_call(c: &CallExpr) -> bool {
  let Callee::Expr(e) = &c.callee else { return false };
  let id = match &**e {
    Expr::Ident(i) => i,
    Expr::Member(m) => {
      let (Some(o), Some(p)) = (m.obj.as_ident(), m.prop.as_ident()) else { return false };
      if &*p.sym != "for" {
        return false;
      }
      o
    }
    _ => return false,
  };
  if &*id.sym != "Symbol" {
    return false;
  }
  if c.args.is_empty() {
    return true;
  }
  c.args.len() == 1 && matches!(c.args[0].expr.as_lit(), Some(Lit::Str(_)))
}

pub fn src_sx(e: &Expr) -> Sx {
  let node = |v: Vec<Sx>| tagged(3, v);
  match e {
    Expr::Paren(p) => src_sx(&p.expr),
    Expr::This(_) | Expr::Ident(_) => l(vec![a(2)]),
    Expr::Lit(Lit::JSXText(_)) => l(vec![a(10)]),
    Expr::Lit(_) => l(vec![a(1)]),
    Expr::Array(arr) => node(arr.elems.iter().flatten().map(|el| src_sx(&el.expr)).collect()),
    Expr::Object(o) => {
      let mut v = vec![];
      for p in &o.props {
        match p {
          PropOrSpread::Spread(s) => v.push(src_sx(&s.expr)),
          PropOrSpread::Prop(p) => match &**p {
            Prop::Shorthand(_) => v.push(l(vec![a(2)])),
            Prop::KeyValue(kv) => {
              if let PropName::Computed(c) = &kv.key {
                v.push(src_sx(&c.expr));
              }
              v.push(src_sx(&kv.value));
            }
            Prop::Assign(x) => v.push(src_sx(&x.value)),
            Prop::Getter(_) | Prop::Setter(_) | Prop::Method(_) => v.push(l(vec![a(10)])),
          },
        }
      }
      node(v)
    }
    Expr::Unary(x) => node(vec![src_sx(&x.arg)]),
    Expr::Update(x) => node(vec![src_sx(&x.arg)]),
    Expr::Bin(x) => node(vec![src_sx(&x.left), src_sx(&x.right)]),
    Expr::Cond(x) => node(vec![src_sx(&x.test), src_sx(&x.cons), src_sx(&x.alt)]),
    Expr::Member(m) => {
      let mut v = vec![src_sx(&m.obj)];
      match &m.prop {
        MemberProp::Ident(_) => {}
        MemberProp::PrivateName(_) => v.push(l(vec![a(10)])),
        MemberProp::Computed(c) => v.push(src_sx(&c.expr)),
      }
      node(v)
    }
    Expr::Await(x) => node(vec![src_sx(&x.arg)]),
    Expr::TsConstAssertion(x) => node(vec![src_sx(&x.expr)]),
    Expr::TsNonNull(x) => node(vec![src_sx(&x.expr)]),
    Expr::Tpl(t) => tagged(4, t.exprs.iter().map(|e| src_sx(e)).collect()),
    Expr::TsAs(x) => l(vec![a(5), src_ty(&x.type_ann), src_sx(&x.expr)]),
    Expr::TsTypeAssertion(x) => l(vec![a(5), src_ty(&x.type_ann), src_sx(&x.expr)]),
    Expr::TsSatisfies(x) => l(vec![a(6), src_sx(&x.expr)]),
    Expr::Call(c) if is_symbol_call(c) => l(vec![a(7)]),
    Expr::Fn(f) => l(vec![a(8), src_fn(&f.function, 1)]),
    Expr::Arrow(f) => l(vec![a(9), src_arrow(f)]),
    _ => l(vec![a(10)]),
  }
}

fn src_stmts(v: &[Stmt]) -> Vec<Sx> {
  v.iter().map(src_stmt).collect()
}

pub fn src_stmt(s: &Stmt) -> Sx {
  match s {
    Stmt::Return(r) => l(vec![a(0), b(r.arg.is_some())]),
    Stmt::Block(bl) => tagged(1, src_stmts(&bl.stmts)),
    Stmt::With(n) => l(vec![a(2), src_stmt(&n.body)]),
    Stmt::Labeled(n) => l(vec![a(2), src_stmt(&n.body)]),
    Stmt::While(n) => l(vec![a(2), src_stmt(&n.body)]),
    Stmt::DoWhile(n) => l(vec![a(2), src_stmt(&n.body)]),
    Stmt::For(n) => l(vec![a(2), src_stmt(&n.body)]),
    Stmt::ForIn(n) => l(vec![a(2), src_stmt(&n.body)]),
    Stmt::ForOf(n) => l(vec![a(2), src_stmt(&n.body)]),
    Stmt::If(n) => match &n.alt {
      None => l(vec![a(3), src_stmt(&n.cons)]),
      Some(alt) => l(vec![a(3), src_stmt(&n.cons), src_stmt(alt)]),
    },
    Stmt::Switch(n) => tagged(4, n.cases.iter().map(|c| l(src_stmts(&c.cons))).collect()),
    Stmt::Try(n) => l(vec![
      a(5),
      l(src_stmts(&n.block.stmts)),
      Sx::opt(n.handler.as_ref().map(|h| l(src_stmts(&h.body.stmts)))),
      Sx::opt(n.finalizer.as_ref().map(|f| l(src_stmts(&f.stmts)))),
    ]),
    Stmt::Expr(es) => match &*es.expr {
      Expr::Call(c) if matches!(c.callee, Callee::Super(_)) => l(vec![a(6)]),
      _ => l(vec![a(7)]),
    },
    _ => l(vec![a(7)]),
  }
}

/// (pat ty opt default prop)
fn src_param(pat: &Pat, prop: Option<(Option<Accessibility>, bool)>) -> Sx {
  let (inner, default): (&Pat, Option<&Expr>) = match pat {
    Pat::Assign(x) => (&x.left, Some(&x.right)),
    p => (p, None),
  };
  let (cls, ty, opt) = match inner {
    Pat::Ident(i) => (0, tycls(&i.type_ann), i.id.optional),
    Pat::Array(x) => (1, tycls(&x.type_ann), x.optional),
    Pat::Object(x) => (2, tycls(&x.type_ann), x.optional),
    Pat::Rest(r) => (3, tycls(&r.type_ann), false),
    _ => (4, 0, false),
  };
  let d = match default {
    None => l(vec![a(0)]),
    Some(e) => src_sx(e),
  };
  let prop_sx = match prop {
    None => l(vec![]),
    Some((acc, ro)) => l(vec![l(vec![
      a(match acc {
        None | Some(Accessibility::Public) => 0,
        Some(Accessibility::Protected) => 1,
        Some(Accessibility::Private) => 2,
      }),
      b(ro),
    ])]),
  };
  l(vec![a(cls), a(ty), b(opt), d, prop_sx])
}

fn src_body(body: Option<&BlockStmt>) -> Sx {
  match body {
    None => l(vec![a(0)]),
    Some(bl) => tagged(1, src_stmts(&bl.stmts)),
  }
}

/// (kind params ret ret_void async gen body decos)
pub fn src_fn(f: &Function, kind: u64) -> Sx {
  l(vec![
    a(kind),
    l(f.params.iter().map(|p| src_param(&p.pat, None)).collect()),
    a(tycls(&f.return_type)),
    b(is_void_ann(&f.return_type)),
    b(f.is_async),
    b(f.is_generator),
    src_body(f.body.as_ref()),
    b(!f.decorators.is_empty()),
  ])
}

pub fn src_arrow(f: &ArrowExpr) -> Sx {
  let body = match &*f.body {
    BlockStmtOrExpr::BlockStmt(bl) => src_body(Some(bl)),
    BlockStmtOrExpr::Expr(e) => l(vec![a(2), src_sx(e)]),
  };
  l(vec![
    a(2),
    l(f.params.iter().map(|p| src_param(p, None)).collect()),
    a(tycls(&f.return_type)),
    b(is_void_ann(&f.return_type)),
    b(f.is_async),
    b(false),
    body,
    b(false),
  ])
}

pub fn src_ctor(c: &Constructor) -> Sx {
  let params = c
    .params
    .iter()
    .map(|p| match p {
      ParamOrTsParamProp::Param(p) => src_param(&p.pat, None),
      ParamOrTsParamProp::TsParamProp(pp) => {
        let pat = match &pp.param {
          TsParamPropParam::Ident(i) => Pat::Ident(i.clone()),
          TsParamPropParam::Assign(x) => Pat::Assign(x.clone()),
        };
        src_param(&pat, Some((pp.accessibility, pp.readonly)))
      }
    })
    .collect();
  l(vec![a(6), l(params), a(0), b(false), b(false), b(false), src_body(c.body.as_ref()), b(false)])
}

// ---------------------------------------------------------------- units

#[derive(Clone, Debug, PartialEq, Eq, PartialOrd, Ord)]
pub struct UnitPath {
  pub decl: String,
  /// "" for a function / variable initialiser; "constructor"; or the member name (with get:/set: prefix)
  pub member: String,
}

pub struct SrcUnit {
  pub path: UnitPath,
  /// byte range in the source text
  pub range: (usize, usize),
  /// byte range of the top-level item containing the unit
  pub item_range: (usize, usize),
  /// model input `(0 overload sfn)` / `(1 acc overload sfn)`
  pub input: Sx,
  /// names of the constructor's parameter properties
  pub prop_names: Vec<String>,
}

fn range_of<T: Spanned>(n: &T, start: u32) -> (usize, usize) {
  let sp = n.span();
  ((sp.lo.0 - start) as usize, (sp.hi.0 - start) as usize)
}

fn member_name(k: &PropName) -> Option<String> {
  match k {
    PropName::Ident(i) => Some(i.sym.to_string()),
    _ => None,
  }
}

/// Public function-likes of the exported declarations of a module: functions without overloads,
/// `const x = <arrow | function expression>` without annotation, and constructors / methods /
/// accessors (identifier keys, not TS-private) of exported classes.
pub fn source_units(parsed: &deno_ast::ParsedSource) -> Vec<SrcUnit> {
  let start = parsed.text_info_lazy().range().start.as_byte_pos().0;
  let mut out = vec![];
  let deno_ast::ProgramRef::Module(m) = parsed.program_ref() else { return out };
  for item in &m.body {
    let ModuleItem::ModuleDecl(ModuleDecl::ExportDecl(ed)) = item else { continue };
    let item_range = range_of(item, start);
    match &ed.decl {
      Decl::Fn(f) if f.function.body.is_some() && !f.declare => {
        out.push(SrcUnit {
          path: UnitPath { decl: f.ident.sym.to_string(), member: String::new() },
          range: item_range,
          item_range,
          input: l(vec![a(0), b(false), src_fn(&f.function, 0)]),
          prop_names: vec![],
        });
      }
      Decl::Var(v) if !v.declare && v.decls.len() == 1 => {
        let d = &v.decls[0];
        let Pat::Ident(i) = &d.name else { continue };
        if i.type_ann.is_some() {
          continue;
        }
        let input = match d.init.as_deref() {
          Some(Expr::Arrow(f)) => src_arrow(f),
          Some(Expr::Fn(f)) => src_fn(&f.function, 1),
          _ => continue,
        };
        out.push(SrcUnit {
          path: UnitPath { decl: i.id.sym.to_string(), member: String::new() },
          range: item_range,
          item_range,
          input: l(vec![a(0), b(false), input]),
          prop_names: vec![],
        });
      }
      Decl::Class(c) if !c.declare => {
        for m in &c.class.body {
          match m {
            ClassMember::Constructor(x) if x.body.is_some() => {
              let acc = match x.accessibility {
                None | Some(Accessibility::Public) => 0,
                Some(Accessibility::Protected) => 1,
                Some(Accessibility::Private) => 2,
              };
              let prop_names = x
                .params
                .iter()
                .filter_map(|p| match p {
                  ParamOrTsParamProp::TsParamProp(pp) => match &pp.param {
                    TsParamPropParam::Ident(i) => Some(i.id.sym.to_string()),
                    TsParamPropParam::Assign(asg) => match &*asg.left {
                      Pat::Ident(i) => Some(i.id.sym.to_string()),
                      _ => None,
                    },
                  },
                  _ => None,
                })
                .collect();
              out.push(SrcUnit {
                path: UnitPath { decl: c.ident.sym.to_string(), member: "constructor".into() },
                range: range_of(x, start),
                item_range,
                input: l(vec![a(1), a(acc), b(false), src_ctor(x)]),
                prop_names,
              });
            }
            ClassMember::Method(x) if x.accessibility != Some(Accessibility::Private) => {
              let Some(name) = member_name(&x.key) else { continue };
              let (kind, pre) = match x.kind {
                MethodKind::Method => (3, ""),
                MethodKind::Getter => (4, "get:"),
                MethodKind::Setter => (5, "set:"),
              };
              out.push(SrcUnit {
                path: UnitPath { decl: c.ident.sym.to_string(), member: format!("{}{}", pre, name) },
                range: range_of(x, start),
                item_range,
                input: l(vec![a(0), b(false), src_fn(&x.function, kind)]),
                prop_names: vec![],
              });
            }
            _ => {}
          }
        }
      }
      _ => {}
    }
  }
  out
}

// ---------------------------------------------------------------- emitted shapes

fn norm_ty(t: &Sx) -> Sx {
  match t {
    Sx::L(v) if !v.is_empty() => l(vec![v[0].clone(), a(0), l(vec![]), a(0)]),
    _ => t.clone(),
  }
}

fn norm_ecls(e: &Sx) -> Sx {
  match e {
    Sx::L(v) => match v.first() {
      Some(Sx::A(3)) => tagged(3, v[1..].iter().map(norm_ecls).collect()),
      Some(Sx::A(4)) => l(vec![a(4), norm_ecls(&v[1])]),
      Some(Sx::A(5)) => l(vec![a(5), norm_fn(&v[1])]),
      _ => e.clone(),
    },
    _ => e.clone(),
  }
}

fn norm_param(p: &Sx) -> Sx {
  let Sx::L(v) = p else { return p.clone() };
  l(vec![v[0].clone(), norm_ty(&v[1]), v[2].clone(), norm_ecls(&v[3]), v[4].clone(), v[5].clone(), l(vec![]), a(0)])
}

/// emitted function summary -> the model's output shape (ids, names, type parameters forgotten)
pub fn norm_fn(f: &Sx) -> Sx {
  let Sx::L(v) = f else { return f.clone() };
  let params = match &v[1] {
    Sx::L(ps) => l(ps.iter().map(norm_param).collect()),
    x => x.clone(),
  };
  let body = match &v[5] {
    Sx::L(bv) if bv.first() == Some(&Sx::A(4)) => l(vec![a(4), norm_ecls(&bv[1])]),
    x => x.clone(),
  };
  l(vec![v[0].clone(), params, norm_ty(&v[2]), v[3].clone(), v[4].clone(), body, v[6].clone(), a(0), a(0), a(0)])
}

fn norm_prop_member(m: &Sx) -> Sx {
  let Sx::L(v) = m else { return m.clone() };
  let mut r = v.clone();
  r[1] = l(vec![a(0), a(0)]);
  r[4] = norm_ty(&v[4]);
  r[11] = norm_ecls(&v[11]);
  l(r)
}

/// The shape `(0 fn [props])` the transform produced for the unit at `path` in the emitted module.
pub fn emitted_unit_shape(
  emitted: &deno_ast::ParsedSource,
  path: &UnitPath,
  prop_names: &[String],
  s: &mut Summariser,
) -> Option<Sx> {
  let deno_ast::ProgramRef::Module(m) = emitted.program_ref() else { return None };
  for item in &m.body {
    let ModuleItem::ModuleDecl(ModuleDecl::ExportDecl(ed)) = item else { continue };
    match &ed.decl {
      Decl::Fn(f) if &*f.ident.sym == path.decl && path.member.is_empty() => {
        if f.function.body.is_none() {
          continue;
        }
        return Some(l(vec![a(0), norm_fn(&s.function(&f.function, 0, false))]));
      }
      Decl::Var(v) if path.member.is_empty() => {
        for d in &v.decls {
          if let Pat::Ident(i) = &d.name {
            if &*i.id.sym == path.decl {
              let e = s.ecls(d.init.as_deref()?);
              if let Sx::L(ev) = &e {
                if ev.first() == Some(&Sx::A(5)) {
                  return Some(l(vec![a(0), norm_fn(&ev[1])]));
                }
              }
              return Some(l(vec![a(9), norm_ecls(&e)]));
            }
          }
        }
      }
      Decl::Class(c) if &*c.ident.sym == path.decl && !path.member.is_empty() => {
        for mem in &c.class.body {
          match mem {
            ClassMember::Constructor(x) if path.member == "constructor" && x.body.is_some() => {
              let whole = s.class(&c.class);
              let mut props = vec![];
              if let Sx::L(cv) = &whole {
                if let Some(Sx::L(members)) = cv.get(7) {
                  for (idx, mm) in c.class.body.iter().enumerate() {
                    if let ClassMember::ClassProp(p) = mm {
                      if let PropName::Ident(i) = &p.key {
                        if p.declare && prop_names.iter().any(|n| n == &*i.sym) {
                          props.push(norm_prop_member(&members[idx]));
                        }
                      }
                    }
                  }
                }
              }
              // summarise the constructor itself
              let ctor_sx = {
                let one = Class { body: vec![ClassMember::Constructor(x.clone())], ..(*c.class).clone() };
                let w = s.class(&one);
                match w {
                  Sx::L(cv) => match &cv[7] {
                    Sx::L(ms) => match &ms[0] {
                      Sx::L(mv) => mv[2].clone(),
                      _ => return None,
                    },
                    _ => return None,
                  },
                  _ => return None,
                }
              };
              return Some(l(vec![a(0), norm_fn(&ctor_sx), l(props)]));
            }
            ClassMember::Method(x) => {
              let Some(name) = member_name(&x.key) else { continue };
              let (kind, pre) = match x.kind {
                MethodKind::Method => (3, ""),
                MethodKind::Getter => (4, "get:"),
                MethodKind::Setter => (5, "set:"),
              };
              if format!("{}{}", pre, name) == path.member {
                return Some(l(vec![a(0), norm_fn(&s.function(&x.function, kind, false))]));
              }
            }
            _ => {}
          }
        }
      }
      _ => {}
    }
  }
  None
}
