//! S-expressions over unsigned atoms: the wire format shared with the Coq model.
use std::fmt::Write;

#[derive(Clone, Debug, PartialEq, Eq, PartialOrd, Ord, Hash)]
pub enum Sx {
  A(u64),
  L(Vec<Sx>),
}

/// Lists whose first atom is SET are compared as multisets.
pub const SET: u64 = 777_777;

/// `(666666 b)`: a judgement of the model on the implementation's observation.
pub const JUDGE: u64 = 666_666;

impl Sx {
  pub fn judge(v: bool) -> Sx {
    Sx::L(vec![Sx::A(JUDGE), Sx::b(v)])
  }
  /// copy with every judgement flag forced to 1
  pub fn mask_judgements(&self) -> Sx {
    match self {
      Sx::A(n) => Sx::A(*n),
      Sx::L(l) => {
        if l.len() == 2 && l[0] == Sx::A(JUDGE) {
          return Sx::L(vec![Sx::A(JUDGE), Sx::A(1)]);
        }
        Sx::L(l.iter().map(|x| x.mask_judgements()).collect())
      }
    }
  }
  pub fn b(v: bool) -> Sx {
    Sx::A(if v { 1 } else { 0 })
  }
  pub fn atoms<I: IntoIterator<Item = u64>>(it: I) -> Sx {
    Sx::L(it.into_iter().map(Sx::A).collect())
  }
  pub fn set(mut items: Vec<Sx>) -> Sx {
    items.insert(0, Sx::A(SET));
    Sx::L(items)
  }
  pub fn opt(o: Option<Sx>) -> Sx {
    match o {
      None => Sx::L(vec![]),
      Some(x) => Sx::L(vec![x]),
    }
  }
  pub fn write(&self, out: &mut String) {
    match self {
      Sx::A(n) => {
        write!(out, "{}", n).unwrap();
      }
      Sx::L(l) => {
        out.push('(');
        for (i, x) in l.iter().enumerate() {
          if i > 0 {
            out.push(' ');
          }
          x.write(out);
        }
        out.push(')');
      }
    }
  }
  pub fn to_string(&self) -> String {
    let mut s = String::new();
    self.write(&mut s);
    s
  }
  /// canonical form: SET-tagged lists sorted
  pub fn normalize(&self) -> Sx {
    match self {
      Sx::A(n) => Sx::A(*n),
      Sx::L(l) => {
        let mut v: Vec<Sx> = l.iter().map(|x| x.normalize()).collect();
        if let Some(Sx::A(SET)) = v.first() {
          let mut rest = v.split_off(1);
          rest.sort();
          v.extend(rest);
        }
        Sx::L(v)
      }
    }
  }
  pub fn parse(s: &str) -> Result<Sx, String> {
    let b = s.as_bytes();
    let mut i = 0;
    let r = parse_at(b, &mut i)?;
    while i < b.len() && b[i].is_ascii_whitespace() {
      i += 1;
    }
    if i != b.len() {
      return Err(format!("trailing input at {}", i));
    }
    Ok(r)
  }
}

fn parse_at(b: &[u8], i: &mut usize) -> Result<Sx, String> {
  while *i < b.len() && b[*i].is_ascii_whitespace() {
    *i += 1;
  }
  if *i >= b.len() {
    return Err("eof".into());
  }
  if b[*i] == b'(' {
    *i += 1;
    let mut v = vec![];
    loop {
      while *i < b.len() && b[*i].is_ascii_whitespace() {
        *i += 1;
      }
      if *i >= b.len() {
        return Err("eof in list".into());
      }
      if b[*i] == b')' {
        *i += 1;
        return Ok(Sx::L(v));
      }
      v.push(parse_at(b, i)?);
    }
  } else if b[*i].is_ascii_digit() {
    let mut n: u64 = 0;
    while *i < b.len() && b[*i].is_ascii_digit() {
      n = n * 10 + (b[*i] - b'0') as u64;
      *i += 1;
    }
    Ok(Sx::A(n))
  } else {
    Err(format!("bad char {} at {}", b[*i] as char, *i))
  }
}
