//! Registry (JSR) worlds for the stage-B2 builder model (coq/Model/Jsr.v):
//! a generator of concrete registries served by `WorldLoader`, the abstraction
//! of such a world into the model's vocabulary - every fact about the served
//! bytes is computed by the real crates (deserialisers of the metadata
//! documents, `export()`, `module_info()`, `parse_module`, `VersionReq::matches`,
//! the `Version` order, `package_url_to_nv`) - and the abstraction of the real
//! graph, loader log and locker calls into the shape of `RunJsr.enc_jgraph`.
use crate::abs::*;
use crate::rng::Rng;
use crate::sexp::Sx;
use crate::world::*;
use deno_graph::analysis::ModuleInfo;
use deno_graph::packages::JsrPackageInfo;
use deno_graph::packages::JsrPackageVersionInfo;
use deno_graph::source::*;
use deno_graph::*;
use deno_semver::jsr::JsrPackageReqReference;
use deno_semver::package::PackageNv;
use deno_semver::package::PackageReq;
use deno_semver::RangeSetOrTag;
use deno_semver::Version;
use std::cell::RefCell;
use std::collections::BTreeMap;
use std::collections::BTreeSet;
use std::collections::HashMap;
use std::sync::Arc;

pub const JSRTAG: u64 = 31337;
pub const REGISTRY: &str = "https://jsr.io/";

#[derive(Clone, Debug, Default)]
pub struct JCase {
  pub world: World,
  pub roots: Vec<String>,
  /// None = no locker; keys are "name@version"
  pub lock_pkg: Option<BTreeMap<String, String>>,
  pub lock_remote: BTreeMap<String, String>,
  pub prefer_cached: bool,
  pub max_redirects: usize,
  pub unstable_text: bool,
  pub unstable_bytes: bool,
  pub notes: Vec<String>,
  /// fill_from_lockfile package specifiers: ("@scope/name@req", "version")
  pub seed: Vec<(String, String)>,
  /// the newest-dependency date (RFC 3339) with the packages / name prefixes exempt from it
  pub newest_date: Option<String>,
  pub date_exclude: Vec<String>,
  pub date_exclude_prefixes: Vec<String>,
}

pub const CUTOFF_DATE: &str = "2025-01-01T00:00:00Z";

/// The JsrVersionResolver a case is built with.
pub fn version_resolver(c: &JCase) -> deno_graph::packages::JsrVersionResolver {
  let mut opts = deno_graph::packages::NewestDependencyDateOptions::default();
  if let Some(d) = &c.newest_date {
    let dt = chrono::DateTime::parse_from_rfc3339(d).unwrap().with_timezone(&chrono::Utc);
    opts = deno_graph::packages::NewestDependencyDateOptions::from_date(dt);
    for p in &c.date_exclude {
      opts.exclude_jsr_pkgs.insert(p.as_str().into());
    }
    for p in &c.date_exclude_prefixes {
      opts.exclude_jsr_pkg_prefixes.push(p.as_str().into());
    }
  }
  deno_graph::packages::JsrVersionResolver { newest_dependency_date_options: opts }
}

#[derive(Clone, Debug)]
pub struct JGenCfg {
  pub faults: usize,       // percent chance that a given document / file gets a fault
  pub locker: usize,       // percent chance of a locker
  pub prefer_cached: usize,
  pub stale_meta: usize,   // percent chance that the cached package document lacks versions
  pub modinfo: usize,      // percent chance that a version manifest embeds module info
  pub dynamic: usize,      // percent of imports that are dynamic
  pub https_imports: usize, // percent of imports that are https URLs into the registry
  pub weird_exports: usize,
  pub partial_info: usize, // percent of files left out of an embedded module graph
  pub stale_info: usize,   // percent of embedded infos that describe another source
  pub dirty_cache: bool,   // the file cache may hold other bytes or faults
  pub manifest_faults: usize, // percent of manifest entries that are tampered / unsupported / missing (plus faults/2)
  pub asset_imports: usize,   // percent of relative imports written as text / bytes imports (outside the model)
  pub seeds: usize,           // percent of worlds whose graph is first filled from a lockfile (package specifiers)
  pub dates: usize,           // percent of worlds built with a newest-dependency date (some packages exempt)
  pub json_attr: usize,       // percent of relative imports written with { type: "json" } (relational streams only)
  pub asset_abs: usize,       // percent of https-registry / jsr: imports written as text / bytes imports (outside the model)
}

impl Default for JGenCfg {
  fn default() -> Self {
    JGenCfg { faults: 12, locker: 40, prefer_cached: 30, stale_meta: 15, modinfo: 60, dynamic: 20, https_imports: 15, weird_exports: 10, partial_info: 12, stale_info: 15, dirty_cache: true, manifest_faults: 4, asset_imports: 0, seeds: 12, dates: 25, asset_abs: 0, json_attr: 0 }
  }
}

pub const PKG_NAMES: &[&str] = &["@s/a", "@s/b", "@t/c"];
pub const VERSIONS: &[&str] = &["0.9.3", "1.0.0", "1.1.0", "1.2.0", "2.0.0"];
pub const PATHS: &[&str] = &["/mod.ts", "/a.ts", "/b.ts", "/sub/c.ts"];
pub const REQS: &[&str] = &["", "@1", "@^1.0.0", "@~1.1", "@2", "@0.9.3", "@>=1.1.0", "@1.0.0", "@3", "@*"];

pub fn sha(bytes: &[u8]) -> String {
  LoaderChecksum::r#gen(bytes)
}

fn module_entry(src: ModSrc) -> Entry {
  Entry::Module { src, raw: None, headers: None }
}
fn raw_entry(bytes: Vec<u8>) -> Entry {
  Entry::Module { src: ModSrc::default(), raw: Some(bytes), headers: None }
}

pub fn analyze(spec: &str, text: &str) -> Option<ModuleInfo> {
  let url = ModuleSpecifier::parse(spec).unwrap();
  let analyzer = deno_graph::ast::DefaultModuleAnalyzer;
  futures::executor::block_on(deno_graph::analysis::ModuleAnalyzer::analyze(&analyzer, &url, Arc::from(text), MediaType::from_specifier(&url))).ok()
}

fn gen_imports(rng: &mut Rng, cfg: &JGenCfg, own_paths: &[&str], own_path: &str, pkgs: &[&str], depth_budget: &mut u32, listed: &BTreeMap<String, Vec<(String, bool)>>, files: &[String]) -> Vec<Imp> {
  let mut imps = vec![];
  let mut used = BTreeSet::new();
  let n = rng.range(0, 3);
  for _ in 0..n {
    if *depth_budget == 0 {
      break;
    }
    *depth_budget -= 1;
    let text = match rng.below(100) {
      x if x < 45 && own_path != "" => {
        // a relative file of the same package
        let p = *rng.pick(own_paths);
        if p == own_path {
          continue;
        }
        // relative to own_path's directory
        let from_sub = own_path.starts_with("/sub/");
        match (from_sub, p.starts_with("/sub/")) {
          (false, _) => format!(".{}", p),
          (true, true) => format!("./{}", &p[5..]),
          (true, false) => format!("..{}", p),
        }
      }
      x if x < 45 + cfg.https_imports => {
        if !files.is_empty() && rng.chance(80) {
          rng.pick(files).clone()
        } else {
          let pkg = *rng.pick(pkgs);
          format!("{}{}/{}{}", REGISTRY, pkg, rng.pick(VERSIONS), rng.pick(PATHS))
        }
      }
      x if x < 97 => {
        let pkg = *rng.pick(pkgs);
        let sub = if rng.chance(25) { "/sub" } else { "" };
        format!("jsr:{}{}{}", pkg, gen_req(rng, listed.get(pkg)), sub)
      }
      98 => "jsr:@s/a@latest".to_string(),
      _ => "jsr:bad/".to_string(),
    };
    if !used.insert(text.clone()) {
      continue;
    }
    let relative = text.starts_with('.');
    // asset imports of package files by https URL into the registry or by jsr: specifier (requested without
    // version info in hand) only in the stream that judges the real loader calls
    let asset_abs = (text.starts_with(REGISTRY) || text.starts_with("jsr:@")) && rng.chance(cfg.asset_abs);
    let form = if relative && cfg.json_attr > 0 && rng.chance(cfg.json_attr) {
      // a script file of the package imported with a non-asset type attribute (an error entry either way)
      Form::JsonAttr
    } else if asset_abs || (relative && rng.chance(cfg.asset_imports)) {
      if rng.chance(60) { Form::TextAttr } else { Form::BytesAttr }
    } else if rng.chance(cfg.dynamic) {
      Form::Dynamic
    } else if rng.chance(50) {
      Form::Static
    } else {
      Form::Named
    };
    imps.push(Imp { form, text });
  }
  imps
}

fn fault_entry(rng: &mut Rng, url: &str, others: &[String]) -> (Entry, &'static str) {
  match rng.below(6) {
    0 => (Entry::Missing, "missing"),
    1 => (Entry::Error, "error"),
    2 => (Entry::Redirect(rng.pick(others).clone()), "redirect"),
    3 => (Entry::External, "external"),
    4 => (Entry::Redirect(url.to_string()), "self-redirect"),
    _ => (Entry::Missing, "missing"),
  }
}

/// A requirement text, mostly one that some listed version satisfies.
fn gen_req(rng: &mut Rng, listed: Option<&Vec<(String, bool)>>) -> String {
  match listed {
    Some(l) if !l.is_empty() && rng.chance(75) => {
      let v = &rng.pick(l).0;
      let major = v.split('.').next().unwrap();
      match rng.below(6) {
        0 => format!("@{}", v),
        1 => format!("@^{}", v),
        2 => format!("@{}", major),
        3 => format!("@~{}", &v[..v.rfind('.').unwrap()]),
        4 => String::new(),
        _ => format!("@>={}", v),
      }
    }
    _ => rng.pick(REQS).to_string(),
  }
}

/// A random registry with importing programs.
pub fn gen_jcase(rng: &mut Rng, cfg: &JGenCfg) -> JCase {
  let mut c = JCase { max_redirects: 10, ..Default::default() };
  let npk = rng.range(1, 3) as usize;
  let pkgs: Vec<&str> = PKG_NAMES[..npk].to_vec();
  let mut all_files: Vec<String> = vec![];
  let mut budget = 14u32;
  struct VerPlan {
    pkg: String,
    ver: String,
    paths: Vec<&'static str>,
  }
  let mut plans = vec![];
  let mut pkg_versions: BTreeMap<String, Vec<(String, bool)>> = BTreeMap::new();
  for pkg in &pkgs {
    let nv = rng.range(1, 3) as usize;
    let mut vs: Vec<&str> = vec![];
    while vs.len() < nv {
      let v = *rng.pick(VERSIONS);
      if !vs.contains(&v) {
        vs.push(v);
      }
    }
    let mut listed = vec![];
    for v in vs {
      let yanked = rng.chance(20);
      listed.push((v.to_string(), yanked));
      let np = rng.range(1, 3) as usize;
      let mut paths = vec!["/mod.ts"];
      while paths.len() < np {
        let p = *rng.pick(PATHS);
        if !paths.contains(&p) {
          paths.push(p);
        }
      }
      for p in &paths {
        all_files.push(format!("{}{}/{}{}", REGISTRY, pkg, v, p));
      }
      plans.push(VerPlan { pkg: pkg.to_string(), ver: v.to_string(), paths });
    }
    pkg_versions.insert(pkg.to_string(), listed);
  }
  // package files
  let mut contents: BTreeMap<String, Vec<u8>> = BTreeMap::new();
  for plan in &plans {
    for p in &plan.paths {
      let url = format!("{}{}/{}{}", REGISTRY, plan.pkg, plan.ver, p);
      let mut src = ModSrc { imports: gen_imports(rng, cfg, &plan.paths, p, &pkgs, &mut budget, &pkg_versions, &all_files), ..Default::default() };
      if rng.chance(cfg.faults / 3) {
        src.broken = true;
      }
      contents.insert(url.clone(), render(&src, false).into_bytes());
      c.world.entries.insert(url, module_entry(src));
    }
  }
  // version manifests
  for plan in &plans {
    let base = format!("{}{}/{}", REGISTRY, plan.pkg, plan.ver);
    let meta_url = format!("{}{}/{}_meta.json", REGISTRY, plan.pkg, plan.ver);
    let mut manifest = serde_json::Map::new();
    for p in &plan.paths {
      let url = format!("{}{}", base, p);
      let honest = sha(&contents[&url]);
      match rng.below(100) {
        x if x < cfg.manifest_faults + cfg.faults / 2 => {
          if rng.chance(50) {
            manifest.insert(p.to_string(), serde_json::json!({"size": 1, "checksum": format!("sha256-{}", sha(b"tampered"))}));
            c.notes.push(format!("manifest checksum of {} does not match the served bytes", url));
          } else if rng.chance(50) {
            manifest.insert(p.to_string(), serde_json::json!({"size": 1, "checksum": format!("md5-{}", honest)}));
            c.notes.push(format!("unsupported manifest checksum for {}", url));
          } else {
            c.notes.push(format!("no manifest entry for {}", url));
          }
        }
        _ => {
          manifest.insert(p.to_string(), serde_json::json!({"size": 1, "checksum": format!("sha256-{}", honest)}));
        }
      }
    }
    let exports = if rng.chance(cfg.weird_exports) {
      match rng.below(6) {
        5 => serde_json::json!({".": "http://[::1"}),
        0 => serde_json::json!({".": "./nope.ts"}),
        1 => serde_json::json!({".": 5}),
        2 => serde_json::json!(["./mod.ts"]),
        3 => serde_json::json!({".": "https://example.com/outside.ts"}),
        _ => serde_json::json!({"./sub": "./mod.ts"}),
      }
    } else if rng.chance(35) {
      serde_json::json!("./mod.ts")
    } else {
      let mut m = serde_json::Map::new();
      m.insert(".".into(), serde_json::json!("./mod.ts"));
      if plan.paths.len() > 1 || rng.chance(30) {
        m.insert("./sub".into(), serde_json::json!(format!(".{}", plan.paths[plan.paths.len() - 1])));
      }
      serde_json::Value::Object(m)
    };
    let mut doc = serde_json::Map::new();
    doc.insert("exports".into(), exports);
    doc.insert("manifest".into(), serde_json::Value::Object(manifest));
    if rng.chance(cfg.modinfo) {
      let mut mg = serde_json::Map::new();
      for p in &plan.paths {
        if rng.chance(cfg.partial_info) {
          continue; // no embedded info for this file
        }
        let url = format!("{}{}", base, p);
        // honest: the analysis of the served source; stale: of another rendering
        let text = if !rng.chance(cfg.stale_info) {
          String::from_utf8(contents[&url].clone()).unwrap()
        } else {
          c.notes.push(format!("embedded module info of {} is stale", url));
          let src = ModSrc { imports: gen_imports(rng, cfg, &plan.paths, p, &pkgs, &mut 2, &pkg_versions, &all_files), ..Default::default() };
          render(&src, false)
        };
        if let Some(info) = analyze(&url, &text) {
          mg.insert(p.to_string(), serde_json::to_value(&info).unwrap());
        }
      }
      doc.insert("moduleGraph2".into(), serde_json::Value::Object(mg));
    }
    if rng.chance(10) {
      doc.insert("lockfileChecksum".into(), serde_json::json!(sha(b"vendored")));
    }
    let bytes = serde_json::to_vec(&serde_json::Value::Object(doc)).unwrap();
    let others: Vec<String> = all_files.clone();
    if rng.chance(cfg.faults) {
      let (e, what) = if rng.chance(25) { (raw_entry(b"{ not json".to_vec()), "undecodable") } else { fault_entry(rng, &meta_url, &others) };
      c.notes.push(format!("version manifest {} answers {}", meta_url, what));
      c.world.entries.insert(meta_url.clone(), e);
    } else {
      c.world.entries.insert(meta_url.clone(), raw_entry(bytes.clone()));
    }
    // is the manifest in the cache (prefer_cached_jsr_versions probes)?
    if rng.chance(45) {
      c.world.only_entries.insert(meta_url.clone(), raw_entry(bytes));
    }
  }
  // package documents
  for pkg in &pkgs {
    let url = format!("{}{}/meta.json", REGISTRY, pkg);
    let listed = &pkg_versions[*pkg];
    // creation dates (a newest-dependency date may be in force): before the cut-off, after it, or absent
    let created: BTreeMap<String, Option<&str>> = listed
      .iter()
      .map(|(v, _)| {
        let h: u32 = format!("{}@{}", pkg, v).bytes().fold(5u32, |a, b| a.wrapping_mul(33).wrapping_add(b as u32));
        (v.clone(), match h % 5 { 0 | 1 => Some("2024-06-01T00:00:00Z"), 2 | 3 => Some("2025-06-01T00:00:00Z"), _ => None })
      })
      .collect();
    let doc = |vs: &[(String, bool)]| -> Vec<u8> {
      let mut m = serde_json::Map::new();
      for (v, y) in vs {
        let mut e = serde_json::Map::new();
        if *y {
          e.insert("yanked".into(), serde_json::json!(true));
        }
        if let Some(Some(d)) = created.get(v) {
          e.insert("createdAt".into(), serde_json::json!(d));
        }
        m.insert(v.clone(), serde_json::Value::Object(e));
      }
      serde_json::to_vec(&serde_json::json!({"versions": m})).unwrap()
    };
    let full = doc(listed);
    if rng.chance(cfg.faults) {
      let (e, what) = if rng.chance(25) { (raw_entry(b"[1,".to_vec()), "undecodable") } else { fault_entry(rng, &url, &all_files) };
      c.notes.push(format!("package document {} answers {}", url, what));
      c.world.entries.insert(url.clone(), e);
      if rng.chance(50) {
        c.world.reload_entries.insert(url.clone(), raw_entry(full));
      }
    } else if rng.chance(cfg.stale_meta) && listed.len() > 1 {
      // the cached document is older than the registry's
      let k = rng.range(1, listed.len() - 1);
      c.notes.push(format!("cached package document {} lists only {} of {} versions", url, k, listed.len()));
      c.world.entries.insert(url.clone(), raw_entry(doc(&listed[..k])));
      c.world.reload_entries.insert(url.clone(), raw_entry(full));
    } else {
      c.world.entries.insert(url.clone(), raw_entry(full));
    }
  }
  // file faults and the file cache
  for url in all_files.clone() {
    if rng.chance(cfg.faults) {
      let (e, what) = match rng.below(4) {
        0 => {
          // a module answered under another final specifier of the registry
          let other = rng.pick(&all_files).clone();
          c.world.final_specifiers.insert(url.clone(), other.clone());
          (c.world.entries.get(&url).cloned().unwrap_or(module_entry(ModSrc::default())), "module-with-other-final-specifier")
        }
        _ => fault_entry(rng, &url, &all_files),
      };
      c.notes.push(format!("{} answers {}", url, what));
      c.world.entries.insert(url.clone(), e);
    }
    match rng.below(100) {
      x if x < 25 => {
        // cached with the same bytes
        if let Some(b) = contents.get(&url) {
          c.world.only_entries.insert(url.clone(), raw_entry(b.clone()));
        }
      }
      x if x < 32 && cfg.dirty_cache => {
        c.world.only_entries.insert(url.clone(), raw_entry(b"export const stale = 1;".to_vec()));
        c.notes.push(format!("cache holds other bytes for {}", url));
      }
      x if x < 36 && cfg.dirty_cache => {
        let (e, what) = fault_entry(rng, &url, &all_files);
        c.notes.push(format!("cache-only load of {} answers {}", url, what));
        c.world.only_entries.insert(url.clone(), e);
      }
      _ => {}
    }
  }
  // the importing program
  let mut roots = vec![];
  let nroots = rng.range(1, 2);
  for i in 0..nroots {
    match rng.below(10) {
      0 | 1 => {
        let pkg = *rng.pick(&pkgs);
        roots.push(format!("jsr:{}{}", pkg, gen_req(rng, pkg_versions.get(pkg))))
      }
      2 => roots.push(rng.pick(&all_files).clone()),
      _ => {
        let url = format!("file:///main{}.ts", i);
        let mut b = 4u32;
        let mut imports = gen_imports(rng, cfg, &[], "", &pkgs, &mut b, &pkg_versions, &all_files);
        if imports.is_empty() {
          let pkg = *rng.pick(&pkgs);
          imports.push(Imp { form: Form::Static, text: format!("jsr:{}{}", pkg, gen_req(rng, pkg_versions.get(pkg))) });
        }
        c.world.entries.insert(url.clone(), module_entry(ModSrc { imports, ..Default::default() }));
        roots.push(url);
      }
    }
  }
  roots.dedup();
  c.roots = roots;
  c.prefer_cached = rng.chance(cfg.prefer_cached);
  if rng.chance(cfg.dates) {
    c.newest_date = Some(CUTOFF_DATE.to_string());
    for pkg in &pkgs {
      match rng.below(6) {
        0 => c.date_exclude.push(pkg.to_string()),
        1 => {
          // the scope as a name prefix ("@scope/")
          if let Some(i) = pkg.find('/') {
            let pre = pkg[..=i].to_string();
            if !c.date_exclude_prefixes.contains(&pre) {
              c.date_exclude_prefixes.push(pre);
            }
          }
        }
        _ => {}
      }
    }
  }
  if rng.chance(cfg.locker) {
    let mut lp = BTreeMap::new();
    for plan in &plans {
      let meta_url = format!("{}{}/{}_meta.json", REGISTRY, plan.pkg, plan.ver);
      match rng.below(10) {
        0 | 1 | 2 => {
          if let Some(b) = c.world.content(&meta_url) {
            lp.insert(format!("{}@{}", plan.pkg, plan.ver), sha(&b));
          }
        }
        3 => {
          lp.insert(format!("{}@{}", plan.pkg, plan.ver), sha(b"other manifest"));
          c.notes.push(format!("lockfile checksum of {}@{} does not match", plan.pkg, plan.ver));
        }
        _ => {}
      }
    }
    c.lock_pkg = Some(lp);
    for url in &all_files {
      match rng.below(12) {
        0 => {
          if let Some(b) = contents.get(url) {
            c.lock_remote.insert(url.clone(), sha(b));
          }
        }
        1 => {
          c.lock_remote.insert(url.clone(), sha(b"something else"));
          c.notes.push(format!("lockfile remote entry for {} differs from the manifest", url));
        }
        _ => {}
      }
    }
  }
  // lockfile-seeded selections (drawn last: the rest of the world does not depend on them)
  if rng.chance(cfg.seeds) {
    for _ in 0..rng.range(1, 3) {
      let pkg = *rng.pick(&pkgs);
      let listed = pkg_versions.get(pkg);
      let req = gen_req(rng, listed);
      let ver = match rng.below(100) {
        x if x < 55 => listed.filter(|l| !l.is_empty()).map(|l| rng.pick(l).0.clone()).unwrap_or_else(|| "1.0.0".to_string()),
        x if x < 85 => rng.pick(VERSIONS).to_string(),
        _ => rng.pick(&["1.0.2", "1.1.5", "0.9.9", "2.0.1"]).to_string(),
      };
      c.notes.push(format!("lockfile selects {}{} -> {}", pkg, req, ver));
      c.seed.push((format!("{}{}", pkg, req), ver));
    }
  }
  c
}

// ---------------------------------------------------------------------------
// abstraction of the world
// ---------------------------------------------------------------------------

fn registry_url() -> ModuleSpecifier {
  ModuleSpecifier::parse(REGISTRY).unwrap()
}

pub fn url_nv(url: &str) -> Option<(PackageNv, String)> {
  let u = ModuleSpecifier::parse(url).ok()?;
  let nv = recommended_registry_package_url_to_nv(&registry_url(), &u)?;
  let base = recommended_registry_package_url(&registry_url(), &nv);
  let base = base.as_str().strip_suffix('/').unwrap_or(base.as_str()).to_string();
  let path = url.strip_prefix(&base)?.to_string();
  Some((nv, path))
}

pub enum Cls {
  Jsr { pkg: String, req: PackageReq, exp: String },
  JsrBad,
  File { nv: PackageNv, path: String },
  Plain,
}

pub fn classify(url: &str) -> Cls {
  if url.starts_with("jsr:") {
    let Ok(u) = ModuleSpecifier::parse(url) else { return Cls::JsrBad };
    return match JsrPackageReqReference::from_specifier(&u) {
      Ok(r) => match r.req().version_req.inner() {
        RangeSetOrTag::Tag(_) => Cls::JsrBad,
        RangeSetOrTag::RangeSet(_) => Cls::Jsr { pkg: r.req().name.to_string(), req: r.req().clone(), exp: r.export_name().to_string() },
      },
      Err(_) => Cls::JsrBad,
    };
  }
  match url_nv(url) {
    Some((nv, path)) => Cls::File { nv, path },
    None => Cls::Plain,
  }
}

struct Provided(RefCell<Option<ModuleInfo>>);
#[async_trait::async_trait(?Send)]
impl deno_graph::analysis::ModuleAnalyzer for Provided {
  async fn analyze(&self, _s: &ModuleSpecifier, _src: Arc<str>, _m: MediaType) -> Result<ModuleInfo, deno_error::JsErrorBox> {
    Ok(self.0.borrow_mut().take().unwrap())
  }
}

/// The module as the real parse_module builds it from `content`, analysed by the default analyzer or from `info`.
fn parse_at(url: &str, content: &[u8], info: Option<ModuleInfo>) -> Result<Module, ModuleError> {
  let u = ModuleSpecifier::parse(url).unwrap();
  let default = deno_graph::ast::DefaultModuleAnalyzer;
  let provided = Provided(RefCell::new(info.clone()));
  let analyzer: &dyn deno_graph::analysis::ModuleAnalyzer = if info.is_some() { &provided } else { &default };
  futures::executor::block_on(parse_module(ParseModuleOptions {
    graph_kind: GraphKind::All,
    specifier: u,
    maybe_headers: None,
    mtime: None,
    content: Arc::from(content),
    file_system: &NullFileSystem,
    jsr_url_provider: Default::default(),
    maybe_resolver: None,
    module_analyzer: analyzer,
  }))
}

fn module_deps(m: &Module) -> Vec<(String, String, bool)> {
  let mut out = vec![];
  for d in m.dependencies().values() {
    if let Resolution::Ok(ok) = &d.maybe_code {
      out.push((ok.specifier.to_string(), range_str(&ok.range), d.is_dynamic));
    }
  }
  out
}

pub struct JAbs {
  /// requirement identity is PackageReq's own order (the key of the mappings table)
  pub reqs: Vec<PackageReq>,
  pub it: Intern,
  pub versions: BTreeMap<Version, u64>,
  pub world_sx: Sx,
}

impl JAbs {
  pub fn pkg(&mut self, name: &str) -> u64 {
    self.it.misc(&format!("pkg:{}", name))
  }
  pub fn ver(&self, v: &Version) -> u64 {
    *self.versions.get(v).unwrap_or_else(|| panic!("uninterned version {}", v))
  }
  pub fn req(&mut self, r: &PackageReq) -> u64 {
    if let Some(i) = self.reqs.iter().position(|x| x.cmp(r) == std::cmp::Ordering::Equal) {
      return i as u64 + 1;
    }
    self.reqs.push(r.clone());
    self.reqs.len() as u64
  }
  pub fn exp(&mut self, e: &str) -> u64 {
    self.it.misc(&format!("exp:{}", e))
  }
  pub fn path(&mut self, p: &str) -> u64 {
    self.it.misc(&format!("path:{}", p))
  }
  pub fn chk(&mut self, c: &str) -> u64 {
    self.it.misc(&format!("sha:{}", c))
  }
  pub fn range(&mut self, r: &str) -> u64 {
    self.it.misc(r)
  }
  fn deps_sx(&mut self, deps: &[(String, String, bool)]) -> Sx {
    Sx::L(deps.iter().map(|(t, r, d)| Sx::L(vec![Sx::A(self.it.spec(t)), Sx::A(self.range(r)), Sx::b(*d)])).collect())
  }
}

enum Doc<T> {
  Fail(u64),
  Bad(Vec<u8>),
  Ok(T, Vec<u8>),
}

fn doc_of<T: serde::de::DeserializeOwned>(world: &World, url: &str, reload: bool) -> Doc<T> {
  match world.entry(url, reload) {
    None | Some(Entry::Missing) | Some(Entry::External) => Doc::Fail(0),
    Some(Entry::Error) => Doc::Fail(1),
    Some(Entry::Redirect(_)) => Doc::Fail(2),
    Some(Entry::Module { .. }) => {
      let bytes = world.content_of(url, reload).unwrap();
      match serde_json::from_slice::<T>(&bytes) {
        Ok(t) => Doc::Ok(t, bytes),
        Err(_) => Doc::Bad(bytes),
      }
    }
  }
}

/// Everything the model needs to know about the world, computed by the real crates.
pub fn abs_jworld(c: &JCase, graph_specs: &BTreeSet<String>) -> JAbs {
  let world = &c.world;
  // 1. the universe of specifiers: a fixpoint over declared dependencies and export targets
  let mut universe: BTreeSet<String> = graph_specs.clone();
  for r in &c.roots {
    universe.insert(r.clone());
  }
  for k in world.entries.keys().chain(world.only_entries.keys()).chain(world.reload_entries.keys()) {
    universe.insert(k.clone());
  }
  for k in c.lock_remote.keys() {
    universe.insert(k.clone());
  }
  let mut parsed_use: HashMap<String, Result<Module, ModuleError>> = HashMap::new();
  let mut parsed_only: HashMap<String, Result<Module, ModuleError>> = HashMap::new();
  let mut vdocs: BTreeMap<(String, Version), Doc<JsrPackageVersionInfo>> = BTreeMap::new();
  let mut pdocs: BTreeMap<String, (Doc<JsrPackageInfo>, Doc<JsrPackageInfo>)> = BTreeMap::new();
  let mut modinfo_deps: BTreeMap<(String, Version, String), Vec<(String, String, bool)>> = BTreeMap::new();
  let mut export_targets: BTreeMap<(String, Version, String), Option<String>> = BTreeMap::new();
  let final_of = |url: &str| -> String { world.final_specifiers.get(url).cloned().unwrap_or_else(|| url.to_string()) };
  loop {
    let before = universe.len();
    let snapshot: Vec<String> = universe.iter().cloned().collect();
    let mut exports_used: BTreeSet<String> = BTreeSet::new();
    for s in &snapshot {
      if let Cls::Jsr { exp, .. } = classify(s) {
        exports_used.insert(exp);
      }
    }
    for s in &snapshot {
      if s.ends_with("meta.json") {
        continue;
      }
      // modules as served (Use) and as cached (Only)
      if let Some(Entry::Module { .. }) = world.entries.get(s) {
        if !parsed_use.contains_key(s) {
          let f = final_of(s);
          universe.insert(f.clone());
          let r = parse_at(&f, &world.content_of(s, false).unwrap(), None);
          if let Ok(m) = &r {
            for (t, _, _) in module_deps(m) {
              universe.insert(t);
            }
          }
          parsed_use.insert(s.clone(), r);
        }
      }
      if let Some(Entry::Module { .. }) = world.only_entries.get(s) {
        if !parsed_only.contains_key(s) {
          let r = parse_at(s, &world.only_content(s).unwrap(), None);
          if let Ok(m) = &r {
            for (t, _, _) in module_deps(m) {
              universe.insert(t);
            }
          }
          parsed_only.insert(s.clone(), r);
        }
      }
      for e in [world.entries.get(s), world.only_entries.get(s)] {
        if let Some(Entry::Redirect(to)) = e {
          universe.insert(to.clone());
        }
      }
      match classify(s) {
        Cls::Jsr { pkg, .. } => {
          if !pdocs.contains_key(&pkg) {
            let url = format!("{}{}/meta.json", REGISTRY, pkg);
            universe.insert(url.clone());
            pdocs.insert(pkg.clone(), (doc_of(world, &url, false), doc_of(world, &url, true)));
          }
        }
        Cls::File { nv, .. } => {
          vdocs.entry((nv.name.to_string(), nv.version.clone())).or_insert_with(|| {
            doc_of(world, &format!("{}{}/{}_meta.json", REGISTRY, nv.name, nv.version), false)
          });
        }
        _ => {}
      }
    }
    // every version the lockfile selects
    for (r, v) in &c.seed {
      if let (Ok(req), Ok(ver)) = (PackageReq::from_str(r), Version::parse_standard(v)) {
        vdocs.entry((req.name.to_string(), ver.clone())).or_insert_with(|| doc_of(world, &format!("{}{}/{}_meta.json", REGISTRY, req.name, ver), false));
      }
    }
    // every version a package document lists
    for (pkg, (a, b)) in &pdocs {
      for d in [a, b] {
        if let Doc::Ok(info, _) = d {
          for v in info.versions.keys() {
            vdocs.entry((pkg.clone(), v.clone())).or_insert_with(|| doc_of(world, &format!("{}{}/{}_meta.json", REGISTRY, pkg, v), false));
          }
        }
      }
    }
    for ((pkg, v), d) in &vdocs {
      let nv = PackageNv { name: pkg.as_str().into(), version: v.clone() };
      let base = recommended_registry_package_url(&registry_url(), &nv);
      universe.insert(base.to_string());
      universe.insert(format!("{}{}/{}_meta.json", REGISTRY, pkg, v));
      if let Doc::Ok(info, _) = d {
        for exp in &exports_used {
          let key = (pkg.clone(), v.clone(), exp.clone());
          if export_targets.contains_key(&key) {
            continue;
          }
          if let Some(value) = info.export(exp) {
            match base.join(value) {
              Ok(t) => {
                universe.insert(t.to_string());
                export_targets.insert(key, Some(t.to_string()));
              }
              Err(_) => {
                export_targets.insert(key, None);
              }
            }
          }
        }
        // embedded module info of every file of this package in the universe
        for s in &snapshot {
          if let Cls::File { nv: fnv, path } = classify(s) {
            if fnv == nv {
              let key = (pkg.clone(), v.clone(), path.clone());
              if modinfo_deps.contains_key(&key) {
                continue;
              }
              if let Some(mi) = info.module_info(&path) {
                let empty: &[u8] = &[];
                if let Ok(m) = parse_at(s, empty, Some(mi)) {
                  let deps = module_deps(&m);
                  for (t, _, _) in &deps {
                    universe.insert(t.clone());
                  }
                  modinfo_deps.insert(key, deps);
                }
              }
            }
          }
        }
      }
    }
    if universe.len() == before {
      break;
    }
  }
  // 2. interning
  let specs = universe.iter().cloned().enumerate().map(|(i, s)| (s, i as u64 + 1)).collect();
  let mut versions_set: BTreeSet<Version> = BTreeSet::new();
  for (_, v) in vdocs.keys() {
    versions_set.insert(v.clone());
  }
  for k in c.lock_pkg.iter().flat_map(|m| m.keys()) {
    if let Ok(nv) = PackageNv::from_str(k) {
      versions_set.insert(nv.version);
    }
  }
  for (_, v) in &c.seed {
    if let Ok(v) = Version::parse_standard(v) {
      versions_set.insert(v);
    }
  }
  let versions: BTreeMap<Version, u64> = versions_set.into_iter().enumerate().map(|(i, v)| (v, i as u64 + 1)).collect();
  let mut a = JAbs { reqs: vec![], it: Intern { specs, misc: HashMap::new(), misc_rev: vec![] }, versions, world_sx: Sx::L(vec![]) };
  // 3. the tables
  let mut cls = vec![];
  let mut reqs: BTreeMap<u64, PackageReq> = BTreeMap::new();
  for s in &universe {
    let sid = a.it.spec(s);
    match classify(s) {
      Cls::Jsr { pkg, req, exp } => {
        let (p, r, e) = (a.pkg(&pkg), a.req(&req), a.exp(&exp));
        reqs.insert(r, req.clone());
        cls.push(Sx::atoms([sid, 1, p, r, e]));
      }
      Cls::JsrBad => cls.push(Sx::atoms([sid, 2])),
      Cls::File { nv, path } => {
        let (p, v, pa) = (a.pkg(&nv.name), a.ver(&nv.version), a.path(&path));
        cls.push(Sx::atoms([sid, 3, p, v, pa]));
      }
      Cls::Plain => {}
    }
  }
  let resp_sx = |a: &mut JAbs, s: &str, e: &Entry, parsed: Option<&Result<Module, ModuleError>>, fin: String, bytes: Option<Vec<u8>>| -> Sx {
    match e {
      Entry::Missing => Sx::atoms([0]),
      Entry::Error => Sx::atoms([1]),
      Entry::Redirect(to) => Sx::atoms([2, a.it.spec(to)]),
      Entry::External => Sx::atoms([3, a.it.spec(s)]),
      Entry::Module { .. } => {
        let h = a.chk(&sha(&bytes.unwrap()));
        let (ok, decl, deps) = match parsed.unwrap() {
          Ok(m) => (true, m.js().map(|j| j.media_type.is_declaration()).unwrap_or(false), module_deps(m)),
          Err(_) => (false, false, vec![]),
        };
        let d = a.deps_sx(&deps);
        Sx::L(vec![Sx::A(4), Sx::A(a.it.spec(&fin)), Sx::A(h), Sx::b(ok), Sx::b(decl), d])
      }
    }
  };
  let mut use_sx = vec![];
  for (s, e) in &world.entries {
    if s.ends_with("meta.json") {
      continue;
    }
    let r = resp_sx(&mut a, s, e, parsed_use.get(s), final_of(s), world.content_of(s, false));
    use_sx.push(Sx::L(vec![Sx::A(a.it.spec(s)), r]));
  }
  let mut only_sx = vec![];
  for (s, e) in &world.only_entries {
    if s.ends_with("meta.json") {
      continue;
    }
    let r = resp_sx(&mut a, s, e, parsed_only.get(s), s.clone(), world.only_content(s));
    only_sx.push(Sx::L(vec![Sx::A(a.it.spec(s)), r]));
  }
  let pmeta_sx = |a: &mut JAbs, d: &Doc<JsrPackageInfo>| -> Sx {
    match d {
      Doc::Fail(f) => Sx::atoms([0, *f]),
      Doc::Bad(_) => Sx::atoms([0, 3]),
      Doc::Ok(info, _) => {
        let mut vs: Vec<(&Version, bool)> = info.versions.iter().map(|(v, i)| (v, i.yanked)).collect();
        vs.sort();
        Sx::L(vec![Sx::A(1), Sx::L(vs.iter().map(|(v, y)| Sx::L(vec![Sx::A(a.ver(v)), Sx::b(*y)])).collect())])
      }
    }
  };
  let mut pkgs_sx = vec![];
  for (pkg, (u, r)) in &pdocs {
    let url = format!("{}{}/meta.json", REGISTRY, pkg);
    let (us, rs) = (pmeta_sx(&mut a, u), pmeta_sx(&mut a, r));
    pkgs_sx.push(Sx::L(vec![Sx::A(a.pkg(pkg)), Sx::A(a.it.spec(&url)), us, rs]));
  }
  let mut vers_sx = vec![];
  for ((pkg, v), d) in &vdocs {
    let nv = PackageNv { name: pkg.as_str().into(), version: v.clone() };
    let base = recommended_registry_package_url(&registry_url(), &nv).to_string();
    let url = format!("{}{}/{}_meta.json", REGISTRY, pkg, v);
    let vm = match d {
      Doc::Fail(f) => Sx::atoms([0, *f]),
      Doc::Bad(bytes) => Sx::atoms([2, a.chk(&sha(bytes))]),
      Doc::Ok(info, bytes) => {
        let h = a.chk(&sha(bytes));
        let lc = Sx::opt(info.lockfile_checksum.as_ref().map(|c| Sx::A(a.chk(c))));
        let mut ex = vec![];
        for ((p2, v2, exp), t) in &export_targets {
          if p2 == pkg && v2 == v {
            let e = a.exp(exp);
            ex.push(Sx::L(vec![Sx::A(e), Sx::A(t.as_ref().map(|t| a.it.spec(t)).unwrap_or(0))]));
          }
        }
        let mut man: Vec<(&String, &deno_graph::packages::JsrPackageVersionManifestEntry)> = info.manifest.iter().collect();
        man.sort_by(|x, y| x.0.cmp(y.0));
        let man_sx = man
          .iter()
          .map(|(p, e)| {
            let pid = a.path(p);
            match e.checksum.strip_prefix("sha256-") {
              Some(c) => Sx::L(vec![Sx::A(pid), Sx::atoms([0, a.chk(c)])]),
              None => Sx::L(vec![Sx::A(pid), Sx::atoms([1])]),
            }
          })
          .collect();
        let mut mi = vec![];
        for ((p2, v2, path), deps) in &modinfo_deps {
          if p2 == pkg && v2 == v {
            let pid = a.path(path);
            let d = a.deps_sx(deps);
            mi.push(Sx::L(vec![Sx::A(pid), d]));
          }
        }
        Sx::L(vec![Sx::A(1), Sx::A(h), lc, Sx::L(ex), Sx::L(man_sx), Sx::L(mi)])
      }
    };
    let cached = matches!(world.only_entries.get(&url), Some(Entry::Module { .. }));
    vers_sx.push(Sx::L(vec![Sx::A(a.pkg(pkg)), Sx::A(a.ver(v)), Sx::A(a.it.spec(&url)), Sx::A(a.it.spec(&base)), vm, Sx::b(cached)]));
  }
  let mut seed_sx = vec![];
  for (r, v) in &c.seed {
    if let (Ok(req), Ok(ver)) = (PackageReq::from_str(r), Version::parse_standard(v)) {
      let rid = a.req(&req);
      reqs.insert(rid, req.clone());
      seed_sx.push(Sx::atoms([rid, a.pkg(&req.name), a.ver(&ver)]));
    }
  }
  let mut match_sx = vec![];
  for (_, req) in &reqs {
    let vs: Vec<u64> = a.versions.iter().filter(|(v, _)| req.version_req.matches(v)).map(|(_, id)| *id).collect();
    match_sx.push(Sx::L(vec![Sx::A(a.req(req)), Sx::atoms(vs)]));
  }
  let lock_pkg_sx = match &c.lock_pkg {
    None => Sx::opt(None),
    Some(m) => Sx::opt(Some(Sx::L(
      m.iter()
        .filter_map(|(k, c)| {
          let nv = PackageNv::from_str(k).ok()?;
          Some(Sx::atoms([a.pkg(&nv.name), a.ver(&nv.version), a.chk(c)]))
        })
        .collect(),
    ))),
  };
  let lock_remote_sx = Sx::L(c.lock_remote.iter().map(|(s, c)| Sx::atoms([a.it.spec(s), a.chk(c)])).collect());
  let http = Sx::atoms(universe.iter().filter(|s| s.starts_with("http:") || s.starts_with("https:")).map(|s| a.it.spec(s)));
  let missing = a.chk("package-manifest-missing-checksum");
  // the versions that are too new for the newest-dependency date in force for their package, as the real
  // resolver judges them (exclusions by name and by prefix included)
  let resolver = version_resolver(c);
  let mut late: BTreeSet<(u64, u64)> = BTreeSet::new();
  for (pkg, (u, r)) in &pdocs {
    for d in [u, r] {
      if let Doc::Ok(info, _) = d {
        let name: deno_semver::package::PackageName = pkg.as_str().into();
        let pr = resolver.get_for_package(&name, info);
        for (v, vi) in &info.versions {
          if !pr.matches_newest_dependency_date(vi) {
            late.insert((a.pkg(pkg), a.ver(v)));
          }
        }
      }
    }
  }
  let late_sx: Vec<Sx> = late.iter().map(|(p, v)| Sx::atoms([*p, *v])).collect();
  a.world_sx = Sx::L(vec![
    Sx::L(cls),
    Sx::L(use_sx),
    Sx::L(only_sx),
    Sx::L(pkgs_sx),
    Sx::L(vers_sx),
    Sx::L(match_sx),
    lock_pkg_sx,
    lock_remote_sx,
    http,
    Sx::A(missing),
    Sx::A(c.max_redirects as u64),
    Sx::L(seed_sx),
    Sx::L(late_sx),
  ]);
  a
}

// ---------------------------------------------------------------------------
// the real build
// ---------------------------------------------------------------------------

pub struct JBuilt {
  pub graph: ModuleGraph,
  pub log: Vec<LoadCall>,
  pub lock_sets: Vec<(String, String)>,
  pub remote_sets: Vec<(String, String)>,
}

pub fn new_locker(c: &JCase) -> Option<LogLocker> {
  c.lock_pkg.as_ref().map(|lp| LogLocker {
    remote: c.lock_remote.iter().map(|(k, v)| (k.clone(), v.clone())).collect(),
    pkg: lp.iter().map(|(k, v)| (k.clone(), v.clone())).collect(),
    ..Default::default()
  })
}

/// The reproduction of F-C06b as a registry case: the lockfile selects @s/a@1 -> 1.0.0, the registry
/// also has 1.1.0, and an import no listed version satisfies makes the builder restart.
pub fn lockseed_case() -> JCase {
  let mut c = JCase { max_redirects: 10, ..Default::default() };
  let mut put = |url: &str, text: &str| {
    c.world.entries.insert(url.to_string(), raw_entry(text.as_bytes().to_vec()));
  };
  put("file:///main.ts", "import 'jsr:@s/a@1';import 'jsr:@s/b@2';");
  put("https://jsr.io/@s/a/meta.json", r#"{"versions":{"1.0.0":{},"1.1.0":{}}}"#);
  put("https://jsr.io/@s/a/1.0.0_meta.json", r#"{"exports":{".":"./mod.ts"},"manifest":{}}"#);
  put("https://jsr.io/@s/a/1.1.0_meta.json", r#"{"exports":{".":"./mod.ts"},"manifest":{}}"#);
  put("https://jsr.io/@s/a/1.0.0/mod.ts", "export const v = '1.0.0';");
  put("https://jsr.io/@s/a/1.1.0/mod.ts", "export const v = '1.1.0';");
  put("https://jsr.io/@s/b/meta.json", r#"{"versions":{"1.0.0":{}}}"#);
  c.roots = vec!["file:///main.ts".to_string()];
  c.seed = vec![("@s/a@1".to_string(), "1.0.0".to_string())];
  c
}

/// ModuleGraph::fill_from_lockfile with the case's package specifiers
pub fn fill_seeds(graph: &mut ModuleGraph, c: &JCase) {
  if c.seed.is_empty() {
    return;
  }
  let deps: Vec<(deno_semver::jsr::JsrDepPackageReq, String)> = c
    .seed
    .iter()
    .filter_map(|(r, v)| Some((deno_semver::jsr::JsrDepPackageReq::jsr(PackageReq::from_str(r).ok()?), v.clone())))
    .collect();
  graph.fill_from_lockfile(deno_graph::FillFromLockfileOptions {
    redirects: std::iter::empty(),
    package_specifiers: deps.iter().map(|(d, v)| (d, v.as_str())),
  });
}

pub fn real_jbuild_with(c: &JCase, loader: &dyn Loader, locker: &mut Option<LogLocker>) -> ModuleGraph {
  let mut graph = ModuleGraph::new(GraphKind::All);
  fill_seeds(&mut graph, c);
  let roots: Vec<ModuleSpecifier> = c.roots.iter().map(|r| ModuleSpecifier::parse(r).unwrap()).collect();
  let exec = InlineExecutor;
  let options = BuildOptions {
    executor: &exec,
    prefer_cached_jsr_versions: c.prefer_cached,
    jsr_version_resolver: std::borrow::Cow::Owned(version_resolver(c)),
    unstable_text_imports: c.unstable_text,
    unstable_bytes_imports: c.unstable_bytes,
    locker: locker.as_mut().map(|l| l as &mut dyn Locker),
    ..Default::default()
  };
  futures::executor::block_on(graph.build(roots, vec![], loader, options));
  graph
}

pub fn real_jbuild(c: &JCase) -> JBuilt {
  let mut loader = WorldLoader::new(&c.world);
  loader.max_redirects = c.max_redirects;
  loader.only_means_uncached = true;
  let mut locker = new_locker(c);
  let graph = real_jbuild_with(c, &loader, &mut locker);
  let (lock_sets, remote_sets) = match locker {
    Some(l) => (l.pkg_sets, l.sets),
    None => (vec![], vec![]),
  };
  JBuilt { graph, log: loader.log.into_inner(), lock_sets, remote_sets }
}

pub fn jerr_kind(e: &ModuleError) -> u64 {
  match e.as_kind() {
    ModuleErrorKind::Missing { .. } => 1,
    ModuleErrorKind::Parse { .. } => 15,
    ModuleErrorKind::Load { err, .. } => match err {
      ModuleLoadError::Loader(_) => 2,
      ModuleLoadError::TooManyRedirects => 18,
      ModuleLoadError::HttpsChecksumIntegrity(e) if e.actual.starts_with("Redirect to ") => 19,
      ModuleLoadError::HttpsChecksumIntegrity(_) => 16,
      ModuleLoadError::Jsr(j) => match j {
        JsrLoadError::UnsupportedManifestChecksum => 13,
        JsrLoadError::ContentChecksumIntegrity(_) => 12,
        JsrLoadError::ContentLoadExternalSpecifier => 17,
        JsrLoadError::ContentLoad(_) => 11,
        JsrLoadError::PackageManifestLoad(..) => 4,
        JsrLoadError::PackageNotFound(_) => 3,
        JsrLoadError::PackageVersionNotFound(_) => 6,
        JsrLoadError::PackageVersionManifestLoad(..) => 7,
        JsrLoadError::PackageVersionManifestChecksumIntegrity(..) => 8,
        JsrLoadError::PackageFormat(_) => 14,
        JsrLoadError::PackageReqNotFound(_) => 5,
        JsrLoadError::RedirectInPackage(_) => 10,
        JsrLoadError::UnknownExport { .. } => 9,
      },
      _ => 98,
    },
    _ => 99,
  }
}

fn err_ref(e: &ModuleError) -> Option<&Range> {
  match e.as_kind() {
    ModuleErrorKind::Missing { maybe_referrer, .. } => maybe_referrer.as_ref(),
    ModuleErrorKind::Load { maybe_referrer, .. } => maybe_referrer.as_ref(),
    _ => None,
  }
}

pub fn graph_spec_strings(g: &ModuleGraph, log: &[LoadCall], out: &mut BTreeSet<String>) {
  for p in pending_specs(g) {
    out.insert(p);
  }
  for r in &g.roots {
    out.insert(r.to_string());
  }
  for (k, v) in &g.redirects {
    out.insert(k.to_string());
    out.insert(v.to_string());
  }
  for (s, e) in entries(g) {
    out.insert(s.to_string());
    match e {
      Ok(m) => {
        for (t, _, _) in module_deps(m) {
          out.insert(t);
        }
      }
      Err(err) => {
        out.insert(err.specifier().to_string());
      }
    }
  }
  for c in log {
    out.insert(c.specifier.clone());
  }
}

/// The real graph in the shape of RunJsr.enc_jgraph.
pub fn abs_jgraph(b: &mut JBuilt, a: &mut JAbs) -> Sx {
  let g = &b.graph;
  let mut slots = vec![];
  for (s, e) in entries(g) {
    let sid = a.it.spec(s.as_str());
    let slot = match e {
      Ok(Module::External(_)) => Sx::atoms([1]),
      Ok(m) => {
        let bytes: Vec<u8> = match m {
          Module::Wasm(w) => w.source.to_vec(),
          _ => m.source().map(|s| s.as_bytes().to_vec()).unwrap_or_default(),
        };
        let src = if bytes.is_empty() { 0 } else { a.chk(&sha(&bytes)) };
        let deps = module_deps(m);
        let d = a.deps_sx(&deps);
        Sx::L(vec![Sx::A(0), Sx::A(src), d])
      }
      Err(err) => {
        let r = Sx::opt(err_ref(err).map(|r| Sx::A(a.range(&range_str(r)))));
        Sx::L(vec![Sx::A(2), Sx::A(jerr_kind(err)), Sx::A(a.it.spec(err.specifier().as_str())), r])
      }
    };
    slots.push(Sx::L(vec![Sx::A(sid), slot]));
  }
  for p in pending_specs(g) {
    slots.push(Sx::L(vec![Sx::A(a.it.spec(&p)), Sx::atoms([3])]));
  }
  let reds = g.redirects.iter().map(|(x, y)| Sx::atoms([a.it.spec(x.as_str()), a.it.spec(y.as_str())])).collect();
  let nv_sx = |a: &mut JAbs, nv: &PackageNv| -> Vec<Sx> { vec![Sx::A(a.pkg(&nv.name)), Sx::A(a.ver(&nv.version))] };
  let mut map = vec![];
  for (req, nv) in g.packages.mappings() {
    let mut v = vec![Sx::A(a.req(req))];
    v.extend(nv_sx(a, nv));
    map.push(Sx::L(v));
  }
  let mut pk = vec![];
  let mut ex = vec![];
  let mut deps = vec![];
  let with_deps: Vec<(PackageNv, Vec<deno_semver::jsr::JsrDepPackageReq>)> =
    g.packages.packages_with_deps().map(|(nv, d)| (nv.clone(), d.cloned().collect())).collect();
  for (nv, ds) in &with_deps {
    pk.push(Sx::L(nv_sx(a, nv)));
    if let Some(m) = g.packages.package_exports(nv) {
      for k in m.keys() {
        let mut v = nv_sx(a, nv);
        v.push(Sx::A(a.exp(k)));
        ex.push(Sx::L(v));
      }
    }
    for d in ds {
      let mut v = nv_sx(a, nv);
      if d.kind == deno_semver::package::PackageKind::Jsr {
        v.push(Sx::A(a.req(&d.req)));
      } else {
        v.push(Sx::A(999_000));
      }
      deps.push(Sx::L(v));
    }
  }
  let mut packages = b.graph.packages.clone();
  let yanked: Vec<Sx> = packages.used_yanked_packages().cloned().collect::<Vec<_>>().iter().map(|nv| Sx::L(nv_sx(a, nv))).collect();
  let calls = b
    .log
    .iter()
    .map(|c| {
      let setting = match c.cache_setting {
        "use" => 0,
        "reload" => 1,
        _ => 2,
      };
      let ck = c.checksum.as_ref().map(|h| Sx::A(a.chk(h)));
      Sx::L(vec![Sx::A(a.it.spec(&c.specifier)), Sx::A(setting), Sx::opt(ck)])
    })
    .collect();
  let lock_sets = b
    .lock_sets
    .iter()
    .map(|(k, c)| {
      let nv = PackageNv::from_str(k).unwrap();
      let mut v = nv_sx(a, &nv);
      v.push(Sx::A(a.chk(c)));
      Sx::L(v)
    })
    .collect();
  let remote_sets = b.remote_sets.iter().map(|(s, c)| Sx::atoms([a.it.spec(s), a.chk(c)])).collect();
  Sx::L(vec![
    Sx::set(slots),
    Sx::set(reds),
    Sx::L(vec![Sx::set(map), Sx::set(pk), Sx::set(ex), Sx::set(deps), Sx::set(yanked)]),
    Sx::set(calls),
    Sx::set(lock_sets),
    Sx::set(remote_sets),
  ])
}

