//! Abstraction of a real `ModuleGraph` into the model's vocabulary (wire
//! format decoded by coq/Model/Graph.v `dec_graph`).
use crate::sexp::Sx;
use deno_graph::*;
use indexmap::IndexMap;
use std::collections::BTreeMap;
use std::collections::BTreeSet;
use std::collections::HashMap;

/// Interning tables. Specifier ids follow URL string order (BTreeMap order).
pub struct Intern {
  pub specs: BTreeMap<String, u64>,
  pub misc: HashMap<String, u64>,
  pub misc_rev: Vec<String>,
}

impl Intern {
  pub fn spec(&self, s: &str) -> u64 {
    *self.specs.get(s).unwrap_or_else(|| panic!("uninterned specifier {}", s))
  }
  pub fn spec_opt(&self, s: &str) -> Option<u64> {
    self.specs.get(s).copied()
  }
  pub fn misc(&mut self, s: &str) -> u64 {
    if let Some(v) = self.misc.get(s) {
      return *v;
    }
    let id = self.misc_rev.len() as u64 + 1;
    self.misc.insert(s.to_string(), id);
    self.misc_rev.push(s.to_string());
    id
  }
  pub fn spec_name(&self, id: u64) -> String {
    self.specs.iter().find(|(_, v)| **v == id).map(|(k, _)| k.clone()).unwrap_or_default()
  }
}

pub fn media_id(m: MediaType) -> u64 {
  match m {
    MediaType::JavaScript => 0,
    MediaType::Jsx => 1,
    MediaType::Mjs => 2,
    MediaType::Cjs => 3,
    MediaType::TypeScript => 4,
    MediaType::Mts => 5,
    MediaType::Cts => 6,
    MediaType::Dts => 7,
    MediaType::Dmts => 8,
    MediaType::Dcts => 9,
    MediaType::Tsx => 10,
    MediaType::Css => 11,
    MediaType::Json => 12,
    MediaType::Jsonc => 13,
    MediaType::Json5 => 14,
    MediaType::Html => 15,
    MediaType::Markdown => 16,
    MediaType::Sql => 17,
    MediaType::Wasm => 18,
    MediaType::SourceMap => 19,
    MediaType::Unknown => 20,
  }
}

pub fn kind_id(k: GraphKind) -> u64 {
  match k {
    GraphKind::All => 0,
    GraphKind::CodeOnly => 1,
    GraphKind::TypesOnly => 2,
  }
}

pub fn scheme_id(s: &str) -> u64 {
  match s {
    "file" => 1,
    "http" => 2,
    "https" => 3,
    _ => 0,
  }
}

pub fn range_str(r: &Range) -> String {
  format!(
    "{}:{}:{}-{}:{}:{:?}",
    r.specifier, r.range.start.line, r.range.start.character, r.range.end.line, r.range.end.character,
    r.resolution_mode
  )
}

pub fn module_error_str(e: &ModuleError) -> String {
  let k = e.as_kind();
  let class = match k {
    ModuleErrorKind::Load { .. } => "Load",
    ModuleErrorKind::Missing { .. } => "Missing",
    ModuleErrorKind::MissingDynamic { .. } => "MissingDynamic",
    ModuleErrorKind::Parse { .. } => "Parse",
    ModuleErrorKind::WasmParse { .. } => "WasmParse",
    ModuleErrorKind::UnsupportedMediaType { .. } => "UnsupportedMediaType",
    ModuleErrorKind::InvalidTypeAssertion { .. } => "InvalidTypeAssertion",
    ModuleErrorKind::UnsupportedImportAttributeType { .. } => "UnsupportedImportAttributeType",
    ModuleErrorKind::UnsupportedModuleTypeForSourcePhaseImport { .. } => "UnsupportedSourcePhase",
  };
  format!(
    "{}|{}|{}|{}",
    class,
    k.specifier(),
    k.maybe_referrer().map(range_str).unwrap_or_default(),
    k.to_string_with_range()
  )
}

pub fn attr_id(a: Option<&str>) -> u64 {
  match a {
    None => 0,
    Some("json") => 1,
    Some("text") => 2,
    Some("bytes") => 3,
    Some("css") => 4,
    Some(_) => 5,
  }
}

pub fn error_kind_id(e: &ModuleError) -> u64 {
  match e.as_kind() {
    ModuleErrorKind::Load { .. } => 0,
    ModuleErrorKind::Missing { .. } => 1,
    ModuleErrorKind::MissingDynamic { .. } => 2,
    ModuleErrorKind::Parse { .. } => 3,
    ModuleErrorKind::WasmParse { .. } => 4,
    ModuleErrorKind::UnsupportedMediaType { .. } => 5,
    ModuleErrorKind::InvalidTypeAssertion { .. } => 6,
    ModuleErrorKind::UnsupportedImportAttributeType { .. } => 7,
    ModuleErrorKind::UnsupportedModuleTypeForSourcePhaseImport { .. } => 8,
  }
}

pub fn resolution_error_str(e: &ResolutionError) -> String {
  format!("{}|{}", range_str(e.range()), e.to_string_with_range())
}

fn collect_res(r: &Resolution, out: &mut BTreeSet<String>) {
  if let Resolution::Ok(ok) = r {
    out.insert(ok.specifier.to_string());
    out.insert(ok.range.specifier.to_string());
  }
}

fn collect_deps(deps: &IndexMap<String, Dependency>, out: &mut BTreeSet<String>) {
  for d in deps.values() {
    collect_res(&d.maybe_code, out);
    collect_res(&d.maybe_type, out);
  }
}

/// All entries of the graph through the public API (slots cannot be pending
/// after a completed build; a pending slot would be invisible here and is
/// caught by the C03 check on the serialised graph).
pub fn entries(g: &ModuleGraph) -> Vec<(&ModuleSpecifier, Result<&Module, &ModuleError>)> {
  // specifiers() lists slots first, then redirect sources; only slot keys wanted here
  let n_slots = g.modules().count() + g.module_errors().count();
  g.specifiers().take(n_slots).collect()
}

/// Specifiers whose slot is still `Pending` (only visible through the slot
/// count and the serialised form).
pub fn pending_specs(g: &ModuleGraph) -> Vec<String> {
  let n_slots = g.specifiers_count() - g.redirects.len() - g.imports.len();
  let visible = g.modules().count() + g.module_errors().count();
  if n_slots == visible {
    return vec![];
  }
  let v = serde_json::to_value(g).unwrap();
  let mut out = vec![];
  if let Some(mods) = v.get("modules").and_then(|m| m.as_array()) {
    for m in mods {
      if let Some(e) = m.get("error").and_then(|e| e.as_str()) {
        if e.starts_with("[INTERNAL ERROR]") {
          out.push(m.get("specifier").and_then(|s| s.as_str()).unwrap_or("").to_string());
        }
      }
    }
  }
  out
}

pub fn build_intern(g: &ModuleGraph, extra: &[String]) -> Intern {
  build_intern_multi(&[g], extra)
}

pub fn build_intern_multi(gs: &[&ModuleGraph], extra: &[String]) -> Intern {
  let mut set = BTreeSet::new();
  for g in gs {
    collect_graph_specs(g, &mut set);
  }
  for s in extra {
    set.insert(s.clone());
  }
  let specs = set.into_iter().enumerate().map(|(i, s)| (s, i as u64 + 1)).collect();
  Intern { specs, misc: HashMap::new(), misc_rev: vec![] }
}

fn collect_graph_specs(g: &ModuleGraph, set: &mut BTreeSet<String>) {
  let extra: &[String] = &[];
  for p in pending_specs(g) {
    set.insert(p);
  }
  for s in extra {
    set.insert(s.clone());
  }
  for r in &g.roots {
    set.insert(r.to_string());
  }
  for (k, v) in &g.redirects {
    set.insert(k.to_string());
    set.insert(v.to_string());
  }
  for (k, imp) in &g.imports {
    set.insert(k.to_string());
    collect_deps(&imp.dependencies, set);
  }
  for (s, e) in entries(g) {
    set.insert(s.to_string());
    match e {
      Ok(m) => {
        set.insert(m.specifier().to_string());
        collect_deps(m.dependencies(), set);
        if let Some(js) = m.js() {
          if let Some(td) = &js.maybe_types_dependency {
            collect_res(&td.dependency, set);
          }
          if let Some(fc) = js.fast_check_module() {
            collect_deps(&fc.dependencies, set);
          }
        }
      }
      Err(err) => {
        set.insert(err.specifier().to_string());
      }
    }
  }
}

pub fn abs_res(r: &Resolution, it: &mut Intern) -> Sx {
  match r {
    Resolution::None => Sx::atoms([0]),
    Resolution::Ok(ok) => {
      let t = it.spec(ok.specifier.as_str());
      let rg = it.misc(&range_str(&ok.range));
      Sx::atoms([1, t, rg])
    }
    Resolution::Err(e) => {
      let id = it.misc(&resolution_error_str(e));
      Sx::atoms([2, id])
    }
  }
}

fn filelike(text: &str) -> bool {
  text.to_lowercase().starts_with("file://")
}

pub fn abs_deps(deps: &IndexMap<String, Dependency>, it: &mut Intern) -> Sx {
  Sx::L(
    deps
      .iter()
      .map(|(text, d)| {
        let tid = it.misc(&format!("text:{}", text));
        Sx::L(vec![
          Sx::A(tid),
          Sx::b(filelike(text)),
          abs_res(&d.maybe_code, it),
          abs_res(&d.maybe_type, it),
          Sx::b(d.is_dynamic),
          Sx::b(d.maybe_deno_types_specifier.is_some()),
          // 9: no type attribute and every import of the target is a source-phase import
          Sx::A(if d.maybe_attribute_type.is_none() && !d.imports.is_empty() && d.imports.iter().all(|i| i.kind.is_source_phase()) { 9 } else { attr_id(d.maybe_attribute_type.as_deref()) }),
        ])
      })
      .collect(),
  )
}

pub fn abs_module(m: &Module, it: &mut Intern) -> Sx {
  let kind = match m {
    Module::Js(_) => 0,
    Module::Json(_) => 1,
    Module::Wasm(_) => 2,
    Module::Npm(_) => 3,
    Module::Node(_) => 4,
    Module::External(_) => 5,
  };
  let td = match m.js().and_then(|js| js.maybe_types_dependency.as_ref()) {
    Some(td) => {
      let tid = it.misc(&format!("text:{}", td.specifier));
      Sx::opt(Some(Sx::L(vec![Sx::A(tid), Sx::b(filelike(&td.specifier)), abs_res(&td.dependency, it)])))
    }
    None => Sx::opt(None),
  };
  let fc = match m.js().and_then(|js| js.fast_check_module()) {
    Some(fc) => Sx::opt(Some(abs_deps(&fc.dependencies, it))),
    None => Sx::opt(None),
  };
  Sx::L(vec![
    Sx::A(kind),
    Sx::A(it.spec(m.specifier().as_str())),
    Sx::A(media_id(m.media_type())),
    abs_deps(m.dependencies(), it),
    td,
    fc,
    Sx::b(match m {
      Module::Wasm(w) => !w.source_dts.is_empty(),
      _ => false,
    }),
  ])
}

pub fn abs_graph(g: &ModuleGraph, it: &mut Intern) -> Sx {
  let roots = Sx::atoms(g.roots.iter().map(|r| it.spec(r.as_str())));
  let mut slots = vec![];
  for (s, e) in entries(g) {
    let sid = it.spec(s.as_str());
    let slot = match e {
      Ok(m) => Sx::L(vec![Sx::A(0), abs_module(m, it)]),
      Err(err) => {
        let missing = match err.as_kind() {
          ModuleErrorKind::Missing { specifier, .. } => Sx::opt(Some(Sx::A(it.spec(specifier.as_str())))),
          _ => Sx::opt(None),
        };
        let eid = it.misc(&module_error_str(err));
        Sx::L(vec![Sx::A(1), missing, Sx::A(eid)])
      }
    };
    slots.push(Sx::L(vec![Sx::A(sid), slot]));
  }
  for p in pending_specs(g) {
    slots.push(Sx::L(vec![Sx::A(it.spec(&p)), Sx::atoms([2])]));
  }
  slots.sort_by_key(|s| match s {
    Sx::L(v) => match &v[0] {
      Sx::A(n) => *n,
      _ => 0,
    },
    _ => 0,
  });
  let reds = Sx::L(
    g.redirects
      .iter()
      .map(|(a, b)| Sx::atoms([it.spec(a.as_str()), it.spec(b.as_str())]))
      .collect(),
  );
  let imps = Sx::L(
    g.imports
      .iter()
      .map(|(k, imp)| Sx::L(vec![Sx::A(it.spec(k.as_str())), abs_deps(&imp.dependencies, it)]))
      .collect(),
  );
  let schemes = Sx::L(
    it.specs
      .iter()
      .map(|(s, id)| {
        let sch = s.split(':').next().unwrap_or("");
        Sx::atoms([*id, scheme_id(sch)])
      })
      .collect(),
  );
  let errkinds = Sx::L(
    g.module_errors()
      .map(|e| {
        let id = it.misc(&module_error_str(e));
        Sx::atoms([id, error_kind_id(e)])
      })
      .collect(),
  );
  Sx::L(vec![
    Sx::A(kind_id(g.graph_kind())),
    roots,
    Sx::L(slots),
    reds,
    imps,
    schemes,
    Sx::b(g.has_node_specifier),
    errkinds,
  ])
}

/// A graph error of a walk in the model's `gerr` vocabulary.
pub fn abs_graph_error(e: &ModuleGraphError, it: &mut Intern) -> Sx {
  match e {
    ModuleGraphError::ModuleError(me) => match me.as_kind() {
      ModuleErrorKind::MissingDynamic { specifier, referrer } => {
        let r = it.misc(&range_str(referrer));
        Sx::atoms([1, it.spec(specifier.as_str()), r])
      }
      _ => Sx::atoms([0, it.misc(&module_error_str(me))]),
    },
    ModuleGraphError::ResolutionError(re) => abs_res_err(0, re, it),
    ModuleGraphError::TypesResolutionError(re) => abs_res_err(1, re, it),
  }
}

fn abs_res_err(types: u64, re: &ResolutionError, it: &mut Intern) -> Sx {
  match re {
    ResolutionError::InvalidDowngrade { specifier, range } => {
      let r = it.misc(&range_str(range));
      Sx::atoms([3, types, it.spec(specifier.as_str()), r])
    }
    ResolutionError::InvalidLocalImport { specifier, range } => {
      let r = it.misc(&range_str(range));
      Sx::atoms([4, types, it.spec(specifier.as_str()), r])
    }
    _ => Sx::atoms([2, types, it.misc(&resolution_error_str(re))]),
  }
}

/// The graph without its attribute tables, in the shape of Coq's enc_graph_proj.
pub fn abs_graph_proj(g: &ModuleGraph, it: &mut Intern) -> Sx {
  match abs_graph(g, it) {
    Sx::L(v) => {
      let roots = match &v[1] {
        Sx::L(r) => Sx::set(r.clone()),
        x => x.clone(),
      };
      Sx::L(vec![v[0].clone(), roots, v[2].clone(), v[3].clone(), v[4].clone(), v[6].clone()])
    }
    x => x,
  }
}
