//! SplitMix64: every random choice of a run derives from one state.
#[derive(Clone)]
pub struct Rng(pub u64);

impl Rng {
  pub fn new(seed: u64) -> Self {
    Rng(seed.wrapping_mul(0x9E3779B97F4A7C15) ^ 0xD1B54A32D192ED03)
  }
  /// independent stream for case k of a run
  pub fn for_case(seed: u64, k: u64) -> Self {
    let mut r = Rng::new(seed ^ k.wrapping_mul(0xBF58476D1CE4E5B9));
    r.next();
    r
  }
  pub fn next(&mut self) -> u64 {
    self.0 = self.0.wrapping_add(0x9E3779B97F4A7C15);
    let mut z = self.0;
    z = (z ^ (z >> 30)).wrapping_mul(0xBF58476D1CE4E5B9);
    z = (z ^ (z >> 27)).wrapping_mul(0x94D049BB133111EB);
    z ^ (z >> 31)
  }
  pub fn below(&mut self, n: usize) -> usize {
    if n == 0 { 0 } else { (self.next() % n as u64) as usize }
  }
  pub fn range(&mut self, lo: usize, hi: usize) -> usize {
    lo + self.below(hi - lo + 1)
  }
  pub fn chance(&mut self, pct: usize) -> bool {
    self.below(100) < pct
  }
  pub fn pick<'a, T>(&mut self, v: &'a [T]) -> &'a T {
    &v[self.below(v.len())]
  }
  pub fn shuffle<T>(&mut self, v: &mut [T]) {
    for i in (1..v.len()).rev() {
      let j = self.below(i + 1);
      v.swap(i, j);
    }
  }
}
