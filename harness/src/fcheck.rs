//! Shared machinery of the fast-check properties (C09, C12): JSR-style
//! worlds served from memory, the spec corpus, running the REAL fast check,
//! an in-memory FastCheckCache that logs its traffic, and re-parsing of the
//! emitted modules (scope analysis, export tables, source maps).
use crate::rng::Rng;
use deno_ast::swc::ast;
use deno_ast::swc::common::SyntaxContext;
use deno_ast::swc::ecma_visit::{Visit, VisitWith};
use deno_ast::diagnostics::Diagnostic;
use deno_ast::MediaType;
use deno_graph::ast::CapturingModuleAnalyzer;
use deno_graph::fast_check::{FastCheckCache, FastCheckCacheItem, FastCheckCacheKey};
use deno_graph::source::*;
use deno_graph::*;
use futures::FutureExt;
use std::cell::RefCell;
use std::collections::{BTreeMap, BTreeSet, HashMap};
use std::sync::Arc;

// ------------------------------------------------------------------ worlds

#[derive(Clone, Debug, Default)]
pub struct FcWorld {
  /// url -> (text, headers)
  pub files: BTreeMap<String, (String, Vec<(String, String)>)>,
  pub root: String,
  pub workspace_members: Vec<WorkspaceMember>,
  pub workspace_fast_check: bool,
}

impl FcWorld {
  pub fn add(&mut self, url: &str, text: &str) {
    self.files.insert(url.to_string(), (text.to_string(), vec![]));
  }

  /// Adds size and checksum of every package file to the `manifest` of its
  /// version metadata (as tests/specs_test.rs::fill_jsr_meta_files_with_checksums does).
  pub fn with_manifests(&self) -> FcWorld {
    let mut w = self.clone();
    let mut per_meta: BTreeMap<String, Vec<(String, usize, String)>> = BTreeMap::new();
    for (url, (text, _)) in &self.files {
      let Some(rest) = url.strip_prefix("https://jsr.io/@") else { continue };
      let parts: Vec<&str> = rest.splitn(4, '/').collect();
      if parts.len() < 4 {
        continue;
      }
      let meta = format!("https://jsr.io/@{}/{}/{}_meta.json", parts[0], parts[1], parts[2]);
      per_meta.entry(meta).or_default().push((format!("/{}", parts[3]), text.len(), LoaderChecksum::r#gen(text.as_bytes())));
    }
    for (meta, files) in per_meta {
      let Some((text, _)) = w.files.get_mut(&meta) else { continue };
      let Ok(mut v) = serde_json::from_str::<serde_json::Value>(text) else { continue };
      let Some(obj) = v.as_object_mut() else { continue };
      let manifest = obj.entry("manifest").or_insert_with(|| serde_json::json!({}));
      if let Some(m) = manifest.as_object_mut() {
        for (f, size, sum) in files {
          if !m.contains_key(&f) {
            m.insert(f, serde_json::json!({"size": size, "checksum": format!("sha256-{}", sum)}));
          }
        }
      }
      *text = v.to_string();
    }
    w
  }
}

pub struct MapLoader<'a> {
  pub world: &'a FcWorld,
}

impl Loader for MapLoader<'_> {
  fn load(&self, specifier: &ModuleSpecifier, _options: LoadOptions) -> LoadFuture {
    let r = match self.world.files.get(specifier.as_str()) {
      Some((text, headers)) => {
        let loc = headers.iter().find(|(k, _)| k == "location");
        match loc {
          Some((_, l)) => {
            let to = if l.starts_with("./") { specifier.join(l).unwrap() } else { ModuleSpecifier::parse(l).unwrap() };
            Ok(Some(LoadResponse::Redirect { specifier: to }))
          }
          None => Ok(Some(LoadResponse::Module {
            content: Arc::from(text.clone().into_bytes()),
            mtime: None,
            specifier: specifier.clone(),
            maybe_headers: if headers.is_empty() { None } else { Some(headers.iter().cloned().collect::<HashMap<_, _>>()) },
          })),
        }
      }
      None => Ok(None),
    };
    async move { r }.boxed_local()
  }
}

#[derive(Debug)]
struct WsResolver {
  members: Vec<WorkspaceMember>,
}

impl Resolver for WsResolver {
  fn resolve(
    &self,
    specifier_text: &str,
    referrer_range: &deno_graph::Range,
    _mode: ResolutionKind,
  ) -> Result<ModuleSpecifier, ResolveError> {
    if let Ok(package_ref) = deno_semver::jsr::JsrPackageReqReference::from_str(specifier_text) {
      for m in &self.members {
        if m.name == package_ref.req().name
          && m.version.as_ref().map(|v| package_ref.req().version_req.matches(v)).unwrap_or(true)
        {
          let export_name = match package_ref.sub_path() {
            Some(p) if !p.starts_with("./") => format!("./{}", p),
            Some(p) => p.to_string(),
            None => ".".to_string(),
          };
          if let Some(export) = m.exports.get(&export_name) {
            return Ok(m.base.join(export).unwrap());
          }
        }
      }
    }
    Ok(deno_graph::resolve_import(specifier_text, &referrer_range.specifier)?)
  }
}

#[derive(Debug)]
struct NpmOk;
#[async_trait::async_trait(?Send)]
impl NpmResolver for NpmOk {
  fn load_and_cache_npm_package_info(&self, _package_name: &str) {}
  async fn resolve_pkg_reqs(&self, package_reqs: &[deno_semver::package::PackageReq]) -> NpmResolvePkgReqsResult {
    NpmResolvePkgReqsResult { results: package_reqs.iter().map(|_| Ok(())).collect(), dep_graph_result: Ok(()) }
  }
}

pub struct FcRun {
  pub graph: ModuleGraph,
  pub analyzer: CapturingModuleAnalyzer,
  /// the graph had module errors, so fast check was not run (as the spec runner does)
  pub skipped: bool,
}

/// graph.build + build_fast_check_type_graph on the REAL code.
pub fn run_fast_check(world: &FcWorld, cache: Option<&dyn FastCheckCache>) -> FcRun {
  let world = &world.with_manifests();
  let loader = MapLoader { world };
  let analyzer = CapturingModuleAnalyzer::default();
  let resolver = WsResolver { members: world.workspace_members.clone() };
  let mut graph = ModuleGraph::new(GraphKind::All);
  let exec = crate::world::InlineExecutor;
  futures::executor::block_on(graph.build(
    vec![ModuleSpecifier::parse(&world.root).unwrap()],
    vec![],
    &loader,
    BuildOptions {
      module_analyzer: &analyzer,
      npm_resolver: Some(&NpmOk),
      resolver: Some(&resolver),
      executor: &exec,
      ..Default::default()
    },
  ));
  let skipped = graph.module_errors().next().is_some();
  if !skipped {
    graph.build_fast_check_type_graph(BuildFastCheckTypeGraphOptions {
      fast_check_cache: cache,
      fast_check_dts: false,
      jsr_url_provider: Default::default(),
      es_parser: Some(&analyzer),
      resolver: None,
      workspace_fast_check: if world.workspace_fast_check {
        WorkspaceFastCheckOption::Enabled(&world.workspace_members)
      } else {
        WorkspaceFastCheckOption::Disabled
      },
    });
  }
  FcRun { graph, analyzer, skipped }
}

// ------------------------------------------------------------------ cache

#[derive(Clone, Debug, PartialEq, Eq)]
pub enum CacheEvent {
  GetMiss(u64),
  GetHit(u64),
  Set(u64),
}

#[derive(Default)]
pub struct MemCache {
  pub inner: RefCell<BTreeMap<FastCheckCacheKey, FastCheckCacheItem>>,
  pub log: RefCell<Vec<CacheEvent>>,
}

impl FastCheckCache for MemCache {
  fn hash_seed(&self) -> &'static str {
    "dgverif"
  }
  fn get(&self, key: FastCheckCacheKey) -> Option<FastCheckCacheItem> {
    let r = self.inner.borrow().get(&key).cloned();
    self.log.borrow_mut().push(if r.is_some() { CacheEvent::GetHit(key.as_u64()) } else { CacheEvent::GetMiss(key.as_u64()) });
    r
  }
  fn set(&self, key: FastCheckCacheKey, value: FastCheckCacheItem) {
    self.log.borrow_mut().push(CacheEvent::Set(key.as_u64()));
    self.inner.borrow_mut().insert(key, value);
  }
}

// ------------------------------------------------------------------ corpus

fn collect_txt(dir: &std::path::Path, out: &mut Vec<std::path::PathBuf>) {
  let mut entries: Vec<_> = match std::fs::read_dir(dir) {
    Ok(r) => r.filter_map(|e| e.ok()).map(|e| e.path()).collect(),
    Err(_) => vec![],
  };
  entries.sort();
  for p in entries {
    if p.is_dir() {
      collect_txt(&p, out);
    } else if p.extension().map(|e| e == "txt").unwrap_or(false) {
      out.push(p);
    }
  }
}

/// Parses one spec file of /repo/tests/specs (same format as tests/specs_test.rs).
pub fn parse_spec(text: &str) -> Option<FcWorld> {
  let mut world = FcWorld { root: "file:///mod.ts".to_string(), ..Default::default() };
  let mut text = text;
  if text.starts_with("~~ ") {
    let end = text.find(" ~~\n")?;
    let opts: serde_json::Value = serde_json::from_str(&text[3..end]).ok()?;
    if let Some(e) = opts.get("entrypoint").and_then(|v| v.as_str()) {
      world.root = e.to_string();
    }
    world.workspace_fast_check = opts.get("workspaceFastCheck").and_then(|v| v.as_bool()).unwrap_or(false);
    text = &text[end + 4..];
  }
  let mut files: Vec<(String, String, Vec<(String, String)>)> = vec![];
  for line in text.split('\n') {
    if let Some(spec_line) = line.strip_prefix("# ") {
      if spec_line.contains("<=") {
        return None; // content in an external file: not used by the fast-check specs
      }
      files.push((spec_line.to_string(), String::new(), vec![]));
    } else if let Some(h) = line.strip_prefix("HEADERS: ") {
      let m: BTreeMap<String, String> = serde_json::from_str(h).ok()?;
      files.last_mut()?.2 = m.into_iter().collect();
    } else {
      let f = files.last_mut()?;
      if !f.1.is_empty() {
        f.1.push('\n');
      }
      f.1.push_str(line);
    }
  }
  for (spec, content, headers) in files {
    if spec == "output" || spec == "lockfile_jsr_packages" {
      continue;
    }
    if spec == "workspace_members" {
      world.workspace_members = serde_json::from_str(&content).ok()?;
      continue;
    }
    let s = spec.strip_prefix("cache:").unwrap_or(&spec);
    let url = if s.starts_with("http:") || s.starts_with("https:") || s.starts_with("file:") {
      s.to_string()
    } else {
      format!("file:///{}", s)
    };
    world.files.insert(url, (content, headers));
  }
  Some(world)
}

/// every spec under /repo/tests/specs/graph/fast_check (recursively) and the
/// JSR specs, as worlds
pub fn load_corpus() -> Vec<(String, FcWorld)> {
  let mut paths = vec![];
  collect_txt(std::path::Path::new("/repo/tests/specs/graph/fast_check"), &mut paths);
  collect_txt(std::path::Path::new("/repo/tests/specs/graph/jsr"), &mut paths);
  let mut out = vec![];
  for p in paths {
    if let Ok(text) = std::fs::read_to_string(&p) {
      if let Some(w) = parse_spec(&text) {
        out.push((p.strip_prefix("/repo/tests/specs/graph").unwrap_or(&p).display().to_string(), w));
      }
    }
  }
  out
}

// ------------------------------------------------------------------ observed results

#[derive(Clone, Debug, PartialEq, Eq)]
pub enum Slot {
  None,
  Module { text: String, source_map: String, deps: Vec<String> },
  /// diagnostic codes and their specifiers
  Error(Vec<(String, String)>),
}

/// fast-check slot of every JS module of the graph, keyed by specifier
pub fn slots(graph: &ModuleGraph) -> BTreeMap<String, Slot> {
  let mut out = BTreeMap::new();
  for m in graph.modules() {
    if let Module::Js(js) = m {
      let s = if let Some(fc) = js.fast_check_module() {
        Slot::Module {
          text: fc.source.to_string(),
          source_map: fc.source_map.to_string(),
          deps: fc.dependencies.iter().map(|(k, d)| format!("{} -> {:?} / {:?}", k, dep_target(&d.maybe_code), dep_target(&d.maybe_type))).collect(),
        }
      } else if let Some(ds) = js.fast_check_diagnostics() {
        Slot::Error(ds.iter().map(|d| (d.code().to_string(), d.specifier().to_string())).collect())
      } else {
        Slot::None
      };
      out.insert(js.specifier.to_string(), s);
    }
  }
  out
}

fn dep_target(r: &Resolution) -> Option<String> {
  match r {
    Resolution::Ok(ok) => Some(ok.specifier.to_string()),
    Resolution::Err(_) => Some("<err>".to_string()),
    Resolution::None => None,
  }
}

// ------------------------------------------------------------------ re-parsing

pub fn parse_scoped(spec: &ModuleSpecifier, text: &str, media: MediaType) -> Result<deno_ast::ParsedSource, String> {
  deno_ast::parse_program(deno_ast::ParseParams {
    specifier: spec.clone(),
    text: Arc::from(text),
    media_type: media,
    capture_tokens: false,
    scope_analysis: true,
    maybe_syntax: None,
  })
  .map_err(|e| e.to_string())
}

struct IdentCollector {
  ctxt: SyntaxContext,
  /// occurrences outside TS-private / #private class members
  names: BTreeSet<String>,
  /// occurrences inside such members
  in_private: BTreeSet<String>,
  depth_private: usize,
}
impl Visit for IdentCollector {
  fn visit_ident(&mut self, n: &ast::Ident) {
    if n.ctxt == self.ctxt {
      if self.depth_private > 0 {
        self.in_private.insert(n.sym.to_string());
      } else {
        self.names.insert(n.sym.to_string());
      }
    }
  }
  fn visit_class_member(&mut self, n: &ast::ClassMember) {
    let private = match n {
      ast::ClassMember::Constructor(c) => c.accessibility == Some(ast::Accessibility::Private),
      ast::ClassMember::Method(m) => m.accessibility == Some(ast::Accessibility::Private),
      ast::ClassMember::ClassProp(p) => p.accessibility == Some(ast::Accessibility::Private),
      ast::ClassMember::AutoAccessor(a) => a.accessibility == Some(ast::Accessibility::Private) || matches!(a.key, ast::Key::Private(_)),
      ast::ClassMember::PrivateMethod(_) | ast::ClassMember::PrivateProp(_) => true,
      _ => false,
    };
    if private {
      self.depth_private += 1;
    }
    n.visit_children_with(self);
    if private {
      self.depth_private -= 1;
    }
  }
}

/// (identifiers with this context outside private class members, identifiers with it ONLY inside them)
fn idents_with_ctxt(p: &deno_ast::ParsedSource, ctxt: SyntaxContext) -> (BTreeSet<String>, BTreeSet<String>) {
  let mut c = IdentCollector { ctxt, names: BTreeSet::new(), in_private: BTreeSet::new(), depth_private: 0 };
  match p.program_ref() {
    deno_ast::ProgramRef::Module(m) => m.visit_with(&mut c),
    deno_ast::ProgramRef::Script(s) => s.visit_with(&mut c),
  }
  let only_private = c.in_private.difference(&c.names).cloned().collect();
  (c.names, only_private)
}

fn export_name(n: &ast::ModuleExportName) -> String {
  match n {
    ast::ModuleExportName::Ident(i) => i.sym.to_string(),
    ast::ModuleExportName::Str(s) => s.value.to_string_lossy().to_string(),
  }
}

struct BindingNames(Vec<String>);
impl Visit for BindingNames {
  fn visit_binding_ident(&mut self, n: &ast::BindingIdent) {
    self.0.push(n.id.sym.to_string());
  }
  fn visit_expr(&mut self, _n: &ast::Expr) {}
  fn visit_ts_type(&mut self, _n: &ast::TsType) {}
}

#[derive(Default, Debug, Clone)]
pub struct ModuleTable {
  pub own_exports: BTreeSet<String>,
  /// `export * from "x"` sources
  pub stars: Vec<String>,
  /// (source text, imported/re-exported name)
  pub imports: Vec<(String, String)>,
  /// every module specifier text in import/export declarations and import types
  pub specifiers: Vec<String>,
}

struct ImportTypes<'a>(&'a mut ModuleTable);
impl Visit for ImportTypes<'_> {
  fn visit_ts_import_type(&mut self, n: &ast::TsImportType) {
    let src = n.arg.value.to_string_lossy().to_string();
    self.0.specifiers.push(src.clone());
    if let Some(q) = &n.qualifier {
      let mut e = q;
      loop {
        match e {
          ast::TsEntityName::Ident(i) => {
            self.0.imports.push((src.clone(), i.sym.to_string()));
            break;
          }
          ast::TsEntityName::TsQualifiedName(qn) => e = &qn.left,
        }
      }
    }
    n.visit_children_with(self);
  }
}

/// import/export table of a parsed module
pub fn module_table(p: &deno_ast::ParsedSource) -> ModuleTable {
  let mut t = ModuleTable::default();
  let deno_ast::ProgramRef::Module(m) = p.program_ref() else {
    return t;
  };
  for item in &m.body {
    let ast::ModuleItem::ModuleDecl(d) = item else { continue };
    match d {
      ast::ModuleDecl::Import(i) => {
        let src = i.src.value.to_string_lossy().to_string();
        t.specifiers.push(src.clone());
        for s in &i.specifiers {
          match s {
            ast::ImportSpecifier::Named(n) => {
              let name = n.imported.as_ref().map(export_name).unwrap_or_else(|| n.local.sym.to_string());
              t.imports.push((src.clone(), name));
            }
            ast::ImportSpecifier::Default(_) => t.imports.push((src.clone(), "default".into())),
            ast::ImportSpecifier::Namespace(_) => {}
          }
        }
      }
      ast::ModuleDecl::ExportDecl(e) => match &e.decl {
        ast::Decl::Class(c) => {
          t.own_exports.insert(c.ident.sym.to_string());
        }
        ast::Decl::Fn(f) => {
          t.own_exports.insert(f.ident.sym.to_string());
        }
        ast::Decl::Var(v) => {
          let mut b = BindingNames(vec![]);
          for d in &v.decls {
            d.name.visit_with(&mut b);
          }
          t.own_exports.extend(b.0);
        }
        ast::Decl::Using(u) => {
          let mut b = BindingNames(vec![]);
          for d in &u.decls {
            d.name.visit_with(&mut b);
          }
          t.own_exports.extend(b.0);
        }
        ast::Decl::TsInterface(i) => {
          t.own_exports.insert(i.id.sym.to_string());
        }
        ast::Decl::TsTypeAlias(a) => {
          t.own_exports.insert(a.id.sym.to_string());
        }
        ast::Decl::TsEnum(e) => {
          t.own_exports.insert(e.id.sym.to_string());
        }
        ast::Decl::TsModule(m) => {
          if let ast::TsModuleName::Ident(i) = &m.id {
            t.own_exports.insert(i.sym.to_string());
          }
        }
      },
      ast::ModuleDecl::ExportNamed(n) => {
        let src = n.src.as_ref().map(|s| s.value.to_string_lossy().to_string());
        if let Some(s) = &src {
          t.specifiers.push(s.clone());
        }
        for s in &n.specifiers {
          match s {
            ast::ExportSpecifier::Named(x) => {
              let orig = export_name(&x.orig);
              let exported = x.exported.as_ref().map(export_name).unwrap_or_else(|| orig.clone());
              t.own_exports.insert(exported);
              if let Some(s) = &src {
                t.imports.push((s.clone(), orig));
              }
            }
            ast::ExportSpecifier::Namespace(x) => {
              t.own_exports.insert(export_name(&x.name));
            }
            ast::ExportSpecifier::Default(x) => {
              t.own_exports.insert(x.exported.sym.to_string());
              if let Some(s) = &src {
                t.imports.push((s.clone(), "default".into()));
              }
            }
          }
        }
      }
      ast::ModuleDecl::ExportDefaultDecl(_) | ast::ModuleDecl::ExportDefaultExpr(_) => {
        t.own_exports.insert("default".into());
      }
      ast::ModuleDecl::ExportAll(a) => {
        let src = a.src.value.to_string_lossy().to_string();
        t.specifiers.push(src.clone());
        t.stars.push(src);
      }
      ast::ModuleDecl::TsImportEquals(i) => {
        if i.is_export {
          t.own_exports.insert(i.id.sym.to_string());
        }
      }
      ast::ModuleDecl::TsExportAssignment(_) | ast::ModuleDecl::TsNamespaceExport(_) => {}
    }
  }
  m.visit_with(&mut ImportTypes(&mut t));
  t
}

// ------------------------------------------------------------------ source maps

const B64: &[u8] = b"ABCDEFGHIJKLMNOPQRSTUVWXYZabcdefghijklmnopqrstuvwxyz0123456789+/";

/// Decodes the `mappings` string: per generated line, segments of 1, 4 or 5
/// fields (absolute values after delta decoding). None = malformed.
pub fn decode_mappings(s: &str) -> Option<Vec<Vec<Vec<i64>>>> {
  let mut lines = vec![];
  let (mut src, mut ol, mut oc, mut name) = (0i64, 0i64, 0i64, 0i64);
  for line in s.split(';') {
    let mut segs = vec![];
    let mut gc = 0i64;
    if !line.is_empty() {
      for seg in line.split(',') {
        let mut fields = vec![];
        let (mut value, mut shift) = (0i64, 0u32);
        let mut pending = false;
        for b in seg.bytes() {
          let d = B64.iter().position(|x| *x == b)? as i64;
          value |= (d & 31) << shift;
          if d & 32 != 0 {
            shift += 5;
            pending = true;
            if shift > 60 {
              return None;
            }
          } else {
            let v = if value & 1 == 1 { -(value >> 1) } else { value >> 1 };
            fields.push(v);
            value = 0;
            shift = 0;
            pending = false;
          }
        }
        if pending || !(fields.len() == 1 || fields.len() == 4 || fields.len() == 5) {
          return None;
        }
        gc += fields[0];
        let mut abs = vec![gc];
        if fields.len() >= 4 {
          src += fields[1];
          ol += fields[2];
          oc += fields[3];
          abs.extend([src, ol, oc]);
        }
        if fields.len() == 5 {
          name += fields[4];
          abs.push(name);
        }
        segs.push(abs);
      }
    }
    lines.push(segs);
  }
  Some(lines)
}

fn utf16_len(s: &str) -> u64 {
  s.encode_utf16().count() as u64
}

fn is_ident_start(c: char) -> bool {
  c.is_alphabetic() || c == '_' || c == '$'
}
fn is_ident_part(c: char) -> bool {
  c.is_alphanumeric() || c == '_' || c == '$'
}

/// identifier token starting exactly at UTF-16 column `col` of `line`
fn ident_at(line: &str, col: u64) -> Option<String> {
  let mut u = 0u64;
  let mut prev: Option<char> = None;
  let mut it = line.char_indices().peekable();
  while let Some((i, c)) = it.next() {
    if u == col {
      if !is_ident_start(c) || prev.map(is_ident_part).unwrap_or(false) {
        return None;
      }
      let rest = &line[i..];
      let end = rest.char_indices().find(|(_, c)| !is_ident_part(*c)).map(|(j, _)| j).unwrap_or(rest.len());
      return Some(rest[..end].to_string());
    }
    if u > col {
      return None;
    }
    u += c.len_utf16() as u64;
    prev = Some(c);
  }
  None
}

fn same_name_as_literal(line: &str, col: u64, name: &str) -> bool {
  let mut u = 0u64;
  for (i, c) in line.char_indices() {
    if u == col {
      let rest = line[i..].trim_start_matches(|c| c == '[' || c == ' ');
      for q in ['"', '\'', '`'] {
        if let Some(r) = rest.strip_prefix(q) {
          if let Some(r2) = r.strip_prefix(name) {
            return r2.starts_with(q);
          }
        }
      }
      return false;
    }
    u += c.len_utf16() as u64;
  }
  false
}

/// words that are not identifiers, or are (contextual) modifier keywords the
/// emitter may synthesise at the position of the node they modify
const KEYWORDS: &[&str] = &[
  "abstract", "accessor", "any", "as", "asserts", "async", "await", "bigint", "boolean", "break", "case", "catch", "class",
  "const", "constructor", "continue", "debugger", "declare", "default", "delete", "do", "else", "enum", "export", "extends",
  "false", "finally", "for", "from", "function", "get", "global", "if", "implements", "import", "in", "infer", "instanceof",
  "interface", "is", "keyof", "let", "module", "namespace", "never", "new", "null", "number", "object", "of", "out", "override",
  "package", "private", "protected", "public", "readonly", "require", "return", "satisfies", "set", "static", "string", "super",
  "switch", "symbol", "this", "throw", "true", "try", "type", "typeof", "undefined", "unique", "unknown", "using", "var", "void",
  "while", "with", "yield",
];

#[derive(Clone, Debug, Default)]
pub struct SmFacts {
  pub decodes: bool,
  pub n_sources: u64,
  pub out_lens: Vec<u64>,
  pub orig_lens: Vec<u64>,
  /// gl gc src ol oc code   (code: 0 no identifier at the generated position, 1 same identifier,
  /// 2 keyword / modifier / same name as string-literal key (exempt), 3 a different token in the
  /// original, 4 a different token but another segment at the same generated position maps correctly)
  pub segs: Vec<[u64; 6]>,
  pub mismatches: Vec<String>,
}

pub fn source_map_facts(out_text: &str, orig_text: &str, source_map: &str) -> SmFacts {
  let mut f = SmFacts::default();
  let out_lines: Vec<&str> = out_text.split('\n').collect();
  let orig_lines: Vec<&str> = orig_text.split('\n').collect();
  f.out_lens = out_lines.iter().map(|l| utf16_len(l)).collect();
  f.orig_lens = orig_lines.iter().map(|l| utf16_len(l)).collect();
  let Ok(v) = serde_json::from_str::<serde_json::Value>(source_map) else { return f };
  let (Some(3), Some(sources), Some(mappings)) =
    (v.get("version").and_then(|x| x.as_u64()), v.get("sources").and_then(|x| x.as_array()), v.get("mappings").and_then(|x| x.as_str()))
  else {
    return f;
  };
  f.n_sources = sources.len() as u64;
  let Some(lines) = decode_mappings(mappings) else { return f };
  f.decodes = true;
  for (gl, segs) in lines.iter().enumerate() {
    let first = f.segs.len();
    for s in segs {
      if s.len() < 4 {
        continue;
      }
      if s.iter().any(|x| *x < 0) {
        f.decodes = false;
        return f;
      }
      let (gc, src, ol, oc) = (s[0] as u64, s[1] as u64, s[2] as u64, s[3] as u64);
      let mut code = 0;
      if let Some(gline) = out_lines.get(gl) {
        if let Some(gid) = ident_at(gline, gc) {
          if KEYWORDS.contains(&gid.as_str()) {
            code = 2;
          } else {
            let oline = orig_lines.get(ol as usize).copied().unwrap_or("");
            let oid = ident_at(oline, oc);
            if oid.as_deref() == Some(gid.as_str()) {
              code = 1;
            } else if oid.as_deref().map(|o| KEYWORDS.contains(&o)).unwrap_or(false) {
              // the original token is a modifier keyword (`public x`, `readonly x`, ...)
              code = 2;
            } else if same_name_as_literal(oline, oc, &gid) {
              // the same name written as a string-literal key in the original (`f["prop"] = ..`)
              code = 2;
            } else {
              code = 3;
              f.mismatches.push(format!("{}:{} `{}` -> {}:{} `{}`", gl, gc, gid, ol, oc, oline.chars().skip(oc as usize).take(14).collect::<String>()));
            }
          }
        }
      }
      f.segs.push([gl as u64, gc, src, ol, oc, code]);
    }
    // several segments may start at the same generated position (node start and token
    // start): an identifier is mapped correctly when one of them maps it to itself
    let n = f.segs.len();
    for i in first..n {
      if f.segs[i][5] == 3 {
        let gc = f.segs[i][1];
        if (first..n).any(|j| f.segs[j][1] == gc && (f.segs[j][5] == 1 || f.segs[j][5] == 2)) {
          f.segs[i][5] = 4;
        }
      }
    }
  }
  let still: std::collections::HashSet<(u64, u64)> = f.segs.iter().filter(|s| s[5] == 3).map(|s| (s[0], s[1])).collect();
  f.mismatches.retain(|m| {
    let mut it = m.split(' ').next().unwrap_or("").split(':');
    let gl: u64 = it.next().and_then(|x| x.parse().ok()).unwrap_or(0);
    let gc: u64 = it.next().and_then(|x| x.parse().ok()).unwrap_or(0);
    still.contains(&(gl, gc))
  });
  f
}

// ------------------------------------------------------------------ closure facts

#[derive(Clone, Debug, Default)]
pub struct ModFacts {
  pub spec: String,
  pub has_output: bool,
  pub parse_ok: bool,
  /// export table unknown (not a parsable JS/TS module): anything may be exported
  pub open: bool,
  pub own_exports: Vec<String>,
  /// resolved targets of `export *`; None = target not a module of the graph
  pub stars: Vec<Option<String>>,
  pub unresolved_out: Vec<String>,
  /// unresolved in the output, but only inside TS-private / #private class members
  pub unresolved_private: Vec<String>,
  pub top_orig: Vec<String>,
  /// named imports / re-exports / import-type heads whose source resolves to a module of the graph
  pub imports: Vec<(String, String)>,
  pub rel: Vec<(String, bool)>,
  pub sm: SmFacts,
  pub notes: Vec<String>,
  /// module-level names of the original that are not exported there and are still bound at module
  /// level in the output (pulled in by reference) / no longer bound (dropped)
  pub pulled: usize,
  pub dropped: usize,
}

/// Facts about every JS module of the graph after fast check: the emitted
/// module when there is one (has_output), the original otherwise (export table only).
pub fn closure_facts(graph: &ModuleGraph) -> Vec<ModFacts> {
  let mut out = vec![];
  for m in graph.modules() {
    let Module::Js(js) = m else {
      // JSON / wasm / npm / node / external: export table unknown
      out.push(ModFacts { spec: m.specifier().to_string(), open: true, ..Default::default() });
      continue;
    };
    let mut f = ModFacts { spec: js.specifier.to_string(), ..Default::default() };
    let fc = js.fast_check_module();
    f.has_output = fc.is_some();
    let (text, deps): (&str, &indexmap::IndexMap<String, Dependency>) = match fc {
      Some(fc) => (&fc.source, &fc.dependencies),
      None => (&js.source.text, &js.dependencies),
    };
    let parsed = parse_scoped(&js.specifier, text, js.media_type);
    let resolve = |t: &str| -> Option<String> {
      deps.get(t).and_then(|d| graph.resolve_dependency_from_dep(d, true)).map(|s| s.to_string())
    };
    match &parsed {
      Ok(p) => {
        f.parse_ok = true;
        let t = module_table(p);
        f.own_exports = t.own_exports.iter().cloned().collect();
        for s in &t.stars {
          f.stars.push(resolve(s));
        }
        for (s, name) in &t.imports {
          if let Some(target) = resolve(s) {
            f.imports.push((target, name.clone()));
          }
        }
        if fc.is_some() {
          for s in &t.specifiers {
            if s.starts_with("./") || s.starts_with("../") {
              f.rel.push((s.clone(), resolve(s).is_some()));
            }
          }
          let (outside, private) = idents_with_ctxt(p, p.unresolved_context());
          f.unresolved_out = outside.into_iter().collect();
          f.unresolved_private = private.into_iter().collect();
        }
      }
      Err(e) => {
        f.open = true;
        f.notes.push(format!("parse error: {}", e));
      }
    }
    if let Some(fc) = fc {
      match parse_scoped(&js.specifier, &js.source.text, js.media_type) {
        Ok(orig) => {
          let (a, b) = idents_with_ctxt(&orig, orig.top_level_context());
          f.top_orig = a.into_iter().chain(b).collect();
          if let Ok(p) = &parsed {
            let (oa, ob) = idents_with_ctxt(p, p.top_level_context());
            let out_top: BTreeSet<String> = oa.into_iter().chain(ob).collect();
            let exported = module_table(&orig).own_exports;
            for n in &f.top_orig {
              if !exported.contains(n) {
                if out_top.contains(n) { f.pulled += 1 } else { f.dropped += 1 }
              }
            }
          }
        }
        Err(e) => f.notes.push(format!("original does not parse: {}", e)),
      }
      f.sm = source_map_facts(&fc.source, &js.source.text, &fc.source_map);
    }
    out.push(f);
  }
  out.sort_by(|a, b| a.spec.cmp(&b.spec));
  out
}

/// Input class of F-C12c: some module of package P has `export * from` an entrypoint-side module of
/// another package Q from which a module with a default export is reachable through `export *`.
pub fn cross_package_star_default(graph: &ModuleGraph) -> bool {
  fn pkg_of(s: &str) -> Option<String> {
    let rest = s.strip_prefix("https://jsr.io/@")?;
    let parts: Vec<&str> = rest.splitn(4, '/').collect();
    if parts.len() < 4 { None } else { Some(format!("{}/{}/{}", parts[0], parts[1], parts[2])) }
  }
  let mut stars: BTreeMap<String, Vec<String>> = BTreeMap::new();
  let mut has_default: BTreeSet<String> = BTreeSet::new();
  for m in graph.modules() {
    let Module::Js(js) = m else { continue };
    let Ok(p) = parse_scoped(&js.specifier, &js.source.text, js.media_type) else { continue };
    let t = module_table(&p);
    if t.own_exports.contains("default") {
      has_default.insert(js.specifier.to_string());
    }
    let targets: Vec<String> = t
      .stars
      .iter()
      .filter_map(|s| js.dependencies.get(s).and_then(|d| graph.resolve_dependency_from_dep(d, true)).map(|x| x.to_string()))
      .collect();
    stars.insert(js.specifier.to_string(), targets);
  }
  for (m, ts) in &stars {
    for t in ts {
      if pkg_of(m).is_some() && pkg_of(t).is_some() && pkg_of(m) != pkg_of(t) {
        // star-reachable set from t, t itself excluded for the default test (its own default is
        // handled by the entrypoint trace)
        let mut seen: BTreeSet<String> = BTreeSet::new();
        let mut queue = vec![t.clone()];
        while let Some(x) = queue.pop() {
          if !seen.insert(x.clone()) {
            continue;
          }
          if x != *t && has_default.contains(&x) {
            return true;
          }
          for y in stars.get(&x).cloned().unwrap_or_default() {
            queue.push(y);
          }
        }
      }
    }
  }
  false
}

// ------------------------------------------------------------------ package generator

/// One generated declaration.
#[derive(Clone, Debug)]
struct Decl {
  name: String,
  /// usable in type position / value position
  is_type: bool,
  is_value: bool,
  kind: u8,
  exported: bool,
  /// members of a namespace usable as N.X in type position
  ns_types: Vec<String>,
  text: String,
}

#[derive(Clone, Debug, Default)]
pub struct GenPkg {
  pub name: String,
  pub version: String,
  pub base: String,
  /// export key -> module file ("./mod.ts")
  pub exports: Vec<(String, String)>,
  pub modules: Vec<String>,
  pub failing: bool,
}

#[derive(Clone, Debug, Default)]
pub struct GenInfo {
  pub pkgs: Vec<GenPkg>,
  pub kinds: BTreeMap<String, u64>,
}

pub struct GenCfg {
  pub max_pkgs: usize,
  /// percentage of packages that get a fast-check error
  pub fail_pct: usize,
  /// allow `export * from "jsr:@other/pkg"` (tracing of one package then reaches into another)
  pub cross_pkg_star: bool,
  /// packages are local workspace members (file: URLs, fast check collects ALL diagnostics)
  pub workspace: bool,
}

const PRIMS: &[&str] = &["string", "number", "boolean", "bigint", "unknown", "void", "null", "undefined"];

struct ModGen {
  url: String,
  file: String,
  decls: Vec<Decl>,
  /// names usable in type position through imports: (text to write, is qualified namespace import)
  imp_types: Vec<String>,
  imp_values: Vec<String>,
  header: String,
  footer: String,
  has_default: bool,
}

fn count(info: &mut GenInfo, k: &str) {
  *info.kinds.entry(k.to_string()).or_insert(0) += 1;
}

/// Generates a world of 1..max_pkgs JSR packages plus a root module importing them.
pub fn gen_world(rng: &mut Rng, cfg: &GenCfg) -> (FcWorld, GenInfo) {
  let mut world = FcWorld { root: "file:///mod.ts".to_string(), ..Default::default() };
  let mut info = GenInfo::default();
  let n_pkgs = rng.range(1, cfg.max_pkgs.max(1));
  // package skeletons first, so that later packages can be imported by earlier ones and vice versa
  for p in 0..n_pkgs {
    let name = format!("@s/p{}", p);
    let version = "1.0.0".to_string();
    let base = if cfg.workspace { format!("file:///ws/p{}/", p) } else { format!("https://jsr.io/{}/{}/", name, version) };
    let n_mods = rng.range(1, 4);
    let mut modules = vec!["mod.ts".to_string()];
    for k in 1..n_mods {
      let ext = match rng.below(10) {
        0 => "d.ts",
        1 => "tsx",
        _ => "ts",
      };
      modules.push(format!("m{}.{}", k, ext));
    }
    let mut exports = vec![(".".to_string(), "./mod.ts".to_string())];
    if modules.len() > 2 && rng.chance(35) {
      exports.push(("./sub".to_string(), format!("./{}", modules[modules.len() - 1])));
    }
    info.pkgs.push(GenPkg { name, version, base, exports, modules, failing: rng.chance(cfg.fail_pct) });
  }
  // declarations per module (names and kinds first, bodies later)
  let mut mods: Vec<Vec<ModGen>> = vec![];
  for (p, pkg) in info.pkgs.iter().enumerate() {
    let mut ms = vec![];
    for (k, file) in pkg.modules.iter().enumerate() {
      let n_decl = rng.range(3, 9);
      let mut decls = vec![];
      let ambient = file.ends_with(".d.ts");
      for j in 0..n_decl {
        let name = format!("D{}_{}_{}", p, k, j);
        let kind = rng.below(8) as u8;
        let (is_type, is_value) = match kind {
          0 | 1 => (true, false), // interface, type alias
          2 | 5 => (true, true),  // class, enum
          3 | 4 => (false, true), // function, const
          6 => (false, false),    // namespace (members used qualified)
          _ => (true, true),      // type + const collision
        };
        decls.push(Decl { name, is_type, is_value, kind, exported: rng.chance(if k == 0 { 60 } else { 45 }), ns_types: vec![], text: String::new() });
      }
      let _ = ambient;
      ms.push(ModGen {
        url: format!("{}{}", pkg.base, file),
        file: file.clone(),
        decls,
        imp_types: vec![],
        imp_values: vec![],
        header: String::new(),
        footer: String::new(),
        has_default: false,
      });
    }
    mods.push(ms);
  }
  // namespace members
  for ms in mods.iter_mut() {
    for m in ms.iter_mut() {
      for d in m.decls.iter_mut() {
        if d.kind == 6 {
          let n = rng.range(1, 3);
          for i in 0..n {
            d.ns_types.push(format!("T{}", i));
          }
        }
      }
    }
  }
  // imports / re-exports between modules of a package and across packages
  let snapshot: Vec<Vec<(String, String, Vec<(String, bool, bool, Vec<String>)>)>> = mods
    .iter()
    .map(|ms| {
      ms.iter()
        .map(|m| {
          (
            m.url.clone(),
            m.file.clone(),
            m.decls.iter().filter(|d| d.exported).map(|d| (d.name.clone(), d.is_type, d.is_value, d.ns_types.clone())).collect(),
          )
        })
        .collect()
    })
    .collect();
  let mut js_extra: Vec<(String, String)> = vec![];
  for p in 0..mods.len() {
    let n_mods = mods[p].len();
    for k in 0..n_mods {
      let mut header = String::new();
      let mut footer = String::new();
      let n_imp = rng.below(4);
      for i in 0..n_imp {
        // target: same package (70%) or another package's entrypoint
        let same = n_mods > 1 && (mods.len() == 1 || rng.chance(70));
        let (src_text, target) = if same {
          let mut t = rng.below(n_mods);
          if t == k {
            t = (t + 1) % n_mods;
          }
          (format!("./{}", snapshot[p][t].1), &snapshot[p][t])
        } else if mods.len() > 1 {
          let mut q = rng.below(mods.len());
          if q == p {
            q = (q + 1) % mods.len();
          }
          (format!("jsr:{}@1", info.pkgs[q].name), &snapshot[q][0])
        } else {
          continue;
        };
        let exported = &target.2;
        match rng.below(10) {
          0..=3 if !exported.is_empty() => {
            // named import (sometimes type-only, sometimes aliased)
            let (name, is_type, is_value, nst) = rng.pick(exported).clone();
            let local = format!("I{}_{}", k, i);
            let type_only = rng.chance(30);
            header.push_str(&format!("import {}{{ {} as {} }} from \"{}\";\n", if type_only { "type " } else { "" }, name, local, src_text));
            if is_type {
              mods[p][k].imp_types.push(local.clone());
            }
            if is_value && !type_only {
              mods[p][k].imp_values.push(local.clone());
            }
            for t in nst {
              mods[p][k].imp_types.push(format!("{}.{}", local, t));
            }
            count(&mut info, "import_named");
          }
          4..=5 => {
            // namespace import: qualified references
            let local = format!("NS{}_{}", k, i);
            header.push_str(&format!("import * as {} from \"{}\";\n", local, src_text));
            for (name, is_type, is_value, nst) in exported {
              if *is_type {
                mods[p][k].imp_types.push(format!("{}.{}", local, name));
              }
              if *is_value {
                mods[p][k].imp_values.push(format!("{}.{}", local, name));
              }
              for t in nst {
                mods[p][k].imp_types.push(format!("{}.{}.{}", local, name, t));
              }
            }
            count(&mut info, "import_namespace");
          }
          6 if !exported.is_empty() => {
            // import type in type position
            let (name, is_type, _, nst) = rng.pick(exported).clone();
            if is_type {
              mods[p][k].imp_types.push(format!("import(\"{}\").{}", src_text, name));
              count(&mut info, "import_type");
            }
            for t in nst {
              mods[p][k].imp_types.push(format!("import(\"{}\").{}.{}", src_text, name, t));
              count(&mut info, "import_type_qualified");
            }
          }
          7 if !exported.is_empty() => {
            let (name, ..) = rng.pick(exported).clone();
            if rng.chance(50) {
              footer.push_str(&format!("export {{ {} }} from \"{}\";\n", name, src_text));
            } else {
              footer.push_str(&format!("export {{ {} as R{}_{} }} from \"{}\";\n", name, k, i, src_text));
            }
            count(&mut info, "reexport_named");
          }
          8 if same || cfg.cross_pkg_star => {
            footer.push_str(&format!("export * from \"{}\";\n", src_text));
            count(&mut info, if same { "reexport_star" } else { "reexport_star_cross_package" });
          }
          _ => {
            footer.push_str(&format!("export * as X{}_{} from \"{}\";\n", k, i, src_text));
            count(&mut info, "reexport_namespace");
          }
        }
      }
      mods[p][k].header = header;
      mods[p][k].footer = footer;
    }
    // a JavaScript module with a declaration file (@ts-self-types): importers name the .js file,
    // the emitted text must name the types module
    if rng.chance(25) {
      let k = rng.below(n_mods);
      if !mods[p][k].file.ends_with(".d.ts") {
        let base = info.pkgs[p].base.clone();
        js_extra.push((format!("{}js{}.js", base, p), format!("/* @ts-self-types=\"./js{}.d.ts\" */\nexport class J{} {{ constructor() {{ this.v = 1; }} }}\n", p, p)));
        js_extra.push((format!("{}js{}.d.ts", base, p), format!("export declare class J{} {{ v: number; }}\nexport type JT{} = string | J{};\ndeclare class NotUsed{} {{}}\n", p, p, p, p)));
        let h = format!("import {{ J{} }} from \"./js{}.js\";\nimport type {{ JT{} }} from \"./js{}.js\";\n", p, p, p, p);
        mods[p][k].header.push_str(&h);
        mods[p][k].imp_types.push(format!("J{}", p));
        mods[p][k].imp_types.push(format!("JT{}", p));
        mods[p][k].imp_values.push(format!("J{}", p));
        count(&mut info, "js_with_declaration_file");
      }
    }
    // a name that reaches its importer through TWO `export *` hops (sa -> sb -> sc), requested by name,
    // while the module in the middle is public in its own right through another named import
    if rng.chance(25) {
      let base = info.pkgs[p].base.clone();
      js_extra.push((format!("{}sc{}.ts", base, p), format!("export interface Leaf{} {{ x: number }}\nexport interface Other{} {{ y: string }}\n", p, p)));
      js_extra.push((format!("{}sb{}.ts", base, p), format!("export * from \"./sc{}.ts\";\nexport interface Mid{} {{ z: number }}\n", p, p)));
      js_extra.push((format!("{}sa{}.ts", base, p), format!("export * from \"./sb{}.ts\";\nexport interface Top{} {{ w: boolean }}\n", p, p)));
      let type_only = if rng.chance(50) { "type " } else { "" };
      mods[p][0].header.push_str(&format!("import {}{{ Leaf{} }} from \"./sa{}.ts\";\nimport {}{{ Mid{} }} from \"./sb{}.ts\";\n", type_only, p, p, type_only, p, p));
      mods[p][0].footer.push_str(&format!("export function useLeaf{}(a: Leaf{}, b: Mid{}): void {{}}\n", p, p, p));
      count(&mut info, "named_import_through_two_star_hops");
    }
    // a default export requested by a default import, while the same module is also reached through
    // `export *` of a module that is only used through a namespace import (typeof ns) declared LATER
    if rng.chance(20) {
      let base = info.pkgs[p].base.clone();
      js_extra.push((format!("{}shape{}.ts", base, p), format!("export default class Shape{} {{ a: number = 1; }}\nexport const unit{}: number = 1;\n", p, p)));
      js_extra.push((format!("{}xs{}.ts", base, p), format!("export * from \"./shape{}.ts\";\nexport const extra{}: string = \"\";\n", p, p)));
      mods[p][0].header.push_str(&format!("import Shape{} from \"./shape{}.ts\";\nimport * as xs{} from \"./xs{}.ts\";\n", p, p, p, p));
      mods[p][0].footer.push_str(&format!("export function mkShape{}(s: Shape{}): void {{}}\nexport const nsx{}: typeof xs{} = xs{};\n", p, p, p, p, p));
      count(&mut info, "default_import_and_star_via_namespace");
    }
    // a class reached ONLY through a qualified reference that goes below a static member
    // (typeof C.member.field): its heritage clause and member types mention declarations nothing else uses
    if rng.chance(20) {
      mods[p][0].footer.push_str(&format!(
        "class QBase{p} {{ b: number = 1; }}\ninterface QOpt{p} {{ verbose: boolean; }}\nclass QReg{p} extends QBase{p} {{ static defaults: QOpt{p} = {{ verbose: true }}; }}\nexport type QVerbose{p} = typeof QReg{p}.defaults.verbose;\n",
        p = p
      ));
      count(&mut info, "class_reached_only_through_qualified_reference");
    }
    // modules in sub-directories: a parent-relative specifier (../lib/x.js) whose types live in another
    // file (reference types), so the emitted specifier is rewritten to the types module
    if rng.chance(20) {
      let base = info.pkgs[p].base.clone();
      js_extra.push((format!("{}lib/r{}.js", base, p), format!("/// <reference types=\"./r{}.d.ts\" />\nexport function rnd{}() {{ return 4; }}\n", p, p)));
      js_extra.push((format!("{}lib/r{}.d.ts", base, p), format!("export declare function rnd{}(): number;\n", p)));
      js_extra.push((format!("{}sub/u{}.ts", base, p), format!("export * from \"../lib/r{}.js\";\nexport interface U{} {{ u: string }}\n", p, p)));
      mods[p][0].footer.push_str(&format!("export * from \"./sub/u{}.ts\";\n", p));
      count(&mut info, "parent_relative_specifier_with_types_module");
    }
  }
  // bodies
  for p in 0..mods.len() {
    for k in 0..mods[p].len() {
      let ambient = mods[p][k].file.ends_with(".d.ts");
      let type_names: Vec<String> = {
        let m = &mods[p][k];
        let mut v: Vec<String> = m.decls.iter().filter(|d| d.is_type).map(|d| d.name.clone()).collect();
        for d in &m.decls {
          for t in &d.ns_types {
            v.push(format!("{}.{}", d.name, t));
          }
        }
        v.extend(m.imp_types.iter().cloned());
        v
      };
      let value_names: Vec<String> = {
        let m = &mods[p][k];
        let mut v: Vec<String> = m.decls.iter().filter(|d| d.is_value && d.kind != 7).map(|d| d.name.clone()).collect();
        v.extend(m.imp_values.iter().cloned());
        v
      };
      let class_names: Vec<String> = mods[p][k].decls.iter().filter(|d| d.kind == 2).map(|d| d.name.clone()).collect();
      // (class name, name of its public property) for `typeof C.prototype.pubN`
      let class_members: Vec<(String, String)> =
        mods[p][k].decls.iter().enumerate().filter(|(_, d)| d.kind == 2).map(|(j, d)| (d.name.clone(), format!("pub{}", j))).collect();
      let iface_names: Vec<String> = mods[p][k].decls.iter().filter(|d| d.kind == 0).map(|d| d.name.clone()).collect();
      let enum_names: Vec<String> = mods[p][k].decls.iter().filter(|d| d.kind == 5).map(|d| d.name.clone()).collect();
      let mut type_names = type_names;
      for e in &enum_names {
        type_names.push(format!("{}.A", e));
      }
      for (c, m) in &class_members {
        type_names.push(format!("typeof {}.prototype.{}", c, m));
      }
      let n = mods[p][k].decls.len();
      for j in 0..n {
        let d = mods[p][k].decls[j].clone();
        let ex = if d.exported { "export " } else { "" };
        let dc = if ambient { "declare " } else { "" };
        let mut ty = |rng: &mut Rng| gen_type(rng, &type_names, &value_names, 2);
        let generic = |rng: &mut Rng, bound: String| if rng.chance(25) { (format!("<T extends {} = {}>", bound, bound), "T".to_string()) } else { (String::new(), bound) };
        let text = match d.kind {
          0 => {
            count(&mut info, "interface");
            let others: Vec<&String> = iface_names.iter().chain(class_names.iter()).filter(|c| **c != d.name).collect();
            let ext = if rng.chance(30) && !others.is_empty() {
              count(&mut info, "interface_extends");
              format!(" extends {}", rng.pick(&others))
            } else {
              String::new()
            };
            let b = ty(rng);
            let (gp, gt) = generic(rng, b);
            format!(
              "{}interface {}{}{} {{\n  a: {};\n  b?: {};\n  readonly c: {};\n  m(x: {}): {};\n  [key: string]: unknown;\n}}\n",
              ex, d.name, gp, ext, ty(rng), ty(rng), gt, ty(rng), ty(rng)
            )
          }
          1 => {
            count(&mut info, "type_alias");
            let b = ty(rng);
            let (gp, gt) = generic(rng, b);
            let body = match rng.below(7) {
              0 => format!("[{}, {}?]", ty(rng), ty(rng)),
              1 => format!("{} extends {} ? {} : {}", gt, ty(rng), ty(rng), ty(rng)),
              2 => format!("{{ [K in keyof {}]?: {} }}", ty(rng), ty(rng)),
              3 => format!("Partial<{}> & {{ tag: `x-${{string}}` }}", ty(rng)),
              4 if !iface_names.is_empty() => format!("{}[\"a\"] | keyof {}", rng.pick(&iface_names), rng.pick(&iface_names)),
              _ => format!("{} | {}", gt, ty(rng)),
            };
            format!("{}type {}{} = {};\n", ex, d.name, gp, body)
          }
          2 => {
            count(&mut info, "class");
            let ext = if rng.chance(25) {
              let others: Vec<&String> = class_names.iter().filter(|c| **c != d.name).collect();
              if others.is_empty() { String::new() } else { format!(" extends {}", rng.pick(&others)) }
            } else {
              String::new()
            };
            let imp = if rng.chance(25) && !iface_names.is_empty() && !ambient {
              // (an index signature keeps `implements` type-correct enough; fast check does not type check)
              count(&mut info, "class_implements");
              format!(" implements {}", rng.pick(&iface_names))
            } else {
              String::new()
            };
            // (a class that extends gets no constructor: the base class has one with a parameter)
            let ctor = if ext.is_empty() {
              if ambient {
                format!("  constructor(p: {});\n", ty(rng))
              } else if rng.chance(30) {
                count(&mut info, "ctor_param_props");
                format!("  constructor(public pp: {}, private qq: {}, readonly rr: {} = null as any) {{}}\n", ty(rng), ty(rng), ty(rng))
              } else {
                format!("  constructor(p: {}) {{ void p; }}\n", ty(rng))
              }
            } else {
              String::new()
            };
            let body = |s: &str| if ambient { ";".to_string() } else { format!(" {{ {} }}", s) };
            let init = |s: &str| if ambient { String::new() } else { format!(" = {}", s) };
            let overloads = if rng.chance(20) {
              count(&mut info, "method_overloads");
              if ambient {
                format!("  ov(a: {}): {};\n  ov(a: {}, b: {}): {};\n", ty(rng), ty(rng), ty(rng), ty(rng), ty(rng))
              } else {
                format!("  ov(a: {}): {};\n  ov(a: {}, b: {}): {};\n  ov(a: any, b?: any): any {{ return [a, b]; }}\n", ty(rng), ty(rng), ty(rng), ty(rng), ty(rng))
              }
            } else {
              String::new()
            };
            format!(
              "{}{}class {}{}{} {{\n  pub{}: {}{};\n  static st: {}{};\n  protected prot?: {};\n  private priv: {}{};\n{}{}  meth(x: {}, y?: {}): {}{}\n  static smeth(x: {}): {}{}\n  get acc(): {}{}\n  set acc(v: {}){}\n  private hidden(y: {}): {}{}\n}}\n",
              ex,
              dc,
              d.name,
              ext,
              imp,
              j,
              ty(rng),
              init("null as any"),
              ty(rng),
              init("null as any"),
              ty(rng),
              ty(rng),
              init("null as any"),
              ctor,
              overloads,
              ty(rng),
              ty(rng),
              ty(rng),
              body("return null as any;"),
              ty(rng),
              ty(rng),
              body("return null as any;"),
              ty(rng),
              body("return null as any;"),
              ty(rng),
              body(""),
              ty(rng),
              ty(rng),
              body("return null as any;"),
            )
          }
          3 => {
            count(&mut info, "function");
            if ambient {
              format!("{}{}function {}(a: {}, b?: {}): {};\n", ex, dc, d.name, ty(rng), ty(rng), ty(rng))
            } else if rng.chance(25) {
              count(&mut info, "overloads");
              format!(
                "{}function {}(a: {}): {};\n{}function {}(a: {}, b: {}): {};\n{}function {}(a: any, b?: any): any {{ return helper_{}(a, b); }}\nfunction helper_{}(a: any, b: any): any {{ return [a, b]; }}\n",
                ex, d.name, ty(rng), ty(rng), ex, d.name, ty(rng), ty(rng), ty(rng), ex, d.name, d.name, d.name
              )
            } else {
              let uses = if value_names.is_empty() { "null".to_string() } else { rng.pick(&value_names).clone() };
              let b = ty(rng);
              let (gp, gt) = generic(rng, b);
              let expando = if rng.chance(15) {
                count(&mut info, "expando_property");
                format!("{}.extra = \"s\";\n", d.name)
              } else {
                String::new()
              };
              format!(
                "{}function {}{}(a: {}, b: {} = {}, ...rest: {}[]): {} {{ void {}; return null as any; }}\n{}",
                ex, d.name, gp, gt, "number", "1", ty(rng), ty(rng), uses, expando
              )
            }
          }
          4 => {
            count(&mut info, "const");
            if ambient {
              format!("{}{}const {}: {};\n", ex, dc, d.name, ty(rng))
            } else {
              match rng.below(6) {
                0 => format!("{}const {} = {};\n", ex, d.name, rng.pick(&["1", "\"s\"", "true", "1n", "`t`", "-1"])),
                1 => {
                  count(&mut info, "const_arrow");
                  format!("{}const {} = (a: {}, b?: {}): {} => {{ return null as any; }};\n", ex, d.name, ty(rng), ty(rng), ty(rng))
                }
                2 => {
                  count(&mut info, "const_object");
                  format!("{}const {} = {{ a: 1, b: \"x\", c: [1, 2] }} as const;\n", ex, d.name)
                }
                3 => {
                  count(&mut info, "const_function_expr");
                  format!("{}const {} = function (a: {}): {} {{ return null as any; }};\n", ex, d.name, ty(rng), ty(rng))
                }
                _ => {
                  let uses = if value_names.is_empty() || rng.chance(50) { "null as any".to_string() } else { format!("{} as any", rng.pick(&value_names)) };
                  format!("{}const {}: {} = {};\n", ex, d.name, ty(rng), uses)
                }
              }
            }
          }
          5 => {
            count(&mut info, "enum");
            format!("{}{}{}enum {} {{ A, B = 2, C }}\n", ex, dc, if rng.chance(20) { "const " } else { "" }, d.name)
          }
          6 => {
            count(&mut info, "namespace");
            let mut s = format!("{}{}namespace {} {{\n", ex, dc, d.name);
            for t in &d.ns_types {
              s.push_str(&format!("  export type {} = {};\n", t, ty(rng)));
            }
            s.push_str(&format!("  type Hidden = {};\n", ty(rng)));
            if rng.chance(40) {
              s.push_str(&format!("  export namespace Inner {{ export interface Deep {{ v: {}; }} }}\n", ty(rng)));
            }
            if rng.chance(30) {
              s.push_str(&format!("  export {}function nsfn(a: {}): {}{}\n", "", ty(rng), ty(rng), if ambient { ";" } else { " { return null as any; }" }));
            }
            s.push_str("}\n");
            s
          }
          _ => {
            count(&mut info, "type_value_collision");
            // a type and a value of the same name; `exported` exports one of them
            if rng.chance(50) || ambient {
              format!("{}type {} = {};\n{}const {}: {}{};\n", ex, d.name, ty(rng), dc, d.name, ty(rng), if ambient { "" } else { " = null as any" })
            } else {
              format!("type {} = {};\n{}const {}: {} = null as any;\n", d.name, ty(rng), ex, d.name, ty(rng))
            }
          }
        };
        mods[p][k].decls[j].text = text;
      }
      // local export list / default export
      let mut footer = String::new();
      {
        let m = &mods[p][k];
        let private: Vec<&Decl> = m.decls.iter().filter(|d| !d.exported && d.kind != 7).collect();
        if !private.is_empty() && rng.chance(30) {
          let d = rng.pick(&private);
          footer.push_str(&format!("export {{ {} as L{}_{} }};\n", d.name, p, k));
          count(&mut info, "export_list");
        }
        if !private.is_empty() && rng.chance(25) {
          let cands: Vec<&&Decl> = private.iter().filter(|d| d.kind == 2 || d.kind == 3 || d.kind == 4 || d.kind == 5).collect();
          if !cands.is_empty() {
            let d = rng.pick(&cands);
            footer.push_str(&format!("export default {};\n", d.name));
            count(&mut info, "export_default");
          }
        } else if rng.chance(12) && !mods[p][k].file.ends_with(".d.ts") {
          let t = gen_type(rng, &type_names, &value_names, 2);
          if rng.chance(50) {
            footer.push_str(&format!("export default class {{\n  v: {} = null as any;\n}}\n", t));
          } else {
            footer.push_str(&format!("export default function (a: {}): void {{}}\n", t));
          }
          count(&mut info, "export_default_declaration");
        }
      }
      if footer.contains("export default") {
        mods[p][k].has_default = true;
      }
      mods[p][k].footer.push_str(&footer);
    }
  }
  // failures
  for p in 0..mods.len() {
    if info.pkgs[p].failing {
      let k = rng.below(mods[p].len());
      let what = rng.below(3);
      let bad = match what {
        0 => "export function bad() { return Math.random(); }\n".to_string(),
        1 => "export const bad = Math.random();\n".to_string(),
        _ => "class Hid { private p: string = \"\"; }\nexport type Bad = typeof Hid.prototype.p;\n".to_string(),
      };
      if mods[p][k].file.ends_with(".d.ts") {
        info.pkgs[p].failing = false;
      } else {
        mods[p][k].footer.push_str(&bad);
        count(&mut info, "failing_package");
      }
    }
  }
  // emit files
  let mut root = String::new();
  for (p, pkg) in info.pkgs.iter().enumerate() {
    if cfg.workspace {
      world.workspace_fast_check = true;
      world.workspace_members.push(WorkspaceMember {
        base: ModuleSpecifier::parse(&pkg.base).unwrap(),
        name: pkg.name.as_str().into(),
        version: Some(deno_semver::Version::parse_standard(&pkg.version).unwrap()),
        exports: pkg.exports.iter().cloned().collect(),
      });
    } else {
      world.add(&format!("https://jsr.io/{}/meta.json", pkg.name), &format!("{{\"versions\": {{ \"{}\": {{}} }} }}", pkg.version));
      let exports: Vec<String> = pkg.exports.iter().map(|(k, v)| format!("\"{}\": \"{}\"", k, v)).collect();
      world.add(&format!("https://jsr.io/{}/{}_meta.json", pkg.name, pkg.version), &format!("{{ \"exports\": {{ {} }} }}", exports.join(", ")));
    }
    for m in &mods[p] {
      let mut text = m.header.clone();
      for d in &m.decls {
        text.push_str(&d.text);
      }
      text.push_str(&m.footer);
      world.add(&m.url, &text);
    }
    root.push_str(&format!("import \"jsr:{}@1\";\n", pkg.name));
    for (k, _) in pkg.exports.iter().skip(1) {
      root.push_str(&format!("import \"jsr:{}@1/{}\";\n", pkg.name, &k[2..]));
    }
  }
  for (u, t) in &js_extra {
    world.add(u, t);
  }
  world.add("file:///mod.ts", &root);
  (world, info)
}

fn gen_type(rng: &mut Rng, types: &[String], values: &[String], depth: usize) -> String {
  let r = rng.below(100);
  if depth == 0 || r < 25 {
    return rng.pick(PRIMS).to_string();
  }
  match r {
    25..=64 if !types.is_empty() => rng.pick(types).clone(),
    65..=72 if !values.is_empty() => {
      let v = rng.pick(values);
      format!("typeof {}", v)
    }
    73..=79 => format!("{}[]", gen_atom(rng, types)),
    80..=86 => format!("{{ x: {}; y?: {} }}", gen_type(rng, types, values, depth - 1), gen_type(rng, types, values, depth - 1)),
    87..=92 => format!("({} | {})", gen_type(rng, types, values, depth - 1), gen_type(rng, types, values, depth - 1)),
    93..=96 => format!("((a: {}) => {})", gen_type(rng, types, values, depth - 1), gen_type(rng, types, values, depth - 1)),
    _ => format!("Array<{}>", gen_type(rng, types, values, depth - 1)),
  }
}

fn gen_atom(rng: &mut Rng, types: &[String]) -> String {
  if types.is_empty() || rng.chance(40) {
    rng.pick(PRIMS).to_string()
  } else {
    let t = rng.pick(types).clone();
    if t.starts_with("import(") { format!("({})", t) } else { t }
  }
}

/// debugging aid: `dgverif fcdump <spec file>` / `dgverif fcdump gen <seed> <k>`
pub fn dump(args: &[String]) {
  let world = if args[0] == "gen" {
    let mut rng = Rng::for_case(args[1].parse().unwrap(), args[2].parse().unwrap());
    let workspace = rng.chance(10);
    let (w, _) = gen_world(&mut rng, &GenCfg { max_pkgs: 3, fail_pct: 12, cross_pkg_star: true, workspace });
    for (k, v) in &w.files {
      println!("# {}\n{}", k, v.0);
    }
    w
  } else {
    parse_spec(&std::fs::read_to_string(&args[0]).unwrap()).unwrap()
  };
  dump_world(&world);
}

pub fn dump_world(world: &FcWorld) {
  let run = run_fast_check(world, None);
  for e in run.graph.module_errors() {
    println!("module error: {}", e);
  }
  for (k, s) in slots(&run.graph) {
    match s {
      Slot::Module { text, source_map, deps } => println!("== {}\n{}\n-- deps {:?}\n-- map {}", k, text, deps, source_map),
      Slot::Error(d) => {
        println!("== {} ERR {:?}", k, d);
        if let Some(Module::Js(js)) = run.graph.get(&ModuleSpecifier::parse(&k).unwrap()) {
          for d in js.fast_check_diagnostics().unwrap() {
            println!("   {} {:?}", d.message(), d.range().map(|r| r.range.as_byte_range(r.text_info.range().start)));
          }
        }
      }
      Slot::None => println!("== {} none", k),
    }
  }
  for f in closure_facts(&run.graph) {
    println!("{:#?}", f);
  }
}

/// throw-away probes of cache behaviour (development aid)
pub fn probe() {
  fn show(tag: &str, run: &FcRun) {
    println!("--- {}", tag);
    for (k, s) in slots(&run.graph) {
      match s {
        Slot::Module { .. } => println!("  {} MODULE", k),
        Slot::Error(d) => println!("  {} ERR {:?}", k, d),
        Slot::None => println!("  {} none", k),
      }
    }
  }
  fn pkg(w: &mut FcWorld, exports: &str, files: &[(&str, &str)]) {
    w.add("https://jsr.io/@s/a/meta.json", "{\"versions\": { \"1.0.0\": {} } }");
    w.add("https://jsr.io/@s/a/1.0.0_meta.json", &format!("{{ \"exports\": {} }}", exports));
    for (f, t) in files {
      w.add(&format!("https://jsr.io/@s/a/1.0.0/{}", f), t);
    }
  }
  // probe 1: failing package with two entrypoints, warm cache
  let mut w = FcWorld { root: "file:///mod.ts".into(), ..Default::default() };
  w.add("file:///mod.ts", "import \"jsr:@s/a@1\"; import \"jsr:@s/a@1/b\";");
  pkg(&mut w, "{ \".\": \"./mod.ts\", \"./b\": \"./b.ts\" }", &[("mod.ts", "export function bad() { return Math.random(); }"), ("b.ts", "export const x: number = 1;")]);
  let cache = MemCache::default();
  show("probe1 no cache", &run_fast_check(&w, None));
  show("probe1 cold cache", &run_fast_check(&w, Some(&cache)));
  show("probe1 warm cache", &run_fast_check(&w, Some(&cache)));
  println!("{:?}", cache.log.borrow());
  // probe 2: diagnostic caused by a re-trace from a later module
  let mut w = FcWorld { root: "file:///mod.ts".into(), ..Default::default() };
  w.add("file:///mod.ts", "import \"jsr:@s/a@1\";");
  let m3 = "import type { X } from \"./m4.ts\";\nexport type A = X;\nclass K { private p: string = \"\"; }\nexport type B = typeof K.prototype.p;\n";
  pkg(&mut w, "{ \".\": \"./mod.ts\" }", &[("mod.ts", "export type { A } from \"./m3.ts\";"), ("m3.ts", m3), ("m4.ts", "import type { B } from \"./m3.ts\";\nexport type X = B;\n")]);
  let cache = MemCache::default();
  show("probe2 v1 cold cache", &run_fast_check(&w, Some(&cache)));
  for (k, v) in cache.inner.borrow().iter() {
    println!("cache {:?}: {:?}", k, v.modules.iter().map(|(s, _)| s.as_str()).collect::<Vec<_>>());
  }
  w.add("https://jsr.io/@s/a/1.0.0/m4.ts", "export type X = string;\n");
  show("probe2 v2 no cache", &run_fast_check(&w, None));
  show("probe2 v2 stale cache", &run_fast_check(&w, Some(&cache)));
  println!("{:?}", cache.log.borrow());
}

pub fn dump_gen12(seed: u64, k: u64) {
  let mut rng = Rng::for_case(seed, k);
  let _ = rng.chance(12);
  let workspace = rng.chance(25);
  let (w, _) = gen_world(&mut rng, &GenCfg { max_pkgs: 4, fail_pct: if workspace { 60 } else { 35 }, cross_pkg_star: false, workspace });
  for (k, v) in &w.files {
    println!("# {}\n{}", k, v.0);
  }
  dump_world(&w);
}
