//! Running the real builder on a world.
use crate::world::*;
use deno_graph::source::*;
use deno_graph::*;

#[derive(Clone, Debug, Default)]
pub struct BuildCfg {
  pub kind: u8, // 0 all 1 code 2 types
  pub is_dynamic: bool,
  pub skip_dynamic_deps: bool,
  pub imports: Vec<(String, Vec<String>)>,
  pub lock_redirects: Vec<(String, String)>,
}

pub fn graph_kind(k: u8) -> GraphKind {
  match k {
    0 => GraphKind::All,
    1 => GraphKind::CodeOnly,
    _ => GraphKind::TypesOnly,
  }
}

pub fn build_into(graph: &mut ModuleGraph, world: &World, roots: &[String], cfg: &BuildCfg) {
  let loader = WorldLoader::new(world);
  build_with_loader(graph, &loader, roots, cfg);
}

pub fn build_with_loader(graph: &mut ModuleGraph, loader: &dyn Loader, roots: &[String], cfg: &BuildCfg) {
  let roots: Vec<ModuleSpecifier> = roots.iter().map(|r| ModuleSpecifier::parse(r).unwrap()).collect();
  let imports: Vec<ReferrerImports> = cfg
    .imports
    .iter()
    .map(|(r, i)| ReferrerImports { referrer: ModuleSpecifier::parse(r).unwrap(), imports: i.clone() })
    .collect();
  let exec = InlineExecutor;
  let options = BuildOptions {
    is_dynamic: cfg.is_dynamic,
    skip_dynamic_deps: cfg.skip_dynamic_deps,
    executor: &exec,
    ..Default::default()
  };
  futures::executor::block_on(graph.build(roots, imports, loader, options));
}

pub fn new_graph(world: &World, roots: &[String], cfg: &BuildCfg) -> ModuleGraph {
  let mut graph = ModuleGraph::new(graph_kind(cfg.kind));
  if !cfg.lock_redirects.is_empty() {
    let no_pkgs: Vec<(&deno_semver::jsr::JsrDepPackageReq, &str)> = vec![];
    graph.fill_from_lockfile(FillFromLockfileOptions {
      redirects: cfg.lock_redirects.iter().map(|(a, b)| (a.as_str(), b.as_str())),
      package_specifiers: no_pkgs.into_iter(),
    });
  }
  build_into(&mut graph, world, roots, cfg);
  graph
}
