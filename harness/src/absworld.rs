//! Abstraction of a concrete world into the builder model's vocabulary:
//! loader answers as data, each module's declaration obtained from the REAL
//! `deno_graph::parse_module` for the graph kind in use, and abstraction of a
//! real graph with structured errors.
use crate::abs::*;
use crate::build::*;
use crate::sexp::Sx;
use crate::world::*;
use deno_graph::source::*;
use deno_graph::*;
use std::collections::BTreeSet;
use std::collections::HashMap;
use std::sync::Arc;

pub struct ParsedMod {
  pub raw_hash: String,
  pub media: MediaType,
  pub result: Result<Module, ModuleError>,
}

pub fn parse_world_module(world: &World, spec: &str, kind: u8) -> Option<ParsedMod> {
  parse_world_module_at(world, spec, kind, false)
}

pub fn parse_world_module_at(world: &World, spec: &str, kind: u8, reload: bool) -> Option<ParsedMod> {
  match world.entry(spec, reload)? {
    Entry::Module { headers, .. } => {
      // the module is parsed under the final specifier the loader reports
      let url = ModuleSpecifier::parse(world.final_specifiers.get(spec).map(|s| s.as_str()).unwrap_or(spec)).unwrap();
      let hm: Option<HashMap<String, String>> = headers.as_ref().map(|h| h.iter().cloned().collect());
      let (media, _) = resolve_media_type_and_charset_from_headers(&url, hm.as_ref());
      let content: Arc<[u8]> = Arc::from(world.content_of(spec, reload).unwrap());
      let analyzer = deno_graph::ast::DefaultModuleAnalyzer;
      let result = futures::executor::block_on(parse_module(ParseModuleOptions {
        graph_kind: graph_kind(kind),
        specifier: url,
        maybe_headers: hm,
        mtime: None,
        content,
        file_system: &NullFileSystem,
        jsr_url_provider: Default::default(),
        maybe_resolver: world.resolver.as_ref().map(|r| r as &dyn deno_graph::source::Resolver),
        module_analyzer: &analyzer,
      }));
      let raw_hash = LoaderChecksum::r#gen(&world.content_of(spec, reload).unwrap());
      Some(ParsedMod { media, result, raw_hash })
    }
    _ => None,
  }
}

pub fn collect_module_strings(m: &Module, out: &mut BTreeSet<String>) {
  out.insert(m.specifier().to_string());
  for d in m.dependencies().values() {
    for r in [&d.maybe_code, &d.maybe_type] {
      if let Resolution::Ok(ok) = r {
        out.insert(ok.specifier.to_string());
      }
    }
  }
  if let Some(js) = m.js() {
    if let Some(td) = &js.maybe_types_dependency {
      if let Resolution::Ok(ok) = &td.dependency {
        out.insert(ok.specifier.to_string());
      }
    }
  }
}

fn dep_is_asset(d: &Dependency) -> bool {
  d.imports.iter().all(|i| i.attributes.has_asset() || i.kind.is_source_phase())
}

/// parse_load_specifier_kind for stage B1 (no npm resolver): 0 = loaded through the loader, 1 = node
/// built-in, 2 = malformed jsr:/npm: specifier, 3 = a valid jsr: specifier when jsr specifiers are passed
/// through (marked external at once). Valid jsr: specifiers without passthrough belong to the registry
/// stage and are not generated in B1 worlds.
/// The class entry of a specifier in the world's wire format: None = loaded through the loader.
pub fn spec_class_sx(spec: &str, world: &World, it: &mut Intern) -> Option<Sx> {
  if spec.starts_with("npm:") && world.npm.is_some() {
    if let Some(r) = ModuleSpecifier::parse(spec).ok().and_then(|u| deno_semver::npm::NpmPackageReqReference::from_specifier(&u).ok()) {
      // 4 = a valid npm: specifier handed to the npm resolver, with its requirement
      return Some(Sx::L(vec![Sx::A(4), Sx::A(it.misc(&format!("npmreq:{}", r.req())))]));
    }
  }
  match spec_class(spec, world.passthrough_jsr) {
    0 => None,
    c => Some(Sx::A(c)),
  }
}

pub fn spec_class(spec: &str, passthrough_jsr: bool) -> u64 {
  let scheme = spec.split(':').next().unwrap_or("");
  match scheme {
    "node" => 1,
    "npm" => match ModuleSpecifier::parse(spec).ok().and_then(|u| deno_semver::npm::NpmPackageReqReference::from_specifier(&u).ok()) {
      Some(_) => 0,
      None => 2,
    },
    "jsr" => {
      let valid = ModuleSpecifier::parse(spec)
        .ok()
        .and_then(|u| deno_semver::jsr::JsrPackageReqReference::from_specifier(&u).ok())
        .map(|r| matches!(r.req().version_req.inner(), deno_semver::RangeSetOrTag::RangeSet(_)))
        .unwrap_or(false);
      if valid && passthrough_jsr { 3 } else { 2 }
    }
    _ => 0,
  }
}

fn abs_entry(spec: &str, e: &Entry, pm: Option<&ParsedMod>, it: &mut Intern, final_spec: Option<&String>) -> Sx {
  let sid = it.spec(spec);
  let fid = final_spec.map(|f| it.spec(f)).unwrap_or(sid);
  match e {
    Entry::Missing => Sx::atoms([0]),
    Entry::Error => Sx::atoms([1]),
    Entry::Redirect(to) => Sx::atoms([2, it.spec(to)]),
    Entry::External => Sx::atoms([3, sid]),
    Entry::Module { .. } => {
      let pm = pm.unwrap();
      let hr = it.misc(&format!("sha:{}", pm.raw_hash));
      let (ok, mk, deps, tdep, ht) = match &pm.result {
        Ok(m) => {
          let mk = match m {
            Module::Wasm(_) => 2,
            Module::Json(_) => 1,
            _ => 0,
          };
          let text_hash = match m {
            Module::Wasm(w) => LoaderChecksum::r#gen(&w.source),
            _ => LoaderChecksum::r#gen(m.source().map(|s| s.as_bytes()).unwrap_or(&[])),
          };
          let ht = it.misc(&format!("sha:{}", text_hash));
          let deps = Sx::L(
            m.dependencies()
              .iter()
              .map(|(text, d)| {
                let one: indexmap::IndexMap<String, Dependency> = [(text.clone(), d.clone())].into_iter().collect();
                let dsx = match abs_deps(&one, it) {
                  Sx::L(mut v) => v.remove(0),
                  x => x,
                };
                // per-dependency flags: is_asset and the source-phase referrer (the specifier range of the
                // first source-phase import), as visit_module_dependencies computes them
                let sp = d.imports.iter().find_map(|i| i.kind.is_source_phase().then(|| i.specifier_range.clone()));
                let sp_sx = Sx::opt(sp.map(|r| Sx::A(it.misc(&range_str(&r)))));
                Sx::L(vec![dsx, Sx::L(vec![Sx::b(dep_is_asset(d)), sp_sx])])
              })
              .collect(),
          );
          let tdep = match m.js().and_then(|js| js.maybe_types_dependency.as_ref()) {
            Some(td) => {
              let tid = it.misc(&format!("text:{}", td.specifier));
              Sx::opt(Some(Sx::L(vec![
                Sx::A(tid),
                Sx::b(td.specifier.to_lowercase().starts_with("file://")),
                abs_res(&td.dependency, it),
              ])))
            }
            None => Sx::opt(None),
          };
          (true, mk, deps, tdep, ht)
        }
        Err(_) => (false, 0, Sx::L(vec![]), Sx::opt(None), 0),
      };
      Sx::L(vec![Sx::A(4), Sx::A(fid), Sx::A(hr), Sx::A(ht), Sx::A(media_id(pm.media)), Sx::b(ok), Sx::A(mk), deps, tdep])
    }
  }
}

/// World in the wire format of RunC01.dec_world.
pub fn abs_world(
  world: &World,
  parsed: &HashMap<String, ParsedMod>,
  max_redirects: usize,
  it: &mut Intern,
) -> Sx {
  abs_world_full(world, parsed, &HashMap::new(), None, max_redirects, it)
}

pub fn abs_world_full(
  world: &World,
  parsed: &HashMap<String, ParsedMod>,
  parsed_reload: &HashMap<String, ParsedMod>,
  lock: Option<&std::collections::BTreeMap<String, String>>,
  max_redirects: usize,
  it: &mut Intern,
) -> Sx {
  let mut resps = vec![];
  for (spec, e) in &world.entries {
    let r = abs_entry(spec, e, parsed.get(spec), it, world.final_specifiers.get(spec));
    resps.push(Sx::L(vec![Sx::A(it.spec(spec)), r]));
  }
  let mut reloads = vec![];
  for (spec, e) in &world.reload_entries {
    let r = abs_entry(spec, e, parsed_reload.get(spec), it, world.final_specifiers.get(spec));
    reloads.push(Sx::L(vec![Sx::A(it.spec(spec)), r]));
  }
  let spec_ids: Vec<(String, u64)> = it.specs.iter().map(|(s, id)| (s.clone(), *id)).collect();
  let mut class_items = vec![];
  for (s, id) in &spec_ids {
    if let Some(c) = spec_class_sx(s, world, it) {
      class_items.push(Sx::L(vec![Sx::A(*id), c]));
    }
  }
  let classes = Sx::L(class_items);
  let npm_sx = match &world.npm {
    None => Sx::opt(None),
    Some(a) => Sx::opt(Some(Sx::L(a.iter().map(|(r, c)| Sx::atoms([it.misc(&format!("npmreq:{}", r)), *c as u64])).collect()))),
  };
  let files = Sx::atoms(it.specs.iter().filter(|(s, _)| s.starts_with("file:")).map(|(_, id)| *id));
  let https = Sx::atoms(it.specs.iter().filter(|(s, _)| s.starts_with("http:") || s.starts_with("https:")).map(|(_, id)| *id));
  let lock_sx = match lock {
    None => Sx::opt(None),
    Some(l) => {
      let items: Vec<Sx> = l.iter().map(|(s, h)| Sx::atoms([it.spec(s), it.misc(&format!("sha:{}", h))])).collect();
      Sx::opt(Some(Sx::L(items)))
    }
  };
  let wasm_ext = Sx::atoms(
    it.specs
      .iter()
      .filter(|(s, _)| ModuleSpecifier::parse(s).map(|u| MediaType::from_specifier(&u) == MediaType::Wasm).unwrap_or(false))
      .map(|(_, id)| *id),
  );
  // WebAssembly modules with an empty generated declaration text, by final specifier
  let mut nodts = vec![];
  for (spec, pm) in parsed.iter().chain(parsed_reload.iter()) {
    if let Ok(Module::Wasm(w)) = &pm.result {
      if w.source_dts.is_empty() {
        let f = world.final_specifiers.get(spec).cloned().unwrap_or_else(|| spec.clone());
        nodts.push(it.spec(&f));
      }
    }
  }
  nodts.sort();
  nodts.dedup();
  Sx::L(vec![Sx::L(resps), Sx::L(reloads), classes, files, https, lock_sx, Sx::A(max_redirects as u64), npm_sx, wasm_ext, Sx::atoms(nodts)])
}

fn abs_ref(r: Option<&Range>, it: &mut Intern) -> Sx {
  Sx::opt(r.map(|r| Sx::A(it.misc(&range_str(r)))))
}

pub fn abs_berr(e: &ModuleError, it: &mut Intern) -> Sx {
  match e.as_kind() {
    ModuleErrorKind::Missing { specifier, maybe_referrer } => {
      Sx::L(vec![Sx::A(0), Sx::A(it.spec(specifier.as_str())), abs_ref(maybe_referrer.as_ref(), it)])
    }
    ModuleErrorKind::Load { specifier, maybe_referrer, err } => {
      let (tag, k) = match err {
        ModuleLoadError::Loader(_) => (1, 0),
        ModuleLoadError::TooManyRedirects => (1, 1),
        ModuleLoadError::HttpsChecksumIntegrity(e) if e.actual.starts_with("Redirect to ") => (1, 2),
        ModuleLoadError::HttpsChecksumIntegrity(_) => (1, 3),
        ModuleLoadError::Jsr(JsrLoadError::PackageFormat(_)) => (7, 0),
        ModuleLoadError::Npm(NpmLoadError::PackageReqReferenceParse(_)) => (7, 0),
        ModuleLoadError::Npm(NpmLoadError::RegistryInfo(_)) => (8, 0),
        ModuleLoadError::Npm(NpmLoadError::PackageReqResolution(_)) => (8, 1),
        _ => (1, 9),
      };
      if tag == 7 {
        Sx::L(vec![Sx::A(7), Sx::A(it.spec(specifier.as_str())), abs_ref(maybe_referrer.as_ref(), it)])
      } else if tag == 8 {
        Sx::L(vec![Sx::A(8), Sx::A(it.spec(specifier.as_str())), abs_ref(maybe_referrer.as_ref(), it), Sx::A(k)])
      } else {
        Sx::L(vec![Sx::A(1), Sx::A(it.spec(specifier.as_str())), abs_ref(maybe_referrer.as_ref(), it), Sx::A(k)])
      }
    }
    ModuleErrorKind::UnsupportedModuleTypeForSourcePhaseImport { specifier, referrer, .. } => {
      Sx::L(vec![Sx::A(9), Sx::A(it.spec(specifier.as_str())), Sx::A(it.misc(&range_str(referrer)))])
    }
    ModuleErrorKind::Parse { specifier, .. } => Sx::L(vec![Sx::A(2), Sx::A(it.spec(specifier.as_str()))]),
    ModuleErrorKind::WasmParse { specifier, .. } => Sx::L(vec![Sx::A(3), Sx::A(it.spec(specifier.as_str()))]),
    ModuleErrorKind::UnsupportedMediaType { specifier, media_type, maybe_referrer } => Sx::L(vec![
      Sx::A(4),
      Sx::A(it.spec(specifier.as_str())),
      Sx::A(media_id(*media_type)),
      abs_ref(maybe_referrer.as_ref(), it),
    ]),
    ModuleErrorKind::InvalidTypeAssertion { specifier, referrer, actual_media_type, .. } => Sx::L(vec![
      Sx::A(5),
      Sx::A(it.spec(specifier.as_str())),
      Sx::A(it.misc(&range_str(referrer))),
      Sx::A(media_id(*actual_media_type)),
    ]),
    ModuleErrorKind::UnsupportedImportAttributeType { specifier, referrer, kind } => Sx::L(vec![
      Sx::A(6),
      Sx::A(it.spec(specifier.as_str())),
      Sx::A(it.misc(&range_str(referrer))),
      Sx::A(attr_id(Some(kind.as_str()))),
    ]),
    other => Sx::L(vec![Sx::A(99), Sx::A(it.spec(other.specifier().as_str()))]),
  }
}

/// The real graph in the shape of RunC01.enc_bgraph.
pub fn abs_bgraph(g: &ModuleGraph, log: &[LoadCall], it: &mut Intern) -> Sx {
  abs_bgraph_full(g, log, &[], it)
}

pub fn abs_bgraph_full(g: &ModuleGraph, log: &[LoadCall], lock_sets: &[(String, String)], it: &mut Intern) -> Sx {
  let mut slots = vec![];
  for (s, e) in entries(g) {
    let sid = it.spec(s.as_str());
    let slot = match e {
      Ok(Module::External(ext)) => Sx::L(vec![Sx::A(1), Sx::b(ext.was_asset_load)]),
      Ok(m) => Sx::L(vec![Sx::A(0), abs_module(m, it)]),
      Err(err) => {
        if err.specifier() != s {
          // the model stores errors under the error's own specifier; a differing key is reported
          Sx::L(vec![Sx::A(2), abs_berr(err, it), Sx::A(sid)])
        } else {
          Sx::L(vec![Sx::A(2), abs_berr(err, it)])
        }
      }
    };
    slots.push(Sx::L(vec![Sx::A(sid), slot]));
  }
  for p in pending_specs(g) {
    slots.push(Sx::L(vec![Sx::A(it.spec(&p)), Sx::atoms([3, 9])]));
  }
  let reds = g.redirects.iter().map(|(a, b)| Sx::atoms([it.spec(a.as_str()), it.spec(b.as_str())])).collect();
  let imps = Sx::L(
    g.imports
      .iter()
      .map(|(k, imp)| Sx::L(vec![Sx::A(it.spec(k.as_str())), abs_deps(&imp.dependencies, it)]))
      .collect(),
  );
  // the npm resolver's batches travel in the loader log as pseudo calls
  let batches: Vec<Sx> = log
    .iter()
    .filter(|c| c.cache_setting == "npm")
    .map(|c| Sx::atoms(c.specifier.split(' ').filter(|r| !r.is_empty()).map(|r| it.misc(&format!("npmreq:{}", r))).collect::<Vec<_>>()))
    .collect();
  let loads = log
    .iter()
    .filter(|c| c.cache_setting != "npm")
    .map(|c| {
      let ck = c.checksum.as_ref().map(|h| Sx::A(it.misc(&format!("sha:{}", h))));
      Sx::L(vec![Sx::A(it.spec(&c.specifier)), Sx::b(c.asset), Sx::b(c.reload), Sx::opt(ck)])
    })
    .collect();
  let sets = lock_sets.iter().map(|(s, h)| Sx::atoms([it.spec(s), it.misc(&format!("sha:{}", h))])).collect();
  Sx::L(vec![
    Sx::A(kind_id(g.graph_kind())),
    Sx::atoms(g.roots.iter().map(|r| it.spec(r.as_str()))),
    Sx::set(slots),
    Sx::set(reds),
    imps,
    Sx::b(g.has_node_specifier),
    Sx::set(loads),
    Sx::set(sets),
    Sx::L(vec![Sx::L(batches), Sx::b(g.npm_dep_graph_result.is_ok())]),
  ])
}

/// Resolved configured imports as the real GraphImport::new computes them.
pub fn abs_imports(g: &ModuleGraph, it: &mut Intern) -> Sx {
  Sx::L(
    g.imports
      .iter()
      .map(|(k, imp)| Sx::L(vec![Sx::A(it.spec(k.as_str())), abs_deps(&imp.dependencies, it)]))
      .collect(),
  )
}
