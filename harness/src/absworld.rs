//! Abstraction of a concrete world into the builder model's vocabulary:
//! loader answers as data, each module's declaration obtained from the REAL
//! `deno_graph::parse_module` for the graph kind in use, and abstraction of a
//! real graph with structured errors.
use crate::abs::*;
use crate::build::*;
use crate::sexp::Sx;
use crate::world::*;
use deno_graph::source::*;
use deno_graph::*;
use std::collections::BTreeSet;
use std::collections::HashMap;
use std::sync::Arc;

pub struct ParsedMod {
  pub media: MediaType,
  pub result: Result<Module, ModuleError>,
}

pub fn parse_world_module(world: &World, spec: &str, kind: u8) -> Option<ParsedMod> {
  match world.entries.get(spec)? {
    Entry::Module { headers, .. } => {
      let url = ModuleSpecifier::parse(spec).unwrap();
      let hm: Option<HashMap<String, String>> = headers.as_ref().map(|h| h.iter().cloned().collect());
      let (media, _) = resolve_media_type_and_charset_from_headers(&url, hm.as_ref());
      let content: Arc<[u8]> = Arc::from(world.content(spec).unwrap());
      let analyzer = deno_graph::ast::DefaultModuleAnalyzer;
      let result = futures::executor::block_on(parse_module(ParseModuleOptions {
        graph_kind: graph_kind(kind),
        specifier: url,
        maybe_headers: hm,
        mtime: None,
        content,
        file_system: &NullFileSystem,
        jsr_url_provider: Default::default(),
        maybe_resolver: None,
        module_analyzer: &analyzer,
      }));
      Some(ParsedMod { media, result })
    }
    _ => None,
  }
}

pub fn collect_module_strings(m: &Module, out: &mut BTreeSet<String>) {
  out.insert(m.specifier().to_string());
  for d in m.dependencies().values() {
    for r in [&d.maybe_code, &d.maybe_type] {
      if let Resolution::Ok(ok) = r {
        out.insert(ok.specifier.to_string());
      }
    }
  }
  if let Some(js) = m.js() {
    if let Some(td) = &js.maybe_types_dependency {
      if let Resolution::Ok(ok) = &td.dependency {
        out.insert(ok.specifier.to_string());
      }
    }
  }
}

fn dep_is_asset(d: &Dependency) -> bool {
  d.imports.iter().all(|i| i.attributes.has_asset() || i.kind.is_source_phase())
}

pub fn spec_class(spec: &str) -> u64 {
  let scheme = spec.split(':').next().unwrap_or("");
  match scheme {
    "node" => 1,
    "jsr" | "npm" => 2, // stage B1: only malformed jsr/npm specifiers are generated
    _ => 0,
  }
}

/// World in the wire format of RunC01.dec_world.
pub fn abs_world(
  world: &World,
  parsed: &HashMap<String, ParsedMod>,
  max_redirects: usize,
  it: &mut Intern,
) -> Sx {
  let mut resps = vec![];
  for (spec, e) in &world.entries {
    let sid = it.spec(spec);
    let r = match e {
      Entry::Missing => Sx::atoms([0]),
      Entry::Error => Sx::atoms([1]),
      Entry::Redirect(to) => Sx::atoms([2, it.spec(to)]),
      Entry::External => Sx::atoms([3, sid]),
      Entry::Module { .. } => {
        let pm = parsed.get(spec).unwrap();
        let (ok, mk, deps, tdep) = match &pm.result {
          Ok(m) => {
            let mk = match m {
              Module::Wasm(_) => 2,
              Module::Json(_) => 1,
              _ => 0,
            };
            let deps = Sx::L(
              m.dependencies()
                .iter()
                .map(|(text, d)| {
                  let one: indexmap::IndexMap<String, Dependency> = [(text.clone(), d.clone())].into_iter().collect();
                  let dsx = match abs_deps(&one, it) {
                    Sx::L(mut v) => v.remove(0),
                    x => x,
                  };
                  Sx::L(vec![dsx, Sx::b(dep_is_asset(d))])
                })
                .collect(),
            );
            let tdep = match m.js().and_then(|js| js.maybe_types_dependency.as_ref()) {
              Some(td) => {
                let tid = it.misc(&format!("text:{}", td.specifier));
                Sx::opt(Some(Sx::L(vec![
                  Sx::A(tid),
                  Sx::b(td.specifier.to_lowercase().starts_with("file://")),
                  abs_res(&td.dependency, it),
                ])))
              }
              None => Sx::opt(None),
            };
            (true, mk, deps, tdep)
          }
          Err(_) => (false, 0, Sx::L(vec![]), Sx::opt(None)),
        };
        Sx::L(vec![Sx::A(4), Sx::A(sid), Sx::A(media_id(pm.media)), Sx::b(ok), Sx::A(mk), deps, tdep])
      }
    };
    resps.push(Sx::L(vec![Sx::A(sid), r]));
  }
  let classes = Sx::L(
    it.specs
      .iter()
      .filter(|(s, _)| spec_class(s) != 0)
      .map(|(s, id)| Sx::atoms([*id, spec_class(s)]))
      .collect(),
  );
  let files = Sx::atoms(it.specs.iter().filter(|(s, _)| s.starts_with("file:")).map(|(_, id)| *id));
  Sx::L(vec![Sx::L(resps), classes, files, Sx::A(max_redirects as u64)])
}

fn abs_ref(r: Option<&Range>, it: &mut Intern) -> Sx {
  Sx::opt(r.map(|r| Sx::A(it.misc(&range_str(r)))))
}

pub fn abs_berr(e: &ModuleError, it: &mut Intern) -> Sx {
  match e.as_kind() {
    ModuleErrorKind::Missing { specifier, maybe_referrer } => {
      Sx::L(vec![Sx::A(0), Sx::A(it.spec(specifier.as_str())), abs_ref(maybe_referrer.as_ref(), it)])
    }
    ModuleErrorKind::Load { specifier, maybe_referrer, err } => {
      let (tag, k) = match err {
        ModuleLoadError::Loader(_) => (1, 0),
        ModuleLoadError::TooManyRedirects => (1, 1),
        ModuleLoadError::Jsr(JsrLoadError::PackageFormat(_)) => (7, 0),
        ModuleLoadError::Npm(NpmLoadError::PackageReqReferenceParse(_)) => (7, 0),
        _ => (1, 9),
      };
      if tag == 7 {
        Sx::L(vec![Sx::A(7), Sx::A(it.spec(specifier.as_str())), abs_ref(maybe_referrer.as_ref(), it)])
      } else {
        Sx::L(vec![Sx::A(1), Sx::A(it.spec(specifier.as_str())), abs_ref(maybe_referrer.as_ref(), it), Sx::A(k)])
      }
    }
    ModuleErrorKind::Parse { specifier, .. } => Sx::L(vec![Sx::A(2), Sx::A(it.spec(specifier.as_str()))]),
    ModuleErrorKind::WasmParse { specifier, .. } => Sx::L(vec![Sx::A(3), Sx::A(it.spec(specifier.as_str()))]),
    ModuleErrorKind::UnsupportedMediaType { specifier, media_type, maybe_referrer } => Sx::L(vec![
      Sx::A(4),
      Sx::A(it.spec(specifier.as_str())),
      Sx::A(media_id(*media_type)),
      abs_ref(maybe_referrer.as_ref(), it),
    ]),
    ModuleErrorKind::InvalidTypeAssertion { specifier, referrer, actual_media_type, .. } => Sx::L(vec![
      Sx::A(5),
      Sx::A(it.spec(specifier.as_str())),
      Sx::A(it.misc(&range_str(referrer))),
      Sx::A(media_id(*actual_media_type)),
    ]),
    ModuleErrorKind::UnsupportedImportAttributeType { specifier, referrer, kind } => Sx::L(vec![
      Sx::A(6),
      Sx::A(it.spec(specifier.as_str())),
      Sx::A(it.misc(&range_str(referrer))),
      Sx::A(attr_id(Some(kind.as_str()))),
    ]),
    other => Sx::L(vec![Sx::A(99), Sx::A(it.spec(other.specifier().as_str()))]),
  }
}

/// The real graph in the shape of RunC01.enc_bgraph.
pub fn abs_bgraph(g: &ModuleGraph, log: &[LoadCall], it: &mut Intern) -> Sx {
  let mut slots = vec![];
  for (s, e) in entries(g) {
    let sid = it.spec(s.as_str());
    let slot = match e {
      Ok(Module::External(ext)) => Sx::L(vec![Sx::A(1), Sx::b(ext.was_asset_load)]),
      Ok(m) => Sx::L(vec![Sx::A(0), abs_module(m, it)]),
      Err(err) => {
        if err.specifier() != s {
          // the model stores errors under the error's own specifier; a differing key is reported
          Sx::L(vec![Sx::A(2), abs_berr(err, it), Sx::A(sid)])
        } else {
          Sx::L(vec![Sx::A(2), abs_berr(err, it)])
        }
      }
    };
    slots.push(Sx::L(vec![Sx::A(sid), slot]));
  }
  for p in pending_specs(g) {
    slots.push(Sx::L(vec![Sx::A(it.spec(&p)), Sx::atoms([3, 9])]));
  }
  let reds = g.redirects.iter().map(|(a, b)| Sx::atoms([it.spec(a.as_str()), it.spec(b.as_str())])).collect();
  let imps = Sx::L(
    g.imports
      .iter()
      .map(|(k, imp)| Sx::L(vec![Sx::A(it.spec(k.as_str())), abs_deps(&imp.dependencies, it)]))
      .collect(),
  );
  let loads = log.iter().map(|c| Sx::L(vec![Sx::A(it.spec(&c.specifier)), Sx::b(c.asset)])).collect();
  Sx::L(vec![
    Sx::A(kind_id(g.graph_kind())),
    Sx::atoms(g.roots.iter().map(|r| it.spec(r.as_str()))),
    Sx::set(slots),
    Sx::set(reds),
    imps,
    Sx::b(g.has_node_specifier),
    Sx::set(loads),
  ])
}

/// Resolved configured imports as the real GraphImport::new computes them.
pub fn abs_imports(g: &ModuleGraph, it: &mut Intern) -> Sx {
  Sx::L(
    g.imports
      .iter()
      .map(|(k, imp)| Sx::L(vec![Sx::A(it.spec(k.as_str())), abs_deps(&imp.dependencies, it)]))
      .collect(),
  )
}
