mod abs;
mod absworld;
mod build;
mod common;
mod jsrworld;
mod props;
mod rng;
mod sexp;
mod world;
mod fcx;
mod fcheck;

use common::*;

fn main() {
  let args: Vec<String> = std::env::args().collect();
  if args.len() < 2 {
    eprintln!("usage: dgverif <prop|compare> ...");
    std::process::exit(2);
  }
  if args[1] == "compare" {
    compare(&args[2], &args[3]);
    return;
  }
  if args[1] == "c16child" {
    props::c16::child_main(&args[2]);
    return;
  }
  if args[1] == "c16probe" {
    props::c16::probe(&args[2]);
    return;
  }
  if args[1] == "fcgen12" {
    fcheck::dump_gen12(args[2].parse().unwrap(), args[3].parse().unwrap());
    return;
  }
  if args[1] == "fcprobe" {
    fcheck::probe();
    return;
  }
  if args[1] == "fcxprobe" {
    fcx::probe(&args[2..]);
    return;
  }
  if args[1] == "fcdump" {
    fcheck::dump(&args[2..]);
    return;
  }
  if args[1] == "c01dump" {
    // c01dump <seed> <k> [thorough]: the generated build case, without building it
    let tier = if args.get(4).map(|s| s.as_str()) == Some("thorough") { Tier::Thorough } else { Tier::Quick };
    let mut rng = rng::Rng::for_case(args[2].parse().unwrap(), args[3].parse().unwrap());
    let c = props::c01::gen_build_case(&mut rng, tier);
    for (k, e) in &c.world.entries {
      match e {
        world::Entry::Module { headers, .. } => println!("{} [final {:?}] headers {:?}\n{}", k, c.world.final_specifiers.get(k), headers, String::from_utf8_lossy(&c.world.content(k).unwrap())),
        other => println!("{} {:?}", k, other),
      }
    }
    println!("roots {:?} cfg {:?} max_redirects {}", c.roots, c.bcfg, c.max_redirects);
    return;
  }
  if args[1] == "jsrdump" {
    // jsrdump <flavour> <seed> <k>: the generated registry world, without building it
    props::jsr::dump(&args[2], args[3].parse().unwrap(), args[4].parse().unwrap());
    return;
  }
  if args[1] == "c08probe" {
    props::c08::probe(&args[2], &args[3]);
    return;
  }
  let prop = args[1].clone();
  let mut cfg = RunCfg {
    seed: 1,
    tier: Tier::Quick,
    out_dir: std::path::PathBuf::from("build/cases").join(&prop),
    threads: std::thread::available_parallelism().map(|n| n.get()).unwrap_or(4),
    only_case: None,
  };
  let mut i = 2;
  while i < args.len() {
    match args[i].as_str() {
      "--seed" => {
        cfg.seed = args[i + 1].parse().unwrap();
        i += 2;
      }
      "--tier" => {
        cfg.tier = if args[i + 1] == "thorough" { Tier::Thorough } else { Tier::Quick };
        i += 2;
      }
      "--out" => {
        cfg.out_dir = args[i + 1].clone().into();
        i += 2;
      }
      "--threads" => {
        cfg.threads = args[i + 1].parse().unwrap();
        i += 2;
      }
      "--case" => {
        cfg.only_case = Some(args[i + 1].parse().unwrap());
        i += 2;
      }
      x => {
        eprintln!("unknown arg {}", x);
        std::process::exit(2);
      }
    }
  }
  // keep panics inside catch_unwind quiet
  if std::env::var("DGVERIF_DEBUG").is_err() {
    // ... but remember where they happened
    std::panic::set_hook(Box::new(|info| {
      let loc = info.location().map(|l| format!("{}:{}", l.file(), l.line())).unwrap_or_default();
      common::LAST_PANIC_LOCATION.with(|c| *c.borrow_mut() = loc);
    }));
  }
  match prop.as_str() {
    "c15" => props::c15::run(&cfg),
    "c02" => props::c02::run(&cfg),
    "c14" => props::c14::run(&cfg),
    "c17" => props::c17::run(&cfg),
    "c18" => props::c18::run(&cfg),
    "c04" => props::c04::run(&cfg),
    "c01" => props::c01::run(&cfg),
    "c03" => props::c03::run(&cfg),
    "c19" => props::c19::run(&cfg),
    "c05" => props::c05::run(&cfg),
    "c06" => props::c06::run(&cfg),
    "c13" => props::c13::run(&cfg),
    "c20" => props::c20::run(&cfg),
    "c07" => props::c07::run(&cfg),
    "c16" => props::c16::run(&cfg),
    "c08" => props::c08::run(&cfg),
    "jsr" => props::jsr::run(&cfg),
    "decl" => props::decl::run(&cfg),
    "c09" => props::c09::run(&cfg),
    "c12" => props::c12::run(&cfg),
    "c10" => props::c10::run(&cfg),
    "c11" => props::c11::run(&cfg),
    _ => {
      eprintln!("unknown property {}", prop);
      std::process::exit(2);
    }
  }
}
