//! C07 (URL <-> name@version conversion, version text, export lookup,
//! PackageSpecifiers bookkeeping).  Four streams, selected by case number:
//!   k % 4 == 0  registry URL conversion on generated + adversarial URLs
//!   k % 4 == 1  Version::parse_standard (exhaustive small strings, then random)
//!   k % 4 == 2  normalized_export_name and JsrPackageVersionInfo::export/exports
//!   k % 4 == 3  PackageSpecifiers operation histories (public API: add_nv,
//!               ModuleGraph::fill_from_lockfile) and all public observers
use crate::common::*;
use crate::rng::Rng;
use crate::sexp::Sx;
use deno_graph::packages::JsrPackageVersionInfo;
use deno_graph::packages::PackageSpecifiers;
use deno_graph::source::recommended_registry_package_url;
use deno_graph::source::recommended_registry_package_url_to_nv;
use deno_graph::FillFromLockfileOptions;
use deno_graph::GraphKind;
use deno_graph::ModuleGraph;
use deno_semver::jsr::JsrDepPackageReq;
use deno_semver::package::PackageNv;
use deno_semver::package::PackageReq;
use deno_semver::Version;
use std::cmp::Ordering;
use url::Url;

fn sx_str(s: &str) -> Sx {
  Sx::atoms(s.chars().map(|c| c as u64))
}
fn sx_opt_str(s: Option<&str>) -> Sx {
  Sx::opt(s.map(sx_str))
}

fn quiet<T>(f: impl FnOnce() -> T) -> Option<T> {
  std::panic::catch_unwind(std::panic::AssertUnwindSafe(f)).ok()
}

// ---------------------------------------------------------------- URL stream

const WF_BASES: &[&str] = &[
  "https://jsr.io/",
  "http://localhost:4545/",
  "http://127.0.0.1:4250/registry/",
  "https://r.example/a/b/",
  "https://user:pw@r.example:8443/reg/",
  "https://JSR.io/",
];
const ODD_BASES: &[&str] = &[
  "http://localhost/jsr",
  "https://r.example/reg/x",
  "http://localhost:4545/@a",
  "https://jsr.io/?a=b",
  "https://jsr.io/r/#f",
  "https://jsr.io/r/?q=/x/",
  "file:///reg/",
  "custom://host/p/",
];

fn ident(rng: &mut Rng) -> String {
  let alpha = ['a', 'b', 'c', '-', '1', '_'];
  let n = rng.range(1, 3);
  (0..n).map(|_| *rng.pick(&alpha)).collect()
}

const ODD_NAMES: &[&str] = &[
  "", "a", "/x", "a/b/c", "x:y/z", "http:/b:x", "../a", "@a/..", "@a/.", "@a/%2e%2e", "@a/%2E", "@a/b?c", "@a/b#c",
  "@a b/c", "@\u{e4}/b", "@a\\b/c", "@a/b{", "@a/", "/", "//", "@A/B", "%40a/b", "@a/b\t", "1.0.0/2.0.0", "@a/v1",
];

fn gen_name(rng: &mut Rng) -> (String, &'static str) {
  let r = rng.below(100);
  if r < 70 {
    (format!("@{}/{}", ident(rng), ident(rng)), "jsr")
  } else if r < 82 {
    (format!("{}/{}", ident(rng), ident(rng)), "no_at")
  } else {
    (rng.pick(ODD_NAMES).to_string(), "odd")
  }
}

fn gen_version_text(rng: &mut Rng) -> String {
  let nums = ["0", "1", "2", "10", "123", "18446744073709551615"];
  let mut s = format!("{}.{}.{}", rng.pick(&nums), rng.pick(&nums), rng.pick(&nums));
  let parts = ["alpha", "rc", "1", "0", "beta-2", "x", "-", "01", "B"];
  if rng.chance(30) {
    s.push('-');
    let n = rng.range(1, 3);
    for i in 0..n {
      if i > 0 {
        s.push('.');
      }
      s.push_str(*rng.pick(&parts));
    }
  }
  if rng.chance(25) {
    s.push('+');
    let n = rng.range(1, 2);
    for i in 0..n {
      if i > 0 {
        s.push('.');
      }
      s.push_str(*rng.pick(&parts));
    }
  }
  s
}

const NONCANON: &[&str] = &[
  "v{}", "={}", "=v{}", "0{}", "{}.", "{}alpha", "{}-a.", "{}-", "{}+", "{}_meta.json", "{}.0", "{}%20", "%20{}", "{}-a..b",
  "{}-a.+b", "V{}", "{} ",
];
const PATHS: &[&str] = &["", "mod.ts", "sub/dir/x.ts", "a//b", "x?y=1", "x#f", "_meta.json", "../1.0.1/mod.ts", "%2e%2e/x", ".", "1.0.0/mod.ts"];

struct UrlCase {
  qs: Vec<Sx>,
  obs: Vec<Sx>,
  descr: Vec<serde_json::Value>,
  dist: Vec<(String, u64)>,
  n_some: usize,
  n_none: usize,
}

impl UrlCase {
  fn bump(&mut self, k: &str) {
    self.dist.push((k.to_string(), 1));
  }

  /// query 2 on a URL text (skipped when Url::parse rejects it)
  fn to_nv_query(&mut self, base: &Url, text: &str, expected: Option<(&str, &str)>, kind: &str) {
    let Ok(u) = Url::parse(text) else {
      self.bump("url_unparsable");
      return;
    };
    let r = recommended_registry_package_url_to_nv(base, &u);
    let purl: Option<String> = match &r {
      Some(nv) => quiet(|| recommended_registry_package_url(base, nv).to_string()),
      None => None,
    };
    // the round-trip expectation only applies when the URL really is <package url> ++ path
    let expected = match expected {
      Some((n, v)) => {
        let nv = PackageNv { name: n.into(), version: Version::parse_standard(v).unwrap() };
        match quiet(|| recommended_registry_package_url(base, &nv)) {
          Some(p) if u.as_str().starts_with(p.as_str()) => Some((n, v)),
          _ => None,
        }
      }
      None => None,
    };
    if r.is_some() {
      self.n_some += 1;
      self.bump(&format!("to_nv_some_{}", kind));
      if purl.is_none() {
        self.bump("pkg_url_of_to_nv_result_panics");
      }
    } else {
      self.n_none += 1;
      self.bump(&format!("to_nv_none_{}", kind));
    }
    if expected.is_some() {
      self.bump("roundtrip_expectations");
    }
    self.qs.push(Sx::L(vec![
      Sx::A(2),
      sx_str(base.as_str()),
      sx_str(u.as_str()),
      sx_opt_str(purl.as_deref()),
      Sx::opt(expected.map(|(n, v)| Sx::L(vec![sx_str(n), sx_str(v)]))),
    ]));
    self.obs.push(Sx::L(vec![
      Sx::opt(r.as_ref().map(|nv| Sx::L(vec![sx_str(&nv.name), sx_str(&nv.version.to_string())]))),
      sx_opt_str(purl.as_deref()),
      Sx::judge(true),
      Sx::judge(true),
    ]));
    self.descr.push(serde_json::json!({"to_nv": {"base": base.as_str(), "url": u.as_str(), "kind": kind,
      "result": r.as_ref().map(|nv| nv.to_string()), "package_url_of_result": purl}}));
  }
}

fn mutate(rng: &mut Rng, s: &str) -> String {
  let mut cs: Vec<char> = s.chars().collect();
  let extra = ['/', '@', '.', 'v', '%', '?', '#', ':', '0', '+', '-', '=', 'a'];
  let n = rng.range(1, 2);
  for _ in 0..n {
    if cs.len() < 9 {
      break;
    }
    // keep the scheme intact so that most mutants still parse
    let i = rng.range(8, cs.len() - 1);
    match rng.below(3) {
      0 => {
        cs.remove(i);
      }
      1 => cs.insert(i, *rng.pick(&extra)),
      _ => {
        let j = rng.range(8, cs.len() - 1);
        cs.swap(i, j);
      }
    }
  }
  cs.into_iter().collect()
}

fn url_case(rng: &mut Rng, tier: Tier) -> Case {
  let mut c = UrlCase { qs: vec![], obs: vec![], descr: vec![], dist: vec![], n_some: 0, n_none: 0 };
  let rounds = if tier == Tier::Quick { 3 } else { 4 };
  for _ in 0..rounds {
    let (base_text, base_kind) = if rng.chance(70) { (*rng.pick(WF_BASES), "wf") } else { (*rng.pick(ODD_BASES), "odd") };
    let base = Url::parse(base_text).unwrap();
    let (name, name_kind) = gen_name(rng);
    let vtext = gen_version_text(rng);
    let version = Version::parse_standard(&vtext).unwrap();
    let canon = version.to_string();
    let nv = PackageNv { name: name.as_str().into(), version };
    c.bump(&format!("base_{}", base_kind));
    c.bump(&format!("name_{}", name_kind));
    if nv.version.build.len() > 0 {
      c.bump("version_with_build_metadata");
    }
    // query 1: the package URL
    let purl = quiet(|| recommended_registry_package_url(&base, &nv).to_string());
    if purl.is_none() {
      c.bump("pkg_url_panics");
    }
    c.qs.push(Sx::L(vec![Sx::A(1), sx_str(base.as_str()), sx_str(&name), sx_str(&canon), sx_opt_str(purl.as_deref())]));
    c.obs.push(Sx::L(vec![sx_opt_str(purl.as_deref())]));
    c.descr.push(serde_json::json!({"pkg_url": {"base": base.as_str(), "nv": nv.to_string(), "result": purl}}));
    // query 2 family
    if let Some(p) = &purl {
      let npaths = rng.range(2, 4);
      for _ in 0..npaths {
        let path = *rng.pick(PATHS);
        c.to_nv_query(&base, &format!("{}{}", p, path), Some((&name, &canon)), "package_url_plus_path");
      }
      // without the trailing slash
      c.to_nv_query(&base, p.trim_end_matches('/'), None, "no_trailing_slash");
    }
    let b = base.as_str();
    // siblings of the package directory
    c.to_nv_query(&base, &format!("{}{}/{}_meta.json", b, name, canon), None, "version_meta_json");
    c.to_nv_query(&base, &format!("{}{}/meta.json", b, name), None, "meta_json");
    c.to_nv_query(&base, &format!("{}{}", b, name), None, "name_only");
    // non-canonical version segments
    for _ in 0..2 {
      let seg = rng.pick(NONCANON).replace("{}", &canon);
      c.to_nv_query(&base, &format!("{}{}/{}/mod.ts", b, name, seg), None, "noncanonical_version");
    }
    // slashes
    c.to_nv_query(&base, &format!("{}/{}/{}/mod.ts", b, name, canon), None, "double_slash");
    c.to_nv_query(&base, &format!("{}//{}/{}/mod.ts", b, name, canon), None, "triple_slash");
    // look-alike registries
    if let Some(host) = base.host_str() {
      let evil = b.replacen(host, &format!("{}.evil", host), 1);
      c.to_nv_query(&base, &format!("{}{}/{}/mod.ts", evil, name, canon), None, "lookalike_host");
      let evil2 = b.replacen(host, &format!("evil.{}", host), 1);
      c.to_nv_query(&base, &format!("{}{}/{}/mod.ts", evil2, name, canon), None, "lookalike_host");
    }
    c.to_nv_query(&base, &format!("{}x/{}/{}/mod.ts", b.trim_end_matches('/'), name, canon), None, "lookalike_path");
    c.to_nv_query(&base, &format!("{}-evil/{}/{}/mod.ts", b.trim_end_matches('/'), name, canon), None, "lookalike_path");
    let other_scheme = if b.starts_with("https") { b.replacen("https", "http", 1) } else { b.replacen("http", "https", 1) };
    c.to_nv_query(&base, &format!("{}{}/{}/mod.ts", other_scheme, name, canon), None, "other_scheme");
    // percent-encoding and case
    c.to_nv_query(&base, &format!("{}{}/{}/mod.ts", b, name.replace('@', "%40"), canon), None, "percent_encoded");
    c.to_nv_query(&base, &format!("{}{}/{}/mod.ts", b, name.replacen('/', "%2F", 1), canon), None, "percent_encoded");
    c.to_nv_query(&base, &format!("{}{}/{}/mod.ts", b, name, canon.replace('.', "%2E")), None, "percent_encoded");
    c.to_nv_query(&base, &format!("{}{}/{}/mod.ts", b, name.to_uppercase(), canon), None, "uppercase");
    // query / fragment in odd places
    c.to_nv_query(&base, &format!("{}{}?q=/{}/mod.ts", b, name, canon), None, "query_inside");
    c.to_nv_query(&base, &format!("{}?x={}/{}/mod.ts", b, name, canon), None, "query_inside");
    c.to_nv_query(&base, &format!("{}#{}/{}/mod.ts", b, name, canon), None, "fragment_inside");
    // unrelated URLs
    let unrelated = ["https://deno.land/x/a/1.0.0/mod.ts", "file:///a/b/1.0.0/mod.ts", "npm:@a/b@1.0.0", "jsr:@a/b@1.0.0/x", "data:text/plain,a/b/1.0.0"];
    c.to_nv_query(&base, *rng.pick(&unrelated), None, "unrelated");
    // random mutants of a good URL
    if let Some(p) = &purl {
      let good = format!("{}mod.ts", p);
      for _ in 0..4 {
        let m = mutate(rng, &good);
        c.to_nv_query(&base, &m, None, "mutant");
      }
    }
  }
  let nontrivial = c.n_some >= 2 && c.n_none >= 2;
  c.dist.push(("url_queries".into(), c.qs.len() as u64));
  Case {
    input: Sx::L(c.qs),
    obs: Sx::L(c.obs),
    meta: serde_json::json!({"stream": "url", "queries": c.descr}),
    nontrivial,
    dist: c.dist,
    direct_violations: vec![],
  }
}

// ---------------------------------------------------------------- version stream

const VALPHA: &[char] = &['0', '1', '.', '-', '+', 'v', 'a', '='];

fn nth_string(mut i: u64, alpha: &[char]) -> String {
  // shortlex enumeration: "", then all of length 1, ...
  let b = alpha.len() as u64;
  let mut len = 0u32;
  let mut block = 1u64;
  while i >= block {
    i -= block;
    len += 1;
    block *= b;
  }
  let mut cs = vec![];
  for _ in 0..len {
    cs.push(alpha[(i % b) as usize]);
    i /= b;
  }
  cs.reverse();
  cs.into_iter().collect()
}

fn exhaustive_total(maxlen: u32) -> u64 {
  (0..=maxlen).map(|l| (VALPHA.len() as u64).pow(l)).sum()
}

fn random_version_like(rng: &mut Rng) -> String {
  let r = rng.below(100);
  if r < 35 {
    let mut s = gen_version_text(rng);
    if rng.chance(50) {
      let pre = ["v", "=", "=v", " ", "= v ", "\t", "\u{a0}", "\u{3000}", "\u{85}", "\u{2003}=", "v\u{2028}", "\u{200b}", "\u{feff}", "\u{1c}"];
      s = format!("{}{}", rng.pick(&pre), s);
    }
    if rng.chance(30) {
      let suf = [" ", ".", "-", "+", "\n", "\u{a0}", "a", "-a.", "+b.", "-a..b", "\u{1680}", "\u{180e}", "/"];
      s.push_str(*rng.pick(&suf));
    }
    s
  } else if r < 60 {
    let t = gen_version_text(rng);
    mutate_plain(rng, &t)
  } else if r < 80 {
    // numbers around u64::MAX and leading zeros
    let big = ["18446744073709551615", "18446744073709551616", "18446744073709551614", "99999999999999999999", "018446744073709551615",
      "0000000000000000000000001", "184467440737095516150", "00", "09", "1\u{663}", "\u{ff11}"];
    format!("{}.{}.{}", rng.pick(&big), rng.pick(&["0", "00", "1"]), rng.pick(&big))
  } else {
    let alpha = ['0', '1', '9', '.', '-', '+', 'v', 'a', 'Z', '=', ' ', '_', '\u{e4}', '*', 'x', '~', '^'];
    let n = rng.range(0, 12);
    (0..n).map(|_| *rng.pick(&alpha)).collect()
  }
}

fn mutate_plain(rng: &mut Rng, s: &str) -> String {
  let mut cs: Vec<char> = s.chars().collect();
  let extra = ['.', '-', '+', 'v', '0', 'a', '=', ' ', '9'];
  let n = rng.range(1, 2);
  for _ in 0..n {
    if cs.is_empty() {
      break;
    }
    let i = rng.below(cs.len());
    match rng.below(3) {
      0 => {
        cs.remove(i);
      }
      1 => cs.insert(i, *rng.pick(&extra)),
      _ => cs[i] = *rng.pick(&extra),
    }
  }
  cs.into_iter().collect()
}

fn version_case(rng: &mut Rng, j: u64, tier: Tier) -> Case {
  let maxlen = if tier == Tier::Quick { 5 } else { 6 };
  let per_case: u64 = if tier == Tier::Quick { 60 } else { 80 };
  let total = exhaustive_total(maxlen);
  let mut texts = vec![];
  let mut n_exh = 0u64;
  for i in (j * per_case)..((j + 1) * per_case) {
    if i < total {
      texts.push(nth_string(i, VALPHA));
      n_exh += 1;
    }
  }
  for _ in 0..40 {
    texts.push(random_version_like(rng));
  }
  let mut qs = vec![];
  let mut obs = vec![];
  let mut descr = vec![];
  let (mut n_ok, mut n_err, mut n_noncanon) = (0u64, 0u64, 0u64);
  for t in &texts {
    let r = Version::parse_standard(t).ok().map(|v| v.to_string());
    match &r {
      Some(c) => {
        n_ok += 1;
        if c != t {
          n_noncanon += 1;
        }
      }
      None => n_err += 1,
    }
    qs.push(Sx::L(vec![Sx::A(3), sx_str(t)]));
    obs.push(Sx::L(vec![sx_opt_str(r.as_deref())]));
    if descr.len() < 50 {
      descr.push(serde_json::json!({"text": t.escape_default().to_string(), "parsed": r}));
    }
  }
  Case {
    input: Sx::L(qs),
    obs: Sx::L(obs),
    meta: serde_json::json!({"stream": "version", "sample": descr}),
    nontrivial: n_ok >= 1 && n_err >= 1,
    dist: vec![
      ("version_texts".into(), texts.len() as u64),
      ("version_exhaustive_texts".into(), n_exh),
      ("version_accepted".into(), n_ok),
      ("version_rejected".into(), n_err),
      ("version_accepted_noncanonical".into(), n_noncanon),
    ],
    direct_violations: vec![],
  }
}

// ---------------------------------------------------------------- exports stream

const KEYS: &[&str] = &[".", "./a", "./b/c", "a", "", "./", "./a/", "./.", "/a", "./mod.ts", "./\u{e4}"];
const SUBS: &[&str] = &["", "/", ".", "mod.ts", "test/", "./test/", "./test", "/test", "./", "a//", "//", "/./", "..", "./.", "a/b/", ".a", "\u{e4}/"];

fn junk_json(rng: &mut Rng) -> (serde_json::Value, u64) {
  match rng.below(5) {
    0 => (serde_json::Value::Null, 0),
    1 => (serde_json::json!(rng.chance(50)), 1),
    2 => (serde_json::json!(rng.below(100)), 2),
    3 => (serde_json::json!(["./x.ts", 1]), 4),
    _ => (serde_json::json!({"default": "./x.ts", ".": "./y.ts"}), 5),
  }
}

fn exports_case(rng: &mut Rng) -> Case {
  let mut qs = vec![];
  let mut obs = vec![];
  let mut descr = vec![];
  let mut dist: Vec<(String, u64)> = vec![];
  let mut n_hit = 0;
  let mut n_miss = 0;
  // normalized_export_name
  for _ in 0..8 {
    let sub: Option<String> = if rng.chance(12) {
      None
    } else if rng.chance(70) {
      Some(rng.pick(SUBS).to_string())
    } else {
      let alpha = ['.', '/', 'a', 'b'];
      let n = rng.range(0, 5);
      Some((0..n).map(|_| *rng.pick(&alpha)).collect())
    };
    let r = deno_semver::jsr::normalized_export_name(sub.as_deref()).to_string();
    qs.push(Sx::L(vec![Sx::A(4), sx_opt_str(sub.as_deref())]));
    obs.push(Sx::L(vec![sx_str(&r)]));
    descr.push(serde_json::json!({"normalized_export_name": {"sub_path": sub.as_ref().map(|s| s.escape_default().to_string()), "result": r.escape_default().to_string()}}));
    dist.push(("normalize_queries".into(), 1));
  }
  // manifests
  for _ in 0..6 {
    let shape = rng.below(100);
    // the JSON text is assembled by hand so that repeated keys survive until serde_json reads it
    let (exports_text, ast, kind): (Option<String>, Sx, &str) = if shape < 10 {
      (None, Sx::L(vec![Sx::A(2), Sx::A(0)]), "absent")
    } else if shape < 35 {
      let v = format!("./{}.ts", ident(rng));
      (Some(serde_json::to_string(&v).unwrap()), Sx::L(vec![Sx::A(0), sx_str(&v)]), "string")
    } else if shape < 88 {
      let n = rng.range(0, 6);
      let mut members = vec![];
      let mut fields = vec![];
      let mut junk = false;
      let mut dup = false;
      let mut used: Vec<String> = vec![];
      for _ in 0..n {
        let key = if rng.chance(25) && !used.is_empty() {
          dup = true;
          rng.pick(&used).clone()
        } else {
          rng.pick(KEYS).to_string()
        };
        used.push(key.clone());
        if rng.chance(70) {
          let v = format!("./{}.ts", ident(rng));
          members.push(format!("{}:{}", serde_json::to_string(&key).unwrap(), serde_json::to_string(&v).unwrap()));
          fields.push(Sx::L(vec![sx_str(&key), Sx::L(vec![Sx::A(0), sx_str(&v)])]));
        } else {
          junk = true;
          let (j, tag) = junk_json(rng);
          members.push(format!("{}:{}", serde_json::to_string(&key).unwrap(), j));
          fields.push(Sx::L(vec![sx_str(&key), Sx::L(vec![Sx::A(1), Sx::A(tag)])]));
        }
      }
      let kind = if dup { "object_with_repeated_key" } else if junk { "object_with_junk" } else { "object" };
      (Some(format!("{{{}}}", members.join(","))), Sx::L(vec![Sx::A(1), Sx::L(fields)]), kind)
    } else {
      let (j, tag) = match rng.below(4) {
        0 => (serde_json::Value::Null, 0),
        1 => (serde_json::json!(true), 1),
        2 => (serde_json::json!(7), 2),
        _ => (serde_json::json!(["./a.ts"]), 4),
      };
      (Some(j.to_string()), Sx::L(vec![Sx::A(2), Sx::A(tag)]), "other")
    };
    let text = match &exports_text {
      Some(e) => format!("{{\"manifest\":{{}},\"exports\":{}}}", e),
      None => "{\"manifest\":{}}".to_string(),
    };
    let info: JsrPackageVersionInfo = serde_json::from_str(&text).unwrap();
    let mut keys: Vec<String> = KEYS.iter().map(|k| k.to_string()).collect();
    keys.push(deno_semver::jsr::normalized_export_name(Some(*rng.pick(SUBS))).to_string());
    let mut results = vec![];
    for k in &keys {
      let r = info.export(k);
      if r.is_some() {
        n_hit += 1;
      } else {
        n_miss += 1;
      }
      results.push(sx_opt_str(r));
    }
    let listed: Vec<(String, String)> = info.exports().map(|(k, v)| (k.to_string(), v.to_string())).collect();
    qs.push(Sx::L(vec![Sx::A(5), ast, Sx::L(keys.iter().map(|k| sx_str(k)).collect())]));
    obs.push(Sx::L(vec![Sx::L(results), Sx::set(listed.iter().map(|(k, v)| Sx::L(vec![sx_str(k), sx_str(v)])).collect())]));
    descr.push(serde_json::json!({"manifest": text, "exports()": listed}));
    dist.push((format!("exports_{}", kind), 1));
  }
  Case {
    input: Sx::L(qs),
    obs: Sx::L(obs),
    meta: serde_json::json!({"stream": "exports", "queries": descr}),
    nontrivial: n_hit >= 1 && n_miss >= 1,
    dist,
    direct_violations: vec![],
  }
}

// ---------------------------------------------------------------- table stream

/// ids by Eq, Ord classes (smallest Eq-id of the Ord-equal values) from the real cmp
struct Interner<T> {
  items: Vec<T>,
}
impl<T: PartialEq + Ord + Clone> Interner<T> {
  fn new() -> Self {
    Interner { items: vec![] }
  }
  fn id(&mut self, x: &T) -> u64 {
    if let Some(i) = self.items.iter().position(|y| y == x) {
      return i as u64 + 1;
    }
    self.items.push(x.clone());
    self.items.len() as u64
  }
  fn find(&self, x: &T) -> u64 {
    self.items.iter().position(|y| y == x).map(|i| i as u64 + 1).unwrap_or(0)
  }
  fn classes(&self) -> Sx {
    Sx::L(
      self
        .items
        .iter()
        .enumerate()
        .map(|(i, x)| {
          let c = self.items.iter().position(|y| y.cmp(x) == Ordering::Equal).unwrap();
          Sx::atoms([i as u64 + 1, c as u64 + 1])
        })
        .collect(),
    )
  }
  fn has_collision(&self) -> bool {
    self.items.iter().enumerate().any(|(i, x)| self.items.iter().position(|y| y.cmp(x) == Ordering::Equal).unwrap() != i)
  }
}

const REQ_TEXTS: &[&str] = &[
  "@a/b@1", "@a/b@^1.2", "@a/b@*", "@a/b", "@a/b@1.0.0", "@a/b@1.0.0+x", "@a/b@1.0.0+y", "@a/b@~1.0", "@a/b@1.x", "@a/b@1.0.0-rc.1", "@a/c@1",
  "@a/c@^2.0.0-rc.1", "@z/b@1", "@a/b@latest", "b@1",
];
const NV_VERSIONS: &[&str] = &["1.0.0", "1.0.0+x", "1.0.0+y", "1.2.3", "2.0.0-rc.1", "2.0.0-rc.1+b", "0.0.1"];
const LOCK_VALUES: &[&str] = &["1.0.0", "v1.0.0", "1.2.3", "1.0.0+x", "=1.0.0+y", "1.0", "latest", "", "1.0.0-", "01.2.3", "1.0.0alpha", " 1.0.0 "];

fn table_case(rng: &mut Rng) -> Case {
  let mut qs = vec![];
  let mut obs = vec![];
  let mut descr = vec![];
  let mut dist: Vec<(String, u64)> = vec![];
  let mut any_overwrite = false;
  for _ in 0..4 {
    let mut reqs: Interner<PackageReq> = Interner::new();
    let mut nvs: Interner<PackageNv> = Interner::new();
    let mut names: Vec<String> = vec![];
    let name_id = |names: &mut Vec<String>, n: &str| -> u64 {
      if let Some(i) = names.iter().position(|y| y == n) {
        return i as u64 + 1;
      }
      names.push(n.to_string());
      names.len() as u64
    };
    let via_graph = rng.chance(50);
    let mut graph = ModuleGraph::new(GraphKind::All);
    let mut direct = PackageSpecifiers::default();
    let nops = rng.range(0, 10);
    let mut ops = vec![];
    let mut ops_descr = vec![];
    let mut seen_reqs: Vec<u64> = vec![];
    for _ in 0..nops {
      let req = PackageReq::from_str(*rng.pick(REQ_TEXTS)).unwrap();
      let rid = reqs.id(&req);
      if seen_reqs.contains(&rid) {
        any_overwrite = true;
      }
      seen_reqs.push(rid);
      let nid = name_id(&mut names, &req.name);
      if via_graph && rng.chance(60) {
        // a lockfile entry: the version is given as text
        let value = *rng.pick(LOCK_VALUES);
        let nv_id = match Version::parse_standard(value) {
          Ok(version) => nvs.id(&PackageNv { name: req.name.clone(), version }),
          Err(_) => 0,
        };
        let dep = JsrDepPackageReq::jsr(req.clone());
        let npm = JsrDepPackageReq::npm(req.clone());
        // npm entries are ignored by fill_from_lockfile: include one now and then (no model operation)
        let entries: Vec<(&JsrDepPackageReq, &str)> = if rng.chance(15) { vec![(&npm, "9.9.9"), (&dep, value)] } else { vec![(&dep, value)] };
        let no_redirects: Vec<(&str, &str)> = vec![];
        graph.fill_from_lockfile(FillFromLockfileOptions { redirects: no_redirects.into_iter(), package_specifiers: entries.into_iter() });
        ops.push(Sx::L(vec![Sx::A(7), Sx::A(rid), Sx::A(nid), sx_str(value), Sx::A(nv_id)]));
        ops_descr.push(format!("lockfile {} -> {:?}", req, value));
        dist.push(("op_lockfile_entry".into(), 1));
      } else {
        // the nv's name need not be the requirement's (add_nv is public)
        let nv_name = if rng.chance(85) { req.name.to_string() } else { "@other/pkg".to_string() };
        let nv = PackageNv { name: nv_name.as_str().into(), version: Version::parse_standard(*rng.pick(NV_VERSIONS)).unwrap() };
        let vid = nvs.id(&nv);
        if via_graph {
          graph.packages.add_nv(req.clone(), nv.clone());
        } else {
          direct.add_nv(req.clone(), nv.clone());
        }
        ops.push(Sx::atoms([1, rid, nid, vid]));
        ops_descr.push(format!("add_nv {} -> {}", req, nv));
        dist.push(("op_add_nv".into(), 1));
      }
    }
    let table: &mut PackageSpecifiers = if via_graph { &mut graph.packages } else { &mut direct };
    // observers
    let mappings: Vec<Sx> = table.mappings().iter().map(|(r, v)| Sx::atoms([reqs.find(r), nvs.find(v)])).collect();
    let name_ids: Vec<u64> = (1..=names.len() as u64 + 1).collect();
    let by_name: Vec<Sx> = name_ids
      .iter()
      .map(|i| {
        let n = names.get(*i as usize - 1).map(|s| s.as_str()).unwrap_or("@never/added");
        Sx::opt(table.versions_by_name(n).map(|l| Sx::atoms(l.iter().map(|v| nvs.find(v)))))
      })
      .collect();
    let nv_ids: Vec<u64> = (1..=nvs.items.len() as u64).collect();
    let exports: Vec<Sx> = nv_ids
      .iter()
      .map(|i| {
        let nv = &nvs.items[*i as usize - 1];
        // no package can exist: ensure_package is not public
        Sx::opt(table.package_exports(nv).map(|m| Sx::set(m.iter().map(|_| Sx::A(0)).collect())))
      })
      .collect();
    let with_deps: Vec<Sx> = table.packages_with_deps().map(|(nv, deps)| Sx::L(vec![Sx::A(nvs.find(nv)), Sx::set(deps.map(|_| Sx::A(0)).collect())])).collect();
    let is_empty = table.is_empty();
    let plen = table.packages_len() as u64;
    let dsum = table.package_deps_sum() as u64;
    let yanked: Vec<Sx> = table.used_yanked_packages().map(|nv| Sx::A(nvs.find(nv))).collect();
    if reqs.has_collision() {
      dist.push(("history_with_ord_equal_distinct_reqs".into(), 1));
    }
    if nvs.has_collision() {
      dist.push(("history_with_ord_equal_distinct_nvs".into(), 1));
    }
    dist.push((format!("history_len_{}", nops), 1));
    dist.push((if via_graph { "via_module_graph".to_string() } else { "direct_table".to_string() }, 1));
    qs.push(Sx::L(vec![Sx::A(6), Sx::L(ops), Sx::atoms(name_ids.clone()), Sx::atoms(nv_ids.clone()), reqs.classes(), nvs.classes()]));
    descr.push(serde_json::json!({"ops": ops_descr, "mappings": table.mappings().iter().map(|(r, v)| format!("{} -> {}", r, v)).collect::<Vec<_>>()}));
    obs.push(Sx::L(vec![
      Sx::L(vec![]),
      Sx::set(mappings),
      Sx::L(by_name),
      Sx::L(exports),
      Sx::set(with_deps),
      Sx::b(is_empty),
      Sx::A(plen),
      Sx::A(dsum),
      Sx::set(yanked),
    ]));
  }
  Case {
    input: Sx::L(qs),
    obs: Sx::L(obs),
    meta: serde_json::json!({"stream": "table", "histories": descr}),
    nontrivial: any_overwrite,
    dist,
    direct_violations: vec![],
  }
}

pub fn gen_case(seed: u64, k: u64, tier: Tier) -> Case {
  let mut rng = Rng::for_case(seed, k);
  match k % 4 {
    0 => url_case(&mut rng, tier),
    1 => version_case(&mut rng, k / 4, tier),
    2 => exports_case(&mut rng),
    _ => table_case(&mut rng),
  }
}

pub fn run(cfg: &RunCfg) {
  // counts chosen so that the stride of the in-Coq sample (n/20, n/200) is odd and meets all four streams
  let n = if cfg.tier == Tier::Quick { 2620 } else { 26200 };
  let tier = cfg.tier;
  // registry (stage B2) worlds built by the real builder: redirects, package table, unknown exports
  let nj = if cfg.tier == Tier::Quick { 3001 } else { 60001 };
  run_cases(cfg, n + nj, |seed, k| {
    if k < n { gen_case(seed, k, tier) } else { crate::props::jsr::gen_case(seed, k - n, crate::props::jsr::Flavour::Mapping) }
  });
}
