//! C15: walk visits exactly the selected reachable set, each entry once.
//! Also produces the observations used by C02 (errors / validate).
use crate::abs::*;
use crate::build::*;
use crate::common::*;
use crate::rng::Rng;
use crate::sexp::Sx;
use crate::world::*;
use deno_graph::*;
use std::collections::HashSet;

#[derive(Debug)]
struct SetCheckJs(HashSet<String>);
impl CheckJsResolver for SetCheckJs {
  fn resolve(&self, specifier: &ModuleSpecifier) -> bool {
    self.0.contains(specifier.as_str())
  }
}

pub struct Query {
  pub kind: u8,
  pub follow_dynamic: bool,
  pub check_js_mode: u8, // 0 false 1 true 2 custom
  pub check_js_set: Vec<String>,
  pub prefer_fc: bool,
  pub roots: Vec<String>,
  pub skip: Vec<String>,
}

pub fn gen_query(rng: &mut Rng, g: &ModuleGraph, known: &[String]) -> Query {
  let mut roots = vec![];
  if rng.chance(50) {
    roots = g.roots.iter().map(|r| r.to_string()).collect();
  } else {
    for _ in 0..rng.range(1, 3) {
      let r = rng.pick(known).clone();
      if !roots.contains(&r) {
        roots.push(r);
      }
    }
  }
  let check_js_mode = rng.below(3) as u8;
  let mut check_js_set = vec![];
  if check_js_mode == 2 {
    for s in known {
      if rng.chance(50) {
        check_js_set.push(s.clone());
      }
    }
  }
  let mut skip = vec![];
  if rng.chance(35) {
    for _ in 0..rng.range(1, 2) {
      skip.push(rng.pick(known).clone());
    }
  }
  Query {
    kind: rng.below(3) as u8,
    follow_dynamic: rng.chance(50),
    check_js_mode,
    check_js_set,
    prefer_fc: rng.chance(30),
    roots,
    skip,
  }
}

pub fn query_sx(q: &Query, it: &Intern) -> Sx {
  Sx::L(vec![
    Sx::L(vec![
      Sx::A(q.kind as u64),
      Sx::b(q.follow_dynamic),
      Sx::A(q.check_js_mode as u64),
      Sx::atoms(q.check_js_set.iter().map(|s| it.spec(s))),
      Sx::b(q.prefer_fc),
    ]),
    Sx::atoms(q.roots.iter().map(|s| it.spec(s))),
    Sx::atoms(q.skip.iter().map(|s| it.spec(s))),
  ])
}

/// Runs the real walk for a query. Returns (obs, direct violations).
pub fn run_query(g: &ModuleGraph, q: &Query, it: &mut Intern) -> (Sx, Vec<String>) {
  let cj = SetCheckJs(q.check_js_set.iter().cloned().collect());
  let mk_opts = || WalkOptions {
    check_js: match q.check_js_mode {
      0 => CheckJsOption::False,
      1 => CheckJsOption::True,
      _ => CheckJsOption::Custom(&cj),
    },
    follow_dynamic: q.follow_dynamic,
    kind: graph_kind(q.kind),
    prefer_fast_check_graph: q.prefer_fc,
  };
  let roots: Vec<ModuleSpecifier> = q.roots.iter().map(|r| ModuleSpecifier::parse(r).unwrap()).collect();
  let skip: HashSet<&str> = q.skip.iter().map(|s| s.as_str()).collect();
  let mut direct = vec![];
  // 1. yields, driving skip_previous_dependencies
  let mut yields = vec![];
  let mut seen_once = HashSet::new();
  {
    let mut iter = g.walk(roots.iter(), mk_opts());
    while let Some((s, e)) = iter.next() {
      let sid = it.spec(s.as_str());
      if !seen_once.insert(sid) {
        direct.push(format!("specifier {} yielded more than once", s));
      }
      let item = match e {
        ModuleEntryRef::Module(m) => {
          if m.specifier() != s {
            direct.push(format!("module specifier {} differs from key {}", m.specifier(), s));
          }
          Sx::atoms([sid, 0])
        }
        ModuleEntryRef::Err(_) => Sx::atoms([sid, 1]),
        ModuleEntryRef::Redirect(to) => Sx::atoms([sid, 2, it.spec(to.as_str())]),
      };
      if std::env::var("DGVERIF_DEBUG").is_ok() {
        eprintln!("yield {} {}", s, item.to_string());
      }
      yields.push(item);
      if skip.contains(s.as_str()) {
        iter.skip_previous_dependencies();
      }
    }
  }
  // 2. errors and validate (no skipping)
  let errors: Vec<Sx> = g.walk(roots.iter(), mk_opts()).errors().map(|e| abs_graph_error(&e, it)).collect();
  let validate = g.walk(roots.iter(), mk_opts()).validate();
  let v = match &validate {
    Ok(()) => Sx::atoms([0]),
    Err(e) => {
      let ae = abs_graph_error(e, it);
      if !errors.contains(&ae) {
        direct.push("validate() returned an error that errors() does not list".to_string());
      }
      Sx::atoms([1])
    }
  };
  if validate.is_ok() != errors.is_empty() {
    direct.push("validate() verdict disagrees with errors() emptiness".to_string());
  }
  (Sx::L(vec![Sx::set(yields), Sx::set(errors), v]), direct)
}

pub fn mutate_redirects(rng: &mut Rng, g: &mut ModuleGraph, known: &[String]) -> usize {
  // redirects is a public field: a caller (or a lockfile) can hold anything
  let mut n = 0;
  if rng.chance(25) {
    for _ in 0..rng.range(1, 3) {
      let a = rng.pick(known).clone();
      let b = rng.pick(known).clone();
      g.redirects.insert(ModuleSpecifier::parse(&a).unwrap(), ModuleSpecifier::parse(&b).unwrap());
      n += 1;
    }
  }
  n
}

/// A graph with fast-check modules: a registry package whose entry module imports some files only
/// inside function bodies (fast check prunes those dependencies) and others in its public API;
/// any of the files may be missing, failing, unparsable or import something missing.
pub fn gen_fc_graph(rng: &mut Rng) -> (World, Vec<String>, BuildCfg, ModuleGraph, Vec<String>, usize) {
  use crate::jsrworld::{sha, REGISTRY};
  let mut world = World::default();
  let base = format!("{}@s/a/1.0.0", REGISTRY);
  let mut files: Vec<(String, Vec<u8>)> = vec![];
  let body_only = rng.chance(80);
  let dyn_in_body = rng.chance(50);
  let type_import = rng.chance(70);
  let mut modts = String::new();
  if body_only {
    modts.push_str("import { helper } from \"./helper.ts\";\n");
  }
  if type_import {
    modts.push_str("import type { T } from \"./types.ts\";\n");
  } else {
    modts.push_str("type T = number;\n");
  }
  if rng.chance(40) {
    modts.push_str("export * from \"./extra.ts\";\n");
  }
  modts.push_str("export function f(x: T): T {\n");
  if body_only {
    modts.push_str("  helper();\n");
  }
  modts.push_str("  return x;\n}\n");
  if dyn_in_body {
    modts.push_str("export async function g(): Promise<void> {\n  await import(\"./lazy.ts\");\n}\n");
  }
  files.push(("/mod.ts".into(), modts.into_bytes()));
  let leaf = |rng: &mut Rng, name: &str, body: &str| -> Option<(String, Vec<u8>)> {
    match rng.below(10) {
      0 | 1 => None, // missing
      2 => Some((name.to_string(), b"import {{{ from ;;;".to_vec())),
      3 => Some((name.to_string(), format!("import \"./gone_{}.ts\";\n{}", &name[1..name.len() - 3], body).into_bytes())),
      _ => Some((name.to_string(), body.as_bytes().to_vec())),
    }
  };
  for (name, body) in [
    ("/helper.ts", "export function helper(): void {}\n"),
    ("/types.ts", "export type T = string;\n"),
    ("/extra.ts", "export const extra: number = 1;\n"),
    ("/lazy.ts", "export const lazy: number = 2;\n"),
  ] {
    if let Some(f) = leaf(rng, name, body) {
      files.push(f);
    }
  }
  let mut manifest = serde_json::Map::new();
  for (p, b) in &files {
    manifest.insert(p.clone(), serde_json::json!({"size": b.len(), "checksum": format!("sha256-{}", sha(b))}));
    world.entries.insert(format!("{}{}", base, p), Entry::Module { src: ModSrc::default(), raw: Some(b.clone()), headers: None });
  }
  if rng.chance(15) {
    world.entries.insert(format!("{}/helper.ts", base), Entry::Error);
  }
  world.entries.insert(
    format!("{}@s/a/meta.json", REGISTRY),
    Entry::Module { src: ModSrc::default(), raw: Some(br#"{"versions":{"1.0.0":{}}}"#.to_vec()), headers: None },
  );
  world.entries.insert(
    format!("{}@s/a/1.0.0_meta.json", REGISTRY),
    Entry::Module { src: ModSrc::default(), raw: Some(serde_json::to_vec(&serde_json::json!({"exports": {".": "./mod.ts"}, "manifest": manifest})).unwrap()), headers: None },
  );
  let root = "file:///main.ts".to_string();
  world.entries.insert(
    root.clone(),
    Entry::Module { src: ModSrc::default(), raw: Some(b"import { f } from \"jsr:@s/a@1\";\nexport const v = f;\n".to_vec()), headers: None },
  );
  let roots = vec![root];
  let bcfg = BuildCfg::default();
  let mut loader = WorldLoader::new(&world);
  loader.only_means_uncached = true;
  let mut graph = ModuleGraph::new(GraphKind::All);
  build_with_loader(&mut graph, &loader, &roots, &bcfg);
  graph.build_fast_check_type_graph(BuildFastCheckTypeGraphOptions {
    fast_check_cache: None,
    fast_check_dts: false,
    jsr_url_provider: Default::default(),
    es_parser: None,
    resolver: None,
    workspace_fast_check: WorkspaceFastCheckOption::Disabled,
  });
  let mut known: Vec<String> = world.entries.keys().cloned().collect();
  for s in graph.specifiers().map(|(s, _)| s.to_string()).collect::<Vec<_>>() {
    if !known.contains(&s) {
      known.push(s);
    }
  }
  for (a, b) in &graph.redirects {
    for s in [a.to_string(), b.to_string()] {
      if !known.contains(&s) {
        known.push(s);
      }
    }
  }
  known.push("https://h.test/unknown-to-graph.ts".to_string());
  (world, roots, bcfg, graph, known, 0)
}

pub fn gen_graph(rng: &mut Rng, tier: Tier) -> (World, Vec<String>, BuildCfg, ModuleGraph, Vec<String>, usize) {
  if rng.chance(12) {
    return gen_fc_graph(rng);
  }
  let cfg = GenCfg { assets: false, max_modules: if tier == Tier::Quick { 7 } else { 10 }, redirects: true, faults: true, same_attr_proviso: false };
  let (world, roots) = gen_world(rng, &cfg);
  let mut bcfg = BuildCfg {
    kind: *rng.pick(&[0u8, 0, 0, 1, 2]),
    is_dynamic: rng.chance(10),
    skip_dynamic_deps: rng.chance(10),
    ..Default::default()
  };
  let world_specs: Vec<String> = world.entries.keys().cloned().collect();
  if rng.chance(25) {
    let mut imps = vec![];
    for _ in 0..rng.range(1, 2) {
      imps.push(rng.pick(&world_specs).clone());
    }
    bcfg.imports.push(("file:///p/deno.json".to_string(), imps));
  }
  if rng.chance(15) {
    for _ in 0..rng.range(1, 3) {
      let a = rng.pick(&world_specs).clone();
      let b = rng.pick(&world_specs).clone();
      bcfg.lock_redirects.push((a, b));
    }
  }
  let mut graph = new_graph(&world, &roots, &bcfg);
  if std::env::var("DGVERIF_DEBUG").is_ok() {
    eprintln!("{}", serde_json::to_string_pretty(&graph).unwrap());
  }
  let mut known: Vec<String> = world_specs.clone();
  for r in &roots {
    if !known.contains(r) {
      known.push(r.clone());
    }
  }
  known.push("https://h.test/unknown-to-graph.ts".to_string());
  let nmut = mutate_redirects(rng, &mut graph, &known);
  (world, roots, bcfg, graph, known, nmut)
}

pub fn gen_case(seed: u64, k: u64, tier: Tier) -> Case {
  let mut rng = Rng::for_case(seed, k);
  let (world, roots, bcfg, graph, known, nmut) = gen_graph(&mut rng, tier);
  let mut it = build_intern(&graph, &known);
  let gsx = abs_graph(&graph, &mut it);
  let nq = 6;
  let mut qs = vec![];
  let mut obs = vec![];
  let mut direct = vec![];
  let mut total_yields = 0;
  for _ in 0..nq {
    let q = gen_query(&mut rng, &graph, &known);
    let (o, d) = run_query(&graph, &q, &mut it);
    if let Sx::L(v) = &o {
      if let Sx::L(y) = &v[0] {
        total_yields += y.len() - 1;
      }
    }
    direct.extend(d);
    qs.push(query_sx(&q, &it));
    obs.push(o);
  }
  let n_mod = graph.modules().count();
  let n_err = graph.module_errors().count();
  let meta = serde_json::json!({
    "roots": roots,
    "build": format!("{:?}", bcfg),
    "world": world.entries.iter().map(|(k, e)| (k.clone(), match e {
      Entry::Module { src, raw, headers } => serde_json::json!({
        "module": raw.as_ref().map(|b| String::from_utf8_lossy(b).to_string()).unwrap_or_else(|| render(src, is_js_ext(k))),
        "headers": headers}),
      Entry::Redirect(t) => serde_json::json!({"redirect": t}),
      Entry::Missing => serde_json::json!("missing"),
      Entry::Error => serde_json::json!("error"),
      Entry::External => serde_json::json!("external"),
    })).collect::<serde_json::Map<_, _>>(),
    "mutated_redirects": nmut,
    "redirects": graph.redirects.iter().map(|(a, b)| (a.to_string(), serde_json::json!(b.to_string()))).collect::<serde_json::Map<_, _>>(),
  });
  Case {
    input: Sx::L(vec![gsx, Sx::L(qs)]),
    obs: Sx::L(obs),
    meta,
    nontrivial: n_mod >= 2 && total_yields >= 6,
    dist: vec![
      (format!("modules_{}", n_mod.min(10)), 1),
      (format!("errors_{}", n_err.min(5)), 1),
      (format!("redirects_{}", graph.redirects.len().min(5)), 1),
      (format!("graph_kind_{}", bcfg.kind), 1),
      (format!("fast_check_modules_{}", graph.modules().filter(|m| m.js().map(|j| j.fast_check_module().is_some()).unwrap_or(false)).count().min(3)), 1),
      ("queries".to_string(), nq as u64),
      ("yields".to_string(), total_yields as u64),
    ],
    direct_violations: direct,
  }
}

pub fn run(cfg: &RunCfg) {
  let n = if cfg.tier == Tier::Quick { 3000 } else { 60000 };
  let tier = cfg.tier;
  run_cases(cfg, n, |seed, k| gen_case(seed, k, tier));
}
