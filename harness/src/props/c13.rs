//! C13 (a): the serde codec of analysis::ModuleInfo and the moduleGraph1 -> 2
//! upgrade.  Four kinds of cases (see coq/Model/RunC13.v):
//!   1  codec on a ModuleInfo value (random, enumerated, or analysed corpus source)
//!   2  decoder on a mutated / random JSON value
//!   3  one moduleGraph1 entry through module_graph_1_to_2 and
//!      JsrPackageVersionInfo::module_info
//!   4  JsrPackageVersionInfo::module_info selection between moduleGraph2/1
//! Strings are lists of Unicode scalar values on the wire; JSON numbers are
//! u64 below 2^62 (the extracted model's driver reads OCaml ints).
use crate::common::*;
use crate::rng::Rng;
use crate::sexp::{Sx, SET};
use deno_graph::analysis::*;
use deno_graph::packages::JsrPackageVersionInfo;
use deno_graph::{MediaType, ModuleSpecifier, Position, PositionRange};
use serde_json::{Map, Value, json};
use std::collections::HashMap;

// ------------------------------------------------------------------ abstraction

fn str_sx(s: &str) -> Sx {
  Sx::atoms(s.chars().map(|c| c as u64))
}

fn pos_sx(p: &Position) -> Sx {
  Sx::atoms([p.line as u64, p.character as u64])
}
fn range_sx(r: &PositionRange) -> Sx {
  Sx::L(vec![pos_sx(&r.start), pos_sx(&r.end)])
}
fn swr_sx(s: &SpecifierWithRange) -> Sx {
  Sx::L(vec![str_sx(&s.text), range_sx(&s.range)])
}
fn opt_swr_sx(s: &Option<SpecifierWithRange>) -> Sx {
  Sx::opt(s.as_ref().map(swr_sx))
}
/// `set`: print the attribute map as a multiset (observations); inputs carry it sorted by key
fn attrs_sx(a: &ImportAttributes, set: bool) -> Sx {
  match a {
    ImportAttributes::None => Sx::atoms([0]),
    ImportAttributes::Unknown => Sx::atoms([1]),
    ImportAttributes::Known(m) => {
      let mut entries: Vec<(&String, &ImportAttribute)> = m.iter().collect();
      entries.sort_by(|a, b| a.0.cmp(b.0));
      let mut items: Vec<Sx> = entries
        .into_iter()
        .map(|(k, v)| {
          Sx::L(vec![
            str_sx(k),
            match v {
              ImportAttribute::Unknown => Sx::atoms([0]),
              ImportAttribute::Known(s) => Sx::L(vec![Sx::A(1), str_sx(s)]),
            },
          ])
        })
        .collect();
      if set {
        items.insert(0, Sx::A(SET));
      }
      Sx::L(vec![Sx::A(2), Sx::L(items)])
    }
  }
}
fn skind_code(k: StaticDependencyKind) -> u64 {
  match k {
    StaticDependencyKind::Import => 0,
    StaticDependencyKind::ImportDefer => 1,
    StaticDependencyKind::ImportSource => 2,
    StaticDependencyKind::ImportType => 3,
    StaticDependencyKind::ImportEquals => 4,
    StaticDependencyKind::Export => 5,
    StaticDependencyKind::ExportType => 6,
    StaticDependencyKind::ExportEquals => 7,
    StaticDependencyKind::MaybeTsModuleAugmentation => 8,
  }
}
fn dkind_code(k: DynamicDependencyKind) -> u64 {
  match k {
    DynamicDependencyKind::Import => 0,
    DynamicDependencyKind::ImportDefer => 1,
    DynamicDependencyKind::ImportSource => 2,
    DynamicDependencyKind::Require => 3,
  }
}
fn mode_sx(m: &Option<TypeScriptTypesResolutionMode>) -> Sx {
  Sx::opt(m.as_ref().map(|m| {
    Sx::A(match m {
      TypeScriptTypesResolutionMode::Require => 0,
      TypeScriptTypesResolutionMode::Import => 1,
    })
  }))
}
fn darg_sx(a: &DynamicArgument) -> Sx {
  match a {
    DynamicArgument::String(s) => Sx::L(vec![Sx::A(0), str_sx(s)]),
    DynamicArgument::Template(parts) => Sx::L(vec![
      Sx::A(1),
      Sx::L(
        parts
          .iter()
          .map(|p| match p {
            DynamicTemplatePart::String { value } => Sx::L(vec![Sx::A(0), str_sx(value)]),
            DynamicTemplatePart::Expr => Sx::atoms([1]),
          })
          .collect(),
      ),
    ]),
    DynamicArgument::Expr => Sx::atoms([2]),
  }
}
fn desc_sx(d: &DependencyDescriptor, set: bool) -> Sx {
  match d {
    DependencyDescriptor::Static(s) => Sx::L(vec![
      Sx::A(0),
      Sx::A(skind_code(s.kind)),
      opt_swr_sx(&s.types_specifier),
      str_sx(&s.specifier),
      range_sx(&s.specifier_range),
      Sx::b(s.is_side_effect),
      attrs_sx(&s.import_attributes, set),
    ]),
    DependencyDescriptor::Dynamic(s) => Sx::L(vec![
      Sx::A(1),
      Sx::A(dkind_code(s.kind)),
      opt_swr_sx(&s.types_specifier),
      darg_sx(&s.argument),
      range_sx(&s.argument_range),
      attrs_sx(&s.import_attributes, set),
    ]),
  }
}
pub fn info_sx(mi: &ModuleInfo, set: bool) -> Sx {
  Sx::L(vec![
    Sx::b(mi.is_script),
    Sx::L(mi.dependencies.iter().map(|d| desc_sx(d, set)).collect()),
    Sx::L(
      mi.ts_references
        .iter()
        .map(|r| match r {
          TypeScriptReference::Path(s) => Sx::L(vec![Sx::A(0), swr_sx(s)]),
          TypeScriptReference::Types { specifier, resolution_mode } => {
            Sx::L(vec![Sx::A(1), swr_sx(specifier), mode_sx(resolution_mode)])
          }
        })
        .collect(),
    ),
    opt_swr_sx(&mi.self_types_specifier),
    opt_swr_sx(&mi.jsx_import_source),
    opt_swr_sx(&mi.jsx_import_source_types),
    Sx::L(mi.jsdoc_imports.iter().map(|d| Sx::L(vec![swr_sx(&d.specifier), mode_sx(&d.resolution_mode)])).collect()),
    opt_swr_sx(&mi.source_map_url),
  ])
}
fn opt_info_sx(mi: &Option<ModuleInfo>, set: bool) -> Sx {
  Sx::opt(mi.as_ref().map(|m| info_sx(m, set)))
}

pub const NUM_LIMIT: u64 = 1 << 62;

/// JSON value on the wire. `set`: objects as multisets (observations); otherwise the
/// entries are first sorted by key (deterministic) and then, if an rng is given,
/// shuffled, so that the model sees arbitrary key orders. None: a number outside
/// the modelled domain.
fn json_sx(v: &Value, set: bool, rng: &mut Option<&mut Rng>) -> Option<Sx> {
  Some(match v {
    Value::Null => Sx::atoms([0]),
    Value::Bool(b) => Sx::L(vec![Sx::A(1), Sx::b(*b)]),
    Value::Number(n) => {
      let u = n.as_u64()?;
      if u >= NUM_LIMIT {
        return None;
      }
      Sx::atoms([2, u])
    }
    Value::String(s) => Sx::L(vec![Sx::A(3), str_sx(s)]),
    Value::Array(a) => {
      let mut items = vec![];
      for x in a {
        items.push(json_sx(x, set, rng)?);
      }
      Sx::L(vec![Sx::A(4), Sx::L(items)])
    }
    Value::Object(m) => {
      let mut entries: Vec<(&String, &Value)> = m.iter().collect();
      entries.sort_by(|a, b| a.0.cmp(b.0));
      if let Some(r) = rng.as_mut() {
        r.shuffle(&mut entries);
      }
      let mut items = vec![];
      if set {
        items.push(Sx::A(SET));
      }
      for (k, x) in entries {
        items.push(Sx::L(vec![str_sx(k), json_sx(x, set, rng)?]));
      }
      Sx::L(vec![Sx::A(5), Sx::L(items)])
    }
  })
}

/// same value with the entries of every object in a (deterministic) random order
fn shuffle_keys(v: &Value, rng: &mut Rng) -> Value {
  match v {
    Value::Array(a) => Value::Array(a.iter().map(|x| shuffle_keys(x, rng)).collect()),
    Value::Object(m) => {
      let mut entries: Vec<(&String, &Value)> = m.iter().collect();
      entries.sort_by(|a, b| a.0.cmp(b.0));
      rng.shuffle(&mut entries);
      let mut out = Map::new();
      for (k, x) in entries {
        out.insert(k.clone(), shuffle_keys(x, rng));
      }
      Value::Object(out)
    }
    x => x.clone(),
  }
}

fn collect_strings(v: &Value, out: &mut Vec<String>) {
  match v {
    Value::String(s) => {
      if !out.contains(s) {
        out.push(s.clone())
      }
    }
    Value::Array(a) => a.iter().for_each(|x| collect_strings(x, out)),
    Value::Object(m) => m.values().for_each(|x| collect_strings(x, out)),
    _ => {}
  }
}

/// strings below any "leadingComments" key (the only texts the upgrade can hand to find_deno_types)
fn collect_comment_strings(v: &Value, out: &mut Vec<String>) {
  match v {
    Value::Array(a) => a.iter().for_each(|x| collect_comment_strings(x, out)),
    Value::Object(m) => {
      for (k, x) in m {
        if k == "leadingComments" {
          collect_strings(x, out);
        } else {
          collect_comment_strings(x, out);
        }
      }
    }
    _ => {}
  }
}

/// find_deno_types (the real function) tabulated on every string that occurs below a
/// "leadingComments" key of the value
fn fdt_table(v: &Value) -> Sx {
  let mut strings = vec![];
  collect_comment_strings(v, &mut strings);
  strings.sort();
  Sx::L(
    strings
      .iter()
      .map(|s| {
        let r = match find_deno_types(s) {
          None => Sx::L(vec![]),
          Some(m) => Sx::L(vec![str_sx(m.text), Sx::A(m.range.start as u64), Sx::A(m.range.end as u64)]),
        };
        Sx::L(vec![str_sx(s), r])
      })
      .collect(),
  )
}

// ------------------------------------------------------------------ generators

const STRINGS: &[&str] = &[
  "", "./a.ts", "./b.js", "../types.d.ts", "https://deno.land/x/mod.ts", "npm:chalk@5", "jsr:@std/path", "a\"b", "it's",
  "back\\slash", "new\nline", "tab\t", "\u{0}", "\u{1F600}", "\u{10FFFF}", "é", "日本語", "type", "known", "none", "kind",
  "text", "range", "json", "with", "static", "{}", "[]", "null", " ", "\u{2028}", "\u{FEFF}x", "./ünï.ts", "\u{D7FF}\u{E000}",
];

fn gen_string(rng: &mut Rng) -> String {
  if rng.chance(80) {
    rng.pick(STRINGS).to_string()
  } else {
    let n = rng.below(6);
    let mut s = String::new();
    for _ in 0..n {
      let c = match rng.below(6) {
        0 => char::from_u32(rng.below(128) as u32).unwrap(),
        1 => char::from_u32(0x80 + rng.below(0x700) as u32).unwrap(),
        2 => char::from_u32(0x800 + rng.below(0xD000 - 0x800) as u32).unwrap(),
        3 => char::from_u32(0xE000 + rng.below(0x2000) as u32).unwrap(),
        4 => char::from_u32(0x10000 + rng.below(0x100000) as u32).unwrap(),
        _ => *rng.pick(&['"', '\\', '/', '\'', '@', '=', ' ']),
      };
      s.push(c);
    }
    s
  }
}

fn gen_usize(rng: &mut Rng) -> usize {
  match rng.below(40) {
    0..=3 => 0,
    4 => (NUM_LIMIT - 1) as usize,
    5 => (rng.next() % NUM_LIMIT) as usize,
    6 => u32::MAX as usize + rng.below(3),
    _ => rng.below(200),
  }
}
fn gen_pos(rng: &mut Rng) -> Position {
  Position { line: gen_usize(rng), character: gen_usize(rng) }
}
fn gen_range(rng: &mut Rng) -> PositionRange {
  if rng.chance(10) { PositionRange::zeroed() } else { PositionRange { start: gen_pos(rng), end: gen_pos(rng) } }
}
fn gen_swr(rng: &mut Rng) -> SpecifierWithRange {
  SpecifierWithRange { text: gen_string(rng), range: gen_range(rng) }
}
fn gen_opt_swr(rng: &mut Rng) -> Option<SpecifierWithRange> {
  if rng.chance(50) { Some(gen_swr(rng)) } else { None }
}
fn gen_attrs(rng: &mut Rng) -> ImportAttributes {
  match rng.below(4) {
    0 => ImportAttributes::None,
    1 => ImportAttributes::Unknown,
    _ => {
      let mut m = HashMap::new();
      for _ in 0..rng.below(4) {
        let k = gen_string(rng);
        let v = if rng.chance(30) { ImportAttribute::Unknown } else { ImportAttribute::Known(gen_string(rng)) };
        m.insert(k, v);
      }
      ImportAttributes::Known(m)
    }
  }
}
const SKINDS: [StaticDependencyKind; 9] = [
  StaticDependencyKind::Import,
  StaticDependencyKind::ImportDefer,
  StaticDependencyKind::ImportSource,
  StaticDependencyKind::ImportType,
  StaticDependencyKind::ImportEquals,
  StaticDependencyKind::Export,
  StaticDependencyKind::ExportType,
  StaticDependencyKind::ExportEquals,
  StaticDependencyKind::MaybeTsModuleAugmentation,
];
const DKINDS: [DynamicDependencyKind; 4] = [
  DynamicDependencyKind::Import,
  DynamicDependencyKind::ImportDefer,
  DynamicDependencyKind::ImportSource,
  DynamicDependencyKind::Require,
];
fn gen_darg(rng: &mut Rng) -> DynamicArgument {
  match rng.below(3) {
    0 => DynamicArgument::Expr,
    1 => DynamicArgument::String(gen_string(rng)),
    _ => {
      let mut parts = vec![];
      for _ in 0..rng.below(4) {
        parts.push(if rng.chance(40) { DynamicTemplatePart::Expr } else { DynamicTemplatePart::String { value: gen_string(rng) } });
      }
      DynamicArgument::Template(parts)
    }
  }
}
fn gen_desc(rng: &mut Rng) -> DependencyDescriptor {
  if rng.chance(55) {
    DependencyDescriptor::Static(StaticDependencyDescriptor {
      kind: *rng.pick(&SKINDS),
      types_specifier: gen_opt_swr(rng),
      specifier: gen_string(rng),
      specifier_range: gen_range(rng),
      is_side_effect: rng.chance(40),
      import_attributes: gen_attrs(rng),
    })
  } else {
    DependencyDescriptor::Dynamic(DynamicDependencyDescriptor {
      kind: *rng.pick(&DKINDS),
      types_specifier: gen_opt_swr(rng),
      argument: gen_darg(rng),
      argument_range: gen_range(rng),
      import_attributes: gen_attrs(rng),
    })
  }
}
fn gen_mode(rng: &mut Rng) -> Option<TypeScriptTypesResolutionMode> {
  match rng.below(3) {
    0 => None,
    1 => Some(TypeScriptTypesResolutionMode::Require),
    _ => Some(TypeScriptTypesResolutionMode::Import),
  }
}
fn gen_vec<T>(rng: &mut Rng, max: usize, mut f: impl FnMut(&mut Rng) -> T) -> Vec<T> {
  if rng.chance(40) {
    return vec![];
  }
  (0..rng.range(1, max)).map(|_| f(rng)).collect()
}
pub fn gen_info(rng: &mut Rng) -> ModuleInfo {
  ModuleInfo {
    is_script: rng.chance(40),
    dependencies: gen_vec(rng, 5, gen_desc),
    ts_references: gen_vec(rng, 3, |r| {
      if r.chance(50) {
        TypeScriptReference::Path(gen_swr(r))
      } else {
        TypeScriptReference::Types { specifier: gen_swr(r), resolution_mode: gen_mode(r) }
      }
    }),
    self_types_specifier: gen_opt_swr(rng),
    jsx_import_source: gen_opt_swr(rng),
    jsx_import_source_types: gen_opt_swr(rng),
    jsdoc_imports: gen_vec(rng, 3, |r| JsDocImportInfo { specifier: gen_swr(r), resolution_mode: gen_mode(r) }),
    source_map_url: gen_opt_swr(rng),
  }
}

/// Exhaustive enumeration of the small discrete part of the domain: every
/// descriptor kind x presence of each optional field x attribute shape x
/// argument shape, every reference / jsdoc variant x resolution mode, and
/// every subset of the eight ModuleInfo fields being non-empty.
pub fn enumerated_infos() -> Vec<ModuleInfo> {
  let swr = |t: &str| SpecifierWithRange {
    text: t.to_string(),
    range: PositionRange { start: Position::new(1, 2), end: Position::new(3, 4) },
  };
  let range = PositionRange { start: Position::new(5, 6), end: Position::new(7, 8) };
  let attr_shapes = || -> Vec<ImportAttributes> {
    vec![
      ImportAttributes::None,
      ImportAttributes::Unknown,
      ImportAttributes::Known(HashMap::new()),
      ImportAttributes::Known(HashMap::from([("type".to_string(), ImportAttribute::Known("json".to_string()))])),
      ImportAttributes::Known(HashMap::from([
        ("type".to_string(), ImportAttribute::Unknown),
        ("".to_string(), ImportAttribute::Known("".to_string())),
      ])),
    ]
  };
  let mut deps: Vec<DependencyDescriptor> = vec![];
  for kind in SKINDS {
    for types in [None, Some(swr("./t.d.ts"))] {
      for side in [false, true] {
        for attrs in attr_shapes() {
          deps.push(
            StaticDependencyDescriptor {
              kind,
              types_specifier: types.clone(),
              specifier: "./s.ts".to_string(),
              specifier_range: range,
              is_side_effect: side,
              import_attributes: attrs,
            }
            .into(),
          );
        }
      }
    }
  }
  let args = vec![
    DynamicArgument::Expr,
    DynamicArgument::String("./d.ts".to_string()),
    DynamicArgument::String("".to_string()),
    DynamicArgument::Template(vec![]),
    DynamicArgument::Template(vec![DynamicTemplatePart::Expr]),
    DynamicArgument::Template(vec![DynamicTemplatePart::String { value: "./".to_string() }, DynamicTemplatePart::Expr]),
  ];
  for kind in DKINDS {
    for types in [None, Some(swr("./t.d.ts"))] {
      for arg in &args {
        for attrs in attr_shapes() {
          deps.push(
            DynamicDependencyDescriptor {
              kind,
              types_specifier: types.clone(),
              argument: arg.clone(),
              argument_range: range,
              import_attributes: attrs,
            }
            .into(),
          );
        }
      }
    }
  }
  let mut out = vec![];
  for d in deps {
    out.push(ModuleInfo { dependencies: vec![d], ..Default::default() });
  }
  let modes = [None, Some(TypeScriptTypesResolutionMode::Require), Some(TypeScriptTypesResolutionMode::Import)];
  out.push(ModuleInfo { ts_references: vec![TypeScriptReference::Path(swr("./p.ts"))], ..Default::default() });
  for m in &modes {
    out.push(ModuleInfo {
      ts_references: vec![TypeScriptReference::Types { specifier: swr("node"), resolution_mode: m.clone() }],
      ..Default::default()
    });
    out.push(ModuleInfo {
      jsdoc_imports: vec![JsDocImportInfo { specifier: swr("./j.ts"), resolution_mode: m.clone() }],
      ..Default::default()
    });
  }
  let dep: DependencyDescriptor = StaticDependencyDescriptor {
    kind: StaticDependencyKind::Import,
    types_specifier: None,
    specifier: "./s.ts".to_string(),
    specifier_range: range,
    is_side_effect: false,
    import_attributes: ImportAttributes::None,
  }
  .into();
  for mask in 0..256u32 {
    let on = |i: u32| mask & (1 << i) != 0;
    out.push(ModuleInfo {
      is_script: on(0),
      dependencies: if on(1) { vec![dep.clone()] } else { vec![] },
      ts_references: if on(2) { vec![TypeScriptReference::Path(swr("./p.ts"))] } else { vec![] },
      self_types_specifier: if on(3) { Some(swr("./self.d.ts")) } else { None },
      jsx_import_source: if on(4) { Some(swr("preact")) } else { None },
      jsx_import_source_types: if on(5) { Some(swr("@types/react")) } else { None },
      jsdoc_imports: if on(6) { vec![JsDocImportInfo { specifier: swr("./j.ts"), resolution_mode: None }] } else { vec![] },
      source_map_url: if on(7) { Some(swr("x.js.map")) } else { None },
    });
  }
  out
}

// ------------------------------------------------------------------ corpus

pub struct Corpus {
  /// (spec file, section name, analysed info)
  pub infos: Vec<(String, String, ModuleInfo)>,
  /// (spec file, manifest section, "moduleGraph1"|"moduleGraph2", path, entry)
  pub manifest_entries: Vec<(String, String, bool, String, Value)>,
}

fn walk_files(dir: &std::path::Path, out: &mut Vec<std::path::PathBuf>) {
  let Ok(rd) = std::fs::read_dir(dir) else { return };
  let mut entries: Vec<_> = rd.filter_map(|e| e.ok()).map(|e| e.path()).collect();
  entries.sort();
  for p in entries {
    if p.is_dir() {
      walk_files(&p, out);
    } else if p.extension().map(|e| e == "txt").unwrap_or(false) {
      out.push(p);
    }
  }
}

/// the `# name` sections of a spec file (tests/specs_test.rs parse_spec)
fn spec_sections(text: &str) -> Vec<(String, String)> {
  let mut text = text;
  if text.starts_with("~~ ") {
    if let Some(end) = text.find(" ~~\n") {
      text = &text[end + 4..];
    }
  }
  let mut out: Vec<(String, String)> = vec![];
  for line in text.split('\n') {
    if let Some(name) = line.strip_prefix("# ") {
      out.push((name.trim().to_string(), String::new()));
    } else if line.starts_with("HEADERS: ") {
      continue;
    } else if let Some(cur) = out.last_mut() {
      if !cur.1.is_empty() {
        cur.1.push('\n');
      }
      cur.1.push_str(line);
    }
  }
  out
}

pub fn load_corpus() -> Corpus {
  let mut files = vec![];
  walk_files(std::path::Path::new("/repo/tests/specs"), &mut files);
  let mut infos = vec![];
  let mut manifest_entries = vec![];
  let analyzer = deno_graph::ast::ParserModuleAnalyzer::default();
  for f in files {
    let Ok(text) = std::fs::read_to_string(&f) else { continue };
    let fname = f.strip_prefix("/repo/tests/specs").unwrap_or(&f).display().to_string();
    for (name, content) in spec_sections(&text) {
      if name == "output" || name.contains("<=") {
        continue;
      }
      if name.ends_with("_meta.json") {
        if let Ok(v) = serde_json::from_str::<Value>(&content) {
          for (key, v1) in [("moduleGraph1", true), ("moduleGraph2", false)] {
            if let Some(Value::Object(m)) = v.get(key) {
              for (path, entry) in m {
                manifest_entries.push((fname.clone(), name.clone(), v1, path.clone(), entry.clone()));
              }
            }
          }
        }
        continue;
      }
      let url = if name.contains("://") { name.clone() } else { format!("file:///{}", name.trim_start_matches('/')) };
      let Ok(spec) = ModuleSpecifier::parse(&url) else { continue };
      let media = MediaType::from_specifier(&spec);
      if !matches!(
        media,
        MediaType::JavaScript
          | MediaType::Jsx
          | MediaType::Mjs
          | MediaType::Cjs
          | MediaType::TypeScript
          | MediaType::Mts
          | MediaType::Cts
          | MediaType::Dts
          | MediaType::Dmts
          | MediaType::Dcts
          | MediaType::Tsx
      ) {
        continue;
      }
      let r = std::panic::catch_unwind(std::panic::AssertUnwindSafe(|| analyzer.analyze_sync(&spec, content.clone().into(), media)));
      if let Ok(Ok(mi)) = r {
        infos.push((fname.clone(), name.clone(), mi));
      }
    }
  }
  Corpus { infos, manifest_entries }
}

// ------------------------------------------------------------------ case kinds

/// meta.jsonl is read back line by line by tools/check with str.splitlines(), which also
/// splits on U+2028, U+0085, VT, FF, ...: keep every string of the description printable ASCII
fn ascii_safe(v: &Value) -> Value {
  fn esc(s: &str) -> String {
    let mut o = String::new();
    for c in s.chars() {
      if (' '..='~').contains(&c) {
        o.push(c);
      } else {
        o.push_str(&format!("\\u{{{:x}}}", c as u32));
      }
    }
    o
  }
  match v {
    Value::String(s) => Value::String(esc(s)),
    Value::Array(a) => Value::Array(a.iter().map(ascii_safe).collect()),
    Value::Object(m) => Value::Object(m.iter().map(|(k, x)| (esc(k), ascii_safe(x))).collect()),
    x => x.clone(),
  }
}

fn info_nontrivial(mi: &ModuleInfo) -> bool {
  !mi.dependencies.is_empty()
    || !mi.ts_references.is_empty()
    || !mi.jsdoc_imports.is_empty()
    || mi.self_types_specifier.is_some()
    || mi.jsx_import_source.is_some()
    || mi.jsx_import_source_types.is_some()
    || mi.source_map_url.is_some()
}

/// kind 1
fn codec_case(mi: &ModuleInfo, rng: &mut Rng, origin: &str, meta_extra: Value) -> Case {
  let real = serde_json::to_value(mi).unwrap();
  let mut direct = vec![];
  // the property on the real code alone: value level, text level, and with permuted keys
  match serde_json::from_value::<ModuleInfo>(real.clone()) {
    Ok(back) if back == *mi => {}
    other => direct.push(format!("from_value(to_value(mi)) != mi: {:?}", other.map(|_| "different value"))),
  }
  let text = serde_json::to_string(mi).unwrap();
  match serde_json::from_str::<ModuleInfo>(&text) {
    Ok(back) if back == *mi => {}
    other => direct.push(format!("from_str(to_string(mi)) != mi: {:?}", other.map(|_| "different value"))),
  }
  let shuffled = shuffle_keys(&real, rng);
  match serde_json::from_value::<ModuleInfo>(shuffled) {
    Ok(back) if back == *mi => {}
    other => direct.push(format!("from_value(permuted keys of to_value(mi)) != mi: {:?}", other.map(|_| "different value"))),
  }
  let input_json = json_sx(&real, false, &mut Some(rng)).expect("number out of the modelled domain");
  let obs_json = json_sx(&real, true, &mut None).unwrap();
  let ndeps = mi.dependencies.len();
  Case {
    input: Sx::L(vec![Sx::A(1), info_sx(mi, false), input_json]),
    obs: Sx::L(vec![obs_json, Sx::opt(Some(info_sx(mi, true))), Sx::judge(true)]),
    meta: json!({"kind": "codec", "origin": origin, "extra": meta_extra, "json": real}),
    nontrivial: info_nontrivial(mi),
    dist: vec![
      (format!("codec_{}", origin), 1),
      (format!("codec_deps_{}", ndeps.min(6)), 1),
      ("codec_attr_maps".to_string(), mi.dependencies.iter().filter(|d| matches!(d.import_attributes(), ImportAttributes::Known(_))).count() as u64),
      ("codec_types_specifiers".to_string(), mi.dependencies.iter().filter(|d| match d { DependencyDescriptor::Static(s) => s.types_specifier.is_some(), DependencyDescriptor::Dynamic(s) => s.types_specifier.is_some() }).count() as u64),
    ],
    direct_violations: direct,
  }
}

// ---- JSON mutation

fn gen_json(rng: &mut Rng, depth: usize) -> Value {
  const KEYS: &[&str] = &[
    "type", "kind", "typesSpecifier", "specifier", "specifierRange", "sideEffect", "importAttributes", "argument",
    "argumentRange", "text", "range", "resolutionMode", "script", "dependencies", "tsReferences", "selfTypesSpecifier",
    "jsxImportSource", "jsxImportSourceTypes", "jsdocImports", "sourceMapUrl", "known", "none", "unknown", "value",
    "start", "end", "line", "character", "leadingComments", "x",
  ];
  const WORDS: &[&str] = &[
    "static", "dynamic", "import", "importDefer", "importSource", "require", "importType", "importEquals", "export",
    "exportType", "exportEquals", "maybeTsModuleAugmentation", "none", "unknown", "known", "path", "types", "string",
    "expr", "", "Import", "./a.ts",
  ];
  let top = if depth == 0 { 5 } else { 8 };
  match rng.below(top) {
    0 => Value::Null,
    1 => Value::Bool(rng.chance(50)),
    2 => json!(rng.below(5)),
    3 | 4 => Value::String(rng.pick(WORDS).to_string()),
    5 | 6 => Value::Array((0..rng.below(4)).map(|_| gen_json(rng, depth - 1)).collect()),
    _ => {
      let mut m = Map::new();
      for _ in 0..rng.below(4) {
        m.insert(rng.pick(KEYS).to_string(), gen_json(rng, depth - 1));
      }
      Value::Object(m)
    }
  }
}

fn count_nodes(v: &Value) -> usize {
  1 + match v {
    Value::Array(a) => a.iter().map(count_nodes).sum(),
    Value::Object(m) => m.values().map(count_nodes).sum(),
    _ => 0,
  }
}

/// applies `f` to the n-th node (pre-order)
fn with_node(v: &mut Value, n: &mut usize, f: &mut dyn FnMut(&mut Value)) -> bool {
  if *n == 0 {
    f(v);
    return true;
  }
  *n -= 1;
  match v {
    Value::Array(a) => {
      for x in a.iter_mut() {
        if with_node(x, n, f) {
          return true;
        }
      }
      false
    }
    Value::Object(m) => {
      for (_, x) in m.iter_mut() {
        if with_node(x, n, f) {
          return true;
        }
      }
      false
    }
    _ => false,
  }
}

const STRUCT_ORDERS: &[&[&str]] = &[
  &["line", "character"],
  &["start", "end"],
  &["text", "range"],
  &["type", "kind", "typesSpecifier", "specifier", "specifierRange", "sideEffect", "importAttributes"],
  &["type", "kind", "typesSpecifier", "argument", "argumentRange", "importAttributes"],
  &["type", "value"],
  &["type", "text", "range"],
  &["script", "dependencies", "tsReferences", "selfTypesSpecifier", "jsxImportSource", "jsxImportSourceTypes", "jsdocImports", "sourceMapUrl"],
];

/// one structural mutation at a random node; returns its name
fn mutate(v: &mut Value, rng: &mut Rng) -> &'static str {
  // the kind of mutation first (replace_* fit every node and would otherwise dominate), then a node it fits
  const WEIGHTED: &[usize] = &[0, 0, 0, 1, 1, 1, 2, 2, 3, 3, 3, 3, 4, 4, 4, 5, 5, 5, 6, 6, 6, 7, 7, 7, 8, 8, 9, 10, 10, 11, 11, 11, 12, 12, 13, 13];
  for _ in 0..8 {
    let choice = *rng.pick(WEIGHTED);
    for _ in 0..30 {
      let name = mutate_once(v, rng, choice);
      if name != "noop" {
        return name;
      }
    }
  }
  "noop"
}

fn mutate_once(v: &mut Value, rng: &mut Rng, choice: usize) -> &'static str {
  let total = count_nodes(v);
  let mut n = rng.below(total);
  let mut name = "noop";
  let mut rng2 = Rng(rng.next());
  let mut f = |x: &mut Value| {
    let rng = &mut rng2;
    match (choice, &mut *x) {
      (0, Value::Object(m)) if !m.is_empty() => {
        let k = m.keys().nth(rng.below(m.len())).unwrap().clone();
        m.shift_remove(&k);
        name = "delete_key";
      }
      (1, Value::Object(m)) => {
        m.insert(rng.pick(&["zzz", "range", "leadingComments", "type", "kind", "resolutionMode", "value", "text"]).to_string(), gen_json(rng, 2));
        name = "add_key";
      }
      (2, Value::Object(m)) if !m.is_empty() => {
        let k = m.keys().nth(rng.below(m.len())).unwrap().clone();
        let val = m.shift_remove(&k).unwrap();
        let nk = if rng.chance(50) { format!("{}X", k) } else { k.to_uppercase() };
        m.insert(nk, val);
        name = "rename_key";
      }
      (3, Value::Object(m)) => {
        // struct in map form -> sequence form, for the field orders the derive uses
        for order in STRUCT_ORDERS {
          if m.keys().all(|k| order.contains(&k.as_str())) && !m.is_empty() {
            let last = order.iter().rposition(|k| m.contains_key(*k)).unwrap();
            let mut arr = vec![];
            for k in &order[..=last] {
              arr.push(m.get(*k).cloned().unwrap_or(Value::Null));
            }
            *x = Value::Array(arr);
            name = "struct_to_seq";
            break;
          }
        }
      }
      (4, Value::Array(a)) if a.len() == 2 => {
        // tuple form of Position / PositionRange -> map form
        let keys = if a[0].is_number() { ["line", "character"] } else { ["start", "end"] };
        let mut m = Map::new();
        m.insert(keys[0].to_string(), a[0].clone());
        if rng.chance(80) {
          m.insert(keys[1].to_string(), a[1].clone());
        }
        *x = Value::Object(m);
        name = "tuple_to_map";
      }
      (5, Value::Array(a)) => {
        match rng.below(3) {
          0 if !a.is_empty() => {
            a.pop();
          }
          1 => a.push(gen_json(rng, 2)),
          _ if !a.is_empty() => {
            let i = rng.below(a.len());
            let d = a[i].clone();
            a.push(d);
          }
          _ => a.push(Value::Null),
        }
        name = "array_len";
      }
      (6, Value::String(s)) => {
        // externally tagged unit variant written as a single-key map
        let inner = match rng.below(4) {
          0 => Value::Null,
          1 => json!({}),
          2 => json!([]),
          _ => json!(1),
        };
        let mut m = Map::new();
        m.insert(s.clone(), inner);
        *x = Value::Object(m);
        name = "variant_as_map";
      }
      (7, Value::String(s)) => {
        *s = rng
          .pick(&[
            "static", "dynamic", "import", "require", "importDefer", "none", "unknown", "known", "path", "types", "string",
            "expr", "Import", "",
          ])
          .to_string();
        name = "swap_word";
      }
      (8, _) => {
        *x = match rng.below(6) {
          0 => Value::Null,
          1 => Value::Bool(rng.chance(50)),
          2 => json!(rng.below(3)),
          3 => Value::String(gen_string(rng)),
          4 => json!([]),
          _ => json!({}),
        };
        name = "replace_scalar";
      }
      (9, _) => {
        *x = gen_json(rng, 3);
        name = "replace_random";
      }
      (10, Value::Object(m)) if m.contains_key("known") => {
        if let Some(Value::Object(k)) = m.get_mut("known") {
          k.insert(gen_string(rng), gen_json(rng, 1));
        }
        name = "attr_value";
      }
      (11, Value::Object(m)) if m.contains_key("type") => {
        let t = if rng.chance(50) { json!(rng.below(3)) } else { gen_json(rng, 1) };
        m.insert("type".to_string(), t);
        name = "retag";
      }
      (12, Value::Null) | (12, Value::Bool(_)) | (12, Value::Number(_)) => {
        *x = json!({});
        name = "scalar_to_empty_map";
      }
      (13, Value::Array(a)) if !a.is_empty() => {
        let i = rng.below(a.len());
        a[i] = Value::Null;
        name = "null_element";
      }
      _ => {}
    }
  };
  with_node(v, &mut n, &mut f);
  name
}


/// Hand-written decoder inputs pinning the corners of serde's behaviour that the
/// model transcribes (sequence forms, variant indices inside buffered content,
/// unit variants as single-key maps, defaults, trailing elements, ...).
pub fn handwritten_json() -> Vec<Value> {
  let r = json!([[1, 2], [3, 4]]);
  let st = |extra: Value| -> Value {
    let mut m = json!({"type": "static", "kind": "import", "specifier": "./a.ts", "specifierRange": r}).as_object().unwrap().clone();
    for (k, v) in extra.as_object().unwrap() {
      if v.is_null() && k.starts_with('-') {
        m.shift_remove(&k[1..]);
      } else {
        m.insert(k.clone(), v.clone());
      }
    }
    json!({"dependencies": [Value::Object(m)]})
  };
  let dy = |extra: Value| -> Value {
    let mut m = json!({"type": "dynamic", "argumentRange": r}).as_object().unwrap().clone();
    for (k, v) in extra.as_object().unwrap() {
      if v.is_null() && k.starts_with('-') {
        m.shift_remove(&k[1..]);
      } else {
        m.insert(k.clone(), v.clone());
      }
    }
    json!({"dependencies": [Value::Object(m)]})
  };
  vec![
    json!({}),
    json!([]),
    json!(null),
    json!("x"),
    json!(0),
    json!([true]),
    json!([true, [], [], null, null, null, [], null]),
    json!([true, [], [], null, null, null, [], null, 1]),
    json!([false, [["static", "import", null, "./a.ts", r]]]),
    json!([false, [["static", "import", null, "./a.ts", r, true, "unknown"]]]),
    json!([false, [["static", "import", null, "./a.ts", r, true, "unknown", 0]]]),
    json!([false, [["static", "import", null, "./a.ts"]]]),
    json!([false, [["static"]]]),
    json!([false, [[]]]),
    json!([false, [["dynamic", "require", null, "./a.ts", r]]]),
    json!([false, [["dynamic", "require", null, ["x"], r]]]),
    json!([false, [["dynamic", null, null, null, r]]]),
    json!([false, [["dynamic", "import", ["t", r], [["string", "a"], ["expr"], [1], [0, "b"]], r, {"known": {"a": null}}]]]),
    json!([false, [["dynamic", "import", null, [["expr", 1]], r]]]),
    json!([false, [["dynamic", "import", null, [["string"]], r]]]),
    json!([false, [["dynamic", "import", null, [["string", "a", "b"]], r]]]),
    json!([false, [[0, "import", null, "./a.ts", r]]]),
    json!([false, [], [["path", "./p.ts", r], ["types", "node", r]]]),
    json!([false, [], [["path", "./p.ts", r]]]),
    json!([false, [], [["path", "./p.ts", r, 1]]]),
    json!({"script": null}),
    json!({"script": 1}),
    json!({"script": false, "dependencies": null}),
    json!({"dependencies": {}}),
    json!({"selfTypesSpecifier": null, "jsxImportSource": null, "jsxImportSourceTypes": null, "sourceMapUrl": null}),
    json!({"selfTypesSpecifier": ["./s.d.ts", r]}),
    json!({"selfTypesSpecifier": ["./s.d.ts"]}),
    json!({"selfTypesSpecifier": ["./s.d.ts", r, 0]}),
    json!({"selfTypesSpecifier": {"text": "./s.d.ts"}}),
    json!({"selfTypesSpecifier": {"text": "./s.d.ts", "range": []}}),
    json!({"selfTypesSpecifier": {"text": "./s.d.ts", "range": [[1, 2]]}}),
    json!({"selfTypesSpecifier": {"text": "./s.d.ts", "range": [[1, 2], [3, 4], [5, 6]]}}),
    json!({"selfTypesSpecifier": {"text": "./s.d.ts", "range": [[1], [3, 4]]}}),
    json!({"selfTypesSpecifier": {"text": "./s.d.ts", "range": [[1, 2, 3], [3, 4]]}}),
    json!({"selfTypesSpecifier": {"text": "./s.d.ts", "range": {}}}),
    json!({"selfTypesSpecifier": {"text": "./s.d.ts", "range": {"start": {"line": 1, "character": 2}}}}),
    json!({"selfTypesSpecifier": {"text": "./s.d.ts", "range": {"start": {"line": 1}}}}),
    json!({"selfTypesSpecifier": {"text": "./s.d.ts", "range": {"start": [1, 2], "end": {"character": 2, "line": 9, "x": 0}}}}),
    json!({"selfTypesSpecifier": {"text": "./s.d.ts", "range": {"start": null}}}),
    json!({"selfTypesSpecifier": {"text": "./s.d.ts", "range": null}}),
    json!({"selfTypesSpecifier": {"text": "./s.d.ts", "range": [null, [1, 2]]}}),
    json!({"selfTypesSpecifier": {"text": "./s.d.ts", "range": r, "zzz": [1, {"a": null}]}}),
    json!({"selfTypesSpecifier": {"text": "./s.d.ts", "range": [["1", 2], [3, 4]]}}),
    st(json!({})),
    st(json!({"kind": {"import": null}})),
    st(json!({"kind": {"import": {}}})),
    st(json!({"kind": {"import": []}})),
    st(json!({"kind": {"import": null, "export": null}})),
    st(json!({"kind": {}})),
    st(json!({"kind": 0})),
    st(json!({"kind": "Import"})),
    st(json!({"kind": "require"})),
    st(json!({"-kind": null})),
    st(json!({"-specifier": null})),
    st(json!({"-specifierRange": null})),
    st(json!({"type": 0})),
    st(json!({"type": "Static"})),
    st(json!({"-type": null})),
    st(json!({"typesSpecifier": null})),
    st(json!({"typesSpecifier": {}})),
    st(json!({"typesSpecifier": ["t", r]})),
    st(json!({"sideEffect": false})),
    st(json!({"sideEffect": null})),
    st(json!({"sideEffect": "true"})),
    st(json!({"importAttributes": "none"})),
    st(json!({"importAttributes": "unknown"})),
    st(json!({"importAttributes": "known"})),
    st(json!({"importAttributes": null})),
    st(json!({"importAttributes": {"none": null}})),
    st(json!({"importAttributes": {"none": {}}})),
    st(json!({"importAttributes": {"unknown": {}}})),
    st(json!({"importAttributes": {"unknown": 1}})),
    st(json!({"importAttributes": {"known": {}}})),
    st(json!({"importAttributes": {"known": null}})),
    st(json!({"importAttributes": {"known": []}})),
    st(json!({"importAttributes": {"known": {"type": "json", "x": null}}})),
    st(json!({"importAttributes": {"known": {"type": 1}}})),
    st(json!({"importAttributes": {"known": {"type": {}}}})),
    st(json!({"importAttributes": {"known": {}, "none": null}})),
    st(json!({"importAttributes": {}})),
    st(json!({"importAttributes": {"Known": {}}})),
    st(json!({"leadingComments": [], "range": r, "isDynamic": false})),
    dy(json!({})),
    dy(json!({"kind": "import"})),
    dy(json!({"kind": "importType"})),
    dy(json!({"kind": null})),
    dy(json!({"kind": {"require": {}}})),
    dy(json!({"argument": null})),
    dy(json!({"argument": "x"})),
    dy(json!({"argument": []})),
    dy(json!({"argument": {}})),
    dy(json!({"argument": 1})),
    dy(json!({"argument": [{"type": "expr"}, {"type": "string", "value": "v"}]})),
    dy(json!({"argument": [{"type": 1}, {"type": 0, "value": "v"}, {"type": 2}]})),
    dy(json!({"argument": [{"type": 1}, {"type": 0, "value": "v"}]})),
    dy(json!({"argument": [{"type": "expr", "value": 5, "zzz": null}]})),
    dy(json!({"argument": [{"type": "string"}]})),
    dy(json!({"argument": [{"type": "string", "value": null}]})),
    dy(json!({"argument": [{"value": "v"}]})),
    dy(json!({"argument": [["string", "v"], ["expr"], [1], [0, "w"]]})),
    dy(json!({"argument": [["expr", null]]})),
    dy(json!({"argument": [[]]})),
    dy(json!({"argument": ["string"]})),
    dy(json!({"argument": [null]})),
    dy(json!({"-argumentRange": null})),
    dy(json!({"type": 1})),
    json!({"tsReferences": [{"type": "path", "text": "./p.ts", "range": r}]}),
    json!({"tsReferences": [{"type": "path", "text": "./p.ts", "range": r, "resolutionMode": "bogus"}]}),
    json!({"tsReferences": [{"type": "types", "text": "n", "range": r}]}),
    json!({"tsReferences": [{"type": "types", "text": "n", "range": r, "resolutionMode": "require"}]}),
    json!({"tsReferences": [{"type": "types", "text": "n", "range": r, "resolutionMode": null}]}),
    json!({"tsReferences": [{"type": "types", "text": "n", "range": r, "resolutionMode": {"import": {}}}]}),
    json!({"tsReferences": [{"type": "types", "text": "n", "range": r, "resolutionMode": {"import": null}}]}),
    json!({"tsReferences": [{"type": "types", "text": "n", "range": r, "resolutionMode": "bogus"}]}),
    json!({"tsReferences": [{"type": "types", "text": "n", "range": r, "resolutionMode": 1}]}),
    json!({"tsReferences": [{"type": "types", "range": r}]}),
    json!({"tsReferences": [{"type": "types", "text": "n"}]}),
    json!({"tsReferences": [{"type": 1, "text": "n", "range": r}]}),
    json!({"tsReferences": [["types", "n", r]]}),
    json!({"tsReferences": [{"type": "Types", "text": "n", "range": r}]}),
    json!({"jsdocImports": [{"text": "./j.ts", "range": r}]}),
    json!({"jsdocImports": [{"text": "./j.ts", "range": r, "resolutionMode": "import"}]}),
    json!({"jsdocImports": [{"text": "./j.ts", "range": r, "resolutionMode": null}]}),
    json!({"jsdocImports": [{"text": "./j.ts", "range": r, "resolutionMode": {"import": null}}]}),
    json!({"jsdocImports": [{"text": "./j.ts", "range": r, "resolutionMode": {"import": {}}}]}),
    json!({"jsdocImports": [{"text": "./j.ts", "range": r, "resolutionMode": {"require": null, "import": null}}]}),
    json!({"jsdocImports": [{"text": "./j.ts", "range": r, "zzz": {"a": [1]}}]}),
    json!({"jsdocImports": [["./j.ts", r]]}),
    json!({"jsdocImports": [{"text": "./j.ts"}]}),
    json!({"jsdocImports": [{"range": r}]}),
    json!({"jsdocImports": [{"text": "./j.ts", "range": {"start": {"line": 1, "character": 1}}}]}),
    json!({"jsdocImports": [{"text": 1, "range": r}]}),
    json!({"jsdocImports": [null]}),
  ]
}

/// kind 2
fn decoder_case(rng: &mut Rng) -> Case {
  let mut muts = vec![];
  let mut base_info = None;
  let j = if rng.chance(15) {
    muts.push("random_tree");
    gen_json(rng, 4)
  } else {
    let mi = gen_info(rng);
    let mut v = serde_json::to_value(&mi).unwrap();
    base_info = Some(mi);
    let n_mut = if rng.chance(60) { 1 } else { rng.range(2, 3) };
    for _ in 0..n_mut {
      let m = mutate(&mut v, rng);
      muts.push(m);
    }
    v
  };
  let real: Option<ModuleInfo> = serde_json::from_value::<ModuleInfo>(j.clone()).ok();
  let input_json = json_sx(&j, false, &mut Some(rng)).expect("number out of the modelled domain");
  let changed = base_info.as_ref().map(|b| real.as_ref() != Some(b)).unwrap_or(true);
  let mut dist = vec![(format!("decoder_{}", if real.is_some() { "ok" } else { "err" }), 1)];
  for m in &muts {
    dist.push((format!("mutation_{}", m), 1));
  }
  if real.is_some() && changed {
    dist.push(("decoder_ok_but_changed".to_string(), 1));
  }
  Case {
    input: Sx::L(vec![Sx::A(2), input_json]),
    obs: Sx::L(vec![opt_info_sx(&real, true)]),
    meta: json!({"kind": "decoder", "mutations": muts, "json": j, "real_ok": real.is_some()}),
    nontrivial: muts.iter().any(|m| *m != "noop"),
    dist,
    direct_violations: vec![],
  }
}

const COMMENTS: &[&str] = &[
  " @deno-types=\"./a.d.ts\"",
  " @deno-types='./b.d.ts'",
  "@deno-types=./quoteless.d.ts",
  " @deno-types=./q.d.ts trailing",
  "   @DENO-TYPES = \"https://x/y.d.ts\" ",
  " @deno-types=\"\"",
  " @deno-types=\"unterminated",
  " @deno-types=",
  " @deno-types",
  " just a comment",
  "",
  "* @deno-types=\"./star.d.ts\"",
  "\u{a0}@deno-types=\"./nbsp.d.ts\"",
  " @deno-type\u{17f}=\"./longs.d.ts\"",
  " @deno-types=\"./ünï.d.ts\"",
  "\t@deno-types\u{2003}=\u{3000}'./wide.d.ts'",
  " @ts-types=\"./t.d.ts\"",
  " @deno-types=\"a\"b\"",
];

fn gen_comment(rng: &mut Rng) -> Value {
  let text = if rng.chance(85) { rng.pick(COMMENTS).to_string() } else { gen_string(rng) };
  let r = gen_range_small(rng);
  let range = match rng.below(8) {
    0 => json!({"start": {"line": r.start.line, "character": r.start.character}, "end": {"line": r.end.line, "character": r.end.character}}),
    1 => json!([[r.start.line, r.start.character]]),
    2 => json!([]),
    _ => json!([[r.start.line, r.start.character], [r.end.line, r.end.character]]),
  };
  match rng.below(12) {
    0 => json!({"text": text}),
    1 => json!({"range": range}),
    2 => json!([text, range]),
    3 => json!({"text": text, "range": range, "kind": "line"}),
    4 => json!({"text": 5, "range": range}),
    _ => json!({"text": text, "range": range}),
  }
}
fn gen_range_small(rng: &mut Rng) -> PositionRange {
  PositionRange {
    start: Position::new(rng.below(50), rng.below(120)),
    end: Position::new(rng.below(50), rng.below(120)),
  }
}

/// kind 3: a moduleGraph1 entry
fn v1_case_for(j: Value, origin: &str, rng: &mut Rng, n_comments: usize) -> Case {
  let mut upgraded = j.clone();
  module_graph_1_to_2(&mut upgraded);
  let mut graph = Map::new();
  graph.insert("/mod.ts".to_string(), j.clone());
  let pkg = JsrPackageVersionInfo { module_graph_1: Some(Value::Object(graph)), ..Default::default() };
  let real = pkg.module_info("/mod.ts");
  let mut direct = vec![];
  let via_value = serde_json::from_value::<ModuleInfo>(upgraded.clone()).ok();
  if via_value != real {
    direct.push("module_info() differs from from_value(module_graph_1_to_2(entry))".to_string());
  }
  let tbl = fdt_table(&j);
  let input_json = json_sx(&j, false, &mut Some(rng)).expect("number out of the modelled domain");
  let obs_json = json_sx(&upgraded, true, &mut None).expect("number out of the modelled domain");
  let got_types = real
    .as_ref()
    .map(|m| {
      m.dependencies
        .iter()
        .filter(|d| match d {
          DependencyDescriptor::Static(s) => s.types_specifier.is_some(),
          DependencyDescriptor::Dynamic(s) => s.types_specifier.is_some(),
        })
        .count()
    })
    .unwrap_or(0);
  Case {
    input: Sx::L(vec![Sx::A(3), input_json, tbl, opt_info_sx(&real, false)]),
    obs: Sx::L(vec![obs_json, opt_info_sx(&real, true), Sx::judge(true)]),
    meta: json!({"kind": "v1", "origin": origin, "entry": j, "real_ok": real.is_some()}),
    nontrivial: n_comments > 0,
    dist: vec![
      (format!("v1_{}", origin), 1),
      (format!("v1_{}", if real.is_some() { "ok" } else { "err" }), 1),
      ("v1_leading_comment_lists".to_string(), n_comments as u64),
      ("v1_types_specifiers_after_upgrade".to_string(), got_types as u64),
      ("v1_changed_by_upgrade".to_string(), (upgraded != j) as u64),
    ],
    direct_violations: direct,
  }
}

fn v1_case(rng: &mut Rng) -> Case {
  let mut mi = gen_info(rng);
  if mi.dependencies.is_empty() || rng.chance(70) {
    mi.dependencies.push(gen_desc(rng));
  }
  // most v1 dependencies carry no typesSpecifier of their own
  for d in mi.dependencies.iter_mut() {
    if rng.chance(75) {
      match d {
        DependencyDescriptor::Static(s) => s.types_specifier = None,
        DependencyDescriptor::Dynamic(s) => s.types_specifier = None,
      }
    }
  }
  let mut j = serde_json::to_value(&mi).unwrap();
  let mut n_comments = 0;
  if let Some(Value::Array(deps)) = j.get_mut("dependencies") {
    for d in deps.iter_mut() {
      let Value::Object(dm) = d else { continue };
      if rng.chance(20) {
        dm.insert("range".to_string(), json!([[0, 0], [0, 10]]));
      }
      match rng.below(10) {
        0 => {}
        1 => {
          dm.insert(
            "leadingComments".to_string(),
            rng.pick(&[json!(null), json!("x"), json!({}), json!([5]), json!([null])]).clone(),
          );
        }
        _ => {
          let n = rng.below(4);
          let cs: Vec<Value> = (0..n).map(|_| gen_comment(rng)).collect();
          dm.insert("leadingComments".to_string(), Value::Array(cs));
          n_comments += 1;
        }
      }
      if rng.chance(5) {
        // dependency in sequence form: not an object, so the upgrade skips it
        *d = json!(["static", "import", null, "./seq.ts", [[0, 0], [0, 1]]]);
      }
    }
  }
  if rng.chance(25) {
    mutate(&mut j, rng);
  }
  if rng.chance(3) {
    j = match rng.below(3) {
      0 => json!([false, []]),
      1 => json!({"dependencies": {"leadingComments": []}}),
      _ => json!(null),
    };
  }
  v1_case_for(j, "generated", rng, n_comments)
}

/// kind 4
fn pkg_case(rng: &mut Rng) -> Case {
  let entry = |rng: &mut Rng| -> Value {
    let mi = gen_info(rng);
    let mut v = serde_json::to_value(&mi).unwrap();
    if rng.chance(30) {
      mutate(&mut v, rng);
    }
    if rng.chance(40) {
      if let Some(Value::Array(deps)) = v.get_mut("dependencies") {
        if let Some(Value::Object(dm)) = deps.first_mut() {
          dm.insert("leadingComments".to_string(), json!([gen_comment(rng)]));
        }
      }
    }
    v
  };
  let graph = |rng: &mut Rng| -> Option<Value> {
    match rng.below(8) {
      0 | 1 => None,
      2 => Some(rng.pick(&[json!(null), json!([]), json!("x"), json!(0)]).clone()),
      3 => Some(json!({"/other.ts": entry(rng)})),
      _ => {
        let mut m = Map::new();
        m.insert("/mod.ts".to_string(), entry(rng));
        if rng.chance(30) {
          m.insert("/other.ts".to_string(), entry(rng));
        }
        Some(Value::Object(m))
      }
    }
  };
  let mg2 = graph(rng);
  let mg1 = graph(rng);
  let pkg = JsrPackageVersionInfo { module_graph_1: mg1.clone(), module_graph_2: mg2.clone(), ..Default::default() };
  let real = pkg.module_info("/mod.ts");
  let mut direct = vec![];
  // the same through the manifest's own deserialiser (null graphs become absent there)
  let mut manifest = Map::new();
  manifest.insert("manifest".to_string(), json!({}));
  if let Some(g) = &mg1 {
    manifest.insert("moduleGraph1".to_string(), g.clone());
  }
  if let Some(g) = &mg2 {
    manifest.insert("moduleGraph2".to_string(), g.clone());
  }
  let nullish = mg1.as_ref().map(|g| g.is_null()).unwrap_or(false) || mg2.as_ref().map(|g| g.is_null()).unwrap_or(false);
  if !nullish {
    match serde_json::from_value::<JsrPackageVersionInfo>(Value::Object(manifest)) {
      Ok(p) => {
        if p.module_info("/mod.ts") != real {
          direct.push("module_info() of the deserialised manifest differs from the directly constructed one".to_string());
        }
      }
      Err(e) => direct.push(format!("manifest did not deserialise: {}", e)),
    }
  }
  let mut all = vec![];
  if let Some(g) = &mg1 {
    all.push(g.clone());
  }
  if let Some(g) = &mg2 {
    all.push(g.clone());
  }
  let tbl = fdt_table(&Value::Array(all));
  let opt_json = |g: &Option<Value>, rng: &mut Rng| -> Sx {
    Sx::opt(g.as_ref().map(|v| json_sx(v, false, &mut Some(rng)).expect("number out of the modelled domain")))
  };
  let i2 = opt_json(&mg2, rng);
  let i1 = opt_json(&mg1, rng);
  Case {
    input: Sx::L(vec![Sx::A(4), i2, i1, str_sx("/mod.ts"), tbl]),
    obs: Sx::L(vec![opt_info_sx(&real, true)]),
    meta: json!({"kind": "pkg", "moduleGraph2": mg2, "moduleGraph1": mg1, "real_ok": real.is_some()}),
    nontrivial: mg1.is_some() || mg2.is_some(),
    dist: vec![
      (format!("pkg_mg2_{}_mg1_{}", mg2.is_some(), mg1.is_some()), 1),
      (format!("pkg_{}", if real.is_some() { "some" } else { "none" }), 1),
    ],
    direct_violations: direct,
  }
}

pub fn run(cfg: &RunCfg) {
  let corpus = load_corpus();
  let enumerated = enumerated_infos();
  let n_enum = enumerated.len() as u64;
  let n_corpus = corpus.infos.len() as u64;
  let n_manifest = corpus.manifest_entries.len() as u64;
  let hand = handwritten_json();
  let n_hand = hand.len() as u64;
  let n_random: u64 = if cfg.tier == Tier::Quick { 16_000 } else { 200_000 };
  let fixed = n_enum + n_corpus + n_manifest + n_hand;
  let total = fixed + n_random;
  eprintln!("c13: {} enumerated, {} corpus modules, {} corpus manifest entries, {} handwritten, {} generated", n_enum, n_corpus, n_manifest, n_hand, n_random);
  let gen_case = |seed: u64, k: u64| -> Case {
    let mut rng = Rng::for_case(seed, k);
    if k < n_enum {
      let mut c = codec_case(&enumerated[k as usize], &mut rng, "enumerated", json!(k));
      c.dist.push(("exhaustive_discrete_shapes".to_string(), 1));
      return c;
    }
    let k1 = k - n_enum;
    if k1 < n_corpus {
      let (f, name, mi) = &corpus.infos[k1 as usize];
      return codec_case(mi, &mut rng, "corpus", json!({"file": f, "section": name}));
    }
    let k2 = k1 - n_corpus;
    if k2 < n_manifest {
      let (f, name, v1, path, entry) = &corpus.manifest_entries[k2 as usize];
      if *v1 {
        let n = entry.to_string().matches("leadingComments").count();
        let mut c = v1_case_for(entry.clone(), "corpus", &mut rng, n);
        c.meta["file"] = json!(f);
        c.meta["section"] = json!(name);
        c.meta["path"] = json!(path);
        return c;
      }
      let real = serde_json::from_value::<ModuleInfo>(entry.clone()).ok();
      return Case {
        input: Sx::L(vec![Sx::A(2), json_sx(entry, false, &mut Some(&mut rng)).expect("number out of the modelled domain")]),
        obs: Sx::L(vec![opt_info_sx(&real, true)]),
        meta: json!({"kind": "decoder", "origin": "corpus moduleGraph2", "file": f, "section": name, "path": path, "json": entry}),
        nontrivial: true,
        dist: vec![("decoder_corpus_moduleGraph2".to_string(), 1)],
        direct_violations: if real.is_none() { vec!["corpus moduleGraph2 entry does not deserialise".to_string()] } else { vec![] },
      };
    }
    let k3 = k2 - n_manifest;
    if k3 < n_hand {
      let j = &hand[k3 as usize];
      let real = serde_json::from_value::<ModuleInfo>(j.clone()).ok();
      return Case {
        input: Sx::L(vec![Sx::A(2), json_sx(j, false, &mut Some(&mut rng)).expect("number out of the modelled domain")]),
        obs: Sx::L(vec![opt_info_sx(&real, true)]),
        meta: json!({"kind": "decoder", "origin": "handwritten", "json": j, "real_ok": real.is_some()}),
        nontrivial: true,
        dist: vec![(format!("decoder_handwritten_{}", if real.is_some() { "ok" } else { "err" }), 1)],
        direct_violations: vec![],
      };
    }
    match (k3 - n_hand) % 10 {
      0..=3 => {
        let mi = gen_info(&mut rng);
        codec_case(&mi, &mut rng, "generated", Value::Null)
      }
      4..=6 => decoder_case(&mut rng),
      7 | 8 => v1_case(&mut rng),
      _ => pkg_case(&mut rng),
    }
  };
  // part (b): registries published with and without embedded module information (stage B2 worlds)
  let n_registry: u64 = if cfg.tier == Tier::Quick { 3000 } else { 60_000 };
  run_cases(cfg, total + n_registry, |seed, k| {
    if k >= total {
      return crate::props::jsr::gen_case_modinfo(seed, k - total);
    }
    let mut c = gen_case(seed, k);
    c.meta = ascii_safe(&c.meta);
    c
  });
}
